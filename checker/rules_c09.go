package main

// C09 — packet headers (DESIGN §3 C09).

import (
	"encoding/json"
	"fmt"
	"go/ast"
	"go/token"
	"go/types"
	"os"
	"path/filepath"
	"sort"
	"strings"
)

func init() {
	register(&propCheck{
		ID:      "C09",
		Run:     runC09,
		NeedSSA: true,
		Level:   "Static analysis (bit-lane abstract interpretation of every packet-header encoder and decoder against RFC/IEEE bit layouts; typed-AST switch tables; write/read record comparison; symbolic size terms). Decides structural parts of the statement: lanes/<kind>/enc/<field>, lanes/<kind>/dec/<field> — on every path of the encoder each wire bit of the header carries the bit of the Go field that spec/packet_layout.json (transcribed from the RFC diagrams) puts there, reserved bits are 0, and on every successful path of the decoder each field bit is read from that wire bit and the bits above the field's width are 0; both sides are compared with the same layout, so for all in-range values of a packed group (all 2^8 / 2^16 combinations at once) decode(encode(h)) = h, neighbours are not disturbed, and encode(decode(w)) = w on the specified bits; word/<kind> — the LLDP TLV type/length word is packed and unpacked at type(7)|length(9); demux/<decoder>/<code> — the switch on ethertype / IPv4 protocol / IPv6 next header allocates the kind the table names for each code, required codes are present, the ethertype switched on is the one read after the VLAN tag (lanes of Ethernet on the tagged path), and each IPv6 extension case continues with that header's NextHeader and advances by that header's Len; mirror/<kind>/<field>, extent/<kind>, fresh, exhaust, retain — as C05/C06 for the header kinds (same field at same offset/width/order in encoder and decoder; size function ≡ bytes produced; list loops decode every element into a new value and keep it); presence/<kind>/<part> — the condition under which the encoder emits an optional part is one the decoder re-establishes when it finds the part. Not decided: equality of payload values beyond the records (bytes copied verbatim); checksums; count fields of hand-built values (premises of the statement); the contents of DHCP options (opaque bytes). DHCP, LLDP and the TLV kinds (io-style Read/Write codecs over a local bytes.Buffer) are covered by mirror, extent, nowrap and reject through the interpreter's stream model. mirror also has skipfill:<field> — a part the encoder always writes (options, payload) is filled by the decoder on every accepting path, so a header decoded into a used value does not keep old contents. Also decided: errfail (as in C02): a record or header that cannot be decoded fails the whole, not a partial result with a nil error.",
		Assumptions: []string{
			"spec/packet_layout.json transcribes the RFC 791/793/768/792/826/2236/3376/8200 and IEEE 802.1Q/802.1AB diagrams",
			"well-formed headers: every field within its declared width, IHL >= 5 (the statement's premise)",
			"encoding/binary and bytes.Buffer behave as documented",
		},
	})
}

type pktField struct {
	Name       string
	Start, Len int
}

type pktHeader struct {
	Kind   string           `json:"kind"`
	Cite   string           `json:"cite"`
	Enc    string           `json:"enc"`
	Dec    string           `json:"dec"`
	Local  string           `json:"local"`
	Bits   int              `json:"bits"`
	Fields [][]any          `json:"fields"`
	Zero   [][]int          `json:"zero"`
	Min    map[string]int64 `json:"min"`
	Max    map[string]int64 `json:"max"`
}

func (h *pktHeader) fields() []pktField {
	var out []pktField
	for _, f := range h.Fields {
		if len(f) != 3 {
			continue
		}
		n, _ := f[0].(string)
		a, _ := f[1].(float64)
		b, _ := f[2].(float64)
		out = append(out, pktField{n, int(a), int(b)})
	}
	return out
}

type pktDemux struct {
	On       string            `json:"on"`
	Cases    map[string]string `json:"cases"`
	Required []string          `json:"required"`
}

type pktSpec struct {
	Headers []*pktHeader               `json:"headers"`
	Words   []*pktHeader               `json:"words"`
	Demux   map[string]json.RawMessage `json:"demux"`
}

func loadPacketLayout() (*pktSpec, error) {
	b, err := os.ReadFile(filepath.Join(verifRoot(), "spec", "packet_layout.json"))
	if err != nil {
		return nil, err
	}
	var s pktSpec
	if err := json.Unmarshal(b, &s); err != nil {
		return nil, err
	}
	return &s, nil
}

func init() {
	extraDumps["bv"] = func(w *World, args []string) {
		for _, key := range args {
			fi := w.Funcs[key]
			if fi == nil {
				fmt.Println("no function", key)
				continue
			}
			recv, sub := bvRecvOf(w, fi, nil)
			var as []*bvVal
			for _, fl := range fi.Decl.Type.Params.List {
				for range fl.Names {
					if isByteSlice(fi.Pkg.TypesInfo.TypeOf(fl.Type)) {
						as = append(as, symView("P", ValOf("len(P)")))
					} else {
						as = append(as, nil)
					}
				}
			}
			bi := &bvInterp{w: w, fi: fi, info: fi.Pkg.TypesInfo, tolerant: true}
			paths := bi.run(newBvCtx(), recv, sub, as, 0, nil)
			fmt.Printf("== %s: %d paths\n", key, len(paths))
			for i, p := range paths {
				fmt.Printf("-- path %d conds=%v undec=%v stores=%v\n", i, p.Conds, p.Undec, p.Stores)
				var fs []string
				for f := range p.Recv {
					fs = append(fs, f)
				}
				sort.Strings(fs)
				for _, f := range fs {
					fmt.Printf("   recv.%s = %s\n", f, p.Recv[f].String())
				}
				for j, rv := range p.Ret {
					if rv == nil {
						continue
					}
					if rv.View != nil {
						var ks []string
						for k := range rv.View.Buf.Cells {
							ks = append(ks, k)
						}
						sort.Strings(ks)
						for _, k := range ks {
							fmt.Printf("   ret%d[%s] = %s\n", j, k, rv.View.Buf.Cells[k].String())
						}
					} else if rv.isInt() {
						fmt.Printf("   ret%d = %s\n", j, rv.BV.String())
					} else {
						fmt.Printf("   ret%d opaque=%q\n", j, rv.Opaque)
					}
				}
			}
		}
	}
}

// bvRecvOf builds lane sources for the receiver struct of fi: integer and bool fields become declared-width
// sources named by their path, struct-valued fields become nested values, byte-slice fields symbolic views of
// the declared length. declared maps a field path to its width in bits (integers) or bytes (slices).
func bvRecvOf(w *World, fi *FuncInfo, declared map[string]int) (map[string]BV, map[string]*bvVal) {
	recv := map[string]BV{}
	sub := map[string]*bvVal{}
	if fi.Recv == nil {
		return recv, sub
	}
	st := structOf(fi.Recv)
	if st == nil {
		return recv, sub
	}
	var build func(st *types.Struct, prefix string, depth int) (map[string]BV, map[string]*bvVal)
	build = func(st *types.Struct, prefix string, depth int) (map[string]BV, map[string]*bvVal) {
		ints, subs := map[string]BV{}, map[string]*bvVal{}
		for i := 0; i < st.NumFields(); i++ {
			f := st.Field(i)
			path := prefix + f.Name()
			if wd, signed, ok := typeBits(f.Type()); ok {
				d := wd
				if dd, ok := declared[path]; ok {
					d = dd
				}
				v := srcBV(path, wd, d, signed)
				if b, ok := f.Type().Underlying().(*types.Basic); ok && b.Info()&types.IsBoolean != 0 {
					v.IsBool = true
				}
				ints[f.Name()] = v
				continue
			}
			if isByteSlice(f.Type()) {
				var l *Term
				if n, ok := declared[path]; ok {
					l = Const(int64(n))
				} else {
					l = LenOf(path)
				}
				subs[f.Name()] = symView(path, l)
				continue
			}
			if _, isPtr := f.Type().Underlying().(*types.Pointer); isPtr {
				continue
			}
			if inner := structOf(f.Type()); inner != nil && depth < 2 {
				fi, fs := build(inner, path+".", depth+1)
				subs[f.Name()] = &bvVal{Fields: fi, Sub: fs}
			}
		}
		return ints, subs
	}
	return build(st, "", 0)
}

var _ = strings.TrimSpace

func init() {
	extraDumps["builderpairs"] = func(w *World, args []string) {
		for _, k := range w.KindsL {
			type bs struct {
				key string
				set map[string]bool
			}
			var all []bs
			for _, m := range w.methodsOf(k) {
				if isCodecMethod(m.Decl.Name.Name) {
					continue
				}
				fs := w.Interpret(m, "builder")
				set := map[string]bool{}
				for _, s := range fs.Stores {
					if strings.HasPrefix(s.Path, "$.") && s.Op == "=" {
						if _, isInt := s.Val.(IntV); isInt {
							set[strings.TrimSuffix(s.Path, "[]")] = true
						}
					}
				}
				if len(set) > 0 {
					all = append(all, bs{m.Key, set})
				}
			}
			for _, a := range all {
				for _, b := range all {
					if a.key == b.key {
						continue
					}
					common, onlyA := 0, []string{}
					for p := range a.set {
						if b.set[p] {
							common++
						} else {
							onlyA = append(onlyA, p)
						}
					}
					if common > 0 && len(onlyA) > 0 {
						sort.Strings(onlyA)
						fmt.Printf("%s stores %v more than %s (common %d)\n", a.key, onlyA, b.key, common)
					}
				}
			}
		}
	}
}

// ---------------------------------------------------------------- C09

func runC09(w *World, r *Report) {
	r.Rule("shiftwidth", "no shift by a constant count that is as large as its operand's type (the value would always be 0: bits lost before widening)", 1)
	shiftWidthRule(w, r, "shiftwidth", func(fi *FuncInfo) bool { return fi.Pkg.Types.Name() == "protocol" })
	r.Rule("shadow", "no := in an inner scope re-declares a same-typed variable of the function that is read afterwards (or a named result): the value computed there would be lost", 1)
	shadowRule(w, r, "shadow", func(fi *FuncInfo) bool { return fi.Pkg.Types.Name() == "protocol" })
	r.Rule("tailguard", "a decoder that keeps the rest of its input from some offset admits every input that has a byte there", 1)
	tailGuardRule(w, r, "tailguard", func(k *Kind) bool { return strings.HasPrefix(k.Name, "protocol.") })
	r.Rule("observers", "methods that formatting calls implicitly (String, Error, …) leave the value unchanged", 1)
	observerRule(w, r, "observers", "protocol", "util")
	r.Rule("reject", "every error exit of a decoder is behind a short input, a failed child or an unknown code, or is a reviewed rejection by value (spec/rejections.json)", 20)
	rejectRule(w, r, "reject", func(pkg string) bool { return pkg == "protocol" })
	r.Rule("stateless", "packet codecs depend on no package-level state that a call can change (pooled buffers, caches, shared table entries)", 8)
	importStateless(w, r, "stateless")
	r.Rule("lanes", "every header bit carries the specified field bit (encoder) and every field bit is read from the specified header bit (decoder)", 100)
	r.Rule("word", "the LLDP TLV type/length word is packed and unpacked at type(7) | length(9)", 6)
	r.Rule("demux", "payload switches allocate the kind the protocol-number table names", 12)
	r.Rule("mirror", "fields written by an encoder are read back from the same offset, width and byte order into the same field", 40)
	r.Rule("errfail", "in the codecs a failed step fails the whole: the branch for a non-nil error returns a non-nil error (no log-and-continue that leaves an element out while counts and declared lengths still include it)", 50)
	errFailRule(w, r, "errfail", func(fi *FuncInfo) bool {
		n := fi.Pkg.Types.Name()
		return n == "openflow13" || n == "protocol" || n == "common"
	})
	r.Rule("extent", "the size a header reports equals the bytes its encoder produces", 15)
	r.Rule("fresh", "a value decoded into inside a list loop is new in each iteration", 2)
	r.Rule("exhaust", "list-decoding loops run while any element can remain", 2)
	r.Rule("retain", "elements decoded in list loops are stored into the receiver", 2)
	r.Rule("keepall", "an element consumed by a list loop is stored on every path", 1)
	r.Rule("nowrap", "no size function of a header kind computes a length in arithmetic narrower than 16 bits that the field ranges can overflow", 10)
	r.Rule("presence", "the encoder's test for an optional part is one the decoder re-establishes when it finds the part", 1)
	spec, err := loadPacketLayout()
	if err != nil {
		r.Fail(VUnmapped, "lanes", "spec/packet_layout.json", "", "-", "cannot load the layout table: "+err.Error())
		return
	}
	for _, h := range spec.Headers {
		lanesHeader(w, r, h)
	}
	for _, h := range spec.Words {
		lanesWord(w, r, h)
	}
	lanesEthernet(w, r)
	demuxRule(w, r, spec)
	// ---- sibling agreement and sizes of the header kinds
	nK := 0
	for _, k := range w.KindsL {
		if !strings.HasPrefix(k.Name, "protocol.") {
			continue
		}
		if k.Marshal != nil && k.Unmarshal != nil && k.OwnMarshal && k.OwnUnmarshal {
			efi, dfi := w.FuncOf(k.Marshal), w.FuncOf(k.Unmarshal)
			if efi != nil && dfi != nil {
				nK++
				mirrorKind(w, r, k, efi, dfi)
			}
		}
		if k.Marshal != nil && k.Len != nil {
			pos := "-"
			if fi := w.FuncOf(k.Marshal); fi != nil {
				pos = w.Pos(fi.Decl.Pos())
			}
			sv := w.compareSize(k)
			if sv.Verdict == VOK {
				r.OK("extent", k.Name, "", pos, sv.Note, sv.Symbolic)
			} else {
				r.Fail(sv.Verdict, "extent", k.Name, "", pos, "the reported size is not the number of bytes the encoder produces: "+sv.Diag)
			}
		}
		if k.Unmarshal != nil && k.OwnUnmarshal {
			if dfi := w.FuncOf(k.Unmarshal); dfi != nil {
				retainRule(w, r, dfi)
				freshRule(w, r, dfi)
				exhaustRule(w, r, dfi)
			}
		}
	}
	r.Stats["header_kinds_two_way"] = nK
	for _, key := range w.sortedFuncKeys() {
		if fi := w.Funcs[key]; strings.HasPrefix(key, "protocol.") {
			keepAllRule(w, r, fi)
		}
	}
	nowrapSizes(w, r, spec)
	presenceEthernet(w, r)
}

// wireBit: header bit b (diagram numbering, bit 0 = MSB of byte 0) is bit 7-b%8 of byte b/8.
func wireBit(b int) (byteOff, bit int) { return b / 8, 7 - b%8 }

func pathName(p *bvPath) string {
	if len(p.Conds) == 0 {
		return "straight"
	}
	return strings.Join(p.Conds, " && ")
}

// declaredRecv builds the receiver sources of a header kind with the widths the layout declares.
func declaredRecv(w *World, fi *FuncInfo, h *pktHeader, ctx *bvCtx) (map[string]BV, map[string]*bvVal) {
	decl := map[string]int{}
	for _, f := range h.fields() {
		decl[f.Name] = f.Len
	}
	recv, sub := bvRecvOf(w, fi, decl)
	for name, v := range recv {
		if d, ok := decl[name]; ok && !v.IsBool {
			lo := int64(0)
			if m, ok := h.Min[name]; ok {
				lo = m
			}
			hi := int64(1)<<uint(d) - 1
			if d >= 63 {
				continue
			}
			nv := ctx.declare(name, v.W, v.Signed, lo, hi)
			recv[name] = nv
		}
	}
	return recv, sub
}

func lanesHeader(w *World, r *Report, h *pktHeader) {
	enc, dec := w.Funcs[h.Enc], w.Funcs[h.Dec]
	if enc == nil || dec == nil {
		r.Fail(VViolation, "lanes", h.Kind, "", "-", "the codec functions "+h.Enc+" / "+h.Dec+" no longer exist (anchor of the rule cannot be resolved)")
		return
	}
	fields := h.fields()
	// ---------------- encoder
	{
		ctx := newBvCtx()
		recv, sub := declaredRecv(w, enc, h, ctx)
		bi := &bvInterp{w: w, fi: enc, info: enc.Pkg.TypesInfo, tolerant: true}
		paths := bi.run(ctx, recv, sub, nil, 0, nil)
		pos := w.Pos(enc.Decl.Pos())
		type agg struct {
			ok   int
			bad  []string
			und  []string
			note string
		}
		res := map[string]*agg{}
		get := func(k string) *agg {
			if res[k] == nil {
				res[k] = &agg{}
			}
			return res[k]
		}
		checked := 0
		for _, p := range paths {
			if len(p.Ret) == 0 || p.Ret[0] == nil || p.Ret[0].View == nil {
				continue // a path that returns no buffer (nil, err)
			}
			checked++
			buf := p.Ret[0].View.Buf
			// a write at an offset the engine knows only symbolically could alias a header byte
			aliasLow := int64(1 << 40)
			for k := range buf.Cells {
				var c int64
				if _, err := fmt.Sscan(k, &c); err == nil && fmt.Sprint(c) == k {
					continue
				}
				aliasLow = 0 // unknown place: treat every byte as possibly overwritten
			}
			bitAt := func(hb int) (Bit, string) {
				bo, bt := wireBit(hb)
				if int64(bo) >= aliasLow {
					return Bit{K: 'T'}, "a write at a symbolic offset may alias this byte"
				}
				c, ok := bi.cell(p, &bvView{Buf: buf, Base: Const(0)}, Const(int64(bo)))
				if !ok {
					return Bit{K: 'T'}, "byte overwritten by code the engine does not follow"
				}
				return p.resolve(c.Bits[bt]), c.Why
			}
			for _, f := range fields {
				a := get("enc/" + f.Name)
				for i := 0; i < f.Len; i++ {
					hb := f.Start + f.Len - 1 - i // field bit i (LSB = 0)
					got, why := bitAt(hb)
					want := p.resolve(Bit{K: 's', Src: f.Name, I: i})
					if got == want {
						continue
					}
					bo, bt := wireBit(hb)
					msg := fmt.Sprintf("on path [%s] byte %d bit %d carries %s, specified %s", pathName(p), bo, bt, got.String(), want.String())
					if why != "" {
						msg += " (" + why + ")"
					}
					if got.K == 'T' {
						a.und = append(a.und, msg)
					} else {
						a.bad = append(a.bad, msg)
					}
				}
				a.ok++
			}
			for _, z := range h.Zero {
				if len(z) != 2 {
					continue
				}
				a := get(fmt.Sprintf("enc/reserved@%d", z[0]))
				for hb := z[0]; hb < z[0]+z[1]; hb++ {
					got, why := bitAt(hb)
					if got.K == '0' {
						continue
					}
					bo, bt := wireBit(hb)
					msg := fmt.Sprintf("on path [%s] reserved byte %d bit %d carries %s, specified 0", pathName(p), bo, bt, got.String())
					if why != "" {
						msg += " (" + why + ")"
					}
					if got.K == 'T' {
						a.und = append(a.und, msg)
					} else {
						a.bad = append(a.bad, msg)
					}
				}
				a.ok++
			}
		}
		if checked == 0 {
			r.Fail(VUndecided, "lanes", h.Kind, "enc", pos, "no path of the encoder returns a buffer the engine can follow")
		}
		var keys []string
		for k := range res {
			keys = append(keys, k)
		}
		sort.Strings(keys)
		for _, k := range keys {
			a := res[k]
			switch {
			case len(a.bad) > 0:
				r.Fail(VViolation, "lanes", h.Kind, k, pos, summarise(a.bad)+" — "+h.Cite)
			case len(a.und) > 0:
				r.Fail(VUndecided, "lanes", h.Kind, k, pos, summarise(a.und))
			default:
				r.OK("lanes", h.Kind, k, pos, fmt.Sprintf("at the specified bits on all %d encoder paths — %s", checked, h.Cite), true)
			}
		}
	}
	// ---------------- decoder
	{
		ctx := newBvCtx()
		recv, sub := bvRecvOf(w, dec, nil)
		for k, v := range recv {
			nv := srcBV("old."+k, v.W, v.W, v.Signed)
			nv.IsBool = v.IsBool
			nv.Lin = nil
			recv[k] = nv
		}
		var as []*bvVal
		for _, fl := range dec.Decl.Type.Params.List {
			for range fl.Names {
				if isByteSlice(dec.Pkg.TypesInfo.TypeOf(fl.Type)) {
					as = append(as, symView("P", ValOf("len(P)")))
				} else {
					as = append(as, nil)
				}
			}
		}
		bi := &bvInterp{w: w, fi: dec, info: dec.Pkg.TypesInfo, tolerant: true}
		paths := bi.run(ctx, recv, sub, as, 0, nil)
		pos := w.Pos(dec.Decl.Pos())
		type agg struct{ bad, und []string }
		res := map[string]*agg{}
		checked := 0
		for _, p := range paths {
			if n := len(p.Ret); n > 0 && p.Ret[n-1] != nil && rejectingRet(w, dec, p.Ret[n-1].Opaque) {
				continue // rejecting path
			}
			stored := map[string]bool{}
			for _, s := range p.Stores {
				stored[s] = true
			}
			checked++
			for _, f := range fields {
				a := res["dec/"+f.Name]
				if a == nil {
					a = &agg{}
					res["dec/"+f.Name] = a
				}
				v, ok := p.Recv[f.Name]
				if !ok || !stored[f.Name] {
					a.bad = append(a.bad, fmt.Sprintf("on path [%s] the field is not assigned", pathName(p)))
					continue
				}
				for i := 0; i < len(v.Bits); i++ {
					got := p.resolve(v.Bits[i])
					want := Bit{K: '0'}
					if i < f.Len {
						bo, bt := wireBit(f.Start + f.Len - 1 - i)
						want = Bit{K: 's', Src: fmt.Sprintf("P[%d]", bo), I: bt}
					}
					if v.IsBool && i > 0 {
						break
					}
					if got == want {
						continue
					}
					msg := fmt.Sprintf("on path [%s] bit %d of %s is read from %s, specified %s", pathName(p), i, f.Name, got.String(), want.String())
					if v.Why != "" {
						msg += " (" + v.Why + ")"
					}
					if got.K == 'T' {
						a.und = append(a.und, msg)
					} else {
						a.bad = append(a.bad, msg)
					}
				}
			}
		}
		if checked == 0 {
			r.Fail(VUndecided, "lanes", h.Kind, "dec", pos, "no accepting path of the decoder")
		}
		var keys []string
		for k := range res {
			keys = append(keys, k)
		}
		sort.Strings(keys)
		for _, k := range keys {
			a := res[k]
			switch {
			case len(a.bad) > 0:
				r.Fail(VViolation, "lanes", h.Kind, k, pos, summarise(a.bad)+" — "+h.Cite)
			case len(a.und) > 0:
				r.Fail(VUndecided, "lanes", h.Kind, k, pos, summarise(a.und))
			default:
				r.OK("lanes", h.Kind, k, pos, fmt.Sprintf("read from the specified bits on all %d accepting decoder paths, bits above the width are 0 — %s", checked, h.Cite), true)
			}
		}
	}
}

func summarise(msgs []string) string {
	if len(msgs) > 3 {
		return strings.Join(msgs[:3], "; ") + fmt.Sprintf("; … %d more", len(msgs)-3)
	}
	return strings.Join(msgs, "; ")
}

// lanesWord: a packed local word (LLDP TLV header).
func lanesWord(w *World, r *Report, h *pktHeader) {
	enc, dec := w.Funcs[h.Enc], w.Funcs[h.Dec]
	if enc == nil || dec == nil {
		r.Fail(VViolation, "word", h.Kind, "", "-", "the codec functions "+h.Enc+" / "+h.Dec+" no longer exist")
		return
	}
	fields := h.fields()
	// the word is the local handed to the first binary.Write (encoder) / filled by the first binary.Read
	// (decoder), whatever it is called; the name in the layout table is only the fall-back
	encLocal, decLocal := h.Local, h.Local
	firstBinaryArg := func(fi *FuncInfo, fn string) string {
		name := ""
		ast.Inspect(fi.Decl.Body, func(n ast.Node) bool {
			c, ok := n.(*ast.CallExpr)
			if !ok || name != "" || len(c.Args) != 3 {
				return name == ""
			}
			f := w.calleeOf(fi.Pkg.TypesInfo, c)
			if f == nil || f.Pkg() == nil || f.Pkg().Path() != "encoding/binary" || f.Name() != fn {
				return true
			}
			a := unparen(c.Args[2])
			if u, ok := a.(*ast.UnaryExpr); ok && u.Op == token.AND {
				a = unparen(u.X)
			}
			if id, ok := a.(*ast.Ident); ok {
				if _, isVar := fi.Pkg.TypesInfo.Uses[id].(*types.Var); isVar {
					name = id.Name
				}
			}
			return false
		})
		return name
	}
	if n := firstBinaryArg(enc, "Write"); n != "" {
		encLocal = n
	}
	if n := firstBinaryArg(dec, "Read"); n != "" {
		decLocal = n
	}
	{
		ctx := newBvCtx()
		recv, sub := declaredRecv(w, enc, h, ctx)
		bi := &bvInterp{w: w, fi: enc, info: enc.Pkg.TypesInfo, tolerant: true}
		paths := bi.run(ctx, recv, sub, []*bvVal{symView("b", ValOf("len(b)"))}, 0, nil)
		pos := w.Pos(enc.Decl.Pos())
		var bad, und []string
		n := 0
		for _, p := range paths {
			v := p.Locals[encLocal]
			if v == nil || !v.isInt() || v.BV.W != h.Bits {
				und = append(und, fmt.Sprintf("on path [%s] the packed word %s is not a %d-bit value the engine can follow", pathName(p), encLocal, h.Bits))
				continue
			}
			n++
			for _, f := range fields {
				for i := 0; i < f.Len; i++ {
					wb := h.Bits - 1 - (f.Start + f.Len - 1 - i) // word bit index (LSB = 0)
					got := p.resolve(v.BV.Bits[wb])
					want := Bit{K: 's', Src: f.Name, I: i}
					if got != want {
						m := fmt.Sprintf("word bit %d carries %s, specified %s", wb, got.String(), want.String())
						if got.K == 'T' {
							und = append(und, m)
						} else {
							bad = append(bad, m)
						}
					}
				}
			}
		}
		switch {
		case len(bad) > 0:
			r.Fail(VViolation, "word", h.Kind, "pack", pos, summarise(bad)+" — "+h.Cite)
		case len(und) > 0 || n == 0:
			if len(und) == 0 {
				und = append(und, "no path packs the word")
			}
			r.Fail(VUndecided, "word", h.Kind, "pack", pos, summarise(und))
		default:
			r.OK("word", h.Kind, "pack", pos, fmt.Sprintf("%s = %s on all %d paths — %s", encLocal, "type<<9 | length", n, h.Cite), true)
		}
	}
	{
		ctx := newBvCtx()
		recv, sub := bvRecvOf(w, dec, nil)
		bi := &bvInterp{w: w, fi: dec, info: dec.Pkg.TypesInfo, tolerant: true}
		paths := bi.run(ctx, recv, sub, []*bvVal{symView("b", ValOf("len(b)"))}, 0, nil)
		pos := w.Pos(dec.Decl.Pos())
		var bad, und []string
		n := 0
		for _, p := range paths {
			stored := map[string]bool{}
			for _, s := range p.Stores {
				stored[s] = true
			}
			all := true
			for _, f := range fields {
				if !stored[f.Name] {
					all = false
				}
			}
			if !all {
				continue // a path that stops before the word was unpacked (read error)
			}
			wv := p.Locals[decLocal]
			if wv == nil || !wv.isInt() {
				und = append(und, "the word "+decLocal+" is not an integer the engine can follow")
				continue
			}
			n++
			for _, f := range fields {
				v := p.Recv[f.Name]
				for i := 0; i < len(v.Bits); i++ {
					want := Bit{K: '0'}
					if i < f.Len {
						wb := h.Bits - 1 - (f.Start + f.Len - 1 - i)
						want = p.resolve(wv.BV.Bits[wb])
					}
					got := p.resolve(v.Bits[i])
					if got != want {
						m := fmt.Sprintf("bit %d of %s is %s, specified %s", i, f.Name, got.String(), want.String())
						if got.K == 'T' || want.K == 'T' {
							und = append(und, m)
						} else {
							bad = append(bad, m)
						}
					}
				}
			}
		}
		switch {
		case len(bad) > 0:
			r.Fail(VViolation, "word", h.Kind, "unpack", pos, summarise(bad)+" — "+h.Cite)
		case len(und) > 0 || n == 0:
			if n == 0 && len(und) == 0 {
				und = append(und, "no path unpacks the word")
			}
			r.Fail(VUndecided, "word", h.Kind, "unpack", pos, summarise(und))
		default:
			r.OK("word", h.Kind, "unpack", pos, fmt.Sprintf("type = word[15..9], length = word[8..0] on all %d paths — %s", n, h.Cite), true)
		}
	}
}

func boolInt(b bool) int {
	if b {
		return 1
	}
	return 0
}

// lanesEthernet: the frame header with and without an 802.1Q tag (IEEE 802.3 §3.1.1, 802.1Q §9.3): addresses
// 0..11; untagged: ethertype at 12; tagged: TPID/TCI at 12..15 and the ethertype at 16.
func lanesEthernet(w *World, r *Report) {
	enc, dec := w.Funcs["protocol.Ethernet.MarshalBinary"], w.Funcs["protocol.Ethernet.UnmarshalBinary"]
	if enc == nil || dec == nil {
		r.Fail(VViolation, "lanes", "protocol.Ethernet", "", "-", "the Ethernet codec no longer exists (anchor of the rule cannot be resolved)")
		return
	}
	vlan := []pktField{{"TPID", 0, 16}, {"PCP", 16, 3}, {"DEI", 19, 1}, {"VID", 20, 12}}
	beBits := func(base, width int, i int) (int, int) { return wireBit(base*8 + width - 1 - i) }
	errOnly := func(p *bvPath) bool {
		// a path on which some step reported an error and the function returned early
		n := pathName(p)
		return strings.HasSuffix(n, "err != nil") && !strings.HasSuffix(n, "!(err != nil)")
	}
	// ---- encoder
	{
		ctx := newBvCtx()
		decl := map[string]int{"HWDst": 6, "HWSrc": 6, "VLANID.PCP": 3, "VLANID.DEI": 1, "VLANID.VID": 12}
		recv, sub := bvRecvOf(w, enc, decl)
		bi := &bvInterp{w: w, fi: enc, info: enc.Pkg.TypesInfo, tolerant: true}
		paths := bi.run(ctx, recv, sub, nil, 0, nil)
		pos := w.Pos(enc.Decl.Pos())
		seen := map[string]int{}
		var bad []string
		for _, p := range paths {
			if len(p.Ret) == 0 || p.Ret[0] == nil || p.Ret[0].View == nil || errOnly(p) {
				continue
			}
			view := &bvView{Buf: p.Ret[0].View.Buf, Base: Const(0)}
			word := func(off int, src string, width int) bool {
				for i := 0; i < width; i++ {
					bo, bt := beBits(off, width, i)
					c, ok := bi.cell(p, view, Const(int64(bo)))
					if !ok || p.resolve(c.Bits[bt]) != (Bit{K: 's', Src: src, I: i}) {
						return false
					}
				}
				return true
			}
			tagOK := func() bool {
				for _, f := range vlan {
					for i := 0; i < f.Len; i++ {
						bo, bt := wireBit(12*8 + f.Start + f.Len - 1 - i)
						c, ok := bi.cell(p, view, Const(int64(bo)))
						if !ok || p.resolve(c.Bits[bt]) != (Bit{K: 's', Src: "VLANID." + f.Name, I: i}) {
							return false
						}
					}
				}
				return true
			}
			switch {
			case word(12, "Ethertype", 16):
				seen["untagged"]++
			case tagOK() && word(16, "Ethertype", 16):
				seen["tagged"]++
			default:
				bad = append(bad, fmt.Sprintf("on path [%s] bytes 12..17 are neither ethertype@12 nor tag@12 + ethertype@16", pathName(p)))
			}
		}
		switch {
		case len(bad) > 0:
			r.Fail(VViolation, "lanes", "protocol.Ethernet", "enc/frame", pos, summarise(bad))
		case seen["untagged"] == 0 || seen["tagged"] == 0:
			r.Fail(VViolation, "lanes", "protocol.Ethernet", "enc/frame", pos, fmt.Sprintf("the encoder has %d untagged and %d tagged layouts; both are specified", seen["untagged"], seen["tagged"]))
		default:
			r.OK("lanes", "protocol.Ethernet", "enc/frame", pos, fmt.Sprintf("ethertype at 12 on the %d untagged paths; TPID/PCP/DEI/VID at 12..15 and ethertype at 16 on the %d tagged paths", seen["untagged"], seen["tagged"]), true)
		}
	}
	// ---- decoder
	{
		ctx := newBvCtx()
		recv, sub := bvRecvOf(w, dec, nil)
		bi := &bvInterp{w: w, fi: dec, info: dec.Pkg.TypesInfo, tolerant: true}
		paths := bi.run(ctx, recv, sub, []*bvVal{symView("P", ValOf("len(P)"))}, 0, nil)
		pos := w.Pos(dec.Decl.Pos())
		seen := map[string]int{}
		var bad []string
		for _, p := range paths {
			if n := len(p.Ret); n > 0 && p.Ret[n-1] != nil && rejectingRet(w, dec, p.Ret[n-1].Opaque) {
				continue
			}
			if errOnly(p) {
				continue
			}
			et, ok := p.Recv["Ethertype"]
			if !ok {
				continue
			}
			from := func(v BV, off, width int) bool {
				if len(v.Bits) < width {
					return false
				}
				for i := 0; i < width; i++ {
					bo, bt := beBits(off, width, i)
					if p.resolve(v.Bits[i]) != (Bit{K: 's', Src: fmt.Sprintf("P[%d]", bo), I: bt}) {
						return false
					}
				}
				return true
			}
			switch {
			case from(et, 12, 16):
				seen["untagged"]++
			case from(et, 16, 16):
				vv := p.RecvSub["VLANID"]
				okTag := vv != nil && vv.Fields != nil
				if okTag {
					for _, f := range vlan {
						v := vv.Fields[f.Name]
						for i := 0; i < len(v.Bits); i++ {
							want := Bit{K: '0'}
							if i < f.Len {
								bo, bt := wireBit(12*8 + f.Start + f.Len - 1 - i)
								want = Bit{K: 's', Src: fmt.Sprintf("P[%d]", bo), I: bt}
							}
							if p.resolve(v.Bits[i]) != want {
								okTag = false
							}
						}
					}
				}
				if okTag {
					seen["tagged"]++
				} else {
					bad = append(bad, fmt.Sprintf("on path [%s] the ethertype is read after a tag but the tag fields are not read from bytes 12..15 at TPID(16) PCP(3) DEI(1) VID(12)", pathName(p)))
				}
			default:
				bad = append(bad, fmt.Sprintf("on path [%s] the ethertype the payload switch uses is read from %s: neither bytes 12..13 nor, after a tag, bytes 16..17", pathName(p), et.String()))
			}
		}
		switch {
		case len(bad) > 0:
			r.Fail(VViolation, "lanes", "protocol.Ethernet", "dec/frame", pos, summarise(bad))
		case seen["untagged"] == 0 || seen["tagged"] == 0:
			r.Fail(VViolation, "lanes", "protocol.Ethernet", "dec/frame", pos, fmt.Sprintf("the decoder has %d untagged and %d tagged accepting paths; both are specified", seen["untagged"], seen["tagged"]))
		default:
			r.OK("lanes", "protocol.Ethernet", "dec/frame", pos, "ethertype from bytes 12..13, or after a tag (TPID/PCP/DEI/VID from 12..15) from bytes 16..17: the payload switch sees the type after the tag", true)
		}
	}
}

// ---------------------------------------------------------------- demux

func demuxRule(w *World, r *Report, spec *pktSpec) {
	var fns []string
	for fn := range spec.Demux {
		if !strings.HasPrefix(fn, "_") {
			fns = append(fns, fn)
		}
	}
	sort.Strings(fns)
	for _, fn := range fns {
		var d pktDemux
		if err := json.Unmarshal(spec.Demux[fn], &d); err != nil {
			r.Fail(VUnmapped, "demux", fn, "", "-", "malformed table row: "+err.Error())
			continue
		}
		fi := w.Funcs[fn]
		if fi == nil {
			r.Fail(VViolation, "demux", fn, "", "-", "the decoder no longer exists (anchor of the rule cannot be resolved)")
			continue
		}
		info := fi.Pkg.TypesInfo
		// the payload selection: a switch on the protocol number, or an if/else-if chain of `tag == CONST`
		type clause struct {
			list []ast.Expr // nil: default
			body []ast.Stmt
			pos  token.Pos
		}
		var clauses []clause
		var tagExpr ast.Expr
		var selPos token.Pos
		ast.Inspect(fi.Decl.Body, func(n ast.Node) bool {
			if tagExpr != nil {
				return false
			}
			switch s := n.(type) {
			case *ast.SwitchStmt:
				if s.Tag == nil {
					return true
				}
				if t := info.TypeOf(s.Tag); t == nil || !isIntType(t) {
					return true
				}
				tagExpr, selPos = s.Tag, s.Pos()
				for _, st := range s.Body.List {
					cc := st.(*ast.CaseClause)
					clauses = append(clauses, clause{cc.List, cc.Body, cc.Pos()})
				}
				return false
			case *ast.IfStmt:
				// tag == CONST { … } else if tag == CONST { … } else { … } with at least two comparisons
				var cs []clause
				var tag ast.Expr
				cur := s
				for cur != nil {
					be, ok := unparen(cur.Cond).(*ast.BinaryExpr)
					if !ok || be.Op != token.EQL {
						cs = nil
						break
					}
					x, c := be.X, be.Y
					if _, isC := constIntOf(info, c); !isC {
						x, c = be.Y, be.X
					}
					if _, isC := constIntOf(info, c); !isC {
						cs = nil
						break
					}
					if tag == nil {
						tag = x
					} else if types.ExprString(tag) != types.ExprString(x) {
						cs = nil
						break
					}
					cs = append(cs, clause{[]ast.Expr{c}, cur.Body.List, cur.Pos()})
					switch e := cur.Else.(type) {
					case *ast.IfStmt:
						cur = e
					case *ast.BlockStmt:
						cs = append(cs, clause{nil, e.List, e.Pos()})
						cur = nil
					default:
						cur = nil
					}
				}
				if len(cs) >= 3 && tag != nil {
					if t := info.TypeOf(tag); t != nil && isIntType(t) {
						tagExpr, selPos, clauses = tag, s.Pos(), cs
						return false
					}
				}
			}
			return true
		})
		if tagExpr == nil {
			r.Fail(VViolation, "demux", fn, "", w.Pos(fi.Decl.Pos()), "no switch (or if/else chain) on a protocol number found in the decoder")
			continue
		}
		tagOK := false
		tagText := types.ExprString(tagExpr)
		if se, ok := unparen(tagExpr).(*ast.SelectorExpr); ok && se.Sel.Name == d.On {
			tagOK = true
		} else if id, ok := unparen(tagExpr).(*ast.Ident); ok {
			ast.Inspect(fi.Decl.Body, func(n ast.Node) bool {
				if as, ok := n.(*ast.AssignStmt); ok && len(as.Lhs) == 1 && len(as.Rhs) == 1 {
					if l, ok := as.Lhs[0].(*ast.Ident); ok && info.ObjectOf(l) == info.ObjectOf(id) && as.Pos() < selPos {
						if se, ok := unparen(as.Rhs[0]).(*ast.SelectorExpr); ok && se.Sel.Name == d.On {
							tagOK = true
						}
					}
				}
				return true
			})
		}
		pos := w.Pos(selPos)
		if tagOK {
			r.OK("demux", fn, "tag", pos, "the selection is on "+tagText+", the "+d.On+" field of the header", true)
		} else {
			r.Fail(VViolation, "demux", fn, "tag", pos, "the selection is on "+tagText+", which is not the "+d.On+" field the table names")
		}
		present := map[string]bool{}
		for _, cc := range clauses {
			alloc := ""
			var allocField string
			for _, b := range cc.body {
				ast.Inspect(b, func(n ast.Node) bool {
					as, ok := n.(*ast.AssignStmt)
					if !ok || len(as.Lhs) != 1 || len(as.Rhs) != 1 || alloc != "" {
						return true
					}
					t := info.TypeOf(as.Rhs[0])
					if t == nil {
						return true
					}
					if _, isCall := unparen(as.Rhs[0]).(*ast.CallExpr); !isCall {
						return true
					}
					if pt, ok := t.Underlying().(*types.Pointer); ok {
						if k := w.KindOfType(pt.Elem()); k != nil {
							alloc = k.Name
							allocField = types.ExprString(as.Lhs[0])
						}
					}
					return true
				})
			}
			if cc.list == nil {
				if alloc != "" && alloc != "util.Buffer" {
					r.Fail(VViolation, "demux", fn, "default", w.Pos(cc.pos), "the default case allocates "+alloc+": unknown protocol numbers must fall to the opaque buffer")
				} else {
					r.OK("demux", fn, "default", w.Pos(cc.pos), "unknown numbers fall to the opaque buffer", false)
				}
				continue
			}
			for _, e := range cc.list {
				c, isC := constIntOf(info, e)
				if !isC {
					r.Fail(VUndecided, "demux", fn, types.ExprString(e), w.Pos(e.Pos()), "case value is not a constant")
					continue
				}
				code := fmt.Sprint(c)
				present[code] = true
				want, mapped := d.Cases[code]
				if len(cc.body) == 0 {
					// an empty clause does nothing in Go (no fall-through into the next case): no payload value is
					// installed for this number — a fresh header then calls its payload decoder through nil, a reused
					// one decodes the bytes with the previous frame's payload kind
					r.Fail(VViolation, "demux", fn, code, w.Pos(e.Pos()), fmt.Sprintf("the case for %s (%s) has an empty body: Go does not fall through to the next case, so no payload value is assigned for this number", types.ExprString(e), code))
					continue
				}
				switch {
				case !mapped && (alloc == "" || alloc == "util.Buffer"):
					r.OK("demux", fn, code, w.Pos(e.Pos()), "number without a table row handled as opaque payload", false)
				case !mapped:
					r.Fail(VUnmapped, "demux", fn, code, w.Pos(e.Pos()), fmt.Sprintf("protocol number %s allocates %s but spec/packet_layout.json has no row for it", code, alloc))
				case alloc == want:
					r.OK("demux", fn, code, w.Pos(e.Pos()), fmt.Sprintf("%s (%s) allocates %s", types.ExprString(e), code, alloc), true)
				default:
					got := alloc
					if got == "" {
						got = "nothing"
					}
					r.Fail(VViolation, "demux", fn, code, w.Pos(e.Pos()), fmt.Sprintf("%s (%s) allocates %s; the number is assigned to %s", types.ExprString(e), code, got, want))
				}
				if mapped && alloc == want && (strings.HasSuffix(want, "HopByHopHeader") || strings.HasSuffix(want, "RoutingHeader") || strings.HasSuffix(want, "FragmentHeader")) {
					nextOK, advOK := false, false
					for _, b := range cc.body {
						ast.Inspect(b, func(n ast.Node) bool {
							as, ok := n.(*ast.AssignStmt)
							if !ok || len(as.Lhs) != 1 || len(as.Rhs) != 1 {
								return true
							}
							rhs := types.ExprString(as.Rhs[0])
							if as.Tok == token.ASSIGN && types.ExprString(as.Lhs[0]) == tagText && rhs == allocField+".NextHeader" {
								nextOK = true
							}
							if as.Tok == token.ADD_ASSIGN && strings.Contains(rhs, allocField+".Len()") {
								advOK = true
							}
							return true
						})
					}
					if nextOK && advOK {
						r.OK("demux", fn, code+"/chain", w.Pos(cc.pos), "continues with "+allocField+".NextHeader and advances by "+allocField+".Len()", true)
					} else {
						r.Fail(VViolation, "demux", fn, code+"/chain", w.Pos(cc.pos), fmt.Sprintf("the extension-header case does not both continue with %s.NextHeader and advance by %s.Len() (next: %v, advance: %v)", allocField, allocField, nextOK, advOK))
					}
				}
			}
		}
		for _, c := range d.Required {
			if !present[c] {
				r.Fail(VViolation, "demux", fn, c, pos, fmt.Sprintf("protocol number %s (%s) has no case: its payload is no longer decoded as that kind", c, d.Cases[c]))
			}
		}
	}
}

// ---------------------------------------------------------------- presence

// presenceEthernet: the encoder emits the 802.1Q tag under a condition on the decoded value; the decoder must
// leave that condition true whenever it found a tag.
func presenceEthernet(w *World, r *Report) {
	enc, dec := w.Funcs["protocol.Ethernet.MarshalBinary"], w.Funcs["protocol.Ethernet.UnmarshalBinary"]
	if enc == nil || dec == nil {
		r.Fail(VViolation, "presence", "protocol.Ethernet", "vlan", "-", "the Ethernet codec no longer exists")
		return
	}
	var cond ast.Expr
	ast.Inspect(enc.Decl.Body, func(n ast.Node) bool {
		is, ok := n.(*ast.IfStmt)
		if !ok || cond != nil {
			return true
		}
		uses := false
		ast.Inspect(is.Body, func(m ast.Node) bool {
			if c, ok := m.(*ast.CallExpr); ok {
				if se, ok := unparen(c.Fun).(*ast.SelectorExpr); ok && se.Sel.Name == "MarshalBinary" && strings.HasSuffix(types.ExprString(se.X), ".VLANID") {
					uses = true
				}
			}
			return true
		})
		if uses {
			cond = is.Cond
		}
		return true
	})
	pos := w.Pos(enc.Decl.Pos())
	if cond == nil {
		r.Fail(VViolation, "presence", "protocol.Ethernet", "vlan", pos, "the encoder never emits the 802.1Q tag")
		return
	}
	var reads []string
	ast.Inspect(cond, func(n ast.Node) bool {
		if se, ok := n.(*ast.SelectorExpr); ok {
			if in, ok := unparen(se.X).(*ast.SelectorExpr); ok && in.Sel.Name == "VLANID" {
				reads = append(reads, se.Sel.Name)
			}
		}
		return true
	})
	bi := &bvInterp{w: w, fi: dec, info: dec.Pkg.TypesInfo, tolerant: true}
	recv, sub := bvRecvOf(w, dec, nil)
	paths := bi.run(newBvCtx(), recv, sub, []*bvVal{symView("P", ValOf("len(P)"))}, 0, nil)
	var free []string
	tagged := 0
	for _, p := range paths {
		vv := p.RecvSub["VLANID"]
		if vv == nil || vv.Fields == nil {
			continue
		}
		tp := vv.Fields["TPID"]
		if len(tp.Bits) == 0 || tp.Bits[0].K != 's' || !strings.HasPrefix(tp.Bits[0].Src, "P[") {
			continue
		}
		tagged++
		for _, f := range reads {
			v := vv.Fields[f]
			allWire := len(v.Bits) > 0
			for _, b := range v.Bits {
				if b.K == '1' {
					allWire = false
				}
			}
			if allWire && !strings.Contains(strings.Join(free, ","), f) {
				free = append(free, f)
			}
		}
	}
	condText := types.ExprString(cond)
	switch {
	case tagged == 0:
		r.Fail(VUndecided, "presence", "protocol.Ethernet", "vlan", pos, "no decoder path that finds a tag could be followed")
	case len(free) > 0:
		r.Fail(VViolation, "presence", "protocol.Ethernet", "vlan", w.Pos(cond.Pos()), fmt.Sprintf("the encoder emits the tag only when %s, but a decoded tag leaves %s as found on the wire, where every value including 0 is legal: a priority-tagged frame (VID 0) decodes with its tag and is encoded without it", condText, strings.Join(free, ", ")))
	default:
		r.OK("presence", "protocol.Ethernet", "vlan", w.Pos(cond.Pos()), "the encoder's condition "+condText+" is established by the decoder on the tagged path", true)
	}
}

// nowrapSizes: the size a header reports is what encoder and decoder both advance by; when it is computed
// in 8-bit arithmetic from a field whose well-formed range overflows it (8*(HEL+1) in uint8), encoder and
// decoder still agree with each other and disagree with the wire: a long extension header is cut short.
func nowrapSizes(w *World, r *Report, spec *pktSpec) {
	declared := map[string]int{} // kind.field -> bits
	maxVal := map[string]int64{}
	for _, h := range append(append([]*pktHeader(nil), spec.Headers...), spec.Words...) {
		for _, f := range h.fields() {
			declared[h.Kind+"."+f.Name] = f.Len
		}
		for f, m := range h.Max {
			maxVal[h.Kind+"."+f] = m
		}
	}
	for _, k := range w.KindsL {
		if !strings.HasPrefix(k.Name, "protocol.") || k.Len == nil {
			continue
		}
		ls := w.LenSummary(k)
		pos := "-"
		if ls != nil && ls.Fn != nil {
			pos = w.Pos(ls.Fn.Decl.Pos())
		}
		if ls == nil || ls.Term == nil {
			continue // the extent rule reports kinds without a size summary
		}
		st := structOf(k.Named)
		maxOf := func(a *Atom) (int64, bool) {
			if a.Kind != "val" || !strings.HasPrefix(a.Path, "$.") || st == nil {
				return 0, false
			}
			name := strings.TrimPrefix(a.Path, "$.")
			if strings.Contains(name, ".") {
				return 0, false
			}
			if m, ok := maxVal[k.Name+"."+name]; ok {
				return m, true
			}
			if b, ok := declared[k.Name+"."+name]; ok && b < 62 {
				return int64(1)<<uint(b) - 1, true
			}
			for i := 0; i < st.NumFields(); i++ {
				if st.Field(i).Name() == name {
					if bits, uns := intBits(st.Field(i).Type()); bits > 0 && bits < 62 && uns {
						return int64(1)<<uint(bits) - 1, true
					}
				}
			}
			return 0, false
		}
		var upper func(t *Term) (int64, bool)
		upper = func(t *Term) (int64, bool) {
			total := t.C
			for key, c := range t.K {
				a := t.Atoms[key]
				var m int64
				ok := false
				switch a.Kind {
				case "val":
					m, ok = maxOf(a)
				case "wrap":
					if im, iok := upper(a.Sub[0]); iok {
						m, ok = im, true
					}
					if bits := wrapBits(a.Path); bits > 0 && bits < 62 {
						lim := int64(1)<<uint(bits) - 1
						if !ok || m > lim {
							m, ok = lim, true
						}
					}
				case "ite":
					a0, ok0 := upper(a.Sub[0])
					a1, ok1 := upper(a.Sub[1])
					if ok0 && ok1 {
						m, ok = a0, true
						if a1 > m {
							m = a1
						}
					}
				}
				if !ok || c < 0 {
					if c < 0 {
						continue // subtracting a non-negative amount only lowers the bound
					}
					return 0, false
				}
				total += c * m
			}
			return total, true
		}
		bad := ""
		n := 0
		var scan func(t *Term)
		scan = func(t *Term) {
			for _, a := range t.Atoms {
				if a.Kind == "wrap" {
					bits := wrapBits(a.Path)
					if bits > 0 && bits < 16 {
						n++
						if ub, ok := upper(a.Sub[0]); !ok || ub > int64(1)<<uint(bits)-1 {
							if bad == "" {
								bad = fmt.Sprintf("%s, whose operand can reach %d", a.Key(), ub)
								if !ok {
									bad = a.Key() + ", whose operand is not bounded by the field ranges"
								}
							}
						}
					}
				}
				for _, sub := range a.Sub {
					scan(sub)
				}
			}
		}
		scan(ls.Term)
		if bad != "" {
			r.Fail(VViolation, "nowrap", k.Name, "", pos, "the size function computes "+bad+": the reported size wraps for well-formed headers, so encoder and decoder agree with each other and cut the header short on the wire")
		} else {
			r.OK("nowrap", k.Name, "", pos, fmt.Sprintf("size %v: %d narrow sub-terms, none can overflow under the declared field ranges", ls.Term, n), n > 0)
		}
	}
}

func wrapBits(typ string) int {
	switch typ {
	case "uint8", "int8", "byte":
		return 8
	case "uint16", "int16":
		return 16
	case "uint32", "int32":
		return 32
	}
	return 0
}

func init() {
	extraDumps["steps"] = func(w *World, args []string) {
		for _, key := range w.sortedFuncKeys() {
			fi := w.Funcs[key]
			if fi.Decl.Body == nil {
				continue
			}
			hasBytes := false
			for _, fl := range fi.Decl.Type.Params.List {
				if isByteSlice(fi.Pkg.TypesInfo.TypeOf(fl.Type)) {
					hasBytes = true
				}
			}
			if !hasBytes {
				continue
			}
			fs := w.Interpret(fi, "decode")
			for _, l := range fs.Loops {
				for _, c := range l.Cursors {
					var ps []string
					for _, p := range c.Paths {
						ps = append(ps, p.String())
					}
					fmt.Printf("%s %s cursor %s: %s\n", key, w.Pos(l.Pos), c.Var, strings.Join(ps, " | "))
				}
			}
		}
	}
}

func init() {
	extraDumps["objfields"] = func(w *World, args []string) {
		args = args[1:]
		fi := w.Funcs[args[0]]
		if fi == nil {
			return
		}
		fs := w.Interpret(fi, "decode")
		for _, rt := range fs.Rets {
			if rt.IsErr || rt.St == nil {
				continue
			}
			var ks []string
			for k := range rt.St.fields {
				if len(args) < 2 || strings.HasSuffix(k, args[1]) {
					ks = append(ks, k)
				}
			}
			sort.Strings(ks)
			fmt.Printf("ret %s:\n", w.Pos(rt.Pos))
			for _, k := range ks {
				fmt.Printf("   %s = %s\n", k, rt.St.fields[k].valString())
			}
		}
	}
}

func init() {
	extraDumps["callargs"] = func(w *World, args []string) {
		args = args[1:]
		fi := w.Funcs[args[0]]
		if fi == nil {
			return
		}
		fs := w.Interpret(fi, "decode")
		for _, c := range fs.Calls {
			if c.Callee == nil || (len(args) > 1 && c.Callee.Name() != args[1]) {
				continue
			}
			var as []string
			for _, a := range c.Args {
				as = append(as, a.valString())
			}
			fmt.Printf("%s %s(%s) guard[%s]\n", w.Pos(c.Pos), c.Callee.Name(), strings.Join(as, ", "), c.Guard)
		}
	}
}

func init() {
	extraDumps["usedfacts"] = func(w *World, args []string) {
		for _, k := range w.KindsL {
			if k.Len == nil || k.Marshal == nil {
				continue
			}
			sv := w.compareSize(k)
			var fs []string
			for _, u := range sv.UsedBySize {
				if strings.HasPrefix(u, "len(") || strings.HasPrefix(u, "val(") {
					fs = append(fs, u)
				}
			}
			if len(fs) > 0 {
				fmt.Printf("%s: %s\n", k.Name, strings.Join(fs, "; "))
			}
		}
	}
}

// rejectingRet: the last result of a decoder path is a freshly built error or a sentinel error of the package.
func rejectingRet(w *World, fi *FuncInfo, opaque string) bool {
	if strings.HasPrefix(opaque, "call:errors.") || strings.HasPrefix(opaque, "call:fmt.") {
		return true
	}
	if strings.HasPrefix(opaque, "ident:") && fi != nil {
		if v, ok := fi.Pkg.Types.Scope().Lookup(strings.TrimPrefix(opaque, "ident:")).(*types.Var); ok {
			return w.sentinelError(v)
		}
	}
	return false
}
