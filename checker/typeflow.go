package main

import (
	"go/ast"
	"go/token"
	"go/types"
	"sort"
)

// ---- which concrete types stand behind an interface-typed expression ------------------------------
//
// A small flow-insensitive type propagation over the typed syntax (the library has no main package, so
// a whole-program VTA sees nothing flowing into the parameters of exported functions; here those are
// "any implementation of the static type", which is what a caller may pass). For an expression of
// interface type the answer is a set of concrete named types, or any=true.

type typeFlow struct {
	w      *World
	fields map[*types.Var]*tfSet // interface-typed struct field (or slice/map-of-interface field) → what is stored
	busy   map[any]bool
	funcs  map[*types.Func]map[int]*tfSet
}

type tfSet struct {
	Any    bool                // some value of unknown origin: any implementation of …
	Open   bool                // … the static type at the use (no narrower bound known)
	Bounds map[types.Type]bool // … or of one of these interface types (a parameter's declared type)
	Types  map[*types.Named]bool
}

func newTfSet() *tfSet {
	return &tfSet{Types: map[*types.Named]bool{}, Bounds: map[types.Type]bool{}}
}

func (s *tfSet) add(o *tfSet) {
	if o == nil {
		return
	}
	if o.Any {
		s.Any = true
	}
	if o.Open {
		s.Open = true
	}
	for t := range o.Bounds {
		s.Bounds[t] = true
	}
	for t := range o.Types {
		s.Types[t] = true
	}
}

// anyOf marks the set as holding any implementation of t (element type for containers); an unknown or
// non-interface t leaves it open.
func (s *tfSet) anyOf(t types.Type) {
	s.Any = true
	for t != nil {
		switch u := t.Underlying().(type) {
		case *types.Slice:
			t = u.Elem()
			continue
		case *types.Array:
			t = u.Elem()
			continue
		case *types.Map:
			t = u.Elem()
			continue
		case *types.Interface:
			s.Bounds[t] = true
			return
		}
		break
	}
	s.Open = true
}

func (w *World) typeFlow() *typeFlow {
	if w.tflow != nil {
		return w.tflow
	}
	tf := &typeFlow{w: w, fields: map[*types.Var]*tfSet{}, busy: map[any]bool{}, funcs: map[*types.Func]map[int]*tfSet{}}
	w.tflow = tf
	return tf
}

func ifaceLike(t types.Type) bool {
	if t == nil {
		return false
	}
	switch u := t.Underlying().(type) {
	case *types.Interface:
		return true
	case *types.Slice:
		return ifaceLike(u.Elem())
	case *types.Array:
		return ifaceLike(u.Elem())
	case *types.Map:
		return ifaceLike(u.Elem())
	}
	return false
}

func namedOf(t types.Type) *types.Named {
	if p, ok := t.(*types.Pointer); ok {
		t = p.Elem()
	}
	n, _ := t.(*types.Named)
	return n
}

// ofExpr: the concrete types an expression of (container of) interface type can hold, seen from fi.
func (tf *typeFlow) ofExpr(fi *FuncInfo, e ast.Expr, depth int) *tfSet {
	out := newTfSet()
	if depth > 6 {
		out.Any, out.Open = true, true
		return out
	}
	info := fi.Pkg.TypesInfo
	e = unparen(e)
	t := info.TypeOf(e)
	if t == nil {
		out.Any, out.Open = true, true
		return out
	}
	if tv, ok := info.Types[e]; ok && tv.IsNil() {
		return out
	}
	if !ifaceLike(t) {
		if n := namedOf(t); n != nil {
			out.Types[n] = true
		} else {
			out.Any, out.Open = true, true
		}
		return out
	}
	switch x := e.(type) {
	case *ast.Ident:
		obj := info.ObjectOf(x)
		v, isVar := obj.(*types.Var)
		if !isVar {
			out.Any, out.Open = true, true
			return out
		}
		if v.Pkg() != nil && v.Parent() == v.Pkg().Scope() {
			out.Any, out.Open = true, true // package-level variable
			return out
		}
		out.add(tf.ofLocal(fi, v, depth))
	case *ast.SelectorExpr:
		if sel := info.Selections[x]; sel != nil && sel.Kind() == types.FieldVal {
			if fv, ok := sel.Obj().(*types.Var); ok {
				out.add(tf.ofField(fv, depth))
				return out
			}
		}
		out.Any, out.Open = true, true
	case *ast.IndexExpr:
		out.add(tf.ofExpr(fi, x.X, depth))
	case *ast.SliceExpr:
		out.add(tf.ofExpr(fi, x.X, depth))
	case *ast.StarExpr:
		out.Any, out.Open = true, true
	case *ast.CompositeLit:
		for _, el := range x.Elts {
			if kv, ok := el.(*ast.KeyValueExpr); ok {
				el = kv.Value
			}
			out.add(tf.ofExpr(fi, el, depth+1))
		}
	case *ast.CallExpr:
		if tv, ok := info.Types[x.Fun]; ok && tv.IsType() && len(x.Args) == 1 {
			out.add(tf.ofExpr(fi, x.Args[0], depth+1)) // conversion to the interface type
			return out
		}
		if id, ok := unparen(x.Fun).(*ast.Ident); ok {
			if _, isB := info.Uses[id].(*types.Builtin); isB {
				switch id.Name {
				case "append":
					for i, a := range x.Args {
						if i == len(x.Args)-1 && x.Ellipsis != token.NoPos {
							out.add(tf.ofExpr(fi, a, depth+1))
						} else {
							out.add(tf.ofExpr(fi, a, depth+1))
						}
					}
					return out
				case "make", "new":
					return out
				}
			}
		}
		if f := calleeFunc(info, x); f != nil {
			if g := tf.w.ByObj[f]; g != nil && g.Decl.Body != nil {
				out.add(tf.ofResult(g, 0, depth+1))
				return out
			}
		}
		out.Any, out.Open = true, true
	case *ast.TypeAssertExpr:
		out.add(tf.ofExpr(fi, x.X, depth+1))
	default:
		out.Any, out.Open = true, true
	}
	return out
}

// ofLocal: a local variable or parameter of (container of) interface type.
func (tf *typeFlow) ofLocal(fi *FuncInfo, v *types.Var, depth int) *tfSet {
	out := newTfSet()
	key := v
	if tf.busy[key] {
		return out
	}
	tf.busy[key] = true
	defer delete(tf.busy, key)
	info := fi.Pkg.TypesInfo
	// parameter or receiver: whatever the caller passes
	for _, p := range paramObjs(fi) {
		if p == v {
			out.anyOf(v.Type())
			return out
		}
	}
	if recvObj(fi) == v {
		out.anyOf(v.Type())
		return out
	}
	found := false
	// named results start as nil and are assigned below
	ast.Inspect(fi.Decl, func(nd ast.Node) bool {
		switch x := nd.(type) {
		case *ast.AssignStmt:
			for i, l := range x.Lhs {
				id, ok := unparen(l).(*ast.Ident)
				if !ok || info.ObjectOf(id) != v {
					// element store into a local container: s[i] = e
					if ix, ok := unparen(l).(*ast.IndexExpr); ok {
						if bid, ok := unparen(ix.X).(*ast.Ident); ok && info.ObjectOf(bid) == v && len(x.Lhs) == len(x.Rhs) {
							found = true
							out.add(tf.ofExpr(fi, x.Rhs[i], depth+1))
						}
					}
					continue
				}
				found = true
				switch {
				case len(x.Lhs) == len(x.Rhs):
					out.add(tf.ofExpr(fi, x.Rhs[i], depth+1))
				case len(x.Rhs) == 1:
					switch r := unparen(x.Rhs[0]).(type) {
					case *ast.CallExpr:
						if f := calleeFunc(info, r); f != nil {
							if g := tf.w.ByObj[f]; g != nil && g.Decl.Body != nil {
								out.add(tf.ofResult(g, i, depth+1))
								continue
							}
						}
						out.Any, out.Open = true, true
					case *ast.TypeAssertExpr:
						if i == 0 {
							out.add(tf.ofExpr(fi, r.X, depth+1))
						}
					case *ast.IndexExpr:
						if i == 0 {
							out.add(tf.ofExpr(fi, r.X, depth+1))
						}
					default:
						out.Any, out.Open = true, true
					}
				}
			}
		case *ast.ValueSpec:
			for i, n := range x.Names {
				if info.ObjectOf(n) != v {
					continue
				}
				found = true
				if len(x.Values) == len(x.Names) {
					out.add(tf.ofExpr(fi, x.Values[i], depth+1))
				} else if len(x.Values) == 1 {
					out.Any, out.Open = true, true
				}
			}
		case *ast.RangeStmt:
			if id, ok := x.Value.(*ast.Ident); ok && info.ObjectOf(id) == v {
				found = true
				out.add(tf.ofExpr(fi, x.X, depth+1))
			}
		case *ast.UnaryExpr:
			if x.Op == token.AND {
				if id, ok := unparen(x.X).(*ast.Ident); ok && info.ObjectOf(id) == v {
					out.Any, out.Open = true, true // address taken
				}
			}
		case *ast.TypeSwitchStmt:
			// v := x.(type): the implicit objects are handled by the caller through Implicits
		}
		return true
	})
	if !found {
		// an implicit object of a type switch, a closure parameter, …
		out.Any, out.Open = true, true
	}
	return out
}

// ofResult: what a module function can return in position idx.
func (tf *typeFlow) ofResult(g *FuncInfo, idx int, depth int) *tfSet {
	if m := tf.funcs[g.Obj]; m != nil && m[idx] != nil {
		return m[idx]
	}
	out := newTfSet()
	key := [2]any{g.Obj, idx}
	if tf.busy[key] {
		return out
	}
	tf.busy[key] = true
	defer delete(tf.busy, key)
	sig := g.Obj.Type().(*types.Signature)
	n := sig.Results().Len()
	if idx >= n {
		out.Any, out.Open = true, true
		return out
	}
	if !ifaceLike(sig.Results().At(idx).Type()) {
		if nt := namedOf(sig.Results().At(idx).Type()); nt != nil {
			out.Types[nt] = true
		} else {
			out.Any, out.Open = true, true
		}
		return out
	}
	info := g.Pkg.TypesInfo
	var named *types.Var
	if rv := sig.Results().At(idx); rv.Name() != "" && rv.Name() != "_" {
		named = rv
	}
	ast.Inspect(g.Decl.Body, func(nd ast.Node) bool {
		switch x := nd.(type) {
		case *ast.FuncLit:
			return false
		case *ast.ReturnStmt:
			switch {
			case len(x.Results) == n:
				out.add(tf.ofExpr(g, x.Results[idx], depth+1))
			case len(x.Results) == 0 && named != nil:
				out.add(tf.ofLocal(g, named, depth+1))
			case len(x.Results) == 1:
				if call, ok := unparen(x.Results[0]).(*ast.CallExpr); ok {
					if f := calleeFunc(info, call); f != nil {
						if h := tf.w.ByObj[f]; h != nil && h.Decl.Body != nil {
							out.add(tf.ofResult(h, idx, depth+1))
							return true
						}
					}
				}
				out.Any, out.Open = true, true
			}
		}
		return true
	})
	if depth <= 1 {
		if tf.funcs[g.Obj] == nil {
			tf.funcs[g.Obj] = map[int]*tfSet{}
		}
		tf.funcs[g.Obj][idx] = out
	}
	return out
}

// ofField: everything the module stores into a struct field of (container of) interface type.
func (tf *typeFlow) ofField(fv *types.Var, depth int) *tfSet {
	if s := tf.fields[fv]; s != nil {
		return s
	}
	out := newTfSet()
	if tf.busy[fv] {
		return out
	}
	tf.busy[fv] = true
	defer delete(tf.busy, fv)
	w := tf.w
	isField := func(info *types.Info, e ast.Expr) bool {
		se, ok := unparen(e).(*ast.SelectorExpr)
		if !ok {
			return false
		}
		sel := info.Selections[se]
		return sel != nil && sel.Obj() == fv
	}
	for _, key := range w.sortedFuncKeys() {
		fi := w.Funcs[key]
		if fi.Decl.Body == nil {
			continue
		}
		info := fi.Pkg.TypesInfo
		ast.Inspect(fi.Decl.Body, func(nd ast.Node) bool {
			switch x := nd.(type) {
			case *ast.AssignStmt:
				for i, l := range x.Lhs {
					target := unparen(l)
					if ix, ok := target.(*ast.IndexExpr); ok {
						target = unparen(ix.X)
					}
					if !isField(info, target) {
						continue
					}
					switch {
					case len(x.Lhs) == len(x.Rhs):
						out.add(tf.ofExpr(fi, x.Rhs[i], depth+1))
					case len(x.Rhs) == 1:
						if call, ok := unparen(x.Rhs[0]).(*ast.CallExpr); ok {
							if f := calleeFunc(info, call); f != nil {
								if g := w.ByObj[f]; g != nil && g.Decl.Body != nil {
									out.add(tf.ofResult(g, i, depth+1))
									continue
								}
							}
						}
						out.Any, out.Open = true, true
					}
				}
			case *ast.CompositeLit:
				st, ok := info.TypeOf(x).Underlying().(*types.Struct)
				if !ok {
					return true
				}
				for i, el := range x.Elts {
					if kv, ok := el.(*ast.KeyValueExpr); ok {
						if id, ok := kv.Key.(*ast.Ident); ok && info.ObjectOf(id) == fv {
							out.add(tf.ofExpr(fi, kv.Value, depth+1))
						}
					} else if i < st.NumFields() && st.Field(i) == fv {
						out.add(tf.ofExpr(fi, el, depth+1))
					}
				}
			case *ast.UnaryExpr:
				if x.Op == token.AND && isField(info, x.X) {
					out.Any, out.Open = true, true
				}
			}
			return true
		})
	}
	tf.fields[fv] = out
	return out
}

// implementations resolves an interface method call to the module methods it can reach.
func (tf *typeFlow) implementations(fi *FuncInfo, call *ast.CallExpr, f *types.Func, impls []*FuncInfo) ([]*FuncInfo, bool) {
	info := fi.Pkg.TypesInfo
	sig := f.Type().(*types.Signature)
	it, _ := sig.Recv().Type().Underlying().(*types.Interface)
	se, ok := unparen(call.Fun).(*ast.SelectorExpr)
	if ok {
		// the static type of the receiver expression is usually narrower than the interface that
		// declares the method (Action vs encoding.BinaryMarshaler)
		if st, isI := info.TypeOf(se.X).Underlying().(*types.Interface); isI {
			it = st
		}
	}
	implementsI := func(m *FuncInfo, i *types.Interface) bool {
		return i == nil || types.Implements(types.NewPointer(m.Recv), i) || types.Implements(m.Recv, i)
	}
	var all []*FuncInfo
	for _, m := range impls {
		if implementsI(m, it) {
			all = append(all, m)
		}
	}
	if !ok {
		return all, false
	}
	set := tf.ofExpr(fi, se.X, 0)
	if set.Any && set.Open {
		return all, false
	}
	var out []*FuncInfo
	seen := map[*FuncInfo]bool{}
	if set.Any {
		for _, m := range all {
			for b := range set.Bounds {
				if bi, isI := b.Underlying().(*types.Interface); isI && implementsI(m, bi) && !seen[m] {
					seen[m] = true
					out = append(out, m)
				}
			}
		}
	}
	for t := range set.Types {
		ms := types.NewMethodSet(types.NewPointer(t))
		sel := ms.Lookup(f.Pkg(), f.Name())
		if sel == nil {
			continue
		}
		mf, _ := sel.Obj().(*types.Func)
		if m := tf.w.ByObj[mf]; m != nil && !seen[m] {
			seen[m] = true
			out = append(out, m)
		}
	}
	sort.Slice(out, func(i, j int) bool { return out[i].Key < out[j].Key })
	return out, true
}
