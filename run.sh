#!/bin/bash
# Runs the static checker; builds it first when the binary is missing or older than its sources.
cd "$(dirname "$0")"
export GOFLAGS=-mod=vendor GOPROXY=off GOSUMDB=off GOTOOLCHAIN=local CGO_ENABLED=0
unset GOWORK
if [ ! -x bin/ofverify ] || [ -n "$(find checker -name '*.go' -newer bin/ofverify -print -quit 2>/dev/null)" ]; then
  (cd checker && go build -o ../bin/ofverify .) || { echo "error: cannot build the checker" >&2; exit 2; }
fi
export VERIF_ROOT="$PWD"
exec ./bin/ofverify "$@"
