package main

import (
	"fmt"
	"go/ast"
	"go/constant"
	"go/token"
	"go/types"
	"sort"
	"strings"

	"golang.org/x/tools/go/cfg"
)

// ---- which functions can return a non-nil error --------------------------------------------------
//
// mayFail(f) is a may-analysis over the module's own source: f can return a non-nil error when one of
// its return statements yields, in the error position, anything other than the literal nil or a variable
// that is only ever assigned nil or the error of callees that cannot fail. Interface calls resolve to
// every module method of that name whose receiver implements the interface. Calls out of the module
// can fail unless listed in infallibleExternal.

var infallibleExternal = map[string]string{
	"(*bytes.Buffer).Write":       "documented to always return a nil error",
	"(*bytes.Buffer).WriteByte":   "documented to always return a nil error",
	"(*bytes.Buffer).WriteString": "documented to always return a nil error",
}

type failInfo struct {
	w     *World
	state map[*types.Func]int // 0 unknown, 1 in progress, 2 cannot fail, 3 may fail
	why   map[*types.Func]string
	impls map[string][]*FuncInfo // method name → module methods
}

func (w *World) failInfo() *failInfo {
	if w.fail != nil {
		return w.fail
	}
	fa := &failInfo{w: w, state: map[*types.Func]int{}, why: map[*types.Func]string{}, impls: map[string][]*FuncInfo{}}
	for _, key := range w.sortedFuncKeys() {
		fi := w.Funcs[key]
		if fi.Recv != nil {
			fa.impls[fi.Decl.Name.Name] = append(fa.impls[fi.Decl.Name.Name], fi)
		}
	}
	// iterate to a fixed point: a cycle member is first assumed not to fail, and the pass is repeated
	// until nothing changes
	for {
		changed := false
		for _, key := range w.sortedFuncKeys() {
			fi := w.Funcs[key]
			if !returnsError(fi.Obj) {
				continue
			}
			old := fa.state[fi.Obj]
			fa.state[fi.Obj] = 1
			v, why := fa.compute(fi)
			nv := 2
			if v {
				nv = 3
			}
			if old == 3 {
				nv = 3 // monotone
			}
			fa.state[fi.Obj] = nv
			if nv == 3 && fa.why[fi.Obj] == "" {
				fa.why[fi.Obj] = why
			}
			if nv != old {
				changed = true
			}
		}
		if !changed {
			break
		}
	}
	w.fail = fa
	return fa
}

func returnsError(f *types.Func) bool {
	sig, _ := f.Type().(*types.Signature)
	if sig == nil || sig.Results().Len() == 0 {
		return false
	}
	return isErrorType(sig.Results().At(sig.Results().Len() - 1).Type())
}

// calleeMayFail: can this call yield a non-nil error in its last result?
func (fa *failInfo) calleeMayFail(fi *FuncInfo, info *types.Info, call *ast.CallExpr) (bool, string) {
	f := calleeFunc(info, call)
	if f == nil {
		return true, "call through a function value"
	}
	if !returnsError(f) {
		return false, ""
	}
	return fa.funcMayFail(fi, f, info, call)
}

func (fa *failInfo) funcMayFail(cur *FuncInfo, f *types.Func, info *types.Info, call *ast.CallExpr) (bool, string) {
	if fi := fa.w.ByObj[f]; fi != nil {
		switch fa.state[f] {
		case 3:
			return true, fi.Key + " can fail (" + fa.why[f] + ")"
		default:
			return false, ""
		}
	}
	sig := f.Type().(*types.Signature)
	if sig.Recv() != nil {
		if it, ok := sig.Recv().Type().Underlying().(*types.Interface); ok {
			// interface method: the module implementations the receiver expression can hold
			_ = it
			var hit []string
			ms, _ := fa.w.typeFlow().implementations(cur, call, f, fa.impls[f.Name()])
			for _, m := range ms {
				if fa.state[m.Obj] == 3 {
					hit = append(hit, m.Key)
				}
			}
			if len(hit) > 0 {
				sort.Strings(hit)
				more := ""
				if len(hit) > 3 {
					more = fmt.Sprintf(" and %d more", len(hit)-3)
					hit = hit[:3]
				}
				return true, "implementations that can fail: " + strings.Join(hit, ", ") + more
			}
			return false, ""
		}
	}
	name := f.FullName()
	if _, ok := infallibleExternal[name]; ok {
		return false, ""
	}
	if name == "encoding/binary.Write" && call != nil && len(call.Args) == 3 {
		// fails only when the value has no fixed size or the writer fails
		if fixedSize(info.TypeOf(call.Args[2])) && infallibleWriter(info.TypeOf(call.Args[0])) {
			return false, ""
		}
	}
	return true, name + " (outside the module) can fail"
}

func infallibleWriter(t types.Type) bool {
	if t == nil {
		return false
	}
	s := t.String()
	return s == "*bytes.Buffer"
}

func fixedSize(t types.Type) bool {
	if t == nil {
		return false
	}
	switch u := t.Underlying().(type) {
	case *types.Basic:
		switch u.Kind() {
		case types.Bool, types.Int8, types.Int16, types.Int32, types.Int64, types.Uint8, types.Uint16, types.Uint32, types.Uint64, types.Float32, types.Float64:
			return true
		}
		return false
	case *types.Array:
		return fixedSize(u.Elem())
	case *types.Slice:
		return fixedSize(u.Elem())
	case *types.Pointer:
		return fixedSize(u.Elem())
	case *types.Struct:
		for i := 0; i < u.NumFields(); i++ {
			if !fixedSize(u.Field(i).Type()) {
				return false
			}
		}
		return true
	}
	return false
}

func calleeFunc(info *types.Info, call *ast.CallExpr) *types.Func {
	switch f := unparen(call.Fun).(type) {
	case *ast.Ident:
		fn, _ := info.Uses[f].(*types.Func)
		return fn
	case *ast.SelectorExpr:
		if sel := info.Selections[f]; sel != nil {
			fn, _ := sel.Obj().(*types.Func)
			return fn
		}
		fn, _ := info.Uses[f.Sel].(*types.Func)
		return fn
	}
	return nil
}

// compute decides one function from its body.
func (fa *failInfo) compute(fi *FuncInfo) (bool, string) {
	if fi.Decl.Body == nil {
		return true, "no body"
	}
	info := fi.Pkg.TypesInfo
	sig := fi.Obj.Type().(*types.Signature)
	nres := sig.Results().Len()
	var named *types.Var
	if v := sig.Results().At(nres - 1); v.Name() != "" && v.Name() != "_" {
		named = v
	}
	// error variables: what can be assigned to them
	varFail := map[types.Object]string{}
	var scan func(n ast.Node)
	assign := func(lhs ast.Expr, rhs ast.Expr, fromCall *ast.CallExpr) {
		id, ok := unparen(lhs).(*ast.Ident)
		if !ok {
			return
		}
		obj := info.ObjectOf(id)
		if obj == nil || !isErrorType(obj.Type()) {
			return
		}
		if fromCall != nil {
			if mf, why := fa.calleeMayFail(fi, info, fromCall); mf {
				if varFail[obj] == "" {
					varFail[obj] = why
				}
			}
			return
		}
		if why := fa.exprMayBeError(fi, info, rhs, varFail); why != "" {
			if varFail[obj] == "" {
				varFail[obj] = why
			}
		}
	}
	scan = func(n ast.Node) {
		ast.Inspect(n, func(nd ast.Node) bool {
			switch x := nd.(type) {
			case *ast.AssignStmt:
				if len(x.Rhs) == 1 && len(x.Lhs) > 1 {
					if call, ok := unparen(x.Rhs[0]).(*ast.CallExpr); ok {
						assign(x.Lhs[len(x.Lhs)-1], nil, call)
					}
				} else {
					for i := range x.Lhs {
						if i < len(x.Rhs) {
							if call, ok := unparen(x.Rhs[i]).(*ast.CallExpr); ok && isErrorType(info.TypeOf(x.Rhs[i])) {
								assign(x.Lhs[i], nil, call)
							} else {
								assign(x.Lhs[i], x.Rhs[i], nil)
							}
						}
					}
				}
			case *ast.ValueSpec:
				for i, nm := range x.Names {
					if len(x.Values) == 1 && len(x.Names) > 1 {
						if call, ok := unparen(x.Values[0]).(*ast.CallExpr); ok && i == len(x.Names)-1 {
							assign(nm, nil, call)
						}
					} else if i < len(x.Values) {
						if call, ok := unparen(x.Values[i]).(*ast.CallExpr); ok && isErrorType(info.TypeOf(x.Values[i])) {
							assign(nm, nil, call)
						} else {
							assign(nm, x.Values[i], nil)
						}
					}
				}
			}
			return true
		})
	}
	// two passes so that err2 = err1 chains settle
	scan(fi.Decl.Body)
	scan(fi.Decl.Body)
	res, why := false, ""
	var walk func(n ast.Node)
	walk = func(n ast.Node) {
		ast.Inspect(n, func(nd ast.Node) bool {
			if res {
				return false
			}
			switch x := nd.(type) {
			case *ast.FuncLit:
				return false // its returns are not ours
			case *ast.IfStmt:
				// a branch entered only when an error that cannot be non-nil is non-nil is dead; a branch
				// entered only for sizes above what a 16-bit length can carry is outside every property's domain
				if fa.deadCond(info, x.Cond, varFail) {
					if x.Init != nil {
						walk(x.Init)
					}
					if x.Else != nil {
						walk(x.Else)
					}
					return false
				}
			case *ast.ReturnStmt:
				switch {
				case len(x.Results) == 0:
					if named != nil && varFail[named] != "" {
						res, why = true, varFail[named]
					}
				case len(x.Results) == nres:
					if y := fa.exprMayBeError(fi, info, x.Results[nres-1], varFail); y != "" {
						res, why = true, y
					}
				case len(x.Results) == 1:
					if call, ok := unparen(x.Results[0]).(*ast.CallExpr); ok {
						if mf, y := fa.calleeMayFail(fi, info, call); mf {
							res, why = true, y
						}
					} else {
						res, why = true, "unrecognised return"
					}
				}
			}
			return true
		})
	}
	walk(fi.Decl.Body)
	// a deferred closure may assign the named result (recover handlers do)
	if !res && named != nil && varFail[named] != "" {
		ast.Inspect(fi.Decl.Body, func(nd ast.Node) bool {
			if d, ok := nd.(*ast.DeferStmt); ok {
				if fl, ok := unparen(d.Call.Fun).(*ast.FuncLit); ok {
					ast.Inspect(fl.Body, func(m ast.Node) bool {
						if as, ok := m.(*ast.AssignStmt); ok {
							for _, l := range as.Lhs {
								if id, ok := unparen(l).(*ast.Ident); ok && info.ObjectOf(id) == named {
									res, why = true, "a deferred handler sets the error result"
								}
							}
						}
						return true
					})
				}
			}
			return true
		})
	}
	return res, why
}

// deadCond: the condition is `v != nil` for an error variable that cannot be non-nil, or a comparison
// `x > c` / `x >= c` with a constant c of at least 65535.
func (fa *failInfo) deadCond(info *types.Info, cond ast.Expr, varFail map[types.Object]string) bool {
	be, ok := unparen(cond).(*ast.BinaryExpr)
	if !ok {
		return false
	}
	switch be.Op {
	case token.NEQ:
		x, y := unparen(be.X), unparen(be.Y)
		if tv, ok := info.Types[x]; ok && tv.IsNil() {
			x, y = y, x
		}
		if tv, ok := info.Types[y]; !ok || !tv.IsNil() {
			return false
		}
		id, ok := x.(*ast.Ident)
		if !ok {
			return false
		}
		obj := info.ObjectOf(id)
		if obj == nil || !isErrorType(obj.Type()) {
			return false
		}
		if obj.Pkg() != nil && obj.Parent() == obj.Pkg().Scope() {
			return false
		}
		return varFail[obj] == ""
	case token.GTR, token.GEQ, token.LSS, token.LEQ:
		c := be.Y
		if be.Op == token.LSS || be.Op == token.LEQ {
			c = be.X
		}
		if tv, ok := info.Types[c]; ok && tv.Value != nil {
			if v, exact := constInt64(tv); exact && v >= 65535 {
				return true
			}
		}
	}
	return false
}

// exprMayBeError: "" when e is certainly a nil error.
func (fa *failInfo) exprMayBeError(fi *FuncInfo, info *types.Info, e ast.Expr, varFail map[types.Object]string) string {
	e = unparen(e)
	if tv, ok := info.Types[e]; ok && tv.IsNil() {
		return ""
	}
	switch x := e.(type) {
	case *ast.Ident:
		if x.Name == "nil" {
			return ""
		}
		if obj := info.ObjectOf(x); obj != nil {
			if _, isVar := obj.(*types.Var); isVar {
				if obj.Pkg() != nil && obj.Parent() == obj.Pkg().Scope() {
					return "package-level error value " + x.Name
				}
				return varFail[obj]
			}
		}
		return "error value " + x.Name
	case *ast.CallExpr:
		if mf, why := fa.calleeMayFail(fi, info, x); mf {
			return why
		}
		if f := calleeFunc(info, x); f != nil && returnsError(f) {
			return ""
		}
		return "constructed error"
	}
	return "constructed error"
}

// ---- errors of encode calls are looked at ---------------------------------------------------------
//
// errUseRule: in every module function, the error of a call that can fail — restricted by sel to the
// calls of interest (encoders, decoders) — is read on every path before the variable holding it is
// assigned again, before the function returns without it, and before the bytes of the same call are used.
// This is the inductive step the size rules stand on: "the parent's bytes contain each child's bytes"
// holds only if a child that produced nothing makes the parent fail as well.

// childErrRule: the error of every encode call (a MarshalBinary of the module, direct or through an
// interface) is looked at before the bytes are used, unless no implementation behind the call can fail.
func childErrRule(w *World, r *Report, rule string) {
	sites := w.errSites(func(f *types.Func) bool { return f.Name() == "MarshalBinary" })
	perFunc := map[string]int{}
	for _, s := range sites {
		perFunc[s.Func.Key]++
		inst := fmt.Sprintf("%s#%d", types.ExprString(s.Call.Fun), perFunc[s.Func.Key])
		switch s.Status {
		case "checked":
			r.OK(rule, s.Func.Key, inst, w.Pos(s.Pos), "the callee can fail and its error is read on every path before the bytes are used", true)
		case "infallible":
			r.OK(rule, s.Func.Key, inst, w.Pos(s.Pos), "no implementation behind this call has a reachable failing return", true)
		default:
			r.Fail(VViolation, rule, s.Func.Key, inst, w.Pos(s.Pos), fmt.Sprintf("%s: %s. When the child fails it contributes no bytes while the size function still counts it, so the encoding is shorter than the reported size and the length in the header", s.Status, s.Why))
		}
	}
}

// typedNilRule: a pointer that may be nil is not stored into an interface-typed field. Such a field is
// != nil for the guards in Len/MarshalBinary, which then call a method on a nil pointer.
func typedNilRule(w *World, r *Report, rule string) {
	for _, key := range w.sortedFuncKeys() {
		fi := w.Funcs[key]
		if fi.Decl.Body == nil {
			continue
		}
		info := fi.Pkg.TypesInfo
		type cand struct {
			pos  token.Pos
			text string
			rhs  *ast.Ident
		}
		var cands []cand
		ast.Inspect(fi.Decl.Body, func(nd ast.Node) bool {
			as, ok := nd.(*ast.AssignStmt)
			if !ok || len(as.Lhs) != len(as.Rhs) {
				return true
			}
			for i, l := range as.Lhs {
				if _, ok := unparen(l).(*ast.SelectorExpr); !ok {
					continue
				}
				lt, rt := info.TypeOf(l), info.TypeOf(as.Rhs[i])
				if lt == nil || rt == nil {
					continue
				}
				if _, ok := lt.Underlying().(*types.Interface); !ok {
					continue
				}
				if _, ok := rt.Underlying().(*types.Pointer); !ok {
					continue
				}
				id, ok := unparen(as.Rhs[i]).(*ast.Ident)
				if !ok {
					continue // &T{}, new(T), a call: not a variable that can hold a nil pointer
				}
				cands = append(cands, cand{as.Pos(), types.ExprString(l), id})
			}
			return true
		})
		if len(cands) == 0 {
			continue
		}
		mode := "builder"
		if fi.Decl.Name.Name == "UnmarshalBinary" {
			mode = "decode"
		}
		fs := w.Interpret(fi, mode)
		for i, c := range cands {
			inst := fmt.Sprintf("%s#%d", c.text, i+1)
			found, bad := false, ""
			for _, s := range fs.Stores {
				if s.Pos != c.pos {
					continue
				}
				found = true
				switch v := s.Val.(type) {
				case NilV:
					bad = "a nil pointer"
				case MaybeV:
					bad = "a pointer that is nil unless " + v.Cond
				case AltV:
					if v.MayNil {
						bad = "a pointer that is nil on some path"
					}
				}
			}
			switch {
			case bad != "":
				r.Fail(VViolation, rule, fi.Key, inst, w.Pos(c.pos), "stores "+bad+" into the interface-typed "+c.text+": the field then is a typed nil, which passes the != nil guards of the size function and the encoder, and their method call on it dereferences nil")
			case found:
				r.OK(rule, fi.Key, inst, w.Pos(c.pos), "the pointer stored into the interface field is non-nil on every path", true)
			case isParam(info, fi.Decl, c.rhs):
				r.OK(rule, fi.Key, inst, w.Pos(c.pos), "the pointer is the caller's argument", false)
			case w.alwaysAllocated(info, fi.Decl, c.rhs, 0):
				r.OK(rule, fi.Key, inst, w.Pos(c.pos), "the variable stored is only ever assigned a fresh allocation", true)
			case !nilDeclared(info, fi.Decl, c.rhs):
				r.OK(rule, fi.Key, inst, w.Pos(c.pos), "the variable stored is never declared without a value nor assigned nil in this function", false)
			default:
				r.Fail(VUndecided, rule, fi.Key, inst, w.Pos(c.pos), "cannot tell whether the pointer stored into the interface-typed "+c.text+" can be nil: the variable is declared without a value or assigned nil, and the store is outside what the interpreter followed")
			}
		}
	}
}

// alwaysAllocated: id names a local variable that is defined by := or = only from new(T), &T{...} or a
// call of a module constructor, and never declared without a value.
// nilDeclared: the variable is declared by `var v *T` without a value, or assigned the literal nil.
func nilDeclared(info *types.Info, fn *ast.FuncDecl, id *ast.Ident) bool {
	obj := info.ObjectOf(id)
	if obj == nil {
		return true
	}
	found := false
	ast.Inspect(fn, func(nd ast.Node) bool {
		switch x := nd.(type) {
		case *ast.ValueSpec:
			for i, n := range x.Names {
				if info.ObjectOf(n) != obj {
					continue
				}
				if len(x.Values) == 0 {
					found = true
				} else if i < len(x.Values) {
					if tv, ok := info.Types[unparen(x.Values[i])]; ok && tv.IsNil() {
						found = true
					}
				}
			}
		case *ast.AssignStmt:
			for i, l := range x.Lhs {
				if lid, ok := unparen(l).(*ast.Ident); ok && info.ObjectOf(lid) == obj && len(x.Lhs) == len(x.Rhs) {
					if tv, ok := info.Types[unparen(x.Rhs[i])]; ok && tv.IsNil() {
						found = true
					}
				}
			}
		}
		return true
	})
	return found
}

func isParam(info *types.Info, fn *ast.FuncDecl, id *ast.Ident) bool {
	obj := info.ObjectOf(id)
	if obj == nil || fn.Type.Params == nil {
		return false
	}
	is := false
	for _, f := range fn.Type.Params.List {
		for _, n := range f.Names {
			if info.ObjectOf(n) == obj {
				is = true
			}
		}
	}
	if !is {
		return false
	}
	assigned := false
	ast.Inspect(fn.Body, func(nd ast.Node) bool {
		if as, ok := nd.(*ast.AssignStmt); ok {
			for _, l := range as.Lhs {
				if lid, ok := unparen(l).(*ast.Ident); ok && info.ObjectOf(lid) == obj {
					assigned = true
				}
			}
		}
		return true
	})
	return !assigned
}

// neverNilResult: every return of the module function f yields, in position idx, a fresh allocation or a
// variable that only holds fresh allocations — or nil together with a non-nil error.
func (w *World) neverNilResult(f *types.Func, idx int, depth int) bool {
	fi := w.ByObj[f]
	if fi == nil || fi.Decl.Body == nil || depth > 4 {
		return false
	}
	info := fi.Pkg.TypesInfo
	sig := f.Type().(*types.Signature)
	n := sig.Results().Len()
	hasErr := n > 0 && isErrorType(sig.Results().At(n-1).Type())
	ok, rets := true, 0
	ast.Inspect(fi.Decl.Body, func(nd ast.Node) bool {
		switch x := nd.(type) {
		case *ast.FuncLit:
			return false
		case *ast.ReturnStmt:
			rets++
			if len(x.Results) != n {
				ok = false
				return true
			}
			e := unparen(x.Results[idx])
			if tv, isT := info.Types[e]; isT && tv.IsNil() {
				if hasErr && idx != n-1 {
					if etv, isE := info.Types[unparen(x.Results[n-1])]; isE && !etv.IsNil() {
						return true
					}
				}
				ok = false
				return true
			}
			if w.freshExpr(info, e, depth) {
				return true
			}
			if id, isId := e.(*ast.Ident); isId && w.alwaysAllocated(info, fi.Decl, id, depth+1) {
				return true
			}
			ok = false
		}
		return true
	})
	return ok && rets > 0
}

func (w *World) freshExpr(info *types.Info, e ast.Expr, depth int) bool {
	switch x := unparen(e).(type) {
	case *ast.UnaryExpr:
		_, lit := unparen(x.X).(*ast.CompositeLit)
		return x.Op == token.AND && lit
	case *ast.CallExpr:
		if f, isId := unparen(x.Fun).(*ast.Ident); isId && f.Name == "new" {
			if _, isBuiltin := info.Uses[f].(*types.Builtin); isBuiltin {
				return true
			}
		}
		if f := calleeFunc(info, x); f != nil {
			return w.neverNilResult(f, 0, depth+1)
		}
	}
	return false
}

func (w *World) alwaysAllocated(info *types.Info, fn *ast.FuncDecl, id *ast.Ident, depth int) bool {
	obj := info.ObjectOf(id)
	if obj == nil {
		return false
	}
	if v, ok := obj.(*types.Var); !ok || v.IsField() || (obj.Pkg() != nil && obj.Parent() == obj.Pkg().Scope()) {
		return false
	}
	ok, defs := true, 0
	fresh := func(e ast.Expr) bool { return w.freshExpr(info, e, depth) }
	ast.Inspect(fn, func(nd ast.Node) bool {
		switch x := nd.(type) {
		case *ast.AssignStmt:
			for i, l := range x.Lhs {
				if lid, isId := unparen(l).(*ast.Ident); isId && info.ObjectOf(lid) == obj {
					defs++
					switch {
					case len(x.Lhs) == len(x.Rhs):
						if !fresh(x.Rhs[i]) {
							ok = false
						}
					case len(x.Rhs) == 1:
						call, isCall := unparen(x.Rhs[0]).(*ast.CallExpr)
						var f *types.Func
						if isCall {
							f = calleeFunc(info, call)
						}
						if f == nil || !w.neverNilResult(f, i, depth+1) {
							ok = false
						}
					default:
						ok = false
					}
				}
			}
		case *ast.ValueSpec:
			for i, n := range x.Names {
				if info.ObjectOf(n) == obj {
					defs++
					if i >= len(x.Values) || !fresh(x.Values[i]) {
						ok = false
					}
				}
			}
		case *ast.UnaryExpr:
			if x.Op == token.AND {
				if aid, isId := unparen(x.X).(*ast.Ident); isId && info.ObjectOf(aid) == obj {
					ok = false // address taken: may be written elsewhere
				}
			}
		}
		return true
	})
	return ok && defs > 0
}

type errSite struct {
	Func   *FuncInfo
	Call   *ast.CallExpr
	Why    string
	Status string // "checked", or what went wrong
	Pos    token.Pos
}

func (w *World) errSites(sel func(f *types.Func) bool) []*errSite {
	fa := w.failInfo()
	var out []*errSite
	for _, key := range w.sortedFuncKeys() {
		fi := w.Funcs[key]
		if fi.Decl.Body == nil {
			continue
		}
		info := fi.Pkg.TypesInfo
		// gather the interesting call statements
		type pend struct {
			site   *errSite
			errObj types.Object   // nil when the error is assigned to _
			vals   []types.Object // the other results
		}
		byStmt := map[ast.Node]*pend{}
		var bodies []*ast.BlockStmt
		bodies = append(bodies, fi.Decl.Body)
		ast.Inspect(fi.Decl.Body, func(nd ast.Node) bool {
			if fl, ok := nd.(*ast.FuncLit); ok {
				bodies = append(bodies, fl.Body)
			}
			return true
		})
		note := func(stmt ast.Node, call *ast.CallExpr, lhs []ast.Expr) {
			f := calleeFunc(info, call)
			if f == nil || !returnsError(f) || !sel(f) {
				return
			}
			mf, why := fa.calleeMayFail(fi, info, call)
			if !mf {
				out = append(out, &errSite{Func: fi, Call: call, Pos: call.Pos(), Status: "infallible"})
				return
			}
			s := &errSite{Func: fi, Call: call, Why: why, Pos: call.Pos(), Status: "checked"}
			out = append(out, s)
			p := &pend{site: s}
			if lhs == nil {
				s.Status = "the call's results are discarded"
				return
			}
			last := unparen(lhs[len(lhs)-1])
			if id, ok := last.(*ast.Ident); ok {
				if id.Name == "_" {
					s.Status = "the error is assigned to _"
					return
				}
				p.errObj = info.ObjectOf(id)
			} else {
				return // stored into a field or element: out of this rule's reach, counts as looked at
			}
			for _, l := range lhs[:len(lhs)-1] {
				if id, ok := unparen(l).(*ast.Ident); ok && id.Name != "_" {
					p.vals = append(p.vals, info.ObjectOf(id))
				}
			}
			byStmt[stmt] = p
		}
		for _, b := range bodies {
			ast.Inspect(b, func(nd ast.Node) bool {
				switch x := nd.(type) {
				case *ast.FuncLit:
					return x.Body == b
				case *ast.AssignStmt:
					if len(x.Rhs) == 1 {
						if call, ok := unparen(x.Rhs[0]).(*ast.CallExpr); ok {
							note(x, call, x.Lhs)
						}
					}
				case *ast.ExprStmt:
					if call, ok := unparen(x.X).(*ast.CallExpr); ok {
						note(x, call, nil)
					}
				case *ast.ValueSpec:
					if len(x.Values) == 1 {
						if call, ok := unparen(x.Values[0]).(*ast.CallExpr); ok {
							var lhs []ast.Expr
							for _, n := range x.Names {
								lhs = append(lhs, n)
							}
							note(x, call, lhs)
						}
					}
				case *ast.ReturnStmt:
					// return f(x): the error goes to the caller
				}
				return true
			})
		}
		if len(byStmt) == 0 {
			continue
		}
		// forward walk over the CFG of each body from each pending statement
		for _, b := range bodies {
			g := w.funcCFG(info, b)
			named := namedResults(info, fi, b)
			for _, blk := range g.Blocks {
				for i, nd := range blk.Nodes {
					key := ast.Node(nd)
					if ds, ok := nd.(*ast.DeclStmt); ok {
						if gd, ok := ds.Decl.(*ast.GenDecl); ok && len(gd.Specs) == 1 {
							key = gd.Specs[0]
						}
					}
					p := byStmt[key]
					if p == nil {
						continue
					}
					p.site.Status = errFlow(info, g, blk, i+1, p.errObj, p.vals, named)
				}
			}
		}
	}
	return out
}

// namedResults: the named result variables of the function whose body is b (bare returns read them).
func namedResults(info *types.Info, fi *FuncInfo, b *ast.BlockStmt) map[types.Object]bool {
	out := map[types.Object]bool{}
	if b != fi.Decl.Body || fi.Decl.Type.Results == nil {
		return out
	}
	for _, f := range fi.Decl.Type.Results.List {
		for _, n := range f.Names {
			out[info.ObjectOf(n)] = true
		}
	}
	return out
}

// errFlow walks forward from (blk, idx): on every path errObj must be read before it is written again,
// before a value of the same call is used, and before the function ends.
func errFlow(info *types.Info, g *cfg.CFG, start *cfg.Block, idx int, errObj types.Object, vals []types.Object, named map[types.Object]bool) string {
	type item struct {
		b *cfg.Block
		i int
	}
	seen := map[*cfg.Block]bool{}
	work := []item{{start, idx}}
	isVal := func(o types.Object) bool {
		for _, v := range vals {
			if v == o {
				return true
			}
		}
		return false
	}
	for len(work) > 0 {
		it := work[len(work)-1]
		work = work[:len(work)-1]
		done := false
		for i := it.i; i < len(it.b.Nodes) && !done; i++ {
			nd := it.b.Nodes[i]
			reads, writes, valUse := false, false, false
			var lhsIdents = map[*ast.Ident]bool{}
			if as, ok := nd.(*ast.AssignStmt); ok {
				for _, l := range as.Lhs {
					if id, ok := unparen(l).(*ast.Ident); ok {
						lhsIdents[id] = true
						if info.ObjectOf(id) == errObj && as.Tok != token.DEFINE || (as.Tok == token.DEFINE && info.Uses[id] == errObj) {
							writes = true
						}
					}
				}
			}
			ast.Inspect(nd, func(m ast.Node) bool {
				if _, ok := m.(*ast.FuncLit); ok {
					// a closure that mentions the variable may read it
				}
				if id, ok := m.(*ast.Ident); ok && !lhsIdents[id] {
					o := info.Uses[id]
					if o == errObj {
						reads = true
					}
					if o != nil && isVal(o) {
						valUse = true
					}
				}
				return true
			})
			if rs, ok := nd.(*ast.ReturnStmt); ok {
				if len(rs.Results) == 0 && named[errObj] {
					reads = true
				}
				if !reads {
					return "the function returns without looking at the error"
				}
			}
			switch {
			case reads:
				done = true
			case valUse:
				return "the bytes of the call are used before its error is looked at"
			case writes:
				return "the error is overwritten before it is looked at"
			}
		}
		if done {
			continue
		}
		if len(it.b.Succs) == 0 {
			if it.b.Live && !named[errObj] {
				// fell off the end, or a panic/no-return call: only the former matters, and a function
				// with results cannot fall off the end
				continue
			}
			continue
		}
		for _, s := range it.b.Succs {
			if !seen[s] {
				seen[s] = true
				work = append(work, item{s, 0})
			}
		}
	}
	return "checked"
}

func init() {
	extraDumps["mayfail"] = func(w *World, args []string) {
		fa := w.failInfo()
		for _, key := range w.sortedFuncKeys() {
			fi := w.Funcs[key]
			if fa.state[fi.Obj] == 3 {
				fmt.Printf("%-60s %s\n", key, fa.why[fi.Obj])
			}
		}
	}
	extraDumps["errsites"] = func(w *World, args []string) {
		for _, s := range w.errSites(func(f *types.Func) bool { return true }) {
			fmt.Printf("%-55s %-22s %s | %s\n", s.Func.Key, w.Pos(s.Pos), s.Status, s.Why)
		}
	}
}

func constInt64(tv types.TypeAndValue) (int64, bool) {
	if tv.Value == nil {
		return 0, false
	}
	v := constant.ToInt(tv.Value)
	if v.Kind() != constant.Int {
		return 0, false
	}
	return constant.Int64Val(v)
}

func init() {
	extraDumps["extcalls"] = func(w *World, args []string) {
		// external calls made by size functions, encoders and Get* accessors
		count := map[string][]string{}
		for _, key := range w.sortedFuncKeys() {
			fi := w.Funcs[key]
			n := fi.Decl.Name.Name
			if fi.Decl.Body == nil || !(n == "Len" || n == "MarshalBinary" || strings.HasPrefix(n, "Get") || n == "Header" || n == "Write" || n == "String") {
				continue
			}
			info := fi.Pkg.TypesInfo
			ast.Inspect(fi.Decl.Body, func(nd ast.Node) bool {
				call, ok := nd.(*ast.CallExpr)
				if !ok {
					return true
				}
				f := calleeFunc(info, call)
				if f == nil || w.ByObj[f] != nil || f.Pkg() == nil {
					return true
				}
				if strings.HasPrefix(f.Pkg().Path(), w.ModPath) {
					return true
				}
				count[f.FullName()] = append(count[f.FullName()], key)
				return true
			})
		}
		var names []string
		for n := range count {
			names = append(names, n)
		}
		sort.Strings(names)
		for _, n := range names {
			fmt.Printf("%-45s %d  e.g. %s\n", n, len(count[n]), count[n][0])
		}
	}
}

// ---- a result that came with an error is not dereferenced while the error may be set ----
//
// nilResultRule: in `v, err := f(…)` where v is an interface, pointer or map, the library's own functions
// (and every parser the stream is given) return a nil v together with a non-nil error. A method call, field
// access or index on v therefore panics on every path on which err was not established to be nil: behind
// `if err != nil { log }` without leaving, or with no test at all. The walk is over the control-flow graph
// of the function from the assignment on; it stops at a branch edge that establishes err == nil or v != nil
// and at a reassignment of v. Sending, storing, comparing or passing v on is not a dereference.
func nilResultRule(w *World, r *Report, rule string, inScope func(fi *FuncInfo) bool) {
	for _, key := range w.sortedFuncKeys() {
		fi := w.Funcs[key]
		if fi.Decl.Body == nil || !inScope(fi) || strings.HasSuffix(w.Fset.Position(fi.Decl.Pos()).Filename, "_test.go") {
			continue
		}
		info := fi.Pkg.TypesInfo
		bodies := []*ast.BlockStmt{fi.Decl.Body}
		ast.Inspect(fi.Decl.Body, func(nd ast.Node) bool {
			if fl, ok := nd.(*ast.FuncLit); ok {
				bodies = append(bodies, fl.Body)
			}
			return true
		})
		n := 0
		for _, body := range bodies {
			g := w.funcCFG(info, body)
			for _, blk := range g.Blocks {
				for i, nd := range blk.Nodes {
					as, ok := nd.(*ast.AssignStmt)
					if !ok || len(as.Rhs) != 1 || len(as.Lhs) < 2 {
						continue
					}
					call, ok := unparen(as.Rhs[0]).(*ast.CallExpr)
					if !ok {
						continue
					}
					errID, ok := unparen(as.Lhs[len(as.Lhs)-1]).(*ast.Ident)
					if !ok || errID.Name == "_" || !isErrorType(info.TypeOf(errID)) {
						continue
					}
					errObj := info.ObjectOf(errID)
					for _, l := range as.Lhs[:len(as.Lhs)-1] {
						vid, ok := unparen(l).(*ast.Ident)
						if !ok || vid.Name == "_" {
							continue
						}
						vObj := info.ObjectOf(vid)
						if vObj == nil {
							continue
						}
						switch vObj.Type().Underlying().(type) {
						case *types.Interface, *types.Pointer, *types.Map:
						default:
							continue
						}
						n++
						inst := fmt.Sprintf("%s:=%s#%d", vid.Name, types.ExprString(call.Fun), n)
						if at, what := derefBeforeCheck(info, g, blk, i+1, errObj, vObj); what != "" {
							r.Fail(VViolation, rule, fi.Key, inst, w.Pos(at), fmt.Sprintf("%s is %s on a path where %s may be non-nil: a failed call returns a nil %s, and the goroutine panics", vid.Name, what, errID.Name, vid.Name))
						} else {
							r.OK(rule, fi.Key, inst, w.Pos(as.Pos()), fmt.Sprintf("%s is dereferenced only where %s was found nil (or not at all)", vid.Name, errID.Name), true)
						}
					}
				}
			}
		}
	}
}

// derefBeforeCheck walks forward from (start, idx) while err may be non-nil.
func derefBeforeCheck(info *types.Info, g *cfg.CFG, start *cfg.Block, idx int, errObj, vObj types.Object) (token.Pos, string) {
	type item struct {
		b *cfg.Block
		i int
	}
	seen := map[*cfg.Block]bool{}
	work := []item{{start, idx}}
	// establishes(cond, branch): taking this branch of cond shows err == nil or v != nil
	var establishes func(cond ast.Expr, branch bool) bool
	establishes = func(cond ast.Expr, branch bool) bool {
		switch c := unparen(cond).(type) {
		case *ast.UnaryExpr:
			if c.Op == token.NOT {
				return establishes(c.X, !branch)
			}
		case *ast.BinaryExpr:
			switch c.Op {
			case token.LAND:
				if branch {
					return establishes(c.X, true) || establishes(c.Y, true)
				}
			case token.LOR:
				if !branch {
					return establishes(c.X, false) || establishes(c.Y, false)
				}
			case token.EQL, token.NEQ:
				var other ast.Expr
				var obj types.Object
				if id, ok := unparen(c.X).(*ast.Ident); ok && (info.Uses[id] == errObj || info.Uses[id] == vObj) {
					obj, other = info.Uses[id], c.Y
				} else if id, ok := unparen(c.Y).(*ast.Ident); ok && (info.Uses[id] == errObj || info.Uses[id] == vObj) {
					obj, other = info.Uses[id], c.X
				}
				if oid, ok := unparen(other).(*ast.Ident); !ok || oid.Name != "nil" || obj == nil {
					return false
				}
				isNilOnBranch := (c.Op == token.EQL) == branch
				if obj == errObj {
					return isNilOnBranch
				}
				return !isNilOnBranch
			}
		}
		return false
	}
	for len(work) > 0 {
		it := work[len(work)-1]
		work = work[:len(work)-1]
		stop := false
		for i := it.i; i < len(it.b.Nodes) && !stop; i++ {
			nd := it.b.Nodes[i]
			var at token.Pos
			what := ""
			ast.Inspect(nd, func(m ast.Node) bool {
				if what != "" {
					return false
				}
				switch x := m.(type) {
				case *ast.FuncLit:
					return false
				case *ast.SelectorExpr:
					if id, ok := unparen(x.X).(*ast.Ident); ok && info.Uses[id] == vObj {
						at, what = x.Pos(), "used as the receiver of ."+x.Sel.Name
					}
				case *ast.IndexExpr:
					if id, ok := unparen(x.X).(*ast.Ident); ok && info.Uses[id] == vObj {
						if _, isMap := vObj.Type().Underlying().(*types.Map); !isMap {
							at, what = x.Pos(), "indexed"
						}
					}
				case *ast.StarExpr:
					if id, ok := unparen(x.X).(*ast.Ident); ok && info.Uses[id] == vObj {
						at, what = x.Pos(), "dereferenced"
					}
				}
				return true
			})
			if what != "" {
				return at, what
			}
			if as, ok := nd.(*ast.AssignStmt); ok {
				for _, l := range as.Lhs {
					if id, ok := unparen(l).(*ast.Ident); ok && (info.ObjectOf(id) == vObj || info.ObjectOf(id) == errObj) {
						stop = true // a new value, or a new error: this pair is over
					}
				}
			}
		}
		if stop {
			continue
		}
		// the branch condition, if this block ends in one
		var cond ast.Expr
		if len(it.b.Succs) == 2 && len(it.b.Nodes) > 0 {
			if e, ok := it.b.Nodes[len(it.b.Nodes)-1].(ast.Expr); ok {
				cond = e
			}
		}
		for si, s := range it.b.Succs {
			if cond != nil && establishes(cond, si == 0) {
				continue
			}
			if !seen[s] {
				seen[s] = true
				work = append(work, item{s, 0})
			}
		}
	}
	return token.NoPos, ""
}

// ---- a nil pointer does not become a non-nil interface value ----
//
// typedNilVarRule: when a function whose result is a concrete pointer type returns the literal nil on some
// path ("nothing to report", "not this kind") and the caller assigns that result to a variable of interface
// type (the util.Message result of the parser, an `error`), the variable holds a typed nil: `v == nil` is
// false, the caller's fallback or success test goes the wrong way, and the first method call dereferences
// nil. For every assignment of a module call's pointer result to an interface-typed variable, the callee
// never returns a bare nil in that position (together with a nil error, where it has one).
func typedNilVarRule(w *World, r *Report, rule string, inScope func(fi *FuncInfo) bool) {
	returnsBareNil := func(f *types.Func, idx int) (token.Pos, bool) {
		fi := w.ByObj[f.Origin()]
		if fi == nil || fi.Decl.Body == nil {
			return token.NoPos, false
		}
		info := fi.Pkg.TypesInfo
		sig := f.Type().(*types.Signature)
		n := sig.Results().Len()
		hasErr := n > 1 && isErrorType(sig.Results().At(n-1).Type()) && idx != n-1
		var at token.Pos
		ast.Inspect(fi.Decl.Body, func(nd ast.Node) bool {
			switch x := nd.(type) {
			case *ast.FuncLit:
				return false
			case *ast.ReturnStmt:
				if len(x.Results) != n || at.IsValid() {
					return true
				}
				if tv, ok := info.Types[unparen(x.Results[idx])]; ok && tv.IsNil() {
					if hasErr {
						if etv, ok := info.Types[unparen(x.Results[n-1])]; ok && !etv.IsNil() {
							return true // nil together with an error: the caller looks at the error
						}
					}
					at = x.Pos()
				}
			}
			return true
		})
		return at, at.IsValid()
	}
	for _, key := range w.sortedFuncKeys() {
		fi := w.Funcs[key]
		if fi.Decl.Body == nil || !inScope(fi) || strings.HasSuffix(w.Fset.Position(fi.Decl.Pos()).Filename, "_test.go") {
			continue
		}
		info := fi.Pkg.TypesInfo
		n := 0
		ast.Inspect(fi.Decl.Body, func(nd ast.Node) bool {
			as, ok := nd.(*ast.AssignStmt)
			if !ok || len(as.Rhs) != 1 {
				return true
			}
			call, ok := unparen(as.Rhs[0]).(*ast.CallExpr)
			if !ok {
				return true
			}
			f := calleeFunc(info, call)
			if f == nil || w.ByObj[f.Origin()] == nil {
				return true
			}
			res := f.Type().(*types.Signature).Results()
			if res.Len() != len(as.Lhs) {
				return true
			}
			for i, l := range as.Lhs {
				id, ok := unparen(l).(*ast.Ident)
				if !ok || id.Name == "_" {
					continue
				}
				lt := info.TypeOf(id)
				if lt == nil {
					continue
				}
				if _, isI := lt.Underlying().(*types.Interface); !isI {
					continue
				}
				if _, isP := res.At(i).Type().Underlying().(*types.Pointer); !isP {
					continue
				}
				n++
				inst := fmt.Sprintf("%s=%s#%d", id.Name, f.Name(), n)
				if at, bad := returnsBareNil(f, i); bad {
					r.Fail(VViolation, rule, fi.Key, inst, w.Pos(as.Pos()), fmt.Sprintf("%s has the interface type %s and is assigned the %s result of %s, which returns a bare nil at %s: the variable then holds a typed nil — it compares unequal to nil, so a fallback or a success test on it goes the wrong way, and the first method call on it dereferences nil", id.Name, types.TypeString(lt, nil), types.TypeString(res.At(i).Type(), func(p *types.Package) string { return p.Name() }), f.Name(), w.Pos(at)))
				} else {
					r.OK(rule, fi.Key, inst, w.Pos(as.Pos()), "the callee never returns a bare nil pointer in this position", true)
				}
			}
			return true
		})
	}
}

// ---- a value meant for an outer variable is not lost in a shadowing declaration ----
//
// shadowRule: `v, err := f()` inside an if, for, switch or block declares a NEW v when one of the names on
// the left is new, even if a variable v of the same type already exists in the enclosing function. What was
// computed then never reaches the outer v: the named result keeps its old value, the decoded message is
// thrown away, the shifted value is not the one that gets encoded. For every := in an inner scope that
// re-declares the name of a variable of the same function with an identical (non-error) type, the outer
// variable must not be read after the inner scope ends (and must not be a named result). Error variables
// are left to the error rules: shadowing err in `if err := …; err != nil` is the idiom.
func shadowRule(w *World, r *Report, rule string, inScope func(fi *FuncInfo) bool) {
	nFuncs, nDefs := 0, 0
	defer func() {
		r.OK(rule, "inventory", "", "-", fmt.Sprintf("%d short variable declarations in %d functions examined", nDefs, nFuncs), true)
	}()
	for _, key := range w.sortedFuncKeys() {
		fi := w.Funcs[key]
		if fi.Decl.Body == nil || !inScope(fi) || strings.HasSuffix(w.Fset.Position(fi.Decl.Pos()).Filename, "_test.go") {
			continue
		}
		info := fi.Pkg.TypesInfo
		named := map[types.Object]bool{}
		if fi.Decl.Type.Results != nil {
			for _, f := range fi.Decl.Type.Results.List {
				for _, nm := range f.Names {
					named[info.Defs[nm]] = true
				}
			}
		}
		n := 0
		nFuncs++
		ast.Inspect(fi.Decl.Body, func(nd ast.Node) bool {
			as, ok := nd.(*ast.AssignStmt)
			if !ok || as.Tok != token.DEFINE {
				return true
			}
			nDefs++
			for _, l := range as.Lhs {
				id, ok := l.(*ast.Ident)
				if !ok || id.Name == "_" {
					continue
				}
				v, _ := info.Defs[id].(*types.Var)
				if v == nil || v.Parent() == nil || v.Parent().Parent() == nil {
					continue
				}
				_, o := v.Parent().Parent().LookupParent(id.Name, id.Pos())
				outer, _ := o.(*types.Var)
				if outer == nil || outer == v || outer.Pos() < fi.Decl.Pos() || outer.Pos() > fi.Decl.End() {
					continue
				}
				// same type — or, for a named result, any type that could have been assigned to it (a concrete
				// message where the result is the message interface)
				if isErrorType(v.Type()) || isErrorType(outer.Type()) {
					continue
				}
				if !types.Identical(v.Type(), outer.Type()) && !(named[outer] && types.AssignableTo(v.Type(), outer.Type())) {
					continue
				}
				n++
				inst := fmt.Sprintf("%s#%d", id.Name, n)
				end := v.Parent().End()
				usedAfter := token.NoPos
				ast.Inspect(fi.Decl.Body, func(m ast.Node) bool {
					if u, ok := m.(*ast.Ident); ok && u.Pos() > end && info.Uses[u] == outer && !usedAfter.IsValid() {
						usedAfter = u.Pos()
					}
					return true
				})
				switch {
				case named[outer]:
					r.Fail(VViolation, rule, fi.Key, inst, w.Pos(id.Pos()), fmt.Sprintf("%s := declares a new variable that shadows the function's named result %s: what is computed here is thrown away when the block ends, and the function returns the result's earlier value", id.Name, id.Name))
				case usedAfter.IsValid():
					r.Fail(VViolation, rule, fi.Key, inst, w.Pos(id.Pos()), fmt.Sprintf("%s := declares a new variable that shadows the %s declared at %s, which is read again at %s after this block: the value computed here does not reach it", id.Name, id.Name, w.Pos(outer.Pos()), w.Pos(usedAfter)))
				default:
					r.OK(rule, fi.Key, inst, w.Pos(id.Pos()), "the shadowed variable is not read after the inner scope", true)
				}
			}
			return true
		})
	}
}

func init() {
	extraDumps["shadows"] = func(w *World, args []string) {
		r := NewReport("C05", "quick")
		r.Rule("shadow", "", 0)
		shadowRule(w, r, "shadow", func(*FuncInfo) bool { return true })
		for _, o := range r.Obs {
			fmt.Printf("%s %s/%s at %s\n", o.Verdict, o.Subject, o.Instance, o.Pos)
		}
		fmt.Println("shadow sites:", len(r.Obs))
	}
}

// ---- a shift does not push every bit out of its operand's type ----
//
// shiftWidthRule: Go evaluates `a & m << 8` as `(a & m) << 8` in the type of a; when a is a byte the shift
// by 8 (or more) happens in uint8 BEFORE any widening and the result is always 0 — the high bits of a
// length or bit count are silently lost. For every shift with a constant count: the count is smaller than
// the width of the (typed, non-constant) left operand.
func shiftWidthRule(w *World, r *Report, rule string, inScope func(fi *FuncInfo) bool) {
	nShifts := 0
	for _, key := range w.sortedFuncKeys() {
		fi := w.Funcs[key]
		if fi.Decl.Body == nil || !inScope(fi) || strings.HasSuffix(w.Fset.Position(fi.Decl.Pos()).Filename, "_test.go") {
			continue
		}
		info := fi.Pkg.TypesInfo
		n := 0
		ast.Inspect(fi.Decl.Body, func(nd ast.Node) bool {
			var x, y ast.Expr
			var op token.Token
			switch b := nd.(type) {
			case *ast.BinaryExpr:
				x, y, op = b.X, b.Y, b.Op
			case *ast.AssignStmt:
				if (b.Tok == token.SHL_ASSIGN || b.Tok == token.SHR_ASSIGN) && len(b.Lhs) == 1 && len(b.Rhs) == 1 {
					x, y, op = b.Lhs[0], b.Rhs[0], token.SHL
				}
			}
			if x == nil || op != token.SHL && op != token.SHR {
				return true
			}
			tv, ok := info.Types[x]
			if !ok || tv.Value != nil { // a constant operand is evaluated exactly
				return true
			}
			k, isC := constIntOf(info, y)
			if !isC {
				return true
			}
			bits, _ := intBits(tv.Type)
			if bits <= 0 {
				return true
			}
			nShifts++
			if k >= int64(bits) {
				n++
				r.Fail(VViolation, rule, fi.Key, fmt.Sprintf("%s#%d", types.ExprString(x), n), w.Pos(nd.Pos()), fmt.Sprintf("%s has the %d-bit type %s and is shifted by %d: every bit leaves the operand before any conversion widens it, the result is always 0 (Go applies << and & left to right in the operand's own type)", types.ExprString(x), bits, types.TypeString(tv.Type, nil), k))
			}
			return true
		})
	}
	r.OK(rule, "inventory", "", "-", fmt.Sprintf("%d shifts by a constant examined: each count is below the width of its operand's type", nShifts), true)
}
