package main

// Constant folding of package initialisers. A package-level table may be written as one literal, or as a
// literal that a helper completes in a loop (a family of indexed names generated from a small table), or
// be filled in by an init function. None of these has an input: the value is a closed term of the source,
// and this file folds such terms to the value they denote — literals, arithmetic, conversions with their
// wrap-around, struct/slice/map construction, loops with folded bounds, calls of functions of the module
// whose bodies fold the same way, and the string formatting of the standard library for folded arguments.
// Anything else (a call out of the module, a channel, a goroutine, an address taken of something that is
// not a literal, more than foldBudget steps) stops the folding with a reason, and the caller reports the
// table as undecided. Nothing of the library is compiled or run.

import (
	"fmt"
	"go/ast"
	"go/constant"
	"go/token"
	"go/types"
	"strconv"
	"strings"

	"golang.org/x/tools/go/packages"
)

const foldBudget = 2_000_000

type cval interface{}

type cInt struct {
	V int64
}
type cStr struct{ S string }
type cBool struct{ B bool }
type cNil struct{}
type cStruct struct {
	F map[string]cval
}
type cSlice struct{ E []cval }
type cMap struct {
	Keys []string // insertion order, string keys only
	V    map[string]cval
	Pos  map[string]token.Pos
}
type cPtr struct{ To cval }

type foldErr struct {
	pos token.Pos
	msg string
}

type folder struct {
	w       *World
	globals map[*types.Var]cval
	busy    map[*types.Var]bool
	steps   int
}

type foldFrame struct {
	pkg  *packages.Package
	vars map[types.Object]*cval
	ret  []cval
	done bool // a return was executed
	brk  bool
	cont bool
}

func (f *folder) fail(pos token.Pos, format string, a ...interface{}) {
	panic(foldErr{pos, fmt.Sprintf(format, a...)})
}

func (f *folder) tick(pos token.Pos) {
	f.steps++
	if f.steps > foldBudget {
		f.fail(pos, "initialiser does not fold within %d steps", foldBudget)
	}
}

// FoldGlobal folds the initial value of a package-level variable, including what the package's init
// functions add to it when they mention it. It returns the reason when the value is not a closed term.
func (w *World) FoldGlobal(v *types.Var) (val cval, why string) {
	f := &folder{w: w, globals: map[*types.Var]cval{}, busy: map[*types.Var]bool{}}
	defer func() {
		if r := recover(); r != nil {
			if fe, ok := r.(foldErr); ok {
				val, why = nil, fe.msg+" at "+w.Pos(fe.pos)
				return
			}
			panic(r)
		}
	}()
	val = f.global(v, token.NoPos)
	// init functions of the variable's package that mention it
	for _, p := range w.Mod {
		if p.Types != v.Pkg() {
			continue
		}
		for _, file := range p.Syntax {
			for _, d := range file.Decls {
				fd, ok := d.(*ast.FuncDecl)
				if !ok || fd.Recv != nil || fd.Name.Name != "init" || fd.Body == nil {
					continue
				}
				mentions := false
				ast.Inspect(fd.Body, func(n ast.Node) bool {
					if id, ok := n.(*ast.Ident); ok && p.TypesInfo.Uses[id] == v {
						mentions = true
					}
					return !mentions
				})
				if mentions {
					fr := &foldFrame{pkg: p, vars: map[types.Object]*cval{}}
					f.block(fr, fd.Body.List)
				}
			}
		}
	}
	return f.globals[v], ""
}

func (f *folder) global(v *types.Var, at token.Pos) cval {
	if val, ok := f.globals[v]; ok {
		return val
	}
	if f.busy[v] {
		f.fail(at, "initialisation cycle through %s", v.Name())
	}
	f.busy[v] = true
	defer delete(f.busy, v)
	init, pkg := f.w.globalInit(v)
	var val cval
	if init == nil {
		val = f.zero(v.Type(), at)
	} else {
		fr := &foldFrame{pkg: pkg, vars: map[types.Object]*cval{}}
		val = f.expr(fr, init)
	}
	f.globals[v] = val
	return val
}

func (f *folder) zero(t types.Type, at token.Pos) cval {
	switch u := t.Underlying().(type) {
	case *types.Basic:
		switch {
		case u.Info()&types.IsInteger != 0:
			return cInt{0}
		case u.Info()&types.IsString != 0:
			return cStr{""}
		case u.Info()&types.IsBoolean != 0:
			return cBool{false}
		}
	case *types.Struct:
		s := &cStruct{F: map[string]cval{}}
		for i := 0; i < u.NumFields(); i++ {
			s.F[u.Field(i).Name()] = f.zero(u.Field(i).Type(), at)
		}
		return s
	case *types.Pointer, *types.Map, *types.Slice, *types.Interface, *types.Signature:
		return cNil{}
	case *types.Array:
		s := &cSlice{}
		for i := int64(0); i < u.Len(); i++ {
			s.E = append(s.E, f.zero(u.Elem(), at))
		}
		return s
	}
	f.fail(at, "no folded zero value for type %s", t)
	return nil
}

// wrapInt applies the wrap-around of a sized integer type.
func wrapInt(v int64, t types.Type) int64 {
	b, ok := t.Underlying().(*types.Basic)
	if !ok {
		return v
	}
	switch b.Kind() {
	case types.Uint8:
		return int64(uint8(v))
	case types.Uint16:
		return int64(uint16(v))
	case types.Uint32:
		return int64(uint32(v))
	case types.Int8:
		return int64(int8(v))
	case types.Int16:
		return int64(int16(v))
	case types.Int32:
		return int64(int32(v))
	}
	return v
}

func (f *folder) expr(fr *foldFrame, e ast.Expr) cval {
	f.tick(e.Pos())
	info := fr.pkg.TypesInfo
	if tv, ok := info.Types[e]; ok && tv.Value != nil {
		switch tv.Value.Kind() {
		case constant.Int:
			if n, ok := constant.Int64Val(tv.Value); ok {
				return cInt{n}
			}
		case constant.String:
			return cStr{constant.StringVal(tv.Value)}
		case constant.Bool:
			return cBool{constant.BoolVal(tv.Value)}
		}
		f.fail(e.Pos(), "constant %s is outside the folded domain", tv.Value)
	}
	switch x := e.(type) {
	case *ast.ParenExpr:
		return f.expr(fr, x.X)
	case *ast.Ident:
		if x.Name == "nil" {
			return cNil{}
		}
		obj := info.Uses[x]
		if obj == nil {
			obj = info.Defs[x]
		}
		if p, ok := fr.vars[obj]; ok {
			return *p
		}
		if v, ok := obj.(*types.Var); ok && v.Parent() == v.Pkg().Scope() {
			if !f.w.isModPkg(v.Pkg()) {
				f.fail(x.Pos(), "value of %s.%s (outside the module) is not folded", v.Pkg().Name(), v.Name())
			}
			return f.global(v, x.Pos())
		}
		f.fail(x.Pos(), "identifier %s has no folded value", x.Name)
	case *ast.BasicLit:
		f.fail(x.Pos(), "literal %s is outside the folded domain", x.Value)
	case *ast.CompositeLit:
		return f.composite(fr, x, info.TypeOf(x))
	case *ast.UnaryExpr:
		switch x.Op {
		case token.AND:
			if _, ok := unparen(x.X).(*ast.CompositeLit); ok {
				return &cPtr{To: f.expr(fr, x.X)}
			}
			// the address of a local struct variable (`h := row.header; m[k] = &h`): a pointer to that
			// variable's own copy
			if id, ok := unparen(x.X).(*ast.Ident); ok {
				obj := info.Uses[id]
				if p, ok := fr.vars[obj]; ok {
					if s, isStruct := (*p).(*cStruct); isStruct {
						return &cPtr{To: s}
					}
				}
			}
			f.fail(x.Pos(), "address of something that is neither a literal nor a local struct variable is not folded")
		case token.SUB:
			if n, ok := f.expr(fr, x.X).(cInt); ok {
				return cInt{wrapInt(-n.V, info.TypeOf(x))}
			}
		case token.NOT:
			if b, ok := f.expr(fr, x.X).(cBool); ok {
				return cBool{!b.B}
			}
		case token.XOR:
			if n, ok := f.expr(fr, x.X).(cInt); ok {
				return cInt{wrapInt(^n.V, info.TypeOf(x))}
			}
		}
		f.fail(x.Pos(), "operator %s is not folded here", x.Op)
	case *ast.StarExpr:
		if p, ok := f.expr(fr, x.X).(*cPtr); ok {
			return p.To
		}
		f.fail(x.Pos(), "dereference of a value that is not a folded pointer")
	case *ast.SelectorExpr:
		if sel, ok := info.Selections[x]; ok && sel.Kind() == types.FieldVal {
			base := f.expr(fr, x.X)
			if p, ok := base.(*cPtr); ok {
				base = p.To
			}
			if s, ok := base.(*cStruct); ok {
				if v, ok := s.F[x.Sel.Name]; ok {
					return v
				}
			}
			f.fail(x.Pos(), "field %s of a value that is not a folded struct", x.Sel.Name)
		}
		// qualified identifier
		if obj, ok := info.Uses[x.Sel].(*types.Var); ok && obj.Parent() == obj.Pkg().Scope() {
			if !f.w.isModPkg(obj.Pkg()) {
				f.fail(x.Pos(), "value of %s.%s (outside the module) is not folded", obj.Pkg().Name(), obj.Name())
			}
			return f.global(obj, x.Pos())
		}
		f.fail(x.Pos(), "selector %s is not folded", types.ExprString(x))
	case *ast.IndexExpr:
		base := f.expr(fr, x.X)
		idx := f.expr(fr, x.Index)
		switch b := base.(type) {
		case *cSlice:
			if n, ok := idx.(cInt); ok && n.V >= 0 && n.V < int64(len(b.E)) {
				return b.E[n.V]
			}
			f.fail(x.Pos(), "index outside the folded slice")
		case *cMap:
			if k, ok := idx.(cStr); ok {
				if v, ok := b.V[k.S]; ok {
					return v
				}
				if mt, ok := info.TypeOf(x.X).Underlying().(*types.Map); ok {
					return f.zero(mt.Elem(), x.Pos())
				}
			}
		case cStr:
			if n, ok := idx.(cInt); ok && n.V >= 0 && n.V < int64(len(b.S)) {
				return cInt{int64(b.S[n.V])}
			}
		}
		f.fail(x.Pos(), "index expression is not folded")
	case *ast.BinaryExpr:
		return f.binary(fr, x)
	case *ast.CallExpr:
		vals := f.call(fr, x)
		if len(vals) != 1 {
			f.fail(x.Pos(), "call with %d results used as a value", len(vals))
		}
		return vals[0]
	case *ast.FuncLit:
		f.fail(x.Pos(), "function literals are not folded")
	}
	f.fail(e.Pos(), "expression %s is not folded", types.ExprString(e))
	return nil
}

func (f *folder) composite(fr *foldFrame, x *ast.CompositeLit, t types.Type) cval {
	info := fr.pkg.TypesInfo
	elemLit := func(e ast.Expr, et types.Type) cval {
		// elided element types: {…} inside a slice/map literal
		if cl, ok := e.(*ast.CompositeLit); ok && cl.Type == nil {
			if pt, ok := et.Underlying().(*types.Pointer); ok {
				return &cPtr{To: f.composite(fr, cl, pt.Elem())}
			}
			return f.composite(fr, cl, et)
		}
		return f.expr(fr, e)
	}
	switch u := t.Underlying().(type) {
	case *types.Struct:
		s := f.zero(t, x.Pos()).(*cStruct)
		for i, el := range x.Elts {
			if kv, ok := el.(*ast.KeyValueExpr); ok {
				name := kv.Key.(*ast.Ident).Name
				var ft types.Type
				for j := 0; j < u.NumFields(); j++ {
					if u.Field(j).Name() == name {
						ft = u.Field(j).Type()
					}
				}
				s.F[name] = elemLit(kv.Value, ft)
			} else if i < u.NumFields() {
				s.F[u.Field(i).Name()] = elemLit(el, u.Field(i).Type())
			}
		}
		return s
	case *types.Slice, *types.Array:
		var et types.Type
		if sl, ok := u.(*types.Slice); ok {
			et = sl.Elem()
		} else {
			et = u.(*types.Array).Elem()
		}
		s := &cSlice{}
		if arr, ok := u.(*types.Array); ok {
			for i := int64(0); i < arr.Len(); i++ {
				s.E = append(s.E, f.zero(et, x.Pos()))
			}
		}
		next := int64(0)
		for _, el := range x.Elts {
			val := el
			if kv, ok := el.(*ast.KeyValueExpr); ok {
				k, ok := f.expr(fr, kv.Key).(cInt)
				if !ok {
					f.fail(kv.Pos(), "slice literal key is not a folded integer")
				}
				next, val = k.V, kv.Value
			}
			for int64(len(s.E)) <= next {
				s.E = append(s.E, f.zero(et, x.Pos()))
			}
			s.E[next] = elemLit(val, et)
			next++
		}
		return s
	case *types.Map:
		m := &cMap{V: map[string]cval{}, Pos: map[string]token.Pos{}}
		for _, el := range x.Elts {
			kv, ok := el.(*ast.KeyValueExpr)
			if !ok {
				continue
			}
			k := f.mapKey(fr, kv.Key)
			m.set(k, elemLit(kv.Value, u.Elem()), kv.Pos())
		}
		return m
	}
	_ = info
	f.fail(x.Pos(), "composite literal of type %s is not folded", t)
	return nil
}

func (f *folder) mapKey(fr *foldFrame, e ast.Expr) string {
	switch k := f.expr(fr, e).(type) {
	case cStr:
		return k.S
	case cInt:
		return strconv.FormatInt(k.V, 10)
	}
	f.fail(e.Pos(), "map key is not a folded string or integer")
	return ""
}

func (m *cMap) set(k string, v cval, pos token.Pos) {
	if _, ok := m.V[k]; !ok {
		m.Keys = append(m.Keys, k)
	}
	m.V[k] = v
	m.Pos[k] = pos
}

func (f *folder) binary(fr *foldFrame, x *ast.BinaryExpr) cval {
	info := fr.pkg.TypesInfo
	if x.Op == token.LAND || x.Op == token.LOR {
		a, ok := f.expr(fr, x.X).(cBool)
		if !ok {
			f.fail(x.Pos(), "operand is not a folded boolean")
		}
		if x.Op == token.LAND && !a.B {
			return cBool{false}
		}
		if x.Op == token.LOR && a.B {
			return cBool{true}
		}
		b, ok := f.expr(fr, x.Y).(cBool)
		if !ok {
			f.fail(x.Pos(), "operand is not a folded boolean")
		}
		return b
	}
	a, b := f.expr(fr, x.X), f.expr(fr, x.Y)
	if sa, ok := a.(cStr); ok {
		sb, ok := b.(cStr)
		if !ok {
			f.fail(x.Pos(), "operands of different folded kinds")
		}
		switch x.Op {
		case token.ADD:
			return cStr{sa.S + sb.S}
		case token.EQL:
			return cBool{sa.S == sb.S}
		case token.NEQ:
			return cBool{sa.S != sb.S}
		case token.LSS:
			return cBool{sa.S < sb.S}
		case token.GTR:
			return cBool{sa.S > sb.S}
		}
		f.fail(x.Pos(), "string operator %s is not folded", x.Op)
	}
	if ba, ok := a.(cBool); ok {
		if bb, ok := b.(cBool); ok {
			switch x.Op {
			case token.EQL:
				return cBool{ba.B == bb.B}
			case token.NEQ:
				return cBool{ba.B != bb.B}
			}
		}
	}
	_, an := a.(cNil)
	_, bn := b.(cNil)
	if an || bn {
		switch x.Op {
		case token.EQL:
			return cBool{an && bn}
		case token.NEQ:
			return cBool{!(an && bn)}
		}
	}
	ia, ok1 := a.(cInt)
	ib, ok2 := b.(cInt)
	if !ok1 || !ok2 {
		f.fail(x.Pos(), "operands of %s are not folded integers", x.Op)
	}
	t := info.TypeOf(x)
	unsigned := false
	if bt, ok := info.TypeOf(x.X).Underlying().(*types.Basic); ok && bt.Info()&types.IsUnsigned != 0 {
		unsigned = true
	}
	var r int64
	switch x.Op {
	case token.ADD:
		r = ia.V + ib.V
	case token.SUB:
		r = ia.V - ib.V
	case token.MUL:
		r = ia.V * ib.V
	case token.QUO:
		if ib.V == 0 {
			f.fail(x.Pos(), "division by zero while folding")
		}
		if unsigned {
			r = int64(uint64(ia.V) / uint64(ib.V))
		} else {
			r = ia.V / ib.V
		}
	case token.REM:
		if ib.V == 0 {
			f.fail(x.Pos(), "division by zero while folding")
		}
		if unsigned {
			r = int64(uint64(ia.V) % uint64(ib.V))
		} else {
			r = ia.V % ib.V
		}
	case token.AND:
		r = ia.V & ib.V
	case token.OR:
		r = ia.V | ib.V
	case token.XOR:
		r = ia.V ^ ib.V
	case token.AND_NOT:
		r = ia.V &^ ib.V
	case token.SHL:
		if ib.V < 0 || ib.V > 63 {
			return cInt{0}
		}
		r = ia.V << uint(ib.V)
		t = info.TypeOf(x.X)
	case token.SHR:
		if ib.V < 0 || ib.V > 63 {
			return cInt{0}
		}
		if unsigned {
			r = int64(uint64(ia.V) >> uint(ib.V))
		} else {
			r = ia.V >> uint(ib.V)
		}
		t = info.TypeOf(x.X)
	case token.EQL:
		return cBool{ia.V == ib.V}
	case token.NEQ:
		return cBool{ia.V != ib.V}
	case token.LSS:
		return cBool{ia.V < ib.V}
	case token.LEQ:
		return cBool{ia.V <= ib.V}
	case token.GTR:
		return cBool{ia.V > ib.V}
	case token.GEQ:
		return cBool{ia.V >= ib.V}
	default:
		f.fail(x.Pos(), "operator %s is not folded", x.Op)
	}
	if bt, ok := t.Underlying().(*types.Basic); ok && (bt.Kind() == types.Uint64 || bt.Kind() == types.Uint || bt.Kind() == types.Uintptr) && (r < 0) {
		f.fail(x.Pos(), "64-bit unsigned value outside the folded domain")
	}
	return cInt{wrapInt(r, t)}
}

// goArg converts a folded value to the Go value the formatting functions see.
func (f *folder) goArg(v cval, at token.Pos) interface{} {
	switch a := v.(type) {
	case cInt:
		return a.V
	case cStr:
		return a.S
	case cBool:
		return a.B
	}
	f.fail(at, "argument of a formatting call is not a folded scalar")
	return nil
}

func (f *folder) call(fr *foldFrame, x *ast.CallExpr) []cval {
	info := fr.pkg.TypesInfo
	// conversion
	if tv, ok := info.Types[x.Fun]; ok && tv.IsType() && len(x.Args) == 1 {
		v := f.expr(fr, x.Args[0])
		switch a := v.(type) {
		case cInt:
			if b, ok := tv.Type.Underlying().(*types.Basic); ok && b.Info()&types.IsString != 0 {
				return []cval{cStr{string(rune(a.V))}}
			}
			return []cval{cInt{wrapInt(a.V, tv.Type)}}
		default:
			return []cval{v}
		}
	}
	// builtins
	if id, ok := unparen(x.Fun).(*ast.Ident); ok {
		if _, isB := info.Uses[id].(*types.Builtin); isB {
			switch id.Name {
			case "len":
				switch a := f.expr(fr, x.Args[0]).(type) {
				case *cSlice:
					return []cval{cInt{int64(len(a.E))}}
				case *cMap:
					return []cval{cInt{int64(len(a.Keys))}}
				case cStr:
					return []cval{cInt{int64(len(a.S))}}
				case cNil:
					return []cval{cInt{0}}
				}
			case "make":
				switch u := info.TypeOf(x).Underlying().(type) {
				case *types.Map:
					return []cval{&cMap{V: map[string]cval{}, Pos: map[string]token.Pos{}}}
				case *types.Slice:
					s := &cSlice{}
					if len(x.Args) >= 2 {
						if n, ok := f.expr(fr, x.Args[1]).(cInt); ok && n.V >= 0 && n.V < 1<<20 {
							for i := int64(0); i < n.V; i++ {
								s.E = append(s.E, f.zero(u.Elem(), x.Pos()))
							}
						}
					}
					return []cval{s}
				}
			case "append":
				base := f.expr(fr, x.Args[0])
				s := &cSlice{}
				if b, ok := base.(*cSlice); ok {
					s.E = append(s.E, b.E...)
				} else if _, ok := base.(cNil); !ok {
					f.fail(x.Pos(), "append onto a value that is not a folded slice")
				}
				if x.Ellipsis != token.NoPos {
					if b, ok := f.expr(fr, x.Args[1]).(*cSlice); ok {
						s.E = append(s.E, b.E...)
						return []cval{s}
					}
					f.fail(x.Pos(), "append of a value that is not a folded slice")
				}
				for _, a := range x.Args[1:] {
					s.E = append(s.E, f.expr(fr, a))
				}
				return []cval{s}
			case "delete":
				if m, ok := f.expr(fr, x.Args[0]).(*cMap); ok {
					k := f.mapKey(fr, x.Args[1])
					if _, ok := m.V[k]; ok {
						delete(m.V, k)
						for i, kk := range m.Keys {
							if kk == k {
								m.Keys = append(m.Keys[:i:i], m.Keys[i+1:]...)
								break
							}
						}
					}
					return nil
				}
			case "new":
				if pt, ok := info.TypeOf(x).Underlying().(*types.Pointer); ok {
					return []cval{&cPtr{To: f.zero(pt.Elem(), x.Pos())}}
				}
			}
			f.fail(x.Pos(), "builtin %s is not folded here", id.Name)
		}
	}
	callee := (&Interp{info: info}).callee(x)
	if callee == nil {
		f.fail(x.Pos(), "call of %s has no single callee", types.ExprString(x.Fun))
	}
	var args []cval
	evalArgs := func() {
		for _, a := range x.Args {
			args = append(args, f.expr(fr, a))
		}
	}
	if callee.Pkg() != nil && !f.w.isModPkg(callee.Pkg()) {
		evalArgs()
		key := callee.Pkg().Path() + "." + callee.Name()
		str := func(i int) string {
			if s, ok := args[i].(cStr); ok {
				return s.S
			}
			f.fail(x.Pos(), "argument %d of %s is not a folded string", i, key)
			return ""
		}
		num := func(i int) int64 {
			if n, ok := args[i].(cInt); ok {
				return n.V
			}
			f.fail(x.Pos(), "argument %d of %s is not a folded integer", i, key)
			return 0
		}
		switch key {
		case "fmt.Sprintf":
			var ga []interface{}
			for _, a := range args[1:] {
				ga = append(ga, f.goArg(a, x.Pos()))
			}
			return []cval{cStr{fmt.Sprintf(str(0), ga...)}}
		case "fmt.Sprint":
			var ga []interface{}
			for _, a := range args {
				ga = append(ga, f.goArg(a, x.Pos()))
			}
			return []cval{cStr{fmt.Sprint(ga...)}}
		case "strconv.Itoa":
			return []cval{cStr{strconv.FormatInt(num(0), 10)}}
		case "strconv.FormatInt":
			return []cval{cStr{strconv.FormatInt(num(0), int(num(1)))}}
		case "strconv.FormatUint":
			return []cval{cStr{strconv.FormatUint(uint64(num(0)), int(num(1)))}}
		case "strings.ToUpper":
			return []cval{cStr{strings.ToUpper(str(0))}}
		case "strings.ToLower":
			return []cval{cStr{strings.ToLower(str(0))}}
		case "strings.TrimSpace":
			return []cval{cStr{strings.TrimSpace(str(0))}}
		case "strings.TrimPrefix":
			return []cval{cStr{strings.TrimPrefix(str(0), str(1))}}
		case "strings.TrimSuffix":
			return []cval{cStr{strings.TrimSuffix(str(0), str(1))}}
		case "strings.HasPrefix":
			return []cval{cBool{strings.HasPrefix(str(0), str(1))}}
		case "strings.HasSuffix":
			return []cval{cBool{strings.HasSuffix(str(0), str(1))}}
		case "strings.Repeat":
			if n := num(1); n >= 0 && n < 1<<16 {
				return []cval{cStr{strings.Repeat(str(0), int(n))}}
			}
		}
		f.fail(x.Pos(), "call of %s (outside the module) is not folded", key)
	}
	fi := f.w.ByObj[callee]
	if fi == nil || fi.Decl.Body == nil || fi.Decl.Recv != nil {
		f.fail(x.Pos(), "call of %s is not folded (method or no body)", callee.Name())
	}
	evalArgs()
	sub := &foldFrame{pkg: fi.Pkg, vars: map[types.Object]*cval{}}
	i := 0
	for _, fld := range fi.Decl.Type.Params.List {
		if len(fld.Names) == 0 {
			i++
			continue
		}
		for _, nm := range fld.Names {
			if i >= len(args) {
				f.fail(x.Pos(), "variadic call is not folded")
			}
			v := args[i]
			if _, variadic := fld.Type.(*ast.Ellipsis); variadic {
				f.fail(x.Pos(), "variadic call is not folded")
			}
			if n, ok := v.(cInt); ok {
				v = cInt{wrapInt(n.V, fi.Pkg.TypesInfo.Defs[nm].Type())}
			}
			vv := v
			sub.vars[fi.Pkg.TypesInfo.Defs[nm]] = &vv
			i++
		}
	}
	if fi.Decl.Type.Results != nil {
		for _, fld := range fi.Decl.Type.Results.List {
			for _, nm := range fld.Names {
				z := f.zero(fi.Pkg.TypesInfo.Defs[nm].Type(), nm.Pos())
				sub.vars[fi.Pkg.TypesInfo.Defs[nm]] = &z
			}
		}
	}
	f.block(sub, fi.Decl.Body.List)
	if !sub.done && fi.Decl.Type.Results != nil && len(fi.Decl.Type.Results.List) > 0 {
		f.fail(x.Pos(), "folded call of %s ends without a return", callee.Name())
	}
	if sub.done && sub.ret == nil && fi.Decl.Type.Results != nil {
		// bare return with named results
		for _, fld := range fi.Decl.Type.Results.List {
			for _, nm := range fld.Names {
				sub.ret = append(sub.ret, *sub.vars[fi.Pkg.TypesInfo.Defs[nm]])
			}
		}
	}
	return sub.ret
}

func (f *folder) block(fr *foldFrame, list []ast.Stmt) {
	for _, s := range list {
		if fr.done || fr.brk || fr.cont {
			return
		}
		f.stmt(fr, s)
	}
}

func (f *folder) assign(fr *foldFrame, lhs ast.Expr, v cval, define bool) {
	info := fr.pkg.TypesInfo
	switch l := unparen(lhs).(type) {
	case *ast.Ident:
		if l.Name == "_" {
			return
		}
		if n, ok := v.(cInt); ok {
			if t := info.TypeOf(l); t != nil {
				v = cInt{wrapInt(n.V, t)}
			}
		}
		if define {
			if obj := info.Defs[l]; obj != nil {
				vv := v
				fr.vars[obj] = &vv
				return
			}
		}
		obj := info.Uses[l]
		if p, ok := fr.vars[obj]; ok {
			*p = v
			return
		}
		if gv, ok := obj.(*types.Var); ok && gv.Parent() == gv.Pkg().Scope() && f.w.isModPkg(gv.Pkg()) {
			f.global(gv, l.Pos())
			f.globals[gv] = v
			return
		}
		f.fail(l.Pos(), "assignment to %s is not folded", l.Name)
	case *ast.IndexExpr:
		base := f.expr(fr, l.X)
		switch b := base.(type) {
		case *cMap:
			b.set(f.mapKey(fr, l.Index), v, l.Pos())
			return
		case *cSlice:
			if n, ok := f.expr(fr, l.Index).(cInt); ok && n.V >= 0 && n.V < int64(len(b.E)) {
				b.E[n.V] = v
				return
			}
		}
		f.fail(l.Pos(), "indexed assignment is not folded")
	case *ast.SelectorExpr:
		base := f.expr(fr, l.X)
		if p, ok := base.(*cPtr); ok {
			base = p.To
		}
		if s, ok := base.(*cStruct); ok {
			if n, ok := v.(cInt); ok {
				v = cInt{wrapInt(n.V, info.TypeOf(l))}
			}
			s.F[l.Sel.Name] = v
			return
		}
		f.fail(l.Pos(), "field assignment is not folded")
	case *ast.StarExpr:
		if p, ok := f.expr(fr, l.X).(*cPtr); ok {
			p.To = v
			return
		}
	}
	f.fail(lhs.Pos(), "assignment target %s is not folded", types.ExprString(lhs))
}

// copyVal copies struct values on assignment (value semantics); maps, slices and pointers are shared.
func copyVal(v cval) cval {
	if s, ok := v.(*cStruct); ok {
		c := &cStruct{F: map[string]cval{}}
		for k, x := range s.F {
			c.F[k] = copyVal(x)
		}
		return c
	}
	return v
}

func (f *folder) stmt(fr *foldFrame, s ast.Stmt) {
	f.tick(s.Pos())
	info := fr.pkg.TypesInfo
	switch x := s.(type) {
	case *ast.EmptyStmt:
	case *ast.BlockStmt:
		f.block(fr, x.List)
	case *ast.ExprStmt:
		if call, ok := unparen(x.X).(*ast.CallExpr); ok {
			f.call(fr, call)
			return
		}
		f.fail(x.Pos(), "expression statement is not folded")
	case *ast.DeclStmt:
		gd, ok := x.Decl.(*ast.GenDecl)
		if !ok || gd.Tok != token.VAR {
			if ok && (gd.Tok == token.CONST || gd.Tok == token.TYPE) {
				return
			}
			f.fail(x.Pos(), "declaration is not folded")
		}
		for _, sp := range gd.Specs {
			vs := sp.(*ast.ValueSpec)
			for i, nm := range vs.Names {
				var v cval
				if i < len(vs.Values) {
					v = copyVal(f.expr(fr, vs.Values[i]))
				} else {
					v = f.zero(info.Defs[nm].Type(), nm.Pos())
				}
				f.assign(fr, nm, v, true)
			}
		}
	case *ast.AssignStmt:
		if x.Tok != token.ASSIGN && x.Tok != token.DEFINE {
			// op-assign
			if len(x.Lhs) != 1 || len(x.Rhs) != 1 {
				f.fail(x.Pos(), "assignment form is not folded")
			}
			ops := map[token.Token]token.Token{token.ADD_ASSIGN: token.ADD, token.SUB_ASSIGN: token.SUB, token.MUL_ASSIGN: token.MUL, token.QUO_ASSIGN: token.QUO,
				token.REM_ASSIGN: token.REM, token.AND_ASSIGN: token.AND, token.OR_ASSIGN: token.OR, token.XOR_ASSIGN: token.XOR, token.SHL_ASSIGN: token.SHL,
				token.SHR_ASSIGN: token.SHR, token.AND_NOT_ASSIGN: token.AND_NOT}
			op, ok := ops[x.Tok]
			if !ok {
				f.fail(x.Pos(), "assignment operator %s is not folded", x.Tok)
			}
			be := &ast.BinaryExpr{X: x.Lhs[0], Op: op, Y: x.Rhs[0], OpPos: x.TokPos}
			// the synthetic node has no recorded type: evaluate by hand
			a, b := f.expr(fr, x.Lhs[0]), f.expr(fr, x.Rhs[0])
			if sa, ok := a.(cStr); ok && op == token.ADD {
				if sb, ok := b.(cStr); ok {
					f.assign(fr, x.Lhs[0], cStr{sa.S + sb.S}, false)
					return
				}
			}
			ia, ok1 := a.(cInt)
			ib, ok2 := b.(cInt)
			if !ok1 || !ok2 {
				f.fail(x.Pos(), "operands of %s are not folded integers", x.Tok)
			}
			_ = be
			var r int64
			switch op {
			case token.ADD:
				r = ia.V + ib.V
			case token.SUB:
				r = ia.V - ib.V
			case token.MUL:
				r = ia.V * ib.V
			case token.AND:
				r = ia.V & ib.V
			case token.OR:
				r = ia.V | ib.V
			case token.XOR:
				r = ia.V ^ ib.V
			case token.AND_NOT:
				r = ia.V &^ ib.V
			case token.SHL:
				if ib.V >= 0 && ib.V < 64 {
					r = ia.V << uint(ib.V)
				}
			default:
				f.fail(x.Pos(), "assignment operator %s is not folded", x.Tok)
			}
			f.assign(fr, x.Lhs[0], cInt{wrapInt(r, info.TypeOf(x.Lhs[0]))}, false)
			return
		}
		var vals []cval
		if len(x.Rhs) == 1 && len(x.Lhs) > 1 {
			switch r := unparen(x.Rhs[0]).(type) {
			case *ast.CallExpr:
				vals = f.call(fr, r)
			case *ast.IndexExpr:
				// comma-ok map lookup
				if m, ok := f.expr(fr, r.X).(*cMap); ok {
					k := f.mapKey(fr, r.Index)
					v, present := m.V[k]
					if !present {
						if mt, ok := info.TypeOf(r.X).Underlying().(*types.Map); ok {
							v = f.zero(mt.Elem(), r.Pos())
						}
					}
					vals = []cval{v, cBool{present}}
				}
			}
			if len(vals) != len(x.Lhs) {
				f.fail(x.Pos(), "multi-value assignment is not folded")
			}
		} else {
			for _, r := range x.Rhs {
				vals = append(vals, copyVal(f.expr(fr, r)))
			}
		}
		for i, l := range x.Lhs {
			define := x.Tok == token.DEFINE
			f.assign(fr, l, vals[i], define)
		}
	case *ast.IncDecStmt:
		n, ok := f.expr(fr, x.X).(cInt)
		if !ok {
			f.fail(x.Pos(), "operand is not a folded integer")
		}
		d := int64(1)
		if x.Tok == token.DEC {
			d = -1
		}
		f.assign(fr, x.X, cInt{wrapInt(n.V+d, info.TypeOf(x.X))}, false)
	case *ast.ReturnStmt:
		fr.ret = nil
		if len(x.Results) == 1 {
			if call, ok := unparen(x.Results[0]).(*ast.CallExpr); ok {
				if tv, isT := info.Types[call.Fun]; !(isT && tv.IsType()) {
					if tv2, ok := info.Types[call]; !ok || tv2.Value == nil {
						fr.ret = f.call(fr, call)
						fr.done = true
						return
					}
				}
			}
		}
		for _, r := range x.Results {
			fr.ret = append(fr.ret, f.expr(fr, r))
		}
		fr.done = true
	case *ast.IfStmt:
		if x.Init != nil {
			f.stmt(fr, x.Init)
		}
		c, ok := f.expr(fr, x.Cond).(cBool)
		if !ok {
			f.fail(x.Cond.Pos(), "condition is not a folded boolean")
		}
		if c.B {
			f.block(fr, x.Body.List)
		} else if x.Else != nil {
			f.stmt(fr, x.Else)
		}
	case *ast.ForStmt:
		if x.Init != nil {
			f.stmt(fr, x.Init)
		}
		for {
			f.tick(x.Pos())
			if x.Cond != nil {
				c, ok := f.expr(fr, x.Cond).(cBool)
				if !ok {
					f.fail(x.Cond.Pos(), "loop condition is not a folded boolean")
				}
				if !c.B {
					break
				}
			}
			f.block(fr, x.Body.List)
			if fr.done {
				return
			}
			fr.cont = false
			if fr.brk {
				fr.brk = false
				break
			}
			if x.Post != nil {
				f.stmt(fr, x.Post)
			}
		}
	case *ast.RangeStmt:
		coll := f.expr(fr, x.X)
		define := x.Tok == token.DEFINE
		iter := func(k, v cval) bool {
			f.tick(x.Pos())
			if x.Key != nil {
				f.assign(fr, x.Key, k, define)
			}
			if x.Value != nil {
				f.assign(fr, x.Value, copyVal(v), define)
			}
			f.block(fr, x.Body.List)
			fr.cont = false
			if fr.done {
				return false
			}
			if fr.brk {
				fr.brk = false
				return false
			}
			return true
		}
		switch c := coll.(type) {
		case *cSlice:
			for i, e := range append([]cval{}, c.E...) {
				if !iter(cInt{int64(i)}, e) {
					break
				}
			}
		case *cMap:
			// map iteration order is unspecified: fold only when the body's effect cannot depend on it — accepted
			// here because every use in this checker reads the resulting table as a set of entries
			for _, k := range append([]string{}, c.Keys...) {
				v, ok := c.V[k]
				if !ok {
					continue
				}
				if !iter(cStr{k}, v) {
					break
				}
			}
		case cInt:
			for i := int64(0); i < c.V; i++ {
				if !iter(cInt{i}, cNil{}) {
					break
				}
			}
		case cNil:
		default:
			f.fail(x.Pos(), "range over a value that is not a folded slice, map or integer")
		}
	case *ast.BranchStmt:
		if x.Label != nil {
			f.fail(x.Pos(), "labelled branch is not folded")
		}
		switch x.Tok {
		case token.BREAK:
			fr.brk = true
		case token.CONTINUE:
			fr.cont = true
		default:
			f.fail(x.Pos(), "branch %s is not folded", x.Tok)
		}
	case *ast.SwitchStmt:
		if x.Init != nil {
			f.stmt(fr, x.Init)
		}
		var tag cval = cBool{true}
		if x.Tag != nil {
			tag = f.expr(fr, x.Tag)
		}
		var deflt *ast.CaseClause
		for _, cc := range x.Body.List {
			clause := cc.(*ast.CaseClause)
			if clause.List == nil {
				deflt = clause
				continue
			}
			for _, ce := range clause.List {
				if f.expr(fr, ce) == tag {
					f.block(fr, clause.Body)
					fr.brk = false
					return
				}
			}
		}
		if deflt != nil {
			f.block(fr, deflt.Body)
			fr.brk = false
		}
	default:
		f.fail(s.Pos(), "statement is not folded")
	}
}
