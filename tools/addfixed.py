#!/usr/bin/env python3
# usage: addfixed.py <prop> <key> <diagnosis> <commit-subject-substring> <what> <witness>
import json, subprocess, sys
prop,key,diag,sub,what,wit = sys.argv[1:7]
log = subprocess.check_output(['git','-C','/repo','log','--format=%h %s']).decode().splitlines()
c = [l.split()[0] for l in log if sub in l]
assert c, "no commit matching "+sub
with open('/verif/known_findings.jsonl','a') as f:
    f.write(json.dumps({"status":"fixed","property":prop,"key":key,"diagnosis":diag,"commit":c[0],"what":what,"witness":wit,"line":f"fixed: property={prop} {c[0]} {what}"}, ensure_ascii=False)+"\n")
print("recorded", c[0])
