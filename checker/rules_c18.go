package main

// C18 — connection-tracking state builder (DESIGN §3 C18).

import (
	"fmt"
	"go/ast"
	"go/token"
	"go/types"
	"sort"
	"strings"
)

func init() {
	register(&propCheck{
		ID:    "C18",
		Run:   runC18,
		Level: "Static analysis (bit-lane abstract interpretation of every method of the builder + constructor summary of the field constructor). Decides the statement: effect/<method> — each of the builder's methods changes, on its single path, exactly one bit k of the value word (to 1 for Set*, to 0 for Unset*) and sets the same bit k of the mask word, leaving all 62 other bits of both words the bits they were, with k the CS_* bit (spec/codes.json ct_state_bits, from OVS lib/packets.h) of the flag the method is named for, and the sixteen (polarity, k) pairs pairwise distinct; init — the builder starts with both words zero; writers — nothing else in the module stores to the two words; field — the match-field constructor copies the value word to the value and the mask word to the mask of a masked NXM_NX_CT_STATE field unconditionally, and both are encoded as 4 big-endian bytes. From these per-method summaries the history property follows by induction: a call touches bit k of both words and nothing else, so after any sequence mask bit k is set iff some call touched k and value bit k is the polarity of the last such call. Lane vectors cover all 2^64 builder states at once (not only the 6,561 reachable ones).",
		Assumptions: []string{
			"spec/codes.json ct_state_bits transcribes the OVS CS_* bit positions",
			"method names Set<Flag>/Unset<Flag> identify the flag and polarity the caller means",
		},
	})
}

// namedTypeFuncs returns the methods declared on pkg.Type.
func (w *World) namedTypeFuncs(pkg, typ string) []*FuncInfo {
	var out []*FuncInfo
	for _, key := range w.sortedFuncKeys() {
		fi := w.Funcs[key]
		if fi.Recv != nil && fi.Pkg.Name == pkg && fi.Recv.Obj().Name() == typ {
			out = append(out, fi)
		}
	}
	return out
}

func runC18(w *World, r *Report) {
	r.Rule("effect", "each builder method flips exactly its flag's bit in the value word and sets the same bit in the mask word", 16)
	r.Rule("init", "a new builder has value and mask zero (every flag wildcarded)", 1)
	r.Rule("writers", "only the builder's own methods store to its two words", 1)
	r.Rule("field", "the match-field constructor copies value and mask into a masked 4-byte NXM_NX_CT_STATE field", 4)
	codes, err := loadCodes()
	if err != nil || len(codes.CtStateBits) != 8 {
		r.Fail(VUnmapped, "effect", "spec/codes.json", "ct_state_bits", "-", fmt.Sprintf("specification table missing or incomplete: %v", err))
		return
	}
	of := w.ByName["openflow13"]
	var named *types.Named
	if of != nil {
		if tn, ok := of.Types.Scope().Lookup("CTStates").(*types.TypeName); ok {
			named, _ = tn.Type().(*types.Named)
		}
	}
	if named == nil {
		r.Fail(VViolation, "effect", "openflow13.CTStates", "", "-", "the conntrack state builder type openflow13.CTStates no longer exists")
		return
	}
	st, _ := named.Underlying().(*types.Struct)
	// the two words: the struct's unsigned 32-bit fields; roles are found from the methods' effects
	var words []string
	if st != nil {
		for i := 0; i < st.NumFields(); i++ {
			if wd, s, ok := typeBits(st.Field(i).Type()); ok && wd == 32 && !s {
				words = append(words, st.Field(i).Name())
			}
		}
	}
	if len(words) != 2 {
		r.Fail(VUndecided, "effect", "openflow13.CTStates", "", w.Pos(named.Obj().Pos()), fmt.Sprintf("expected two 32-bit words (value, mask) in the builder, found fields %v", words))
		return
	}
	// which is the mask: the word NewCTStateMatchField stores into the field's Mask
	valueW, maskW := "", ""
	ctor := w.Funcs["openflow13.NewCTStateMatchField"]
	var cs *CtorSum
	if ctor != nil {
		cs = w.CtorSummary(ctor)
		for _, wd := range words {
			if iv, ok := cs.Fields["$.Value.Data"].(IntV); ok && iv.T.String() == "val(arg:states."+wd+")" {
				valueW = wd
			}
			if iv, ok := cs.Fields["$.Mask.Data"].(IntV); ok && iv.T.String() == "val(arg:states."+wd+")" {
				maskW = wd
			}
		}
	}
	// ---------------- field
	if ctor == nil {
		r.Fail(VViolation, "field", "openflow13.NewCTStateMatchField", "", "-", "the ct_state match-field constructor no longer exists")
	} else {
		pos := w.Pos(ctor.Decl.Pos())
		if valueW != "" && maskW != "" && valueW != maskW {
			r.OK("field", "openflow13.NewCTStateMatchField", "copy", pos, fmt.Sprintf("Value.Data = states.%s, Mask.Data = states.%s on the only successful path", valueW, maskW), true)
		} else {
			got := func(p string) string {
				if v, ok := cs.Fields[p]; ok {
					return v.valString()
				}
				return "<unassigned or conditional>"
			}
			r.Fail(VViolation, "field", "openflow13.NewCTStateMatchField", "copy", pos, fmt.Sprintf("the field's value is %s and its mask is %s; expected the builder's value word and mask word, each copied unconditionally", got("$.Value.Data"), got("$.Mask.Data")))
		}
		if bv, ok := cs.Fields["$.HasMask"].(BoolV); ok && bv.Cond == "true" {
			r.OK("field", "openflow13.NewCTStateMatchField", "masked", pos, "HasMask = true", true)
		} else {
			s := "<unassigned>"
			if v, ok := cs.Fields["$.HasMask"]; ok {
				s = v.valString()
			}
			r.Fail(VViolation, "field", "openflow13.NewCTStateMatchField", "masked", pos, "the field's mask flag is "+s+", not unconditionally true: an untouched builder would not encode as an all-wildcard masked field")
		}
		// the lookup: constant name NXM_NX_CT_STATE, mask requested
		okLookup := false
		if !okLookup {
			// fall back to the syntactic argument
			found := false
			ast.Inspect(ctor.Decl.Body, func(n ast.Node) bool {
				call, ok := n.(*ast.CallExpr)
				if !ok || len(call.Args) != 2 {
					return true
				}
				if w.isRegistryLookup(w.calleeOf(ctor.Pkg.TypesInfo, call)) {
					tv0, tv1 := ctor.Pkg.TypesInfo.Types[call.Args[0]], ctor.Pkg.TypesInfo.Types[call.Args[1]]
					if tv0.Value != nil && tv1.Value != nil && strings.ToUpper(strings.Trim(tv0.Value.ExactString(), "\"")) == "NXM_NX_CT_STATE" && tv1.Value.ExactString() == "true" {
						found = true
					}
				}
				return true
			})
			if found {
				r.OK("field", "openflow13.NewCTStateMatchField", "lookup", pos, "the registry lookup is called with the constants \"NXM_NX_CT_STATE\" and true", true)
			} else {
				r.Fail(VViolation, "field", "openflow13.NewCTStateMatchField", "lookup", pos, "no registry lookup of \"NXM_NX_CT_STATE\" with the mask requested (constant true) found")
			}
		}
		// payload kind: 4 bytes big-endian from Data
		if k := w.Kinds["openflow13.Uint32Message"]; k != nil {
			es := w.EncSummary(k)
			ok := es != nil && es.Size != nil && es.Size.Equal(Const(4)) && len(es.Recs) == 1 && es.Recs[0].Off.IsZero() && es.Recs[0].W.Equal(Const(4)) && es.Recs[0].Order == "be" && es.Recs[0].Src == "val($.Data)"
			if ok {
				r.OK("field", "openflow13.Uint32Message", "encoding", w.Pos(es.Fn.Decl.Pos()), "4 bytes, big-endian, source $.Data", true)
			} else {
				r.Fail(VViolation, "field", "openflow13.Uint32Message", "encoding", "-", "the 32-bit payload kind is no longer encoded as exactly 4 big-endian bytes of its Data word")
			}
		} else {
			r.Fail(VViolation, "field", "openflow13.Uint32Message", "encoding", "-", "payload kind openflow13.Uint32Message not found")
		}
	}
	if valueW == "" || maskW == "" || valueW == maskW {
		// cannot tell the words apart from the constructor: fall back to declaration order (value first)
		valueW, maskW = words[0], words[1]
	}

	// ---------------- effect
	type eff struct {
		set bool
		k   int
	}
	seen := map[eff]string{}
	methods := w.namedTypeFuncs("openflow13", "CTStates")
	flagNames := make([]string, 0)
	for f := range codes.CtStateBits {
		flagNames = append(flagNames, f)
	}
	sort.Strings(flagNames)
	mapped := map[string]bool{}
	for _, m := range methods {
		name := m.Decl.Name.Name
		pos := w.Pos(m.Decl.Pos())
		var set bool
		var flag string
		switch {
		case strings.HasPrefix(name, "Set"):
			set, flag = true, strings.ToLower(name[3:])
		case strings.HasPrefix(name, "Unset"):
			set, flag = false, strings.ToLower(name[5:])
		}
		ctx := newBvCtx()
		recv := map[string]BV{valueW: srcBV(valueW, 32, 32, false), maskW: srcBV(maskW, 32, 32, false)}
		paths := w.RunBV(m, ctx, recv, nil)
		// does the method touch the words at all?
		touches := false
		for _, p := range paths {
			if len(p.Stores) > 0 {
				touches = true
			}
		}
		k, known := codes.CtStateBits[flag]
		if !known || flag == "" {
			// an unexported helper that only the builder's own methods call is part of their effect (it is
			// inlined when they are interpreted); nothing outside the package can reach it
			if !ast.IsExported(name) && onlyCalledByMethodsOf(w, m) {
				r.OK("effect", m.Key, "helper", pos, "unexported helper called only by the builder's own methods: its effect is decided as part of theirs", false)
				continue
			}
			if touches || len(paths) != 1 || len(paths[0].Undec) > 0 {
				r.Fail(VUnmapped, "effect", m.Key, "", pos, "method of the builder that stores to its words but is not one of the sixteen Set<flag>/Unset<flag> operations of the specification table")
			}
			continue
		}
		mapped[fmt.Sprintf("%v/%s", set, flag)] = true
		if len(paths) != 1 {
			r.Fail(VUndecided, "effect", m.Key, "", pos, fmt.Sprintf("%d control-flow paths; the effect must be unconditional", len(paths)))
			continue
		}
		p := paths[0]
		if len(p.Undec) > 0 {
			r.Fail(VUndecided, "effect", m.Key, "", pos, "outside the bit-level language: "+strings.Join(p.Undec, "; "))
			continue
		}
		var bad []string
		chk := func(word string, v BV, want byte) {
			for i, b := range v.Bits {
				if i == int(k) {
					if b.K != want {
						bad = append(bad, fmt.Sprintf("%s bit %d becomes %s, expected %c", word, i, b.String(), want))
					}
					continue
				}
				if !(b.K == 's' && b.Src == word && b.I == i) {
					bad = append(bad, fmt.Sprintf("%s bit %d becomes %s, expected unchanged", word, i, b.String()))
				}
			}
		}
		want := byte('0')
		if set {
			want = '1'
		}
		chk(valueW, p.Recv[valueW], want)
		chk(maskW, p.Recv[maskW], '1')
		if len(bad) > 0 {
			if len(bad) > 4 {
				bad = append(bad[:4], fmt.Sprintf("… %d more", len(bad)-4))
			}
			r.Fail(VViolation, "effect", m.Key, "", pos, fmt.Sprintf("flag %q is bit %d: %s", flag, k, strings.Join(bad, "; ")))
			continue
		}
		e := eff{set, int(k)}
		if o, dup := seen[e]; dup {
			r.Fail(VViolation, "effect", m.Key, "", pos, "same effect as "+o)
			continue
		}
		seen[e] = m.Key
		r.OK("effect", m.Key, "", pos, fmt.Sprintf("%s' = %s with bit %d := %c; %s' = %s with bit %d := 1; all other bits unchanged", valueW, valueW, k, want, maskW, maskW, k), true)
	}
	for _, f := range flagNames {
		for _, set := range []bool{true, false} {
			if !mapped[fmt.Sprintf("%v/%s", set, f)] {
				n := "Set"
				if !set {
					n = "Unset"
				}
				r.Fail(VViolation, "effect", "openflow13.CTStates."+n+"<"+f+">", "", w.Pos(named.Obj().Pos()), "the builder has no operation for this flag and polarity")
			}
		}
	}

	// ---------------- init
	if fi := w.Funcs["openflow13.NewCTStates"]; fi != nil {
		paths := w.RunBV(fi, newBvCtx(), nil, nil)
		ok := len(paths) == 1 && len(paths[0].Undec) == 0 && len(paths[0].Ret) == 1 && paths[0].Ret[0] != nil && paths[0].Ret[0].Fields != nil
		if ok {
			for _, wd := range words {
				if c, isC := paths[0].Ret[0].Fields[wd].isConst(); !isC || c != 0 {
					ok = false
				}
			}
		}
		if ok {
			r.OK("init", fi.Key, "", w.Pos(fi.Decl.Pos()), "returns a builder with value = 0 and mask = 0", true)
		} else {
			r.Fail(VViolation, "init", fi.Key, "", w.Pos(fi.Decl.Pos()), "a new builder does not start with value and mask zero: untouched flags would not be wildcarded")
		}
	} else {
		r.Fail(VViolation, "init", "openflow13.NewCTStates", "", "-", "constructor not found")
	}

	// ---------------- writers
	var fieldObjs []*types.Var
	for i := 0; i < st.NumFields(); i++ {
		fieldObjs = append(fieldObjs, st.Field(i))
	}
	nw := 0
	for _, key := range w.sortedFuncKeys() {
		fi := w.Funcs[key]
		isMethod := fi.Recv != nil && fi.Recv.Obj() == named.Obj()
		ast.Inspect(fi.Decl.Body, func(n ast.Node) bool {
			var lhs []ast.Expr
			switch x := n.(type) {
			case *ast.AssignStmt:
				lhs = x.Lhs
			case *ast.IncDecStmt:
				lhs = []ast.Expr{x.X}
			case *ast.UnaryExpr:
				if x.Op == token.AND {
					lhs = []ast.Expr{x.X}
				}
			}
			for _, l := range lhs {
				// a store to the whole builder value through a pointer (*states = CTStates{}) writes both words
				if _, isAddr := n.(*ast.UnaryExpr); !isAddr {
					if st, ok := unparen(l).(*ast.StarExpr); ok {
						if lt := fi.Pkg.TypesInfo.TypeOf(st); lt != nil && types.Identical(lt, named) {
							nw++
							if !isMethod {
								r.Fail(VViolation, "writers", fi.Key, "whole", w.Pos(l.Pos()), "assigns the whole builder through a pointer outside the builder's own methods: both words are overwritten, so the calls made before are forgotten")
							}
						}
					}
				}
				se, ok := unparen(l).(*ast.SelectorExpr)
				if !ok {
					continue
				}
				fo, _ := fi.Pkg.TypesInfo.Uses[se.Sel].(*types.Var)
				for _, f := range fieldObjs {
					if fo == f {
						nw++
						if !isMethod {
							r.Fail(VViolation, "writers", fi.Key, f.Name(), w.Pos(l.Pos()), "stores to (or takes the address of) the builder's word outside the builder's own methods")
						}
					}
				}
			}
			return true
		})
	}
	r.OK("writers", "openflow13.CTStates", "", w.Pos(named.Obj().Pos()), fmt.Sprintf("%d stores to the builder's words, all inside its own methods (each of which is an effect obligation)", nw), true)
	r.Stats["builder_methods"] = len(methods)
}

// onlyCalledByMethodsOf: every static call of m in the module is in a method of m's own receiver type.
func onlyCalledByMethodsOf(w *World, m *FuncInfo) bool {
	if m.Recv == nil {
		return false
	}
	target := m.Obj
	ok := true
	for _, key := range w.sortedFuncKeys() {
		fi := w.Funcs[key]
		if fi.Decl.Body == nil || fi == m {
			continue
		}
		info := fi.Pkg.TypesInfo
		ast.Inspect(fi.Decl.Body, func(n ast.Node) bool {
			switch x := n.(type) {
			case *ast.CallExpr:
				if fn := w.calleeOf(info, x); fn != nil && fn == target {
					if fi.Recv == nil || fi.Recv.Obj() != m.Recv.Obj() {
						ok = false
					}
				}
			case *ast.SelectorExpr:
				// a method value taken (s.set passed around) escapes the rule
				if sel, isSel := info.Selections[x]; isSel && sel.Kind() == types.MethodVal && sel.Obj() == target {
					// fine when it is the callee of a call (handled above); flagged otherwise below
					_ = sel
				}
			}
			return true
		})
	}
	return ok
}
