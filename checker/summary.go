package main

// Per-function summaries produced by the W interpreter.

import (
	"fmt"
	"go/ast"
	"go/token"
	"go/types"
	"regexp"
	"sort"
	"strings"
)

type FuncSummary struct {
	Fi       *FuncInfo
	In       *Interp
	Rets     []*RetRec
	Stores   []*Store
	Notes    []Note
	Reads    []*Rec
	Sites    []*Site
	Calls    []*CallRec
	Copies   []*CopyRec
	Allocs   []*AllocSite
	Loops    []*LoopRec
	Final    *State
	Defers   []*ast.DeferStmt
	Gos      []*ast.GoStmt
	Switches []*SwitchRec
	// StreamOuts: write streams handed out by buf.Read(b) (encoders of the io.Reader style)
	StreamOuts []*StreamOut
}

type LenSum struct {
	Term   *Term
	Stores []*Store
	Notes  []Note
	Fn     *FuncInfo
}

type EncSum struct {
	Size, Extent *Term
	Recs         []*Rec
	Stores       []*Store
	Notes        []Note
	Copies       []*CopyRec
	Fn           *FuncInfo
	Origin       string // origin of the returned buffer
	FS           *FuncSummary
	Aliased      string // non-empty when the returned slice is (part of) a receiver field
}

type summaryCache struct {
	lens    map[*types.Func]*LenSum
	encs    map[*types.Func]*EncSum
	busy    map[*types.Func]bool
	funcs   map[string]*FuncSummary
	ensures map[*types.Func][]Fact
	ensBusy map[*types.Func]bool
}

func (w *World) cache() *summaryCache {
	if w.sc == nil {
		w.sc = &summaryCache{lens: map[*types.Func]*LenSum{}, encs: map[*types.Func]*EncSum{}, busy: map[*types.Func]bool{}, funcs: map[string]*FuncSummary{}}
	}
	return w.sc
}

// Interpret runs the interpreter over one function as an entry point. The
// receiver is the symbolic object "$"; parameters are symbolic by type; the
// first byte-slice parameter of a decoder is the input buffer P.
func (w *World) Interpret(fi *FuncInfo, mode string) *FuncSummary {
	key := fi.Key + "|" + mode
	c := w.cache()
	if fs, ok := c.funcs[key]; ok {
		return fs
	}
	in := &Interp{w: w, fi: fi, info: fi.Pkg.TypesInfo, shared: &sharedCtx{}, mode: mode}
	st := newState()
	if fi.Decl.Recv != nil && len(fi.Decl.Recv.List) > 0 && len(fi.Decl.Recv.List[0].Names) > 0 {
		ro := fi.Pkg.TypesInfo.Defs[fi.Decl.Recv.List[0].Names[0]]
		if ro != nil {
			in.recvObj = ro
			st.vars[ro] = ObjV{Path: "$", Type: ro.Type()}
		}
	}
	for _, fl := range fi.Decl.Type.Params.List {
		for _, nm := range fl.Names {
			o := fi.Pkg.TypesInfo.Defs[nm]
			if o == nil {
				continue
			}
			if mode == "decode" && in.param == nil && isByteSlice(o.Type()) {
				in.param = o
				v := in.newBuf(st, &BufObj{Origin: "param", Src: "P", Len: LenOf("P")})
				st.bufs[v.ID].Extent = Const(0)
				in.paramID = v.ID
				st.vars[o] = v
				continue
			}
			st.vars[o] = in.symbolic(st, "arg:"+nm.Name, o.Type())
		}
	}
	if fi.Decl.Type.Results != nil {
		for _, f := range fi.Decl.Type.Results.List {
			for _, nm := range f.Names {
				o := fi.Pkg.TypesInfo.Defs[nm]
				in.results = append(in.results, o)
				st.vars[o] = in.zeroOf(st, o.Type())
			}
		}
	}
	end, term := in.execBlock(st, fi.Decl.Body.List)
	if !term {
		in.ret(end, nil, fi.Decl.Body.End())
	}
	fs := &FuncSummary{Fi: fi, In: in, Rets: in.Rets, Stores: in.Stores, Notes: in.Notes, Reads: in.Reads, Sites: in.Sites,
		Calls: in.Calls, Copies: in.Copies, Allocs: in.Allocs, Loops: in.LoopsSeen, Final: end, Defers: in.Defers, Gos: in.Gos, Switches: in.Switches, StreamOuts: in.StreamOuts}
	c.funcs[key] = fs
	return fs
}

// goodRets returns the non-error returns (all returns if every one is an error).
func goodRets(rets []*RetRec) []*RetRec {
	var good []*RetRec
	for _, r := range rets {
		if !r.IsErr {
			good = append(good, r)
		}
	}
	if len(good) == 0 {
		return rets
	}
	return good
}

func (w *World) LenSummaryOf(f *types.Func) *LenSum {
	c := w.cache()
	if ls, ok := c.lens[f]; ok {
		return ls
	}
	fi := w.FuncOf(f)
	if fi == nil || c.busy[f] {
		return nil
	}
	c.busy[f] = true
	defer delete(c.busy, f)
	fs := w.Interpret(fi, "len")
	ls := &LenSum{Fn: fi, Stores: fs.Stores, Notes: fs.Notes}
	good := goodRets(fs.Rets)
	for i := len(good) - 1; i >= 0; i-- {
		r := good[i]
		if len(r.Vals) == 0 {
			continue
		}
		iv, ok := r.Vals[0].(IntV)
		if !ok {
			ls.Term = nil
			ls.Notes = append(ls.Notes, Note{r.Pos, "size function returns a non-integer abstract value"})
			break
		}
		if ls.Term == nil {
			ls.Term = iv.T
		} else {
			ls.Term = Ite(r.Guard, iv.T, ls.Term)
		}
	}
	c.lens[f] = ls
	return ls
}

// embedPath spells the receiver path of a possibly promoted method of kind k.
func (w *World) embedPath(k *Kind, name string) string {
	ms := types.NewMethodSet(types.NewPointer(k.Named))
	sel := ms.Lookup(k.Pkg.Types, name)
	if sel == nil {
		return "$"
	}
	p := "$"
	var t types.Type = k.Named
	idx := sel.Index()
	for _, i := range idx[:len(idx)-1] {
		s := structOf(t)
		if s == nil {
			break
		}
		p += "." + s.Field(i).Name()
		t = s.Field(i).Type()
	}
	return p
}

// LenSummary: the size function of kind k relative to "$" = a value of k.
func (w *World) LenSummary(k *Kind) *LenSum {
	if k.Len == nil {
		return nil
	}
	ls := w.LenSummaryOf(k.Len)
	if ls == nil {
		return nil
	}
	if k.OwnLen {
		return ls
	}
	ep := w.embedPath(k, "Len")
	out := &LenSum{Fn: ls.Fn, Notes: ls.Notes}
	if ls.Term != nil {
		out.Term = ls.Term.Reroot(ep)
	}
	for _, s := range ls.Stores {
		ns := *s
		ns.Path = strings.Replace(s.Path, "$", ep, 1)
		out.Stores = append(out.Stores, &ns)
	}
	return out
}

func (w *World) EncSummaryOf(f *types.Func) *EncSum {
	c := w.cache()
	if es, ok := c.encs[f]; ok {
		return es
	}
	fi := w.FuncOf(f)
	if fi == nil || c.busy[f] {
		return nil
	}
	c.busy[f] = true
	defer delete(c.busy, f)
	fs := w.Interpret(fi, "encode")
	es := &EncSum{Fn: fi, Stores: fs.Stores, Notes: fs.Notes, Copies: fs.Copies, FS: fs}
	good := goodRets(fs.Rets)
	first := true
	// an encoder of the Read(b []byte) (n int, err error) style: its encoding is the stream it hands out
	if len(fs.StreamOuts) > 0 && fi.Decl.Name.Name == "Read" {
		so := fs.StreamOuts[len(fs.StreamOuts)-1]
		es.Size, es.Extent, es.Recs, es.Origin = so.Buf.Len, so.Buf.Extent, so.Buf.Recs, "stream"
		// what the destination holds at the last successful return: the bytes of every stream copied into it
		for i := len(good) - 1; i >= 0; i-- {
			if good[i].St == nil {
				continue
			}
			if db := good[i].St.bufs[so.Dst]; db != nil && len(db.Recs) > 0 {
				es.Recs, es.Extent = db.Recs, db.Extent
				// the size is the count the function reports
				if len(good[i].Vals) > 0 {
					if iv, ok := good[i].Vals[0].(IntV); ok && iv.T != nil {
						es.Size = iv.T
					}
				}
				break
			}
		}
		// the encoding exists only when every fallible step succeeded: an alternative taken on `err == nil`
		// (a helper that writes only when the value could be encoded) is the one that happened
		es.Size, es.Extent = assumeErrNil(es.Size), assumeErrNil(es.Extent)
		var recs []*Rec
		for _, r := range es.Recs {
			nr := *r
			nr.Off, nr.W = assumeErrNil(r.Off), assumeErrNil(r.W)
			recs = append(recs, &nr)
		}
		es.Recs = recs
		c.encs[f] = es
		return es
	}
	for i := len(good) - 1; i >= 0; i-- {
		r := good[i]
		if len(r.Vals) == 0 {
			continue
		}
		bv, ok := r.Vals[0].(BufV)
		if !ok {
			if _, isNil := r.Vals[0].(NilV); isNil && r.IsErr {
				continue
			}
			es.Notes = append(es.Notes, Note{r.Pos, "encoder returns a non-buffer abstract value " + r.Vals[0].valString()})
			es.Size = nil
			break
		}
		b := r.St.bufs[bv.ID]
		if b == nil {
			continue
		}
		size := b.Len
		if bv.Hi != nil {
			size = bv.Hi
		}
		size = size.Sub(bv.Off)
		if first {
			es.Size, es.Extent, es.Recs, es.Origin = size, b.Extent, mergeByteSplit(b.Recs), b.Origin
			if b.Origin == "field" || b.SrcType == "field-append" {
				es.Aliased = b.Src
			}
			first = false
		} else {
			es.Size = Ite(r.Guard, size, es.Size)
			es.Extent = Ite(r.Guard, b.Extent, es.Extent)
			es.Notes = append(es.Notes, Note{r.Pos, "several successful returns: records are those of the last one"})
		}
	}
	c.encs[f] = es
	return es
}

func (w *World) EncSummary(k *Kind) *EncSum {
	if k.Marshal == nil {
		return nil
	}
	es := w.EncSummaryOf(k.Marshal)
	if es == nil || k.OwnMarshal {
		return es
	}
	ep := w.embedPath(k, "MarshalBinary")
	out := *es
	if es.Size != nil {
		out.Size = es.Size.Reroot(ep)
	}
	if es.Extent != nil {
		out.Extent = es.Extent.Reroot(ep)
	}
	out.Recs = nil
	for _, r := range es.Recs {
		nr := *r
		nr.Off, nr.W = r.Off.Reroot(ep), r.W.Reroot(ep)
		nr.Src = strings.ReplaceAll(r.Src, "$", ep)
		nr.Guard = strings.ReplaceAll(r.Guard, "$", ep)
		out.Recs = append(out.Recs, &nr)
	}
	out.Stores = nil
	for _, s := range es.Stores {
		ns := *s
		ns.Path = strings.Replace(s.Path, "$", ep, 1)
		out.Stores = append(out.Stores, &ns)
	}
	return &out
}

// ---------------------------------------------------------------- constructors

type CtorSum struct {
	Fi     *FuncInfo
	Kind   *Kind
	Fields map[string]Val // canonical "$..." path -> value established on every successful path
	State  *State
	In     *Interp
	Root   string
	Notes  []Note
	FS     *FuncSummary
	Stores []*Store
	Guard  string // path condition of the return whose state was taken
}

// Constructors returns the module functions (not methods) that return k or *k.
func (w *World) Constructors(k *Kind) []*FuncInfo {
	var out []*FuncInfo
	for _, key := range w.sortedFuncKeys() {
		fi := w.Funcs[key]
		if fi.Recv != nil {
			continue
		}
		sig := fi.Obj.Type().(*types.Signature)
		if sig.Results().Len() == 0 || sig.TypeParams() != nil {
			continue
		}
		rt := sig.Results().At(0).Type()
		if n, ok := derefType(rt).(*types.Named); ok && n.Obj() == k.Named.Obj() {
			out = append(out, fi)
		}
	}
	return out
}

// CtorSummary interprets a constructor and canonicalises the returned object.
func (w *World) CtorSummary(fi *FuncInfo) *CtorSum {
	fs := w.Interpret(fi, "ctor")
	cs := &CtorSum{Fi: fi, Fields: map[string]Val{}, In: fs.In, Notes: fs.Notes, FS: fs, Stores: fs.Stores}
	good := goodRets(fs.Rets)
	if len(good) == 0 {
		return cs
	}
	if len(good) > 1 {
		if w.joinCtorReturns(cs, good) {
			return cs
		}
	}
	// use the last (main) return; other successful returns must agree on what we read
	r := good[len(good)-1]
	if len(r.Vals) == 0 {
		return cs
	}
	ov, ok := r.Vals[0].(ObjV)
	if !ok {
		cs.Notes = append(cs.Notes, Note{r.Pos, "constructor returns " + r.Vals[0].valString()})
		return cs
	}
	cs.Root = ov.Path
	cs.State = r.St
	cs.Guard = r.Guard
	canonFields(r.St, ov.Path, "$", cs.Fields, 0)
	// the state is that of one return: a choice on a condition the path to it has already decided
	// (an earlier successful return took the other arm) is no choice there
	if r.Guard != "" {
		for k, v := range cs.Fields {
			if iv, ok := v.(IntV); ok && iv.T != nil {
				cs.Fields[k] = IntV{simplifyUnderGuard(iv.T, r.Guard)}
			}
		}
	}
	return cs
}

// joinCtorReturns: a constructor with several successful returns leaves, in each field, the value of
// whichever return was taken: the fields of all returns are joined under the returns' path conditions
// (a field one path never assigns is zero / nil there). False when a return does not hand back an object.
func (w *World) joinCtorReturns(cs *CtorSum, good []*RetRec) bool {
	type rf struct {
		guard  string
		fields map[string]Val
		ret    *RetRec
		root   string
	}
	var all []rf
	for _, r := range good {
		if len(r.Vals) == 0 {
			return false
		}
		ov, ok := r.Vals[0].(ObjV)
		if !ok {
			return false
		}
		f := map[string]Val{}
		canonFields(r.St, ov.Path, "$", f, 0)
		if r.Guard != "" {
			for k, v := range f {
				if iv, ok := v.(IntV); ok && iv.T != nil {
					f[k] = IntV{simplifyUnderGuard(iv.T, r.Guard)}
				}
			}
		}
		all = append(all, rf{r.Guard, f, r, ov.Path})
	}
	last := all[len(all)-1]
	joined := map[string]Val{}
	for k, v := range last.fields {
		joined[k] = v
	}
	zeroFor := func(v Val) Val {
		switch v.(type) {
		case IntV:
			return IntV{Const(0)}
		case BoolV:
			return BoolV{"false"}
		default:
			return NilV{}
		}
	}
	for i := len(all) - 2; i >= 0; i-- {
		g := all[i].guard
		if g == "" {
			g = "true"
		}
		keys := map[string]bool{}
		for k := range all[i].fields {
			keys[k] = true
		}
		for k := range joined {
			keys[k] = true
		}
		for k := range keys {
			a, aok := all[i].fields[k]
			b, bok := joined[k]
			switch {
			case aok && bok:
				if a.valString() == b.valString() {
					joined[k] = b
				} else {
					joined[k] = joinVal(g, a, b)
				}
			case aok:
				joined[k] = joinVal(g, a, zeroFor(a))
			case bok:
				joined[k] = joinVal(g, zeroFor(b), b)
			}
		}
	}
	for _, v := range joined {
		switch v.(type) {
		case AltV, UnkV:
			return false // different objects per path: the per-return summaries are used instead
		}
	}
	cs.Root = last.root
	cs.State = last.ret.St
	cs.Guard = ""
	for k, v := range joined {
		cs.Fields[k] = v
	}
	return true
}

// CtorSummaries gives one summary per successful return of the constructor (each with the fields of
// that return's state, simplified under its path condition).
func (w *World) CtorSummaries(fi *FuncInfo) []*CtorSum {
	fs := w.Interpret(fi, "ctor")
	good := goodRets(fs.Rets)
	if len(good) <= 1 {
		return []*CtorSum{w.CtorSummary(fi)}
	}
	var out []*CtorSum
	for _, r := range good {
		cs := &CtorSum{Fi: fi, Fields: map[string]Val{}, In: fs.In, Notes: fs.Notes, FS: fs, Stores: fs.Stores}
		if len(r.Vals) == 0 {
			continue
		}
		ov, ok := r.Vals[0].(ObjV)
		if !ok {
			continue
		}
		cs.Root = ov.Path
		cs.State = r.St
		cs.Guard = r.Guard
		canonFields(r.St, ov.Path, "$", cs.Fields, 0)
		if r.Guard != "" {
			for k, v := range cs.Fields {
				if iv, ok := v.(IntV); ok && iv.T != nil {
					cs.Fields[k] = IntV{simplifyUnderGuard(iv.T, r.Guard)}
				}
			}
		}
		out = append(out, cs)
	}
	if len(out) == 0 {
		return []*CtorSum{w.CtorSummary(fi)}
	}
	return out
}

// simplifyUnderGuard resolves the ite atoms of t whose condition is one of the guard's conjuncts.
func simplifyUnderGuard(t *Term, guard string) *Term {
	for _, g := range conjunctsOf(guard) {
		if strings.HasPrefix(g, "loop") {
			continue
		}
		if strings.HasPrefix(g, "!(") && strings.HasSuffix(g, ")") {
			t = t.underCond(g[2:len(g)-1], false)
		} else {
			t = t.underCond(g, true)
		}
	}
	return t
}

// canonFields walks the strong updates below object path obj and records them
// under the canonical prefix canon, following stored pointers.
func canonFields(st *State, obj, canon string, out map[string]Val, depth int) {
	if depth > 6 {
		return
	}
	prefix := obj + "."
	keys := make([]string, 0)
	for k := range st.fields {
		if strings.HasPrefix(k, prefix) {
			keys = append(keys, k)
		}
	}
	sort.Strings(keys)
	for _, k := range keys {
		v := st.fields[k]
		ck := canon + "." + k[len(prefix):]
		out[ck] = v
		if ov, ok := v.(ObjV); ok && ov.Path != k && !strings.HasPrefix(k, "copyof:") {
			canonFields(st, ov.Path, ck, out, depth+1)
		}
	}
}

// FieldVal returns the value a constructor leaves at canonical path p,
// taking unassigned fields of a fresh object as zero.
func (cs *CtorSum) FieldVal(p string, t types.Type) (Val, bool) {
	if v, ok := cs.Fields[p]; ok {
		return v, true
	}
	if cs.State == nil || cs.In == nil {
		return nil, false
	}
	local := strings.Replace(p, "$", cs.Root, 1)
	if !isLocalObj(cs.Root) {
		return nil, false
	}
	// resolve through stored pointers
	if v, ok := cs.In.lookupPath(cs.State, local); ok {
		return v, true
	}
	if cs.In.isZeroPath(cs.State, local) {
		return cs.In.zeroLike(t), true
	}
	return nil, false
}

func (in *Interp) zeroLike(t types.Type) Val {
	switch {
	case t == nil:
		return nil
	case isIntType(t):
		return IntV{Const(0)}
	case isByteSlice(t):
		return NilV{}
	}
	if b, ok := t.Underlying().(*types.Basic); ok && b.Info()&types.IsBoolean != 0 {
		return BoolV{"false"}
	}
	switch t.Underlying().(type) {
	case *types.Pointer, *types.Interface, *types.Slice:
		return NilV{}
	}
	return nil
}

// ---------------------------------------------------------------- decoders

// unmarshalCall models x.UnmarshalBinary(P[off:hi]) inside a decoder: a child
// read record; the child's own decoder is a separate obligation.
func (in *Interp) unmarshalCall(st *State, f *types.Func, recv Val, args []Val, call *ast.CallExpr) Val {
	path := "?"
	var rt types.Type
	if ov, ok := recv.(ObjV); ok {
		path, rt = ov.Path, ov.Type
	}
	if mv, ok := recv.(MaybeV); ok {
		path, rt = mv.V.Path, mv.V.Type
	}
	if path == "?" && recv != nil {
		in.note(call.Pos(), "decode on unresolved receiver %T %s", recv, recv.valString())
	}
	typ := ""
	sig := f.Type().(*types.Signature)
	recvT := sig.Recv().Type()
	if k := in.w.KindOfType(recvT); k != nil {
		typ = k.Name
	} else if rt != nil {
		if k := in.w.KindOfType(rt); k != nil {
			typ = k.Name
		}
	}
	if typ == "" {
		typ = types.TypeString(recvT, func(p *types.Package) string { return p.Name() })
	}
	if len(args) == 1 {
		if bv, ok := args[0].(BufV); ok {
			if b := st.bufs[bv.ID]; b != nil && b.Origin == "param" {
				w := in.viewLen(st, bv)
				in.addRead(&Rec{Off: bv.Off, W: w, Kind: "child", Src: "dec(" + path + ":" + typ + ")", Pos: call.Pos()})
			}
		}
	}
	in.DecCalls = append(in.DecCalls, &DecCall{Recv: recv, Path: path, Type: typ, Pos: call.Pos(), Guard: in.guard(), Callee: f})
	// what the child guarantees when it returns nil, instantiated for this receiver and view
	if path != "?" && len(args) == 1 {
		if bv, ok := args[0].(BufV); ok {
			vl := in.viewLen(st, bv)
			var inst []Fact
			for _, e := range in.w.Ensures(f) {
				sub := func(t *Term) *Term {
					t = t.Reroot(path)
					return t.Map(func(a *Atom) *Term {
						if a.Kind == "len" && a.Path == "P" {
							return vl
						}
						return nil
					})
				}
				inst = append(inst, Fact{L: sub(e.L), R: sub(e.R), Src: "success of " + typ + ".UnmarshalBinary (" + e.Src + ")"})
			}
			if len(inst) > 0 {
				if st.ensures == nil {
					st.ensures = map[string][]Fact{}
				}
				st.ensures["err:dec("+path+")"] = inst
			}
		}
	}
	// after a decode, fields of the receiver object are whatever was on the wire
	if path != "?" {
		prefix := path + "."
		for k := range st.fields {
			if strings.HasPrefix(k, prefix) {
				delete(st.fields, k)
			}
		}
		st.decoded = append(st.decoded, path)
	}
	return ObjV{Path: "err:dec(" + path + ")", Type: types.Universe.Lookup("error").Type()}
}

type DecCall struct {
	Recv   Val
	Path   string
	Type   string
	Pos    token.Pos
	Guard  string
	Callee *types.Func
}

func shortType(t types.Type) string {
	return strings.TrimPrefix(types.TypeString(t, func(p *types.Package) string { return p.Name() }), "*")
}

// ExpandLens replaces Len atoms of concrete in-module kinds by the kind's own
// size summary with the receiver substituted (DESIGN §2.2), depth <= 8.
func (w *World) ExpandLens(t *Term, depth int) *Term {
	if t == nil || depth > 8 {
		return t
	}
	return t.Map(func(a *Atom) *Term {
		if a.Kind != "Len" {
			return nil
		}
		k := w.Kinds[a.Typ]
		if k == nil || k.Len == nil {
			return nil
		}
		ls := w.LenSummary(k)
		if ls == nil || ls.Term == nil {
			return nil
		}
		return w.ExpandLens(ls.Term.Reroot(a.Path), depth+1)
	})
}

// Ensures returns the facts a decoder guarantees on every successful return,
// expressed over len(P) and the receiver's fields ("$" paths): the guards it
// passed, with wire atoms replaced by the fields they were stored into.
func (w *World) Ensures(f *types.Func) []Fact {
	c := w.cache()
	if c.ensures == nil {
		c.ensures = map[*types.Func][]Fact{}
		c.ensBusy = map[*types.Func]bool{}
	}
	if e, ok := c.ensures[f]; ok {
		return e
	}
	fi := w.FuncOf(f)
	if fi == nil || c.ensBusy[f] || fi.Decl.Name.Name != "UnmarshalBinary" {
		return nil
	}
	c.ensBusy[f] = true
	defer delete(c.ensBusy, f)
	fs := w.Interpret(fi, "decode")
	var out []Fact
	first := true
	for _, r := range fs.Rets {
		if r.IsErr || r.St == nil {
			continue
		}
		// inverse map: wire atom -> receiver field holding it at this return
		inv := map[string]string{}
		for p, v := range r.St.fields {
			if !strings.HasPrefix(p, "$.") {
				continue
			}
			if iv, ok := v.(IntV); ok {
				if a := iv.T.SingleAtom(); a != nil && a.Kind == "val" && strings.HasPrefix(a.Path, "P[") {
					if old, dup := inv[a.Key()]; !dup || p < old {
						inv[a.Key()] = p
					}
				}
			}
		}
		// local objects the receiver points to, by their canonical path
		objCanon := map[string]string{}
		{
			fields := map[string]Val{}
			canonFields(r.St, "$", "$", fields, 0)
			for p, v := range fields {
				if ov, ok := v.(ObjV); ok && isLocalObj(ov.Path) && !strings.Contains(p, "copyof:") {
					if old, dup := objCanon[ov.Path]; !dup || p < old {
						objCanon[ov.Path] = p
					}
				}
			}
		}
		var cand []Fact
		for _, ft := range r.St.facts {
			if ft.Cond != "" || badHyps[ft.Src] {
				continue
			}
			rw := func(t *Term) *Term {
				t = t.Map(func(a *Atom) *Term {
					if p, ok := inv[a.Key()]; ok {
						return ValOf(p)
					}
					return nil
				})
				for lp, cp := range objCanon {
					t = t.Reroot2(lp, cp)
				}
				return t
			}
			nf := Fact{L: rw(ft.L), R: rw(ft.R), Src: ft.Src}
			clean := func(t *Term) bool {
				return !t.HasAtom(func(a *Atom) bool {
					switch a.Kind {
					case "len":
						return a.Path != "P" && !strings.HasPrefix(a.Path, "$")
					case "val", "Len":
						return !strings.HasPrefix(a.Path, "$")
					case "opq":
						return true
					}
					return false
				})
			}
			inherited := strings.HasPrefix(ft.Src, "success of ") || strings.Contains(ft.Src, "at every successful return")
			if clean(nf.L) && clean(nf.R) && (inherited || nf.L.HasAtom(func(a *Atom) bool { return a.Kind == "len" && a.Path == "P" }) || nf.R.HasAtom(func(a *Atom) bool { return a.Kind == "len" && a.Path == "P" })) {
				cand = append(cand, nf)
			}
		}
		if first {
			out, first = cand, false
			continue
		}
		var keep []Fact
		for _, o := range out {
			for _, cnd := range cand {
				if o.equal(cnd) {
					keep = append(keep, o)
					break
				}
			}
		}
		out = keep
	}
	// integer fields (also of objects the receiver points to) that hold the same
	// constant at every successful return
	var consts map[string]int64
	for _, r := range fs.Rets {
		if r.IsErr || r.St == nil {
			continue
		}
		fields := map[string]Val{}
		canonFields(r.St, "$", "$", fields, 0)
		cur := map[string]int64{}
		for p, v := range fields {
			if iv, ok := v.(IntV); ok && iv.T.IsConst() && !strings.Contains(p, "copyof:") {
				cur[p] = iv.T.C
			}
		}
		if consts == nil {
			consts = cur
			continue
		}
		for p, v := range consts {
			if cv, ok := cur[p]; !ok || cv != v {
				delete(consts, p)
			}
		}
	}
	var ps []string
	for p := range consts {
		ps = append(ps, p)
	}
	sort.Strings(ps)
	for _, p := range ps {
		src := fmt.Sprintf("%s = %d at every successful return", p, consts[p])
		out = append(out, Fact{L: ValOf(p), R: Const(consts[p]), Src: src}, Fact{L: Const(consts[p]), R: ValOf(p), Src: src})
	}
	c.ensures[f] = out
	return out
}

func init() {
	extraDumps["multiret"] = func(w *World, args []string) {
		for _, key := range w.sortedFuncKeys() {
			fi := w.Funcs[key]
			if fi.Decl.Body == nil || fi.Recv != nil || fi.Decl.Type.Results == nil {
				continue
			}
			sig := fi.Obj.Type().(*types.Signature)
			if sig.Results().Len() == 0 || w.KindOfType(sig.Results().At(0).Type()) == nil {
				continue
			}
			fs := w.Interpret(fi, "ctor")
			if g := goodRets(fs.Rets); len(g) > 1 {
				fmt.Printf("%s: %d successful returns\n", key, len(g))
			}
		}
	}
}

var errNilCondRE = regexp.MustCompile(`^[A-Za-z_][A-Za-z0-9_]*==nil$`)

// assumeErrNil resolves every choice on `<identifier> == nil` to its first arm.
func assumeErrNil(t *Term) *Term {
	if t == nil {
		return nil
	}
	for i := 0; i < 6; i++ {
		changed := false
		t = t.Map(func(a *Atom) *Term {
			if a.Kind == "ite" && len(a.Sub) == 2 && errNilCondRE.MatchString(a.Cond) {
				changed = true
				return a.Sub[0]
			}
			return nil
		})
		if !changed {
			break
		}
	}
	return t
}

// mergeByteSplit: a multi-byte integer written byte by byte (data[2], data[3] = byte(x>>8), byte(x)) is the
// same record as PutUint16(data[2:4], x). Adjacent single-byte records under the same guard whose sources
// are the successive bytes of one value, most significant first (or last), are merged into one integer
// record of that value.
func mergeByteSplit(recs []*Rec) []*Rec {
	byteOf := func(src string) (val string, shift int, ok bool) {
		s := src
		if strings.HasPrefix(s, "wrap[uint8](") && strings.HasSuffix(s, ")") {
			s = s[len("wrap[uint8](") : len(s)-1]
		}
		if strings.HasPrefix(s, "opq((") && strings.HasSuffix(s, "))") {
			inner := s[len("opq(") : len(s)-1] // (X)>>(k)
			if i := strings.LastIndex(inner, ")>>("); i > 0 && strings.HasPrefix(inner, "(") && strings.HasSuffix(inner, ")") {
				var k int
				if _, err := fmt.Sscanf(inner[i+4:len(inner)-1], "%d", &k); err == nil && k%8 == 0 && k > 0 {
					return inner[1:i], k, true
				}
			}
			return "", 0, false
		}
		if s != src { // wrap[uint8](X): the low byte
			return s, 0, true
		}
		return "", 0, false
	}
	var out []*Rec
	for i := 0; i < len(recs); i++ {
		r := recs[i]
		merged := false
		if r.Kind == "byte" && r.Off != nil && r.W != nil && r.W.IsConst() && r.W.C == 1 {
			if v0, sh0, ok := byteOf(r.Src); ok && sh0 > 0 {
				n := sh0/8 + 1
				if i+n <= len(recs) && (n == 2 || n == 4 || n == 8) {
					good := true
					for j := 1; j < n; j++ {
						q := recs[i+j]
						vj, shj, okj := byteOf(q.Src)
						if !okj && j == n-1 && q.Src == v0 {
							// the low byte written as byte(x): the conversion leaves no trace in the source text
							vj, shj, okj = v0, 0, true
						}
						if q.Kind != "byte" || !okj || vj != v0 || shj != sh0-8*j || q.Guard != r.Guard || q.Loop != r.Loop || !q.Off.Equal(r.Off.AddC(int64(j))) {
							good = false
							break
						}
					}
					if good {
						nr := *r
						nr.Kind, nr.Order, nr.W, nr.Src = "int", "be", Const(int64(n)), v0
						nr.Val = nil
						if strings.HasPrefix(v0, "val(") && strings.HasSuffix(v0, ")") && !strings.ContainsAny(v0[4:len(v0)-1], "() +") {
							nr.Val = ValOf(v0[4 : len(v0)-1])
						}
						out = append(out, &nr)
						i += n - 1
						merged = true
					}
				}
			}
		}
		if !merged {
			out = append(out, r)
		}
	}
	return out
}
