package main

// W — the wire-summary interpreter (DESIGN §2.3): an abstract interpreter over
// the typed AST of one function, restricted to the statement language of the
// encoders, size functions, constructors, builders and decoders of this
// repository. Anything outside that language is recorded as a note with the
// verdict "undecided" for the obligations that depend on it.

import (
	"fmt"
	"go/ast"
	"go/constant"
	"go/token"
	"go/types"
	"sort"
	"strconv"
	"strings"

	"golang.org/x/tools/go/packages"
)

// ---------------------------------------------------------------- values

type Val interface{ valString() string }

type IntV struct{ T *Term }
type BoolV struct{ Cond string }
type NilV struct{}
type UnkV struct{ Text string }

// BufV is a view into a byte buffer object.
type BufV struct {
	ID  int
	Off *Term
	Hi  *Term // exclusive upper bound relative to buffer start, nil = end of buffer
}

// ObjV is a struct value or pointer to one: either rooted at the receiver
// ("$", "$.Match", "$.Actions[*]") or a local allocation ("new#3").
type ObjV struct {
	Path string
	Type types.Type
}

// ClosV is a function literal together with the values it captured.
type ClosV struct {
	Lit *ast.FuncLit
	Env map[types.Object]Val
	In  *Interp
}

// SliceV is a non-byte slice value (lists of children).
type SliceV struct {
	Path  string // field path it was read from ("" for a fresh slice)
	Elems []Val  // elements appended to it symbolically (fresh slices and builders)
	Base  string // for builders: "old contents of Path" ++ Elems
	Len   *Term
}

func (v IntV) valString() string  { return v.T.String() }
func (v BoolV) valString() string { return v.Cond }
func (NilV) valString() string    { return "nil" }
func (v UnkV) valString() string  { return "?" + v.Text }
func (v BufV) valString() string  { return fmt.Sprintf("buf#%d[%s:]", v.ID, v.Off) }
func (v ObjV) valString() string  { return v.Path }
func (v ClosV) valString() string { return "closure" }

// PtrV is the address of a receiver-reachable field (Path) or of a local variable (Var).
type PtrV struct {
	Path string
	Var  types.Object
	Elem types.Type
}

func (v PtrV) valString() string {
	if v.Var != nil {
		return "&" + v.Var.Name()
	}
	return "&" + v.Path
}
func (v SliceV) valString() string { return "slice(" + v.Path + ")" }

// ---------------------------------------------------------------- buffers

type Rec struct {
	Off, W *Term
	Kind   string // int | byte | bytes | child | zero | packed | const | unknown
	Src    string // canonical source: "$.Cookie", "enc($.Match)", "const:4" …
	Order  string // "be" | "le" | "" (single byte / bytes)
	Guard  string // conjunction of branch conditions under which it happens
	Loop   *LoopCtx
	Expr   ast.Expr // value expression (packed analysis)
	Pos    token.Pos
	Fn     string
	Snap   map[string]*Term // child records: integer fields of the child strongly updated before it was encoded
	Val    *Term            // integer writes: the abstract value written
}

type LoopCtx struct {
	List string // path of the slice ranged over
	Step *Term  // cursor advance per iteration
	ID   int
}

type BufObj struct {
	Origin  string // make | enc | field | param | append | lit | nil | unknown | bytesbuf
	Src     string
	SrcType string
	Len     *Term
	Extent  *Term
	Recs    []*Rec
	Cursor  types.Object
	// CursorPath: the cursor is an integer field of a local object (a cursor struct's offset: w.n)
	CursorPath string
	Pos        token.Pos
	Snap       map[string]*Term
	// FromRead: the read record that filled this fresh buffer (net.IPv4(data[n], …)); when the buffer is
	// later stored into a receiver field the record is relabelled with that field
	FromRead *Rec
}

func (b *BufObj) clone() *BufObj {
	n := *b
	n.Recs = append([]*Rec(nil), b.Recs...)
	return &n
}

// ---------------------------------------------------------------- state

type State struct {
	vars    map[types.Object]Val
	fields  map[string]Val // strong updates: object path -> value
	bufs    map[int]*BufObj
	facts   []Fact
	nonNil  []types.Object
	isNil   []types.Object
	decoded []string          // object paths filled by a child decoder
	ensures map[string][]Fact // error-object path -> facts that hold when that child decode succeeded
}

func newState() *State {
	return &State{vars: map[types.Object]Val{}, fields: map[string]Val{}, bufs: map[int]*BufObj{}}
}

func (s *State) clone() *State {
	n := newState()
	for k, v := range s.vars {
		n.vars[k] = v
	}
	for k, v := range s.fields {
		n.fields[k] = v
	}
	for k, v := range s.bufs {
		n.bufs[k] = v.clone()
	}
	n.facts = append(n.facts, s.facts...)
	n.nonNil = append(n.nonNil, s.nonNil...)
	n.isNil = append(n.isNil, s.isNil...)
	n.decoded = append(n.decoded, s.decoded...)
	if s.ensures != nil {
		n.ensures = map[string][]Fact{}
		for k, v := range s.ensures {
			n.ensures[k] = v
		}
	}
	return n
}

// Store is a write into memory reachable from the receiver (or a global).
type Store struct {
	Path  string // canonical path, "$..." or "global:pkg.Name"
	Op    string // = += |= …
	RHS   string // rendered value
	Val   Val
	Guard string
	Pos   token.Pos
	Fn    string
	Loop  bool
	Seq   int // program-order stamp shared with child-encoding records (Snap["#seq"])
}

type RetRec struct {
	Guard string
	Vals  []Val
	St    *State
	Pos   token.Pos
	IsErr bool // returns a non-nil error
}

type Note struct {
	Pos  token.Pos
	Text string
}

// Interp interprets one function activation.
type Interp struct {
	w      *World
	fi     *FuncInfo
	info   *types.Info
	depth  int
	parent *Interp

	recvObj types.Object
	results []types.Object
	param   types.Object // decoder input parameter (byte slice), if any
	paramID int

	guards    []string
	loops     []*LoopCtx
	Stores    []*Store
	Rets      []*RetRec
	Notes     []Note
	Reads     []*Rec // decoder read records
	Sites     []*Site
	Calls     []*CallRec
	Copies    []*CopyRec
	Allocs    []*AllocSite
	LoopsSeen []*LoopRec
	DecCalls  []*DecCall
	Defers    []*ast.DeferStmt
	Gos       []*ast.GoStmt
	Switches  []*SwitchRec
	shared    *sharedCtx
	// StreamOuts (root only): write streams handed out by buf.Read(b)
	StreamOuts []*StreamOut
	mode       string // root only: the mode Interpret was asked for

	pendingRead *Rec
	curFacts    []Fact
	SliceOff    map[ast.Expr]*Term // root only: absolute input offset of every slice expression taken on the input
	SliceFacts  map[ast.Expr][]Fact
	SliceHi     map[ast.Expr]*Term // root only: absolute end offset of slice expressions with an explicit upper bound
	noSites     bool
	breaks      []*brk
	continues   []*brk
	fellThrough bool
	closLits    map[types.Object]*ast.FuncLit
	liftedPaths map[string]types.Object // inside execFor: field path → synthetic variable
	byRef       bool                    // closure body: assignments to captured variables are written back to the caller's frame
	contGuard   string                  // set by execIf: guard under which the rest of the enclosing block runs
	curLit      *ast.FuncType
}

type sharedCtx struct {
	nextBuf   int
	nextObj   int
	nextSym   int
	nextLoop  int
	fieldVars map[string]*types.Var // synthetic variables standing for integer fields of local objects inside a for loop
	lenDepth  int
	seq       int
}

type CallRec struct {
	Callee *types.Func
	Recv   Val
	Args   []Val
	Pos    token.Pos
	Guard  string
	Text   string
}

func (in *Interp) note(pos token.Pos, f string, a ...any) {
	in.Notes = append(in.Notes, Note{pos, fmt.Sprintf(f, a...)})
	if in.parent != nil {
		in.parent.Notes = append(in.parent.Notes, Note{pos, fmt.Sprintf(f, a...)})
	}
}

func (in *Interp) guard() string { return strings.Join(in.guards, " && ") }

func (in *Interp) newBuf(st *State, b *BufObj) BufV {
	in.shared.nextBuf++
	id := in.shared.nextBuf
	if b.Extent == nil {
		b.Extent = Const(0)
	}
	st.bufs[id] = b
	return BufV{ID: id, Off: Const(0)}
}

func (in *Interp) newObj(t types.Type) ObjV {
	in.shared.nextObj++
	return ObjV{Path: fmt.Sprintf("new#%d", in.shared.nextObj), Type: t}
}

func (in *Interp) freshSym(name string) *Term {
	in.shared.nextSym++
	return Opq(fmt.Sprintf("%s#%d", name, in.shared.nextSym))
}

func (in *Interp) obj(id *ast.Ident) types.Object {
	if o := in.info.Uses[id]; o != nil {
		return o
	}
	return in.info.Defs[id]
}

func unparen(e ast.Expr) ast.Expr {
	for {
		p, ok := e.(*ast.ParenExpr)
		if !ok {
			return e
		}
		e = p.X
	}
}

func derefType(t types.Type) types.Type {
	if t == nil {
		return nil
	}
	if p, ok := t.Underlying().(*types.Pointer); ok {
		return p.Elem()
	}
	return t
}

func structOf(t types.Type) *types.Struct {
	t = derefType(t)
	if t == nil {
		return nil
	}
	s, _ := t.Underlying().(*types.Struct)
	return s
}

// ---------------------------------------------------------------- paths

// isLocalObj reports whether the object path is a local allocation.
func isLocalObj(path string) bool { return strings.HasPrefix(path, "new#") }

// fieldPath resolves obj.F (one declared field step), following a pointer
// stored in the field map for local objects.
func (in *Interp) stepField(st *State, base ObjV, f *types.Var) (string, types.Type) {
	p := base.Path + "." + f.Name()
	return p, f.Type()
}

// readField returns the value at object path p of type t.
func (in *Interp) readPath(st *State, p string, t types.Type) Val {
	if v, ok := st.fields[p]; ok {
		return v
	}
	if src, ok := copySource(st, p); ok {
		return in.readPath(st, src, t)
	}
	root := p
	if i := strings.Index(p, "."); i >= 0 {
		root = p[:i]
	}
	if root == p && isLocalObj(p) {
		return ObjV{Path: p, Type: t} // the object itself (reached through a stored pointer)
	}
	zero := isLocalObj(root) && !strings.Contains(p, "[*]")
	for _, d := range st.decoded {
		if p == d || strings.HasPrefix(p, d+".") {
			zero = false // filled by a child decoder: whatever was on the wire
		}
	}
	switch u := t.Underlying().(type) {
	case *types.Basic:
		switch {
		case u.Info()&types.IsInteger != 0:
			if zero {
				return IntV{Const(0)}
			}
			if bits, uns := intBits(t); uns && bits <= 32 {
				return IntV{setAtomMax(ValOf(p), int64(1)<<uint(bits)-1)}
			}
			return IntV{ValOf(p)}
		case u.Info()&types.IsBoolean != 0:
			if zero {
				return BoolV{"false"}
			}
			return BoolV{p}
		}
		return UnkV{p}
	case *types.Slice:
		if isByteSlice(t) {
			if zero {
				v := in.newBuf(st, &BufObj{Origin: "nil", Len: Const(0)})
				return v
			}
			v := in.newBuf(st, &BufObj{Origin: "field", Src: p, Len: LenOf(p)})
			st.bufs[v.ID].Extent = LenOf(p)
			return v
		}
		if zero {
			return SliceV{Path: "", Len: Const(0)}
		}
		return SliceV{Path: p, Len: LenOf(p)}
	case *types.Array:
		if n, ok := isByteArray(t); ok {
			v := in.newBuf(st, &BufObj{Origin: "field", Src: p, Len: Const(n)})
			st.bufs[v.ID].Extent = Const(n)
			return v
		}
		return UnkV{p}
	case *types.Pointer:
		if zero {
			return NilV{}
		}
		return ObjV{Path: p, Type: t}
	case *types.Struct:
		return ObjV{Path: p, Type: t}
	case *types.Interface:
		if zero {
			return NilV{}
		}
		return ObjV{Path: p, Type: t}
	}
	return UnkV{p}
}

// copySource redirects a path below a struct that was copied from another
// object (and not overwritten since) to the source of the copy.
func copySource(st *State, p string) (string, bool) {
	for i := len(p) - 1; i > 0; i-- {
		if p[i] != '.' {
			continue
		}
		pre := p[:i]
		if v, ok := st.fields["copyof:"+pre]; ok {
			if ov, ok := v.(ObjV); ok && ov.Path != pre {
				return ov.Path + p[i:], true
			}
		}
	}
	return "", false
}

// selPath evaluates a field selector to (canonical path, type). Promoted
// fields are spelled out from the type checker's selection.
func (in *Interp) selPath(st *State, x *ast.SelectorExpr) (string, types.Type, bool) {
	sel, ok := in.info.Selections[x]
	if !ok || sel.Kind() != types.FieldVal {
		return "", nil, false
	}
	bv := in.eval(st, x.X)
	base, ok := bv.(ObjV)
	if !ok {
		return "", nil, false
	}
	t := sel.Recv()
	cur := base
	for _, idx := range sel.Index() {
		s := structOf(t)
		if s == nil {
			return "", nil, false
		}
		f := s.Field(idx)
		p := cur.Path + "." + f.Name()
		t = f.Type()
		// follow a pointer (or embedded struct copy) stored by a strong update
		if v, ok := st.fields[p]; ok {
			if ov, ok := v.(ObjV); ok {
				if _, isPtr := f.Type().Underlying().(*types.Pointer); isPtr {
					cur = ObjV{Path: ov.Path, Type: t}
					continue
				}
			}
		}
		cur = ObjV{Path: p, Type: t}
	}
	return cur.Path, t, true
}

// ---------------------------------------------------------------- rendering

// render gives a canonical text for an expression: receiver paths, constants
// folded, locals replaced by their current abstract value when known.
func (in *Interp) render(st *State, e ast.Expr) string {
	if tv, ok := in.info.Types[e]; ok && tv.Value != nil {
		return tv.Value.ExactString()
	}
	switch x := e.(type) {
	case *ast.ParenExpr:
		return "(" + in.render(st, x.X) + ")"
	case *ast.Ident:
		if x.Name == "nil" || x.Name == "true" || x.Name == "false" {
			return x.Name
		}
		o := in.obj(x)
		if st != nil {
			if v, ok := st.vars[o]; ok {
				switch vv := v.(type) {
				case ObjV:
					return vv.Path
				case IntV:
					return vv.T.String()
				case BoolV:
					return vv.Cond
				case NilV:
					return "nil"
				case BufV:
					b := st.bufs[vv.ID]
					if b != nil && b.Origin == "field" {
						return b.Src
					}
					if b != nil && b.Origin == "enc" {
						return "enc(" + b.Src + ")"
					}
					if b != nil && b.Origin == "param" {
						return "P"
					}
				case SliceV:
					if vv.Path != "" {
						return vv.Path
					}
				}
			}
		}
		if o != nil && o.Pkg() != nil && o.Parent() == o.Pkg().Scope() {
			return o.Pkg().Name() + "." + o.Name()
		}
		return x.Name
	case *ast.SelectorExpr:
		if st != nil {
			if p, _, ok := in.selPath(st, x); ok {
				if v, ok := st.fields[p]; ok {
					switch vv := v.(type) {
					case IntV:
						return vv.T.String()
					case BoolV:
						return vv.Cond
					}
				}
				return p
			}
		}
		return in.render(st, x.X) + "." + x.Sel.Name
	case *ast.IndexExpr:
		return in.render(st, x.X) + "[" + in.render(st, x.Index) + "]"
	case *ast.StarExpr:
		if st != nil {
			if id, ok := unparen(x.X).(*ast.Ident); ok {
				if pv, ok := st.vars[in.obj(id)].(PtrV); ok && pv.Var == nil {
					return pv.Path
				}
			}
		}
		if inner := in.render(st, x.X); strings.HasPrefix(inner, "&") {
			return inner[1:]
		} else {
			return "*" + inner
		}
	case *ast.CallExpr:
		var a []string
		for _, arg := range x.Args {
			a = append(a, in.render(st, arg))
		}
		if tv, ok := in.info.Types[x.Fun]; ok && tv.IsType() {
			return types.TypeString(tv.Type, func(p *types.Package) string { return p.Name() }) + "(" + strings.Join(a, ",") + ")"
		}
		return in.render(st, x.Fun) + "(" + strings.Join(a, ",") + ")"
	case *ast.BinaryExpr:
		return in.render(st, x.X) + x.Op.String() + in.render(st, x.Y)
	case *ast.UnaryExpr:
		return x.Op.String() + in.render(st, x.X)
	case *ast.SliceExpr:
		lo, hi := "", ""
		if x.Low != nil {
			lo = in.render(st, x.Low)
		}
		if x.High != nil {
			hi = in.render(st, x.High)
		}
		return in.render(st, x.X) + "[" + lo + ":" + hi + "]"
	case *ast.BasicLit:
		return x.Value
	case *ast.CompositeLit:
		return "lit"
	case *ast.FuncLit:
		return "func"
	}
	return fmt.Sprintf("<%T>", e)
}

// cond renders a branch condition canonically.
func (in *Interp) cond(st *State, e ast.Expr) string {
	e = unparen(e)
	if tv, ok := in.info.Types[e]; ok && tv.Value != nil {
		return tv.Value.ExactString()
	}
	switch x := e.(type) {
	case *ast.UnaryExpr:
		if x.Op == token.NOT {
			return negCond(in.cond(st, x.X))
		}
	case *ast.BinaryExpr:
		switch x.Op {
		case token.LAND:
			// A && B  ==  !(!A || !B): one canonical connective, operands sorted
			cx := in.cond(st, x.X)
			cy := in.underShortCircuit(st, x.X, true, func() string { return in.cond(st, x.Y) })
			return negCond(orCond(negCond(cx), negCond(cy)))
		case token.LOR:
			cx := in.cond(st, x.X)
			cy := in.underShortCircuit(st, x.X, false, func() string { return in.cond(st, x.Y) })
			return orCond(cx, cy)
		case token.EQL, token.NEQ, token.LSS, token.LEQ, token.GTR, token.GEQ:
			l, r := in.operand(st, x.X), in.operand(st, x.Y)
			switch x.Op {
			case token.EQL:
				return eqCond(l, r)
			case token.NEQ:
				return negCond(eqCond(l, r))
			case token.LSS:
				return l + "<" + r
			case token.GEQ:
				return negCond(l + "<" + r)
			case token.GTR:
				return r + "<" + l
			case token.LEQ:
				return negCond(r + "<" + l)
			}
		}
	}
	// membership in a constant set written as a map (`var set = map[T]bool{A: true, B: true}`, read only):
	// set[x] is x==A || x==B
	if ix, ok := e.(*ast.IndexExpr); ok {
		if keys, ok := in.w.constBoolSet(in.info, ix.X); ok {
			in.eval(st, ix.X)
			l := in.operand(st, ix.Index)
			c := "false"
			for _, k := range keys {
				c = orCond(c, eqCond(l, strconv.FormatInt(k, 10)))
			}
			return c
		}
	}
	if v, ok := in.eval(st, e).(BoolV); ok {
		return v.Cond
	}
	return in.render(st, e)
}

// constBoolSet: e names a package-level map[integer]bool whose initialiser is a literal with constant keys,
// that no statement of the module assigns to, deletes from, takes the address of or passes anywhere (every
// use is an index read). It returns the keys mapped to true.
func (w *World) constBoolSet(info *types.Info, e ast.Expr) ([]int64, bool) {
	var id *ast.Ident
	switch x := unparen(e).(type) {
	case *ast.Ident:
		id = x
	case *ast.SelectorExpr:
		id = x.Sel
	default:
		return nil, false
	}
	v, ok := info.Uses[id].(*types.Var)
	if !ok || v.Pkg() == nil || v.Parent() != v.Pkg().Scope() {
		return nil, false
	}
	mt, ok := v.Type().Underlying().(*types.Map)
	if !ok || !isIntType(mt.Key()) {
		return nil, false
	}
	if b, ok := mt.Elem().Underlying().(*types.Basic); !ok || b.Kind() != types.Bool {
		return nil, false
	}
	init, pkg := w.globalInit(v)
	cl, ok := unparenOrNil(init).(*ast.CompositeLit)
	if !ok || pkg == nil {
		return nil, false
	}
	var keys []int64
	for _, el := range cl.Elts {
		kv, ok := el.(*ast.KeyValueExpr)
		if !ok {
			return nil, false
		}
		k, isC := constIntOf(pkg.TypesInfo, kv.Key)
		tv, hasV := pkg.TypesInfo.Types[kv.Value]
		if !isC || !hasV || tv.Value == nil || tv.Value.Kind() != constant.Bool {
			return nil, false
		}
		if constant.BoolVal(tv.Value) {
			keys = append(keys, k)
		}
	}
	// every mention of the variable in the module is the operand of an index read
	for _, p := range w.Mod {
		for _, f := range p.Syntax {
			okUses := map[*ast.Ident]bool{}
			bad := false
			ast.Inspect(f, func(n ast.Node) bool {
				switch x := n.(type) {
				case *ast.AssignStmt:
					for _, l := range x.Lhs {
						if ix, ok := unparen(l).(*ast.IndexExpr); ok && w.refersTo(p, ix.X, v) {
							bad = true
						}
					}
				case *ast.IncDecStmt:
					if ix, ok := unparen(x.X).(*ast.IndexExpr); ok && w.refersTo(p, ix.X, v) {
						bad = true
					}
				case *ast.IndexExpr:
					switch y := unparen(x.X).(type) {
					case *ast.Ident:
						okUses[y] = true
					case *ast.SelectorExpr:
						okUses[y.Sel] = true
					}
				}
				return true
			})
			ast.Inspect(f, func(n ast.Node) bool {
				if i, ok := n.(*ast.Ident); ok && p.TypesInfo.Uses[i] == v && !okUses[i] {
					bad = true
				}
				return true
			})
			if bad {
				return nil, false
			}
		}
	}
	sort.Slice(keys, func(i, j int) bool { return keys[i] < keys[j] })
	return keys, true
}

func unparenOrNil(e ast.Expr) ast.Expr {
	if e == nil {
		return nil
	}
	return unparen(e)
}

func (in *Interp) operand(st *State, e ast.Expr) string {
	if tv, ok := in.info.Types[e]; ok && tv.Value != nil {
		return tv.Value.ExactString()
	}
	return in.operandVal(st, e, in.eval(st, e))
}

// operandVal renders an operand whose value was already computed (evaluating twice would repeat the
// effects of an inlined helper or closure).
func (in *Interp) operandVal(st *State, e ast.Expr, val Val) string {
	if tv, ok := in.info.Types[e]; ok && tv.Value != nil {
		return tv.Value.ExactString()
	}
	t := in.info.TypeOf(e)
	if t != nil && isIntType(t) {
		if v, ok := val.(IntV); ok {
			return v.T.String()
		}
	}
	switch v := val.(type) {
	case ObjV:
		return v.Path
	case NilV:
		return "nil"
	case BoolV:
		return v.Cond
	case SliceV:
		if v.Path != "" {
			return v.Path
		}
	case BufV:
		if b := st.bufs[v.ID]; b != nil && b.Origin == "field" {
			return b.Src
		}
	}
	return in.render(st, e)
}

// eqCond orders the operands of == canonically (constants and nil last).
func eqCond(l, r string) string {
	if l == r && (l == "nil" || isNumeric(l)) {
		return "true"
	}
	// a length is never negative: len(x) == 0 is the negation of 0 < len(x) (one spelling for both)
	if r == "0" && strings.HasPrefix(l, "len(") && strings.HasSuffix(l, ")") && strings.Count(l, "(") == strings.Count(l, ")") && !strings.ContainsAny(l[4:len(l)-1], "+-*/ ") {
		return negCond("0<" + l)
	}
	if l == "0" && strings.HasPrefix(r, "len(") && strings.HasSuffix(r, ")") && strings.Count(r, "(") == strings.Count(r, ")") && !strings.ContainsAny(r[4:len(r)-1], "+-*/ ") {
		return negCond("0<" + r)
	}
	// an object this activation allocated is not nil
	if r == "nil" && isLocalObj(l) && !strings.Contains(l, ".") || l == "nil" && isLocalObj(r) && !strings.Contains(r, ".") {
		return "false"
	}
	if l == "nil" || isNumeric(l) && !isNumeric(r) {
		l, r = r, l
	} else if !isNumeric(r) && r != "nil" && r < l {
		l, r = r, l
	}
	return l + "==" + r
}

func isNumeric(s string) bool {
	if s == "" {
		return false
	}
	for i := 0; i < len(s); i++ {
		if (s[i] < '0' || s[i] > '9') && !(i == 0 && s[i] == '-') {
			return false
		}
	}
	return true
}

// orCond builds a canonical disjunction: flattened, sorted, duplicate-free.
func orCond(a, b string) string {
	parts := append(splitOr(a), splitOr(b)...)
	sort.Strings(parts)
	var out []string
	for i, p := range parts {
		if i > 0 && p == parts[i-1] {
			continue
		}
		if p == "true" {
			return "true"
		}
		if p == "false" {
			continue
		}
		out = append(out, p)
	}
	if len(out) == 0 {
		return "false"
	}
	if len(out) == 1 {
		return out[0]
	}
	return "(" + strings.Join(out, " || ") + ")"
}

func splitOr(c string) []string {
	if !strings.HasPrefix(c, "(") || !strings.HasSuffix(c, ")") {
		return []string{c}
	}
	inner := c[1 : len(c)-1]
	var parts []string
	depth, start := 0, 0
	for i := 0; i < len(inner); i++ {
		switch inner[i] {
		case '(':
			depth++
		case ')':
			depth--
			if depth < 0 {
				return []string{c}
			}
		case ' ':
			if depth == 0 && strings.HasPrefix(inner[i:], " || ") {
				parts = append(parts, inner[start:i])
				start = i + 4
			}
		}
	}
	if depth != 0 || len(parts) == 0 {
		return []string{c}
	}
	return append(parts, inner[start:])
}

func negCond(c string) string {
	if strings.HasPrefix(c, "!(") && strings.HasSuffix(c, ")") {
		return c[2 : len(c)-1]
	}
	if c == "true" {
		return "false"
	}
	if c == "false" {
		return "true"
	}
	return "!(" + c + ")"
}

// ---------------------------------------------------------------- expressions

func (in *Interp) constInt(e ast.Expr) (*Term, bool) {
	if tv, ok := in.info.Types[e]; ok && tv.Value != nil {
		if tv.Value.Kind() == constant.Int {
			if v, ok := constant.Int64Val(tv.Value); ok {
				return Const(v), true
			}
			if v, ok := constant.Uint64Val(tv.Value); ok {
				return Const(int64(v)), true
			}
		}
		if tv.Value.Kind() == constant.Bool {
			return nil, false
		}
	}
	return nil, false
}

// evalInt evaluates an integer-typed expression to a term.
func (in *Interp) evalInt(st *State, e ast.Expr) *Term {
	switch v := in.eval(st, e).(type) {
	case IntV:
		return v.T
	}
	return Opq(in.render(st, e))
}

func (in *Interp) eval(st *State, e ast.Expr) Val {
	if t, ok := in.constInt(e); ok {
		return IntV{t}
	}
	if tv, ok := in.info.Types[e]; ok && tv.Value != nil && tv.Value.Kind() == constant.Bool {
		return BoolV{tv.Value.ExactString()}
	}
	switch x := e.(type) {
	case *ast.ParenExpr:
		return in.eval(st, x.X)
	case *ast.Ident:
		if x.Name == "nil" {
			return NilV{}
		}
		o := in.obj(x)
		if v, ok := st.vars[o]; ok {
			return v
		}
		if vr, ok := o.(*types.Var); ok {
			if o.Pkg() != nil && o.Parent() == o.Pkg().Scope() {
				return in.globalVal(st, vr)
			}
			// unknown local (e.g. a parameter): symbolic by type
			return in.symbolic(st, "arg:"+x.Name, vr.Type())
		}
		if f, ok := o.(*types.Func); ok {
			return UnkV{"func:" + f.FullName()}
		}
		return UnkV{x.Name}
	case *ast.SelectorExpr:
		if p, t, ok := in.selPath(st, x); ok {
			return in.readPath(st, p, t)
		}
		// qualified identifier (pkg.Name)
		if id, ok := x.X.(*ast.Ident); ok {
			if _, isPkg := in.obj(id).(*types.PkgName); isPkg {
				if vr, ok := in.info.Uses[x.Sel].(*types.Var); ok {
					return in.globalVal(st, vr)
				}
			}
		}
		return UnkV{in.render(st, e)}
	case *ast.StarExpr:
		v := in.eval(st, x.X)
		if ov, ok := v.(ObjV); ok {
			return ObjV{Path: ov.Path, Type: derefType(ov.Type)}
		}
		if pv, ok := v.(PtrV); ok {
			if pv.Var != nil {
				if cur, ok := st.vars[pv.Var]; ok {
					return cur
				}
			} else {
				return in.readPath(st, pv.Path, pv.Elem)
			}
		}
		if t := in.info.TypeOf(e); t != nil && isIntType(t) {
			if uv, ok := v.(UnkV); ok {
				return IntV{ValOf("*" + uv.Text)}
			}
			return IntV{ValOf("*" + in.render(st, x.X))}
		}
		return v
	case *ast.UnaryExpr:
		switch x.Op {
		case token.AND:
			if cl, ok := unparen(x.X).(*ast.CompositeLit); ok && isBytesBuffer(in.info.TypeOf(cl)) {
				return in.newStream(st, x.Pos())
			}
			if cl, ok := unparen(x.X).(*ast.CompositeLit); ok {
				return in.compositeLit(st, cl)
			}
			v := in.eval(st, x.X)
			if ov, ok := v.(ObjV); ok {
				return ObjV{Path: ov.Path, Type: types.NewPointer(ov.Type)}
			}
			// the address of a scalar, slice or interface field, or of a local variable
			switch ax := unparen(x.X).(type) {
			case *ast.SelectorExpr:
				if p, t, ok := in.selPath(st, ax); ok {
					return PtrV{Path: p, Elem: t}
				}
			case *ast.Ident:
				if vr, ok := in.obj(ax).(*types.Var); ok && !(vr.Pkg() != nil && vr.Parent() == vr.Pkg().Scope()) {
					if sv, _, isStream := in.streamOf(st, st.vars[vr]); isStream {
						return sv
					}
					if _, known := st.vars[vr]; known {
						return PtrV{Var: vr, Elem: vr.Type()}
					}
				}
			}
			return UnkV{"&" + in.render(st, x.X)}
		case token.NOT:
			return BoolV{negCond(in.cond(st, x.X))}
		case token.SUB:
			return IntV{in.evalInt(st, x.X).Scale(-1)}
		case token.XOR:
			return IntV{Opq("^" + in.render(st, x.X))}
		}
	case *ast.BinaryExpr:
		return in.binary(st, x)
	case *ast.CallExpr:
		return in.call(st, x)
	case *ast.IndexExpr:
		bv := in.eval(st, x.X)
		switch b := bv.(type) {
		case BufV:
			idx := in.evalInt(st, x.Index)
			in.site(st, b, "index", b.Off.Add(idx), Const(1), x)
			if st.bufs[b.ID] != nil && st.bufs[b.ID].Origin == "param" {
				in.pendingRead = &Rec{Off: b.Off.Add(idx), W: Const(1), Kind: "byte", Pos: x.Pos()}
				return IntV{setAtomMax(FromAtom(&Atom{Kind: "val", Path: "P[" + b.Off.Add(idx).String() + "]"}), 255)}
			}
			return IntV{setAtomMax(Opq(in.render(st, e)), 255)} // a byte of a local buffer
		case SliceV:
			// a constant index into a list the caller passed in (a variadic window argument): it must exist
			if c, isC := constIntOf(in.info, x.Index); isC && strings.HasPrefix(b.Path, "arg:") && b.Len != nil && !in.noSites {
				facts := append([]Fact(nil), st.facts...)
				in.addSite(&Site{Kind: "index", Buf: b.Path, Origin: "list", Pos: x.Pos(), Text: in.render(st, x), Fn: in.fi.Key, Guard: in.guard(), Expr: x,
					Needs: []Need{{A: Const(c + 1), B: b.Len, What: fmt.Sprintf("element %d of the list exists", c)}}, Facts: facts})
			}
			// x[len(x)-1] right after x = append(x, v): the element just stored
			if n := len(b.Elems); n > 0 {
				if _, spread := b.Elems[n-1].(SpreadV); !spread {
					if be, ok := unparen(x.Index).(*ast.BinaryExpr); ok && be.Op == token.SUB {
						if c, isC := constIntOf(in.info, be.Y); isC && c == 1 {
							if lc, ok := unparen(be.X).(*ast.CallExpr); ok && len(lc.Args) == 1 {
								if id, ok := lc.Fun.(*ast.Ident); ok && id.Name == "len" && in.info.Uses[id] == types.Universe.Lookup("len") &&
									types.ExprString(lc.Args[0]) == types.ExprString(x.X) {
									return b.Elems[n-1]
								}
							}
						}
					}
				}
			}
			if b.Path != "" {
				t := in.info.TypeOf(e)
				return in.readPath(st, b.Path+"[*]", t)
			}
		}
		// a fixed-size table (name table, width table) indexed by a computed value: the index must lie inside it
		if at := arrayOf(in.info.TypeOf(x.X)); at != nil {
			if tv, isConst := in.info.Types[x.Index]; !isConst || tv.Value == nil {
				idx := in.evalInt(st, x.Index)
				facts := append([]Fact(nil), st.facts...)
				in.addSite(&Site{Kind: "index", Buf: in.render(st, x.X), Origin: "array", Pos: x.Pos(), Text: in.render(st, x), Fn: in.fi.Key, Guard: in.guard(), Expr: x,
					Needs: []Need{{A: Const(0), B: idx, What: "index not negative"}, {A: idx.AddC(1), B: Const(at.Len()), What: fmt.Sprintf("index inside the %d-element array", at.Len())}}, Facts: facts})
				return in.symbolic(st, in.render(st, x.X)+"[*]", at.Elem())
			}
		}
		// map element: symbolic by the map's name
		if mt, ok := in.info.TypeOf(x.X).Underlying().(*types.Map); ok {
			name := in.operand(st, x.X)
			if uv, ok := bv.(UnkV); ok && uv.Text != "" {
				name = uv.Text
			}
			if ov, ok := bv.(ObjV); ok {
				name = ov.Path
			}
			in.eval(st, x.Index)
			return in.symbolic(st, name+"[*]", mt.Elem())
		}
		return UnkV{in.render(st, e)}
	case *ast.SliceExpr:
		return in.sliceExpr(st, x)
	case *ast.CompositeLit:
		return in.compositeLit(st, x)
	case *ast.FuncLit:
		env := map[types.Object]Val{}
		for k, v := range st.vars {
			env[k] = v
		}
		return ClosV{Lit: x, Env: env, In: in}
	case *ast.TypeAssertExpr:
		v := in.eval(st, x.X)
		if ov, ok := v.(ObjV); ok && x.Type != nil {
			return ObjV{Path: ov.Path, Type: in.info.TypeOf(x.Type)}
		}
		return v
	case *ast.BasicLit:
		return UnkV{x.Value}
	}
	return UnkV{in.render(st, e)}
}

func (in *Interp) symbolic(st *State, name string, t types.Type) Val {
	switch {
	case isIntType(t):
		return IntV{ValOf(name)}
	case isByteSlice(t):
		v := in.newBuf(st, &BufObj{Origin: "arg", Src: name, Len: LenOf(name)})
		st.bufs[v.ID].Extent = LenOf(name)
		return v
	}
	if b, ok := t.Underlying().(*types.Basic); ok && b.Info()&types.IsBoolean != 0 {
		return BoolV{name}
	}
	switch t.Underlying().(type) {
	case *types.Pointer, *types.Struct, *types.Interface:
		return ObjV{Path: name, Type: t}
	case *types.Slice:
		return SliceV{Path: name, Len: LenOf(name)}
	case *types.Array:
		if n, ok := isByteArray(t); ok {
			v := in.newBuf(st, &BufObj{Origin: "arg", Src: name, Len: Const(n)})
			st.bufs[v.ID].Extent = Const(n)
			return v
		}
	}
	return UnkV{name}
}

func (in *Interp) globalVal(st *State, v *types.Var) Val {
	name := "global:" + v.Pkg().Name() + "." + v.Name()
	if val, ok := st.fields[name]; ok {
		return val
	}
	// function-typed package variables: interpret the initialiser (the rules
	// that rely on it check separately that the variable is never reassigned)
	if _, isFunc := v.Type().Underlying().(*types.Signature); isFunc && in.depth < maxInline {
		if init, pkg := in.w.globalInit(v); init != nil {
			sub := &Interp{w: in.w, fi: &FuncInfo{Key: "init:" + name, Pkg: pkg, Decl: &ast.FuncDecl{Type: &ast.FuncType{Params: &ast.FieldList{}}}}, info: pkg.TypesInfo, depth: in.depth + 1, parent: in, shared: in.shared}
			val := sub.eval(st, init)
			if _, ok := val.(ClosV); ok {
				return val
			}
		}
	}
	return in.symbolic(st, name, v.Type())
}

// globalInit finds the initialiser expression of a package-level variable.
func (w *World) globalInit(v *types.Var) (ast.Expr, *packages.Package) {
	for _, p := range w.Mod {
		if p.Types != v.Pkg() {
			continue
		}
		for _, f := range p.Syntax {
			for _, d := range f.Decls {
				gd, ok := d.(*ast.GenDecl)
				if !ok || gd.Tok != token.VAR {
					continue
				}
				for _, sp := range gd.Specs {
					vs := sp.(*ast.ValueSpec)
					for i, nm := range vs.Names {
						if p.TypesInfo.Defs[nm] == v && i < len(vs.Values) {
							return vs.Values[i], p
						}
					}
				}
			}
		}
	}
	return nil, nil
}

func (in *Interp) binary(st *State, x *ast.BinaryExpr) Val {
	t := in.info.TypeOf(x)
	switch x.Op {
	case token.LAND, token.LOR, token.EQL, token.NEQ, token.LSS, token.LEQ, token.GTR, token.GEQ:
		return BoolV{in.cond(st, x)}
	}
	if t == nil || !isIntType(t) {
		// still evaluate operands for sites
		in.eval(st, x.X)
		in.eval(st, x.Y)
		return UnkV{in.render(st, x)}
	}
	if v, ok := in.byteJoinRead(st, x); ok {
		return v
	}
	a, b := in.evalInt(st, x.X), in.evalInt(st, x.Y)
	var r *Term
	switch x.Op {
	case token.ADD:
		r = a.Add(b)
	case token.SUB:
		r = a.Sub(b)
	case token.MUL:
		if rr := matchRound8(a, b); rr != nil {
			r = rr
		} else {
			r = Mul(a, b)
		}
	case token.QUO:
		r = Div(a, b)
	case token.SHL:
		if b.IsConst() && b.C >= 0 && b.C < 62 {
			r = a.Scale(1 << uint(b.C))
		}
	case token.AND_NOT:
		// (y + 7) &^ 7: y rounded up to a multiple of 8
		if b.IsConst() && b.C == 7 {
			r = Round8(a.AddC(-7))
		}
	case token.AND:
		// (y + 7) & ^7 (the mask written as a constant)
		if b.IsConst() && (b.C == -8 || b.C == 0xfff8 || b.C == 0xfffffff8 || b.C == 0xf8) {
			if b.C == -8 || a.NonNeg() {
				if u, ok := a.UpperBound(); b.C == -8 || (ok && u <= b.C+7) {
					r = Round8(a.AddC(-7))
					break
				}
			}
		}
		// x & m is bounded by both operands
		r = Opq("(" + a.String() + ")&(" + b.String() + ")")
		bound := int64(-1)
		for _, o := range []*Term{a, b} {
			if u, ok := o.UpperBound(); ok && o.NonNeg() && (bound < 0 || u < bound) {
				bound = u
			}
		}
		if bound >= 0 {
			setAtomMax(r, bound)
		}
	case token.SHR:
		r = Opq("(" + a.String() + ")>>(" + b.String() + ")")
		if u, ok := a.UpperBound(); ok && a.NonNeg() && b.IsConst() && b.C >= 0 && b.C < 62 {
			setAtomMax(r, u>>uint(b.C))
		}
	case token.REM:
		r = Opq("(" + a.String() + ")%(" + b.String() + ")")
		if b.IsConst() && b.C > 0 && a.NonNeg() {
			setAtomMax(r, b.C-1)
		}
	}
	if r == nil {
		r = Opq("(" + a.String() + ")" + x.Op.String() + "(" + b.String() + ")")
	}
	// arithmetic in a narrow unsigned type may wrap: keep the wrap visible
	if bits, uns := intBits(t); uns && bits < 64 && (x.Op == token.ADD || x.Op == token.MUL || x.Op == token.SHL || x.Op == token.SUB) {
		if !in.fitsUnsigned(r, bits) {
			if bits <= 8 {
				return IntV{Wrap(fmt.Sprintf("uint%d", bits), r)}
			}
			if ub, ok := in.upperBound(r); ok && bits == 16 && ub > 65535 && x.Op != token.SUB {
				// the operands' declared ranges (wire fields) admit a result above 65535
				return IntV{Wrap("uint16", r)}
			}
			// uint16 size arithmetic is the norm here; the 16-bit wrap of a total
			// above 65535 is outside the size rules (DESIGN §5). Record it only.
		}
	}
	return IntV{r}
}

// fitsUnsigned: the term provably lies in [0, 2^bits).
func (in *Interp) fitsUnsigned(t *Term, bits int) bool {
	if t.IsConst() {
		return t.C >= 0 && (bits >= 63 || t.C < 1<<uint(bits))
	}
	ub, ok := in.upperBound(t)
	if !ok {
		return false
	}
	return bits >= 63 || ub < 1<<uint(bits)
}

// upperBound from declared ranges of val() atoms is not tracked in terms; only
// constants are bounded. (Ranges are handled by the bounds engine.)
func (in *Interp) upperBound(t *Term) (int64, bool) {
	if t.IsConst() {
		return t.C, true
	}
	if !t.NonNeg() {
		return 0, false
	}
	return t.UpperBound()
}

func (in *Interp) sliceExpr(st *State, x *ast.SliceExpr) Val {
	bv := in.eval(st, x.X)
	switch b := bv.(type) {
	case BufV:
		lo := Const(0)
		if x.Low != nil {
			lo = in.evalInt(st, x.Low)
			if id, ok := unparen(x.Low).(*ast.Ident); ok {
				if o, ok := in.obj(id).(*types.Var); ok && isIntType(o.Type()) && st.bufs[b.ID] != nil {
					st.bufs[b.ID].Cursor = o
				}
			}
			in.noteCursorPath(st, b.ID, x.Low)
		}
		nv := BufV{ID: b.ID, Off: b.Off.Add(lo), Hi: b.Hi}
		if x.High != nil {
			nv.Hi = b.Off.Add(in.evalInt(st, x.High))
		}
		if bo := st.bufs[b.ID]; bo != nil && bo.Origin == "param" {
			root := in
			for root.parent != nil {
				root = root.parent
			}
			if root.SliceOff == nil {
				root.SliceOff = map[ast.Expr]*Term{}
				root.SliceFacts = map[ast.Expr][]Fact{}
			}
			root.SliceFacts[x] = append([]Fact(nil), st.facts...)
			if nv.Hi != nil && x.High != nil {
				if root.SliceHi == nil {
					root.SliceHi = map[ast.Expr]*Term{}
				}
				if old, ok := root.SliceHi[x]; !ok || old.Equal(nv.Hi) {
					root.SliceHi[x] = nv.Hi
				} else {
					root.SliceHi[x] = Opq("varying end")
				}
			}
			if old, ok := root.SliceOff[x]; !ok || old.Equal(nv.Off) {
				root.SliceOff[x] = nv.Off
			} else {
				root.SliceOff[x] = Opq("varying offset")
			}
		}
		in.site(st, b, "slice", nv.Off, nil, x)
		if nv.Hi != nil {
			in.site(st, b, "slicehi", nv.Hi, nil, x)
			in.sitePair(st, b, nv.Off, nv.Hi, x)
		}
		return nv
	case SliceV:
		return b
	}
	return UnkV{in.render(st, x)}
}

func (in *Interp) compositeLit(st *State, cl *ast.CompositeLit) Val {
	t := in.info.TypeOf(cl)
	if t == nil {
		return UnkV{"lit"}
	}
	if isByteSlice(t) {
		n := int64(len(cl.Elts))
		v := in.newBuf(st, &BufObj{Origin: "lit", Len: Const(n), Pos: cl.Pos()})
		st.bufs[v.ID].Extent = Const(n)
		for i, el := range cl.Elts {
			st.bufs[v.ID].Recs = append(st.bufs[v.ID].Recs, &Rec{Off: Const(int64(i)), W: Const(1), Kind: "byte", Src: in.operand(st, el), Expr: el, Pos: el.Pos()})
		}
		return v
	}
	if n, ok := isByteArray(t); ok {
		v := in.newBuf(st, &BufObj{Origin: "lit", Len: Const(n), Pos: cl.Pos()})
		st.bufs[v.ID].Extent = Const(n)
		return v
	}
	if s := structOf(t); s != nil {
		o := in.newObj(t)
		for i, el := range cl.Elts {
			var f *types.Var
			var ve ast.Expr
			if kv, ok := el.(*ast.KeyValueExpr); ok {
				if id, ok := kv.Key.(*ast.Ident); ok {
					for j := 0; j < s.NumFields(); j++ {
						if s.Field(j).Name() == id.Name {
							f = s.Field(j)
						}
					}
				}
				ve = kv.Value
			} else if i < s.NumFields() {
				f = s.Field(i)
				ve = el
			}
			if f == nil {
				continue
			}
			in.storePath(st, o.Path+"."+f.Name(), f.Type(), in.eval(st, ve), ve.Pos(), "=", in.render(st, ve))
		}
		return o
	}
	_, isSlice := t.Underlying().(*types.Slice)
	_, isArray := t.Underlying().(*types.Array)
	if isSlice || isArray {
		sv := SliceV{Len: Const(int64(len(cl.Elts)))}
		for _, el := range cl.Elts {
			sv.Elems = append(sv.Elems, in.eval(st, el))
		}
		return sv
	}
	return UnkV{"lit"}
}

// storePath performs a strong update of a field path. Struct values are copied
// field by field (so later reads through the destination see them).
func (in *Interp) storePath(st *State, path string, t types.Type, v Val, pos token.Pos, op, rhs string) {
	if ov, ok := v.(ObjV); ok {
		if _, isStruct := t.Underlying().(*types.Struct); isStruct && ov.Path != path {
			// struct copy
			prefix := ov.Path + "."
			for k, fv := range st.fields {
				if strings.HasPrefix(k, prefix) {
					st.fields[path+"."+k[len(prefix):]] = fv
				}
			}
			st.fields[path] = ObjV{Path: path, Type: t}
			st.fields["copyof:"+path] = ObjV{Path: ov.Path, Type: t}
			in.recordStore(st, path, op, rhs, v, pos)
			return
		}
	}
	st.fields[path] = v
	in.recordStore(st, path, op, rhs, v, pos)
}

func (in *Interp) recordStore(st *State, path, op, rhs string, v Val, pos token.Pos) {
	root := path
	if i := strings.IndexAny(path, ".["); i >= 0 {
		root = path[:i]
	}
	if root == "$" || strings.HasPrefix(path, "global:") || strings.HasPrefix(root, "arg:") {
		s := &Store{Path: path, Op: op, RHS: rhs, Val: v, Guard: in.guard(), Pos: pos, Fn: in.fi.Key, Loop: len(in.loops) > 0}
		in.shared.seq++
		s.Seq = in.shared.seq
		for i := in; i != nil; i = i.parent {
			i.Stores = append(i.Stores, s)
		}
	}
}

// ---------------------------------------------------------------- helpers

func sortedObjKeys(m map[types.Object]Val) []types.Object {
	ks := make([]types.Object, 0, len(m))
	for k := range m {
		ks = append(ks, k)
	}
	sort.Slice(ks, func(i, j int) bool { return ks[i].Pos() < ks[j].Pos() })
	return ks
}

// arrayOf: the array type behind an expression of array or pointer-to-array type.
func arrayOf(t types.Type) *types.Array {
	if t == nil {
		return nil
	}
	if p, ok := t.Underlying().(*types.Pointer); ok {
		t = p.Elem()
	}
	a, _ := t.Underlying().(*types.Array)
	return a
}

// underShortCircuit evaluates the right operand of && / || knowing what the left operand was: B in A && B
// runs only when A held, B in A || B only when it did not. The bounds sites inside B see those facts.
func (in *Interp) underShortCircuit(st *State, left ast.Expr, truth bool, f func() string) string {
	nf, nn, ni := len(st.facts), len(st.nonNil), len(st.isNil)
	saveFacts := append([]Fact(nil), st.facts...)
	in.assume(st, left, truth)
	out := f()
	if len(st.facts) >= nf {
		st.facts = saveFacts
	}
	if len(st.nonNil) >= nn {
		st.nonNil = st.nonNil[:nn]
	}
	if len(st.isNil) >= ni {
		st.isNil = st.isNil[:ni]
	}
	return out
}

// byteLanes: e is T(X[i])<<s | T(X[j])<<t | … — an integer assembled from single bytes. It returns the
// index expressions by shift amount (in bits); nil when e has another shape.
func (in *Interp) byteLanes(e ast.Expr) map[int64]*ast.IndexExpr {
	lanes := map[int64]*ast.IndexExpr{}
	var walk func(e ast.Expr) bool
	walk = func(e ast.Expr) bool {
		e = unparen(e)
		if be, ok := e.(*ast.BinaryExpr); ok && (be.Op == token.OR || be.Op == token.ADD) {
			return walk(be.X) && walk(be.Y)
		}
		shift := int64(0)
		if be, ok := e.(*ast.BinaryExpr); ok && be.Op == token.SHL {
			c, isC := constIntOf(in.info, be.Y)
			if !isC || c <= 0 || c%8 != 0 || c > 56 {
				return false
			}
			shift, e = c, unparen(be.X)
		}
		for {
			c, ok := e.(*ast.CallExpr)
			if !ok || len(c.Args) != 1 {
				break
			}
			tv, ok := in.info.Types[c.Fun]
			if !ok || !tv.IsType() || !isIntType(tv.Type) {
				return false
			}
			// the conversion must be wide enough to hold the shifted byte, or the lane is lost
			if sz := sizeofBasic(tv.Type); sz == 0 || int64(sz*8) < shift+8 {
				return false
			}
			e = unparen(c.Args[0])
		}
		ix, ok := e.(*ast.IndexExpr)
		if !ok {
			return false
		}
		if _, dup := lanes[shift]; dup {
			return false
		}
		lanes[shift] = ix
		return true
	}
	if !walk(e) || len(lanes) < 2 {
		return nil
	}
	switch len(lanes) {
	case 2, 4, 8:
	default:
		return nil
	}
	for s := int64(0); s < int64(len(lanes))*8; s += 8 {
		if lanes[s] == nil {
			return nil
		}
	}
	return lanes
}

func sizeofBasic(t types.Type) int {
	b, ok := t.Underlying().(*types.Basic)
	if !ok {
		return 0
	}
	switch b.Kind() {
	case types.Int8, types.Uint8:
		return 1
	case types.Int16, types.Uint16:
		return 2
	case types.Int32, types.Uint32:
		return 4
	case types.Int64, types.Uint64, types.Int, types.Uint, types.Uintptr:
		return 8
	}
	return 0
}

// byteJoinRead models an integer assembled from consecutive bytes of the input as one read of that width
// and byte order (what binary.BigEndian.UintN does), so that rewriting one form as the other changes nothing.
func (in *Interp) byteJoinRead(st *State, x *ast.BinaryExpr) (Val, bool) {
	lanes := in.byteLanes(x)
	if lanes == nil {
		return nil, false
	}
	n := int64(len(lanes))
	offs := make([]*Term, n) // by significance: offs[0] is the least significant byte
	for k := int64(0); k < n; k++ {
		in.pendingRead = nil
		in.eval(st, lanes[k*8])
		if in.pendingRead == nil || in.pendingRead.Kind != "byte" {
			in.pendingRead = nil
			return nil, false
		}
		offs[k] = in.pendingRead.Off
	}
	in.pendingRead = nil
	order := ""
	be, le := true, true
	for k := int64(1); k < n; k++ {
		if !offs[k].Equal(offs[0].AddC(-k)) {
			be = false
		}
		if !offs[k].Equal(offs[0].AddC(k)) {
			le = false
		}
	}
	var first *Term
	switch {
	case be:
		order, first = "be", offs[n-1]
	case le:
		order, first = "le", offs[0]
	default:
		return nil, false
	}
	in.pendingRead = &Rec{Off: first, W: Const(n), Kind: "int", Order: order, Pos: x.Pos()}
	return IntV{setAtomMax(FromAtom(&Atom{Kind: "val", Path: fmt.Sprintf("P[%s:%d]", first, n)}), int64(1)<<uint(8*n)-1)}, true
}
