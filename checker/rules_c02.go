package main

// C02 — nested lengths, alignment and type codes (DESIGN §3 C02).

import (
	"fmt"
	"go/ast"
	"go/constant"
	"go/token"
	"go/types"
	"regexp"
	"sort"
	"strings"
)

func init() {
	register(&propCheck{
		ID:    "C02",
		Run:   runC02,
		Level: "Static analysis (abstract interpretation of every constructor and builder method; symbolic size terms of size functions and encoders; specification code tables). Decides: code/<ctor> — each action, instruction, Nicira action, vendor-message, hello-element and match constructor leaves the type / subtype / experimenter codes of spec/codes.json (OpenFlow 1.3.5 §7.2, OVS nicira-ext.h, ONF bundle extension) on every path, and every constructor of such a kind has a table row; declen/ctor/<ctor> — the stored length field a constructor leaves equals the size the element will occupy (the kind's size term evaluated on the constructed value; for a match: the unpadded 4 + Σ field sizes); declen/builder/<method> — every builder method that changes what an element contains changes its stored length field by exactly the same term (sequences of add/prepend/set calls are covered by this preserved invariant, not enumerated), with setters of optional parts required to be idempotent in the length; size/<kind> — for every nested element kind the size function, the bytes produced and the extent written agree as terms (induction over kinds), which together with declen makes each declared length the number of bytes the element occupies; align8/<kind> — the size term of every action, instruction, match and bucket kind is a sum of multiples of 8, round8(·) and sizes of kinds that satisfy the rule. With these, a receiver that walks a message by declared lengths visits every element and ends at the end of the message. Not decided: lengths above 65535/255 (outside the statement); that padding bytes are zero is the buffer-initialisation argument of C06 (pre-sized zeroed buffer, tail never written). Also decided: errfail/<function>/<branch> — in the codecs the branch taken for a non-nil error returns a non-nil error (no log-and-continue that leaves an element out while the declared lengths still include it).",
		Assumptions: []string{
			"spec/codes.json transcribes the type codes of OpenFlow 1.3.5, OVS nicira-ext.h and the ONF bundle extension",
			"elements are built through the constructors and builder methods (exported length fields are not overwritten by the caller)",
			"setters are given non-nil arguments",
		},
	})
}

// stored-length invariants: the stored field and the size it must equal, as a
// term over the receiver's state ("$" paths).
type lenInvariant struct {
	Kind string
	L    string // path of the stored length field
	F    func() *Term
	What string
}

func msgLen(path string) *Term { return LenCall(path, "util.Message") }

var lenInvariants = []lenInvariant{
	{"openflow13.NXActionConnTrack", "$.NXActionHeader.ActionHeader.Length", func() *Term {
		return Const(24).Add(Sum("$.actions", msgLen("$.actions[*]")))
	}, "24-byte fixed part plus the nested actions"},
	{"openflow13.NXActionCTNAT", "$.NXActionHeader.ActionHeader.Length", func() *Term {
		return Const(16).Add(present("$.rangeIPv4Min", 4)).Add(present("$.rangeIPv4Max", 4)).Add(present("$.rangeIPv6Min", 16)).
			Add(present("$.rangeIPv6Max", 16)).Add(present("$.rangeProtoMin", 2)).Add(present("$.rangeProtoMax", 2))
	}, "16-byte fixed part plus the range parts present"},
	{"openflow13.Match", "$.Length", func() *Term {
		return Const(4).Add(Sum("$.Fields", LenCall("$.Fields[*]", "openflow13.MatchField")))
	}, "match header plus the fields, without padding"},
	{"openflow13.PacketOut", "$.ActionsLen", func() *Term {
		return Sum("$.Actions", msgLen("$.Actions[*]"))
	}, "total size of the action list"},
	{"common.HelloElemVersionBitmap", "$.HelloElemHeader.Length", func() *Term {
		return Const(4).Add(LenOf("$.Bitmaps").Scale(4))
	}, "element header plus the 32-bit bitmaps"},
	{"openflow13.InstrActions", "$.InstrHeader.Length", func() *Term {
		return Const(8).Add(Sum("$.Actions", msgLen("$.Actions[*]")))
	}, "instruction header plus the action list"},
}

// pushCoef normalises k*ite(c ? a : b) to ite(c ? k*a : k*b) so that differences compare syntactically.
func pushCoef(t *Term) *Term {
	n := Const(t.C)
	type arms struct{ a, b *Term }
	byCond := map[string]*arms{}
	var conds []string
	for _, k := range t.keys() {
		a, c := t.Atoms[k], t.K[k]
		if a.Kind == "ite" {
			ar := byCond[a.Cond]
			if ar == nil {
				ar = &arms{Const(0), Const(0)}
				byCond[a.Cond] = ar
				conds = append(conds, a.Cond)
			}
			ar.a = ar.a.AddScaled(pushCoef(a.Sub[0]), c)
			ar.b = ar.b.AddScaled(pushCoef(a.Sub[1]), c)
			continue
		}
		n = n.AddScaled(FromAtom(a), c)
	}
	for _, c := range conds {
		n = n.Add(Ite(c, byCond[c].a, byCond[c].b))
	}
	return n
}

func termsEqual(a, b *Term) bool {
	return pushCoef(a.Sub(b)).IsZero() || a.Equal(b)
}

func runC02(w *World, r *Report) {
	r.Rule("observers", "methods that formatting calls implicitly (String, Error, …) leave the value unchanged", 1)
	observerRule(w, r, "observers", "openflow13", "common")
	// an element that came in through the decoder is sent again by bundles, proxies and flow replays: the
	// length a decoder stores must be the one the encoder puts back, and the value type a match-field payload
	// is decoded into must occupy the registered width, or the re-encoded element declares one size and
	// occupies another
	r.Rule("relen", "a length field a decoder stores is written back unchanged by the encoder (offset, width, byte order, no adjustment)", 12)
	r.Rule("oxmdecode", "a match-field payload is decoded into a value type of the registered width", 60)
	{
		lenField := regexp.MustCompile(`^(int|byte):\$\.([A-Za-z0-9_.]*)(Length|Len)$`)
		r2 := NewReport(r.Prop, r.Tier)
		for _, k := range w.KindsL {
			if k.Marshal == nil || k.Unmarshal == nil || !k.OwnMarshal || !k.OwnUnmarshal || !(strings.HasPrefix(k.Name, "openflow13.") || strings.HasPrefix(k.Name, "common.")) {
				continue
			}
			efi, dfi := w.FuncOf(k.Marshal), w.FuncOf(k.Unmarshal)
			if efi == nil || dfi == nil {
				continue
			}
			mirrorKind(w, r2, k, efi, dfi)
		}
		for _, o := range r2.Obs {
			if o.Rule == "mirror" && lenField.MatchString(o.Instance) {
				o.Rule = "relen"
				r.Add(o)
			}
		}
		r3 := NewReport(r.Prop, r.Tier)
		w.oxmDispatchRule(r3, "oxmdecode", false)
		for _, o := range r3.Obs {
			r.Add(o)
		}
	}
	r.Rule("appendcopy", "a struct parameter appended by value is not modified afterwards in the builder (the list holds the copy)", 1)
	appendedCopyRule(w, r)
	r.Rule("code", "constructors leave the specified type / subtype / experimenter codes", 35)
	r.Rule("errfail", "in the codecs a failed step fails the whole: the branch for a non-nil error returns a non-nil error (no log-and-continue that leaves an element out while counts and declared lengths still include it)", 50)
	errFailRule(w, r, "errfail", func(fi *FuncInfo) bool {
		n := fi.Pkg.Types.Name()
		return n == "openflow13" || n == "protocol" || n == "common"
	})
	r.Rule("declen", "stored length fields equal the size of what the element contains, for every constructor and builder", 13)
	r.Rule("oxmlen", "constructors and editors of match fields leave oxm_length equal to the payload bytes", 40)
	r.Rule("wirelen", "the declared length each encoder puts on the wire equals the bytes the element occupies at the moment of encoding", 34)
	r.Rule("size", "size function ≡ bytes produced ≡ extent written, for every nested element kind", 40)
	r.Rule("align8", "action, instruction, match and bucket sizes are multiples of 8", 30)
	codes, err := loadCodes()
	if err != nil {
		r.Fail(VUnmapped, "code", "spec/codes.json", "", "-", "cannot load the specification table: "+err.Error())
		return
	}
	of := w.ByName["openflow13"]
	ifaceOf := func(name string) *types.Interface {
		if of == nil {
			return nil
		}
		tn, _ := of.Types.Scope().Lookup(name).(*types.TypeName)
		if tn == nil {
			return nil
		}
		i, _ := tn.Type().Underlying().(*types.Interface)
		return i
	}
	actionI, instrI := ifaceOf("Action"), ifaceOf("Instruction")
	if actionI == nil || instrI == nil {
		r.Fail(VViolation, "code", "openflow13", "", "-", "the Action / Instruction interfaces no longer exist (anchors cannot be resolved)")
		return
	}
	// header-only kinds: embedded in every element of their family, never an element by themselves
	headerOnly := map[string]string{
		"openflow13.NXActionHeader": "the 10-byte Nicira action header embedded in every Nicira action; DecodeNxAction never returns it as an action",
		"openflow13.InstrHeader":    "the 4-byte instruction header embedded in every instruction",
	}
	filter := func(ks []*Kind) []*Kind {
		var out []*Kind
		for _, k := range ks {
			if _, h := headerOnly[k.Name]; !h {
				out = append(out, k)
			}
		}
		return out
	}
	actionKinds, instrKinds := filter(w.Implementations(actionI)), filter(w.Implementations(instrI))

	// ---------------------------------------------------------------- code
	intField := func(cs *CtorSum, p string) (int64, string, bool) {
		v, ok := cs.Fields[p]
		if !ok {
			return 0, "<unassigned: stays 0>", false
		}
		iv, ok := v.(IntV)
		if !ok {
			return 0, v.valString(), false
		}
		if !iv.T.IsConst() {
			return 0, iv.T.String(), false
		}
		return iv.T.C, fmt.Sprint(iv.T.C), true
	}
	expect := func(cn string, fi *FuncInfo, cs *CtorSum, what, path string, want int64, wantName string) {
		got, gs, ok := intField(cs, path)
		if _, assigned := cs.Fields[path]; !assigned {
			got, ok = 0, true
			gs = "0 (never assigned)"
		}
		if ok && got == want {
			r.OK("code", cn, what, w.Pos(fi.Decl.Pos()), fmt.Sprintf("%s = %d (%s) on every path", path, want, wantName), true)
		} else {
			r.Fail(VViolation, "code", cn, what, w.Pos(fi.Decl.Pos()), fmt.Sprintf("%s = %s, specified %d (%s)", path, gs, want, wantName))
		}
	}
	mapped := map[string]bool{}
	check := func(table map[string]string, codesT map[string]int64, kindWord string, f func(cn string, fi *FuncInfo, cs *CtorSum, name string)) {
		var cns []string
		for cn := range table {
			cns = append(cns, cn)
		}
		sort.Strings(cns)
		for _, cn := range cns {
			mapped[cn] = true
			fi := w.Funcs[cn]
			if fi == nil {
				r.Fail(VViolation, "code", cn, "", "-", kindWord+" constructor named in spec/codes.json no longer exists")
				continue
			}
			cs := w.CtorSummary(fi)
			if cs.State == nil && len(cs.Fields) == 0 {
				r.Fail(VUndecided, "code", cn, "", w.Pos(fi.Decl.Pos()), "constructor not summarised")
				continue
			}
			if _, ok := codesT[table[cn]]; !ok {
				r.Fail(VUnmapped, "code", cn, "", w.Pos(fi.Decl.Pos()), "code name "+table[cn]+" has no value in the specification table")
				continue
			}
			f(cn, fi, cs, table[cn])
		}
	}
	check(codes.CtorAction, codes.ActionType, "action", func(cn string, fi *FuncInfo, cs *CtorSum, name string) {
		p := "$.ActionHeader.Type"
		if _, ok := cs.Fields[p]; !ok {
			if _, ok2 := cs.Fields["$.Type"]; ok2 {
				p = "$.Type"
			}
		}
		expect(cn, fi, cs, "type", p, codes.ActionType[name], "OFPAT_"+name)
	})
	check(codes.CtorInstr, codes.InstrType, "instruction", func(cn string, fi *FuncInfo, cs *CtorSum, name string) {
		expect(cn, fi, cs, "type", "$.InstrHeader.Type", codes.InstrType[name], "OFPIT_"+name)
	})
	check(codes.CtorNxast, codes.Nxast, "Nicira action", func(cn string, fi *FuncInfo, cs *CtorSum, name string) {
		expect(cn, fi, cs, "type", "$.NXActionHeader.ActionHeader.Type", codes.ActionType["EXPERIMENTER"], "OFPAT_EXPERIMENTER")
		expect(cn, fi, cs, "vendor", "$.NXActionHeader.Vendor", codes.NxVendor, "NX_VENDOR_ID")
		expect(cn, fi, cs, "subtype", "$.NXActionHeader.Subtype", codes.Nxast[name], "NXAST_"+name)
	})
	// vendor messages: experimenter id and type
	{
		var cns []string
		for cn := range codes.VendorCtor {
			cns = append(cns, cn)
		}
		sort.Strings(cns)
		for _, cn := range cns {
			fi := w.Funcs[cn]
			if fi == nil {
				r.Fail(VViolation, "code", cn, "", "-", "vendor-message constructor named in spec/codes.json no longer exists")
				continue
			}
			cs := w.CtorSummary(fi)
			row := codes.VendorCtor[cn]
			if v, ok := row["vendor"].(float64); ok {
				expect(cn, fi, cs, "experimenter", "$.Vendor", int64(v), "experimenter id")
			}
			switch et := row["exp_type"].(type) {
			case float64:
				expect(cn, fi, cs, "exp_type", "$.ExperimenterType", int64(et), "experimenter message type")
			case string:
				if iv, ok := cs.Fields["$.ExperimenterType"].(IntV); ok && strings.HasPrefix(iv.T.String(), "val(arg:") {
					r.OK("code", cn, "exp_type", w.Pos(fi.Decl.Pos()), "experimenter type passed through from the caller", true)
				} else {
					r.Fail(VViolation, "code", cn, "exp_type", w.Pos(fi.Decl.Pos()), "the experimenter type is not the caller's argument")
				}
			}
		}
	}
	if fi := w.Funcs["common.NewHelloElemVersionBitmap"]; fi != nil {
		expect(fi.Key, fi, w.CtorSummary(fi), "type", "$.HelloElemHeader.Type", codes.HelloElem["VERSIONBITMAP"], "OFPHET_VERSIONBITMAP")
	} else {
		r.Fail(VViolation, "code", "common.NewHelloElemVersionBitmap", "", "-", "constructor no longer exists")
	}
	if fi := w.Funcs["openflow13.NewMatch"]; fi != nil {
		expect(fi.Key, fi, w.CtorSummary(fi), "type", "$.Type", codes.MatchType["OXM"], "OFPMT_OXM")
	} else {
		r.Fail(VViolation, "code", "openflow13.NewMatch", "", "-", "constructor no longer exists")
	}
	// every constructor of an action / instruction kind has a row
	for _, set := range [][]*Kind{actionKinds, instrKinds} {
		for _, k := range set {
			for _, fi := range w.Constructors(k) {
				if !mapped[fi.Key] {
					if !ast.IsExported(fi.Decl.Name.Name) {
						continue // an unexported helper of the constructors: decided through the exported ones, which inline it
					}
					r.Fail(VUnmapped, "code", fi.Key, "", w.Pos(fi.Decl.Pos()), "constructor of an action / instruction kind has no row in spec/codes.json: its type code is not checked")
				}
			}
		}
	}

	// ---------------------------------------------------------------- declen
	declenRule(w, r)
	oxmLenRule(w, r)

	// ---------------------------------------------------------------- size (nested element kinds) and align8
	nested := map[string]*Kind{}
	for _, set := range [][]*Kind{actionKinds, instrKinds} {
		for _, k := range set {
			nested[k.Name] = k
		}
	}
	for _, n := range []string{"openflow13.Match", "openflow13.MatchField", "openflow13.Bucket", "common.HelloElemVersionBitmap", "openflow13.NXLearnSpec", "openflow13.NXLearnSpecHeader", "openflow13.NXLearnSpecField", "openflow13.TLVTableMap", "openflow13.BundleAdd", "openflow13.BundleControl", "openflow13.VendorHeader"} {
		if k := w.Kinds[n]; k != nil {
			nested[n] = k
		} else {
			r.Fail(VViolation, "size", n, "", "-", "nested element kind no longer exists")
		}
	}
	// every controller-originated message can be the message embedded in a bundle-add
	for kn := range codes.Controller {
		if k := w.Kinds[kn]; k != nil && kn != "common.Header" {
			nested[kn] = k
		}
	}
	var names []string
	for n := range nested {
		names = append(names, n)
	}
	sort.Strings(names)
	for _, n := range names {
		k := nested[n]
		if k.Len == nil || k.Marshal == nil {
			continue
		}
		v := w.compareSize(k)
		pos := "-"
		if fi := w.FuncOf(k.Marshal); fi != nil {
			pos = w.Pos(fi.Decl.Pos())
		}
		if v.Verdict == VOK {
			r.OK("size", n, "", pos, v.Note, v.Symbolic)
		} else {
			r.Fail(v.Verdict, "size", n, "", pos, v.Diag)
		}
	}
	// ---------------------------------------------------------------- wirelen
	runWirelen(w, r, actionKinds, instrKinds)
	builtRule(w, r, "size", func(k *Kind) bool { return nested[k.Name] != nil })
	alignSet := map[string]*Kind{}
	for _, set := range [][]*Kind{actionKinds, instrKinds} {
		for _, k := range set {
			alignSet[k.Name] = k
		}
	}
	for _, n := range []string{"openflow13.Match", "openflow13.Bucket"} {
		if k := w.Kinds[n]; k != nil {
			alignSet[n] = k
		}
	}
	names = names[:0]
	for n := range alignSet {
		names = append(names, n)
	}
	sort.Strings(names)
	// induction hypothesis: Len of an interface-typed child (an action inside an action list) is a multiple of 8
	for _, n := range names {
		k := alignSet[n]
		ls := w.LenSummary(k)
		pos := "-"
		if ls != nil && ls.Fn != nil {
			pos = w.Pos(ls.Fn.Decl.Pos())
		}
		if ls == nil || ls.Term == nil {
			r.Fail(VUndecided, "align8", n, "", pos, "no summary of the size function")
			continue
		}
		used := map[string]bool{}
		t := w.ExpandLens(ls.Term, 0)
		t = stripWraps(t, used)
		t = applyFacts(t, w.Facts(k), used)
		t = w.applyPremises(k, t, used)
		if alignedTerm(w, t, alignSet) {
			r.OK("align8", n, "", pos, fmt.Sprintf("size %v is a sum of multiples of 8", t), t.Symbolic())
		} else {
			r.Fail(VViolation, "align8", n, "", pos, fmt.Sprintf("size %v is not provably a multiple of 8: the element following it in a list would be misaligned", t))
		}
	}
}

// alignedTerm: every summand is a multiple of 8; Len atoms of kinds in the aligned set (or of
// the Action / Message interfaces, by induction over the rule) count as multiples of 8.
func alignedTerm(w *World, t *Term, set map[string]*Kind) bool {
	if t.C%8 != 0 {
		return false
	}
	for k, c := range t.K {
		a := t.Atoms[k]
		if c%8 == 0 {
			continue
		}
		switch a.Kind {
		case "round8":
			continue
		case "Len":
			if _, ok := set[a.Typ]; ok {
				continue
			}
			if a.Typ == "util.Message" || a.Typ == "openflow13.Action" || a.Typ == "openflow13.Instruction" {
				continue // induction: list elements are actions / instructions, each an obligation of this rule
			}
			return false
		case "sum":
			if alignedTerm(w, a.Sub[0], set) {
				continue
			}
			return false
		case "ite":
			if alignedTerm(w, a.Sub[0], set) && alignedTerm(w, a.Sub[1], set) {
				continue
			}
			return false
		default:
			return false
		}
	}
	return true
}

type deltaVerdict struct {
	ok    bool
	note  string
	undec string
}

// builderDelta compares the change of the stored length with the change of the
// size it must equal, for one builder method.
func builderDelta(w *World, fs *FuncSummary, inv lenInvariant, F *Term) deltaVerdict {
	L := ValOf(inv.L)
	// ---- new value of the stored length
	var lStores []*Store
	written := map[string]bool{}
	for _, s := range fs.Stores {
		p := strings.TrimSuffix(s.Path, "[]")
		if p == inv.L {
			lStores = append(lStores, s)
		} else {
			written[p] = true
		}
	}
	// ---- change of F caused by the other stores
	dF := Const(0)
	var notes []string
	replacedElem := "" // a list of F one of whose elements the builder overwrites in place
	postForm := false  // F' is expressed over the post-state (same symbolic form as F)
	var bad string
	F.HasAtom(func(a *Atom) bool {
		switch a.Kind {
		case "sum":
			for _, s := range fs.Stores {
				if s.Path == a.Path+"[]" && replacedElem == "" {
					replacedElem = a.Path
				}
				if s.Path != a.Path {
					continue
				}
				sv, ok := s.Val.(SliceV)
				if !ok {
					bad = "the list " + a.Path + " is assigned a value the rule cannot follow"
					return false
				}
				keepsOld := sv.Base == a.Path || (sv.Path == a.Path && len(sv.Elems) == 0)
				for _, e := range sv.Elems {
					if sp, ok := e.(SpreadV); ok && sp.S.Path == a.Path {
						keepsOld = true // prepend: new elements followed by the old contents
					}
				}
				if !keepsOld {
					bad = "the list " + a.Path + " is replaced, not appended to"
					return false
				}
				body := a.Sub[0]
				for _, e := range sv.Elems {
					switch ev := e.(type) {
					case ObjV:
						d := body.Reroot2(a.Path+"[*]", ev.Path)
						if strings.HasSuffix(ev.Path, "[*]") {
							// appended inside a loop over a caller-supplied list: one term per element of that list
							d = Sum(strings.TrimSuffix(ev.Path, "[*]"), d)
						}
						if s.Guard != "" {
							d = Ite(s.Guard, d, Const(0))
						}
						dF = dF.Add(d)
					case SpreadV:
						if ev.S.Path == a.Path {
							continue // the old contents
						}
						dF = dF.Add(Sum(ev.S.Path, body.Reroot2(a.Path+"[*]", ev.S.Path+"[*]")))
					default:
						bad = "an element appended to " + a.Path + " is not a value the rule can follow"
						return false
					}
				}
				notes = append(notes, fmt.Sprintf("%s grows by %d element term(s)", a.Path, len(sv.Elems)))
			}
		case "ite":
			p := strings.TrimSuffix(a.Cond, "==nil")
			for _, s := range fs.Stores {
				if s.Path != p {
					continue
				}
				switch s.Val.(type) {
				case NilV:
					dF = dF.Add(a.Sub[0]).Sub(FromAtom(a))
				default:
					// the part is present afterwards (a non-nil argument)
					dF = dF.Add(a.Sub[1]).Sub(FromAtom(a))
				}
				notes = append(notes, "optional part "+p+" is set")
			}
		}
		return false
	})
	if bad != "" {
		return deltaVerdict{undec: bad}
	}
	dF = w.ExpandLens(dF, 0)
	if replacedElem != "" {
		// the new element need not have the size of the one it replaces: only a recomputation from the
		// contents after the change keeps the stored length right
		recomputed := false
		for _, s := range lStores {
			if iv, ok := s.Val.(IntV); ok && s.Op == "=" && s.Guard == "" {
				v := w.ExpandLens(stripWraps(iv.T, map[string]bool{}), 0)
				if termsEqual(v, w.ExpandLens(F, 0)) {
					recomputed = true
				}
			}
		}
		if !recomputed {
			return deltaVerdict{note: fmt.Sprintf("an element of %s is overwritten in place (the new element may have another size, e.g. a masked field replacing an exact one) and %s is not recomputed from the contents afterwards: the declared length goes stale", replacedElem, inv.L)}
		}
	}
	if len(lStores) == 0 {
		if pushCoef(dF).IsZero() {
			return deltaVerdict{ok: true, note: "contents and stored length both unchanged"}
		}
		return deltaVerdict{note: fmt.Sprintf("the element grows by %v but %s is not updated", pushCoef(dF), inv.L)}
	}
	// the last store decides the final value; earlier stores must be visible in its value
	var dL *Term
	last := lStores[len(lStores)-1]
	total := Const(0)
	absolute := false
	for _, s := range lStores {
		iv, ok := s.Val.(IntV)
		if !ok {
			return deltaVerdict{undec: "the stored length is assigned a non-integer abstract value"}
		}
		v := w.ExpandLens(stripWraps(iv.T, map[string]bool{}), 0)
		switch s.Op {
		case "+=":
			d := v.Sub(L)
			if s.Loop {
				// one increment per iteration over the caller's list
				lp := ""
				d.HasAtom(func(a *Atom) bool {
					if i := strings.Index(a.Path, "[*]"); i >= 0 && strings.HasPrefix(a.Path, "arg:") {
						lp = a.Path[:i]
					}
					return false
				})
				if lp == "" {
					return deltaVerdict{undec: "length increment inside a loop the rule cannot attribute to a list"}
				}
				d = Sum(lp, d)
			}
			if s.Guard != "" {
				d = Ite(s.Guard, d, Const(0))
			}
			total = total.Add(d)
		case "=":
			absolute = true
			total = v.Sub(L)
			if v.HasAtom(func(a *Atom) bool { return written[a.Path] && (a.Kind == "sum" || a.Kind == "len") }) {
				postForm = true
			}
		default:
			return deltaVerdict{undec: "the stored length is updated by " + s.Op}
		}
	}
	_ = last
	dL = total
	if absolute && postForm {
		// L' = g(post-state): must be F written over the post-state
		v := dL.Add(L)
		if termsEqual(v, w.ExpandLens(F, 0)) {
			return deltaVerdict{ok: true, note: fmt.Sprintf("%s is recomputed after the change as %v = %s", inv.L, v, inv.What)}
		}
		return deltaVerdict{note: fmt.Sprintf("%s is recomputed as %v, but the element then occupies %v (%s)", inv.L, v, w.ExpandLens(F, 0), inv.What)}
	}
	if absolute {
		// L' is an expression over the pre-state: it must equal F + ΔF
		v := dL.Add(L)
		wantPost := w.ExpandLens(F, 0).Add(dF)
		if termsEqual(v, wantPost) {
			return deltaVerdict{ok: true, note: fmt.Sprintf("%s := %v = size after the change", inv.L, v)}
		}
		return deltaVerdict{note: fmt.Sprintf("%s is set to %v, but after this call the element occupies %v (%s): elements added by earlier calls are not counted", inv.L, v, pushCoef(wantPost), inv.What)}
	}
	if termsEqual(dL, dF) {
		return deltaVerdict{ok: true, note: fmt.Sprintf("%s and the element both change by %v (%s)", inv.L, pushCoef(dL), strings.Join(notes, "; "))}
	}
	return deltaVerdict{note: fmt.Sprintf("%s changes by %v but the element changes by %v", inv.L, pushCoef(dL), pushCoef(dF))}
}

// declenRule: stored length fields equal the size of what the element contains, for
// every constructor and builder (also run by C01 and C06, whose size rules rely on these invariants).
func declenRule(w *World, r *Report) {
	for _, inv := range lenInvariants {
		k := w.Kinds[inv.Kind]
		if k == nil {
			r.Fail(VViolation, "declen", inv.Kind, "", "-", "kind with a stored length field no longer exists")
			continue
		}
		F := inv.F()
		if why := loadBearing(w, k, inv); why == "" {
			// the encoder recomputes the length from what the element contains: the stored field is not what
			// reaches the wire, so a builder that leaves it stale does not break the property
			r.OK("declen", inv.Kind, "recomputed", "-", inv.L+" is recomputed by the size function and the encoder from the contents ("+inv.What+"): its stored value does not reach the wire, constructors and builders need not maintain it (wirelen decides what is written)", true)
			continue
		}
		// constructors establish L = F
		for _, fi := range w.Constructors(k) {
			cs := w.CtorSummary(fi)
			pos := w.Pos(fi.Decl.Pos())
			if cs.State == nil || cs.In == nil {
				r.Fail(VUndecided, "declen", fi.Key, "ctor", pos, "constructor not summarised")
				continue
			}
			lv, ok := cs.Fields[inv.L].(IntV)
			if !ok {
				lv = IntV{Const(0)}
			}
			want := cs.In.resolveLocal(cs.State, w.ExpandLens(F.Reroot(cs.Root), 0))
			want = cs.In.resolveLocal(cs.State, w.ExpandLens(want, 0))
			want = want.Map(func(a *Atom) *Term {
				if a.Kind == "ite" && strings.HasSuffix(a.Cond, "==nil") {
					p := strings.Replace(strings.TrimSuffix(a.Cond, "==nil"), cs.Root, "$", 1)
					v, assigned := cs.Fields[p]
					if _, isNil := v.(NilV); !assigned || isNil {
						return a.Sub[0]
					}
					return a.Sub[1]
				}
				return nil
			})
			wc, _ := cs.canonTerm(want)
			lc, _ := cs.canonTerm(lv.T)
			if termsEqual(lc, wc) {
				r.OK("declen", fi.Key, "ctor", pos, fmt.Sprintf("%s = %v = %s", inv.L, lc, inv.What), true)
			} else {
				r.Fail(VViolation, "declen", fi.Key, "ctor", pos, fmt.Sprintf("the constructor leaves %s = %v, but the element it builds occupies %v (%s)", inv.L, lc, wc, inv.What))
			}
		}
		// builders preserve it
		fpaths := map[string]bool{inv.L: true}
		F.HasAtom(func(a *Atom) bool {
			if a.Kind == "sum" || a.Kind == "len" || a.Kind == "val" {
				fpaths[a.Path] = true
			}
			if a.Kind == "ite" {
				fpaths[strings.TrimSuffix(a.Cond, "==nil")] = true
			}
			return false
		})
		for _, m := range w.methodsOf(k) {
			if isCodecMethod(m.Decl.Name.Name) {
				continue
			}
			fs := w.Interpret(m, "builder")
			touches := false
			for _, s := range fs.Stores {
				if fpaths[strings.TrimSuffix(s.Path, "[]")] {
					touches = true
				}
			}
			if !touches {
				continue
			}
			pos := w.Pos(m.Decl.Pos())
			d := builderDelta(w, fs, inv, F)
			if d.undec != "" {
				r.Fail(VUndecided, "declen", m.Key, "builder", pos, d.undec)
				continue
			}
			if d.ok {
				r.OK("declen", m.Key, "builder", pos, d.note, true)
			} else {
				r.Fail(VViolation, "declen", m.Key, "builder", pos, d.note)
			}
		}
	}

}

// ---------------------------------------------------------------- wirelen

// lengthCarrier: how an element kind's declared length reaches the wire.
// Header children: the path of the length field inside the embedded header kind.
var headerLenPath = map[string]string{
	"openflow13.ActionHeader":   "Length",
	"openflow13.InstrHeader":    "Length",
	"openflow13.NXActionHeader": "ActionHeader.Length",
	"common.HelloElemHeader":    "Length",
}

// directLen: kinds whose encoder writes the declared length itself: offset of the field and what it must equal
// (nil: the kind's whole size).
var directLen = map[string]struct {
	Off  int64
	Want func() *Term
	What string
}{
	"openflow13.Match": {2, func() *Term {
		return Const(4).Add(Sum("$.Fields", LenCall("$.Fields[*]", "openflow13.MatchField")))
	}, "ofp_match.length: header plus fields, excluding padding"},
	"openflow13.Bucket":                     {0, nil, "ofp_bucket.len: the whole bucket"},
	"openflow13.BundlePropertyExperimenter": {2, nil, "ofp_bundle_prop_experimenter.length: the whole property"},
	"openflow13.PacketOut": {16, func() *Term {
		return Sum("$.Actions", msgLen("$.Actions[*]"))
	}, "ofp_packet_out.actions_len: total size of the action list"},
}

// unpaddedLen: element families whose declared length excludes the padding that follows the element, so it
// is compared with the content size and not with the (possibly padded) size function.
var unpaddedLen = map[string]struct {
	Want func() *Term
	What string
}{
	"common.HelloElemVersionBitmap": {func() *Term { return Const(4).Add(LenOf("$.Bitmaps").Scale(4)) },
		"ofp_hello_elem_versionbitmap.length: header plus bitmaps, excluding padding (OpenFlow 1.3.5 §7.5.1)"},
}

// wirelenRule: the declared length an encoder puts on the wire equals the number of bytes the
// element occupies, at the moment of encoding (not merely after the last builder call): the value is
// the abstract value of the length field when the header child is encoded (or the value written
// directly), compared with the size term under the constructor facts and the declen invariants.
func wirelenRule(w *World, r *Report, kinds []*Kind) {
	for _, k := range kinds {
		if k.Marshal == nil || k.Len == nil {
			continue
		}
		pos := "-"
		if fi := w.FuncOf(k.Marshal); fi != nil {
			pos = w.Pos(fi.Decl.Pos())
		}
		if !k.OwnMarshal {
			r.OK("wirelen", k.Name, "", pos, "codec inherited from the embedded header (checked there; the size shortfall is the align8 obligation of this kind)", false)
			continue
		}
		es, ls := w.EncSummary(k), w.LenSummary(k)
		if es == nil || ls == nil || ls.Term == nil {
			r.Fail(VUndecided, "wirelen", k.Name, "", pos, "no summary of the encoder or the size function")
			continue
		}
		var D *Term
		var at string
		how := ""
		if dl, ok := directLen[k.Name]; ok {
			for _, rec := range es.Recs {
				if rec.Kind == "int" && rec.Off.IsConst() && rec.Off.C == dl.Off && rec.Val != nil {
					D, at, how = rec.Val, w.Pos(rec.Pos), "written at offset "+fmt.Sprint(dl.Off)
				}
			}
		} else if lp, ok := headerLenPath[k.Name]; ok {
			// the header kinds themselves: the field is written as it stands
			_ = lp
			continue
		} else {
			s := structOf(k.Named)
			for _, rec := range es.Recs {
				if rec.Kind != "child" || !rec.Off.IsZero() || !strings.HasPrefix(rec.Src, "enc($.") {
					continue
				}
				fname := strings.TrimSuffix(strings.TrimPrefix(rec.Src, "enc($."), ")")
				if s == nil || strings.Contains(fname, ".") {
					continue
				}
				for i := 0; i < s.NumFields(); i++ {
					if s.Field(i).Name() != fname {
						continue
					}
					ck := w.KindOfType(s.Field(i).Type())
					if ck == nil {
						continue
					}
					lp, ok := headerLenPath[ck.Name]
					if !ok {
						continue
					}
					at = w.Pos(rec.Pos)
					if v := rec.Snap[lp]; v != nil {
						D, how = v, "value of $."+fname+"."+lp+" when the header is encoded"
					} else {
						D, how = ValOf("$."+fname+"."+lp), "$."+fname+"."+lp+" as the constructors and builders leave it"
					}
				}
			}
		}
		if D == nil {
			r.Fail(VViolation, "wirelen", k.Name, "", pos, "the encoder does not put a declared length on the wire where the element family has one")
			continue
		}
		used := map[string]bool{}
		kf := w.Facts(k)
		norm := func(t *Term) *Term {
			t = w.ExpandLens(t, 0)
			t = stripWraps(t, used)
			for _, inv := range lenInvariants {
				if inv.Kind != k.Name {
					continue
				}
				inv := inv
				t = t.Map(func(a *Atom) *Term {
					if a.Kind == "val" && a.Path == inv.L {
						used["invariant "+inv.L+" = "+inv.What+" (declen rules)"] = true
						return inv.F()
					}
					return nil
				})
			}
			t = applyFacts(t, kf, used)
			t = w.applyPremises(k, t, used)
			t = w.ExpandLens(t, 0)
			return t
		}
		want, what := ls.Term, "the size function's result"
		if dl, ok := directLen[k.Name]; ok && dl.Want != nil {
			want, what = dl.Want(), dl.What
		} else if ok {
			what = dl.What
		}
		if uw, ok := unpaddedLen[k.Name]; ok {
			want, what = uw.Want(), uw.What
		}
		dn, wn := norm(D), norm(want)
		// an invariant established when a child was added says nothing once the child can grow afterwards
		for _, inv := range lenInvariants {
			if inv.Kind != k.Name || !used["invariant "+inv.L+" = "+inv.What+" (declen rules)"] {
				continue
			}
			if g := growableChildren(w, k, inv.F()); len(g) > 0 {
				r.Fail(VViolation, "wirelen", k.Name, "stable", at, fmt.Sprintf("the encoder writes %s as the builders left it (%s), but %s can change size after it was added (%s): the stored length goes stale and the element then declares fewer bytes than it occupies", inv.L, inv.What, g[0][0], g[0][1]))
			} else {
				r.OK("wirelen", k.Name, "stable", at, "no kind that can sit inside the element has a builder that changes its size after insertion: the stored length cannot go stale", true)
			}
		}
		var usedL []string
		for u := range used {
			usedL = append(usedL, u)
		}
		sort.Strings(usedL)
		under := ""
		if len(usedL) > 0 {
			under = " under {" + strings.Join(usedL, "; ") + "}"
		}
		if termsEqual(dn, wn) {
			r.OK("wirelen", k.Name, "", at, fmt.Sprintf("declared length (%s) = %v = %s%s", how, D, what, under), dn.Symbolic())
		} else {
			r.Fail(VViolation, "wirelen", k.Name, "", at, fmt.Sprintf("declared length (%s) is %v, but the element occupies %v (%s): a receiver walking by declared lengths loses alignment with the elements", how, pushCoef(dn), pushCoef(wn), what))
		}
	}
}

// sizeChangingBuilders lists the builder methods of kind c that store to state its size depends on.
func sizeChangingBuilders(w *World, c *Kind) []string {
	ls := w.LenSummary(c)
	if ls == nil || ls.Term == nil {
		return nil
	}
	paths := map[string]bool{}
	w.ExpandLens(ls.Term, 0).HasAtom(func(a *Atom) bool {
		p := a.Path
		if i := strings.Index(p, "[*]"); i >= 0 {
			p = p[:i]
		}
		if p != "" {
			paths[p] = true
		}
		if a.Kind == "ite" {
			c := strings.TrimSuffix(a.Cond, "==nil")
			paths[c] = true
		}
		return false
	})
	var out []string
	for _, m := range w.methodsOf(c) {
		if isCodecMethod(m.Decl.Name.Name) {
			continue
		}
		fs := w.Interpret(m, "builder")
		for _, s := range fs.Stores {
			if paths[strings.TrimSuffix(s.Path, "[]")] {
				out = append(out, m.Key)
				break
			}
		}
	}
	return out
}

// growableChildren: kinds that can be an element counted by the invariant's size term F and that
// have a size-changing builder. Returns [kind, builder] pairs.
func growableChildren(w *World, k *Kind, F *Term) [][2]string {
	var out [][2]string
	seen := map[string]bool{}
	var cands []*Kind
	addImpl := func(iface string) {
		for _, c := range w.KindsL {
			if seen[c.Name] || c.Len == nil {
				continue
			}
			switch iface {
			case "openflow13.MatchField":
				// payloads of match fields: the kinds the field constructors and DecodeMatchField produce
				if strings.HasPrefix(c.Name, "openflow13.") && strings.HasSuffix(c.Name, "Field") && c.Name != "openflow13.MatchField" {
					seen[c.Name] = true
					cands = append(cands, c)
				}
			default:
				seen[c.Name] = true
				cands = append(cands, c)
			}
		}
	}
	F.HasAtom(func(a *Atom) bool {
		if a.Kind != "sum" {
			return false
		}
		// the declared element type of the list decides what can sit in it
		var et types.Type
		if st := structOf(k.Named); st != nil {
			name := strings.TrimPrefix(a.Path, "$.")
			for i := 0; i < st.NumFields(); i++ {
				if st.Field(i).Name() == name {
					if sl, ok := st.Field(i).Type().Underlying().(*types.Slice); ok {
						et = sl.Elem()
					}
				}
			}
		}
		if et == nil {
			addImpl("")
			return false
		}
		if it, ok := et.Underlying().(*types.Interface); ok {
			for _, c := range w.Implementations(it) {
				if !seen[c.Name] {
					seen[c.Name] = true
					cands = append(cands, c)
				}
			}
			return false
		}
		if ck := w.KindOfType(et); ck != nil && ck.Name == "openflow13.MatchField" {
			addImpl("openflow13.MatchField")
		} else if ck != nil && !seen[ck.Name] {
			seen[ck.Name] = true
			cands = append(cands, ck)
		} else if ck == nil {
			addImpl("")
		}
		return false
	})
	for _, c := range cands {
		if c.Name == k.Name {
			continue
		}
		if b := sizeChangingBuilders(w, c); len(b) > 0 {
			out = append(out, [2]string{c.Name, b[0]})
		}
	}
	sort.Slice(out, func(i, j int) bool { return out[i][0] < out[j][0] })
	return out
}

// loadBearing reports why the stored length field of an invariant matters for the bytes produced: the
// size function or the encoder reads the value the constructors and builders left. Empty when both
// recompute it from the contents.
func loadBearing(w *World, k *Kind, inv lenInvariant) string {
	reads := func(t *Term) bool {
		if t == nil {
			return false
		}
		return w.ExpandLens(t, 0).HasAtom(func(a *Atom) bool { return a.Kind == "val" && a.Path == inv.L })
	}
	if ls := w.LenSummary(k); ls == nil || ls.Term == nil {
		return "size function not summarised"
	} else if reads(ls.Term) {
		return "the size function returns it"
	}
	es := w.EncSummary(k)
	if es == nil {
		return "encoder not summarised"
	}
	if reads(es.Size) || reads(es.Extent) {
		return "the encoder sizes its buffer with it"
	}
	lp := inv.L[strings.LastIndex(inv.L, "$.")+2:]
	for _, rec := range es.Recs {
		switch {
		case rec.Kind == "int" && rec.Val != nil && reads(rec.Val):
			return "the encoder writes it"
		case rec.Kind == "int" && rec.Val == nil && strings.Contains(rec.Src, "val("+inv.L+")"):
			return "the encoder writes it"
		case rec.Kind == "child" && strings.HasPrefix(rec.Src, "enc($."):
			f := strings.TrimSuffix(strings.TrimPrefix(rec.Src, "enc($."), ")")
			if !strings.HasPrefix(lp, f+".") {
				continue
			}
			v := rec.Snap[strings.TrimPrefix(lp, f+".")]
			if v == nil || reads(v) {
				return "the embedded header is encoded with it"
			}
		}
	}
	return ""
}

// ---------------------------------------------------------------- oxmlen

// negNorm rewrites ite(!(c) ? a : b) as ite(c ? b : a) so that conditions compare syntactically, and
// resolves an inner ite on a condition an enclosing arm has already decided.
func negNorm(t *Term) *Term { return negNormUnder(t, nil) }

func negNormUnder(t *Term, known map[string]bool) *Term {
	return t.Map(func(a *Atom) *Term {
		if a.Kind == "ite" && len(a.Sub) == 2 {
			c := a.Cond
			neg := false
			for strings.HasPrefix(c, "!(") && strings.HasSuffix(c, ")") {
				c = c[2 : len(c)-1]
				neg = !neg
			}
			if v, ok := known[c]; ok {
				if v != neg {
					return negNormUnder(a.Sub[0], known)
				}
				return negNormUnder(a.Sub[1], known)
			}
			with := func(v bool) map[string]bool {
				m := map[string]bool{c: v}
				for k, x := range known {
					m[k] = x
				}
				return m
			}
			s0, s1 := negNormUnder(a.Sub[0], with(!neg)), negNormUnder(a.Sub[1], with(neg))
			if neg {
				s0, s1 = s1, s0
			}
			if s0.Equal(s1) {
				return s0
			}
			return Ite(c, s0, s1)
		}
		return nil
	})
}

func negNormOld(t *Term) *Term {
	return t.Map(func(a *Atom) *Term {
		if a.Kind != "ite" || len(a.Sub) != 2 {
			return nil
		}
		c := a.Cond
		neg := false
		for strings.HasPrefix(c, "!(") && strings.HasSuffix(c, ")") {
			c = c[2 : len(c)-1]
			neg = !neg
		}
		s0, s1 := negNorm(a.Sub[0]), negNorm(a.Sub[1])
		if neg {
			s0, s1 = s1, s0
		}
		if c == a.Cond && s0.Equal(a.Sub[0]) && s1.Equal(a.Sub[1]) {
			return nil
		}
		return Ite(c, s0, s1)
	})
}

// oxmLenRule: every function that builds or edits a match field leaves oxm_length equal to the bytes of the
// payload that will follow the header: Len(value), plus Len(mask) when the mask flag is set (OpenFlow 1.3.5
// §7.2.3.2). Decided on the constructor summaries: the fields the function leaves in the match-field object
// it returns (or embeds), on every path.
func oxmLenRule(w *World, r *Report) {
	mfk := w.Kinds["openflow13.MatchField"]
	if mfk == nil {
		r.Fail(VViolation, "oxmlen", "openflow13.MatchField", "", "-", "the match-field kind no longer exists")
		return
	}
	isMF := func(t types.Type) bool {
		if p, ok := t.Underlying().(*types.Pointer); ok {
			t = p.Elem()
		}
		k := w.KindOfType(t)
		return k != nil && k.Name == mfk.Name
	}
	for _, key := range w.sortedFuncKeys() {
		fi := w.Funcs[key]
		if fi.Recv != nil || fi.Decl.Body == nil || fi.Decl.Type.Results == nil || !strings.HasPrefix(key, "openflow13.") {
			continue
		}
		if !ast.IsExported(fi.Decl.Name.Name) && w.calledFromModule(fi) {
			continue // an unexported helper: decided through the exported functions that inline it
		}
		sums := w.CtorSummaries(fi)
		for si, cs := range sums {
			if cs == nil || cs.State == nil || cs.In == nil {
				continue
			}
			// prefixes P with a stored mask flag
			var prefixes []string
			for p := range cs.Fields {
				if strings.HasSuffix(p, ".HasMask") {
					prefixes = append(prefixes, strings.TrimSuffix(p, ".HasMask"))
				}
			}
			sort.Strings(prefixes)
			for _, P := range prefixes {
				// only match-field objects: the root of a function returning one, or a field of that type
				if P == "$" {
					rt := fi.Pkg.TypesInfo.TypeOf(fi.Decl.Type.Results.List[0].Type)
					if rt == nil || !isMF(rt) {
						continue
					}
				} else if !strings.HasSuffix(P, ".Field") {
					continue
				}
				pos := w.Pos(fi.Decl.Pos())
				inst := strings.TrimPrefix(P, "$")
				if inst == "" {
					inst = "result"
				}
				if len(sums) > 1 {
					inst = fmt.Sprintf("%s@return%d", inst, si+1)
				}
				lenOf := func(v Val, what string) (*Term, string) {
					switch x := v.(type) {
					case nil:
						// not assigned by this function: the part the existing field already has
						return LenCall(P+"."+what, "util.Message"), ""
					case NilV:
						return Const(0), ""
					case ObjV:
						if k := w.KindOfType(x.Type); k != nil && k.Len != nil {
							ls := w.LenSummary(k)
							if ls != nil && ls.Term != nil {
								t := w.ExpandLens(ls.Term.Reroot(x.Path), 0)
								return cs.In.resolveLocal(cs.State, t), ""
							}
						}
						return LenCall(x.Path, "util.Message"), ""
					case MaybeV:
						if k := w.KindOfType(x.V.Type); k != nil && k.Len != nil {
							if ls := w.LenSummary(k); ls != nil && ls.Term != nil {
								t := w.ExpandLens(ls.Term.Reroot(x.V.Path), 0)
								return cs.In.resolveLocal(cs.State, t), ""
							}
						}
						return LenCall(x.V.Path, "util.Message"), ""
					}
					return nil, what + " is " + v.valString() + ", not an object the rule can size"
				}
				L, okL := cs.Fields[P+".Length"].(IntV)
				if !okL {
					if _, assigned := cs.Fields[P+".Length"]; !assigned {
						// a function that edits the mask flag of an existing field without touching its length
						r.Fail(VViolation, "oxmlen", fi.Key, inst, pos, "the function changes the mask flag (or the mask) of an existing match field and leaves oxm_length as it was: the length covers value and mask, so it no longer matches the payload that is encoded")
						continue
					} else {
						r.Fail(VUndecided, "oxmlen", fi.Key, inst, pos, "oxm_length is assigned a value the interpreter cannot follow")
						continue
					}
				}
				if _, hasValue := cs.Fields[P+".Value"]; !hasValue && P == "$" {
					continue // a header factory: the payload is attached by its caller, which is checked
				}
				vT, why := lenOf(cs.Fields[P+".Value"], "Value")
				if vT == nil {
					r.Fail(VUndecided, "oxmlen", fi.Key, inst, pos, why)
					continue
				}
				mT, why := lenOf(cs.Fields[P+".Mask"], "Mask")
				if mT == nil {
					r.Fail(VUndecided, "oxmlen", fi.Key, inst, pos, why)
					continue
				}
				vT, mT = simplifyUnderGuard(vT, cs.Guard), simplifyUnderGuard(mT, cs.Guard)
				want := vT
				switch h := cs.Fields[P+".HasMask"].(type) {
				case BoolV:
					switch h.Cond {
					case "true":
						want = want.Add(mT)
					case "false":
					default:
						want = want.Add(Ite(h.Cond, mT, Const(0)))
					}
				default:
					r.Fail(VUndecided, "oxmlen", fi.Key, inst, pos, "the mask flag is assigned a value the interpreter cannot follow")
					continue
				}
				want = simplifyUnderGuard(want, cs.Guard)
				// a header taken from the registry by a constant name: its width is the registry's
				if rw, ok := w.registryWidthFor(fi); ok {
					sub := func(t *Term) *Term {
						return t.Map(func(a *Atom) *Term {
							if a.Kind == "val" && strings.HasPrefix(a.Path, "global:openflow13.oxxFieldHeaderMap") && strings.HasSuffix(a.Path, ".Length") {
								return Const(rw)
							}
							return nil
						})
					}
					L = IntV{sub(L.T)}
					want = sub(want)
				}
				lc, _ := cs.canonTerm(stripWraps(L.T, map[string]bool{}))
				wc, _ := cs.canonTerm(stripWraps(want, map[string]bool{}))
				lc, wc = negNorm(w.ExpandLens(lc, 0)), negNorm(w.ExpandLens(wc, 0))
				if termsEqual(lc, wc) {
					r.OK("oxmlen", fi.Key, inst, pos, fmt.Sprintf("oxm_length = %v = payload bytes (value, plus mask when the flag is set)", pushCoef(lc)), true)
				} else {
					r.Fail(VViolation, "oxmlen", fi.Key, inst, pos, fmt.Sprintf("the function leaves oxm_length = %v, but the payload that follows the header has %v bytes (value, plus mask when the flag is set): the next field or action is read from the wrong place", pushCoef(lc), pushCoef(wc)))
				}
			}
		}
	}
}

// registryWidthFor resolves the registry width a constructor's header lookup yields: the lookup by a
// constant name, or by a name formatted from a constant prefix and an index when every registered name with
// that prefix has the same width (looked through one level of helper).
func (w *World) registryWidthFor(fi *FuncInfo) (int64, bool) {
	entries, _ := w.registryEntries()
	if len(entries) == 0 {
		return 0, false
	}
	byName := map[string]int64{}
	for _, e := range entries {
		if e.OK {
			byName[e.Name] = e.Width
		}
	}
	var find func(fi *FuncInfo, depth int, bind map[types.Object]string) (int64, bool)
	find = func(fi *FuncInfo, depth int, bind map[types.Object]string) (int64, bool) {
		info := fi.Pkg.TypesInfo
		var res int64
		found, bad := false, false
		ast.Inspect(fi.Decl.Body, func(n ast.Node) bool {
			c, ok := n.(*ast.CallExpr)
			if !ok {
				return true
			}
			fn := w.calleeOf(info, c)
			if fn == nil {
				return true
			}
			set := func(v int64) {
				if found && res != v {
					bad = true
				}
				res, found = v, true
			}
			switch {
			case w.isRegistryLookup(fn) && len(c.Args) >= 1:
				if tv, ok := info.Types[c.Args[0]]; ok && tv.Value != nil && tv.Value.Kind() == constant.String {
					if wd, ok := byName[constant.StringVal(tv.Value)]; ok {
						set(wd)
					} else {
						bad = true
					}
					return true
				}
				// the name is a parameter the caller bound to a constant
				if id, ok := unparen(c.Args[0]).(*ast.Ident); ok {
					if nm, bound := bind[info.Uses[id]]; bound {
						if wd, ok := byName[nm]; ok {
							set(wd)
						} else {
							bad = true
						}
						return true
					}
				}
				// name := fmt.Sprintf("PREFIX%d", idx)
				if id, ok := unparen(c.Args[0]).(*ast.Ident); ok {
					prefix := ""
					ast.Inspect(fi.Decl.Body, func(m ast.Node) bool {
						as, ok := m.(*ast.AssignStmt)
						if !ok || len(as.Lhs) != 1 || len(as.Rhs) != 1 || identObj(info, as.Lhs[0]) != info.Uses[id] {
							return true
						}
						if sc, ok := unparen(as.Rhs[0]).(*ast.CallExpr); ok && len(sc.Args) >= 1 {
							if tv, ok := info.Types[sc.Args[0]]; ok && tv.Value != nil && tv.Value.Kind() == constant.String {
								f := constant.StringVal(tv.Value)
								if i := strings.Index(f, "%d"); i > 0 && i == len(f)-2 {
									prefix = f[:i]
								}
							}
						}
						return true
					})
					if prefix != "" {
						var wd int64 = -1
						for name, x := range byName {
							if strings.HasPrefix(name, prefix) && strings.Trim(name[len(prefix):], "0123456789") == "" {
								if wd >= 0 && wd != x {
									bad = true
								}
								wd = x
							}
						}
						if wd >= 0 {
							set(wd)
							return true
						}
					}
				}
				bad = true
			case depth < 2 && w.FuncOf(fn) != nil && w.FuncOf(fn) != fi && !ast.IsExported(fn.Name()) && w.FuncOf(fn).Decl.Body != nil:
				// an unexported helper of the constructors: look inside, with its string parameters bound to the
				// constants this call passes
				hf := w.FuncOf(fn)
				hb := map[types.Object]string{}
				params := paramObjs(hf)
				for i, a := range c.Args {
					if i >= len(params) || params[i] == nil {
						continue
					}
					if tv, ok := info.Types[a]; ok && tv.Value != nil && tv.Value.Kind() == constant.String {
						hb[params[i]] = constant.StringVal(tv.Value)
					} else if id, ok := unparen(a).(*ast.Ident); ok {
						if nm, bound := bind[info.Uses[id]]; bound {
							hb[params[i]] = nm
						}
					}
				}
				if v, ok := find(hf, depth+1, hb); ok {
					set(v)
				}
			}
			return true
		})
		return res, found && !bad
	}
	return find(fi, 0, nil)
}

// runWirelen applies the wirelen rule to every element kind with a declared length.
func runWirelen(w *World, r *Report, actionKinds, instrKinds []*Kind) {
	{
		var ks []*Kind
		seen := map[string]bool{}
		for _, set := range [][]*Kind{actionKinds, instrKinds} {
			for _, k := range set {
				if !seen[k.Name] {
					seen[k.Name] = true
					ks = append(ks, k)
				}
			}
		}
		for _, n := range []string{"openflow13.Match", "openflow13.Bucket", "openflow13.BundlePropertyExperimenter", "openflow13.PacketOut", "common.HelloElemVersionBitmap"} {
			if k := w.Kinds[n]; k != nil && !seen[n] {
				seen[n] = true
				ks = append(ks, k)
			} else if k == nil {
				r.Fail(VViolation, "wirelen", n, "", "-", "kind with a declared length no longer exists")
			}
		}
		sort.Slice(ks, func(i, j int) bool { return ks[i].Name < ks[j].Name })
		wirelenRule(w, r, ks)
	}
}

// elementKinds lists the action and instruction kinds (implementations of the two interfaces, without the
// embedded header-only kinds).
func elementKinds(w *World) (actions, instrs []*Kind, ok bool) {
	of := w.ByName["openflow13"]
	if of == nil {
		return nil, nil, false
	}
	iface := func(name string) *types.Interface {
		tn, _ := of.Types.Scope().Lookup(name).(*types.TypeName)
		if tn == nil {
			return nil
		}
		i, _ := tn.Type().Underlying().(*types.Interface)
		return i
	}
	ai, ii := iface("Action"), iface("Instruction")
	if ai == nil || ii == nil {
		return nil, nil, false
	}
	skip := map[string]bool{"openflow13.NXActionHeader": true, "openflow13.InstrHeader": true}
	for _, k := range w.Implementations(ai) {
		if !skip[k.Name] {
			actions = append(actions, k)
		}
	}
	for _, k := range w.Implementations(ii) {
		if !skip[k.Name] {
			instrs = append(instrs, k)
		}
	}
	return actions, instrs, true
}

// calledFromModule: some other function of the module calls fi.
func (w *World) calledFromModule(fi *FuncInfo) bool {
	if w.callerCache == nil {
		w.callerCache = map[*types.Func]bool{}
		for _, key := range w.sortedFuncKeys() {
			g := w.Funcs[key]
			if g.Decl.Body == nil {
				continue
			}
			info := g.Pkg.TypesInfo
			ast.Inspect(g.Decl.Body, func(n ast.Node) bool {
				if c, ok := n.(*ast.CallExpr); ok {
					if fn := w.calleeOf(info, c); fn != nil && fn != g.Obj {
						w.callerCache[fn] = true
					}
				}
				return true
			})
		}
	}
	return w.callerCache[fi.Obj]
}

// appendedCopyRule: `m.list = append(m.list, p)` with p a struct PARAMETER passed by value stores a copy of
// p. A later store into p's fields in the same builder changes only the parameter: the stored element
// keeps the old fields, and a length the builder then derives from p (m.Length += p.Len()) describes an
// element that is not the one in the list.
func appendedCopyRule(w *World, r *Report) {
	n := 0
	for _, key := range w.sortedFuncKeys() {
		fi := w.Funcs[key]
		if fi.Decl.Body == nil || fi.Recv == nil || !(fi.Pkg.Types.Name() == "openflow13" || fi.Pkg.Types.Name() == "common") {
			continue
		}
		info := fi.Pkg.TypesInfo
		params := map[types.Object]bool{}
		for _, p := range paramObjs(fi) {
			if p == nil {
				continue
			}
			if _, isStruct := p.Type().Underlying().(*types.Struct); isStruct {
				params[p] = true
			}
		}
		if len(params) == 0 {
			continue
		}
		appendedAt := map[types.Object]token.Pos{}
		ast.Inspect(fi.Decl.Body, func(nd ast.Node) bool {
			c, ok := nd.(*ast.CallExpr)
			if !ok || len(c.Args) < 2 {
				return true
			}
			if id, ok := unparen(c.Fun).(*ast.Ident); !ok || id.Name != "append" {
				return true
			}
			for _, a := range c.Args[1:] {
				if id, ok := unparen(a).(*ast.Ident); ok && params[info.Uses[id]] {
					if _, seen := appendedAt[info.Uses[id]]; !seen {
						appendedAt[info.Uses[id]] = c.End()
					}
				}
			}
			return true
		})
		for p, at := range appendedAt {
			n++
			bad := token.NoPos
			what := ""
			ast.Inspect(fi.Decl.Body, func(nd ast.Node) bool {
				as, ok := nd.(*ast.AssignStmt)
				if !ok || as.Pos() < at || bad.IsValid() {
					return true
				}
				for _, l := range as.Lhs {
					if se, ok := unparen(l).(*ast.SelectorExpr); ok {
						if id, ok := unparen(se.X).(*ast.Ident); ok && info.Uses[id] == p {
							bad, what = as.Pos(), types.ExprString(l)
						}
					}
				}
				return true
			})
			if bad.IsValid() {
				r.Fail(VViolation, "appendcopy", fi.Key, p.Name(), w.Pos(bad), fmt.Sprintf("%s is assigned after the parameter %s was appended by value: the list holds the copy made at the append, which does not see this store, so what the builder computes from %s afterwards (a length) describes an element that is not the one in the list", what, p.Name(), p.Name()))
			} else {
				r.OK("appendcopy", fi.Key, p.Name(), w.Pos(at), "the by-value parameter is not modified after it was appended", true)
			}
		}
	}
	r.OK("appendcopy", "inventory", "", "-", fmt.Sprintf("%d appends of a by-value struct parameter in builder methods", n), true)
}
