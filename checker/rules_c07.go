package main

// C07 — the OpenFlow parser is total (DESIGN §3 C07).

import (
	"fmt"
	"go/ast"
	"go/token"
	"go/types"
	"os"
	"sort"
	"strings"

	"golang.org/x/tools/go/ssa"
)

func init() {
	register(&propCheck{
		ID:      "C07",
		Run:     runC07,
		NeedSSA: true,
		Level:   "Static analysis (call-graph reachability from the parser entry point on go/ssa + VTA; containment rule on the entry point; abstract interpretation with guard prover, loop-head invariants and child post-conditions for every reachable function). Decides: contain/Parse — the entry point installs, before anything else, a deferred function that recovers and assigns the error result, and rejects inputs shorter than a header; every index/slice/nil-dispatch/type-assertion panic in any function reachable from it (transitively, including the packet-header decoders reached through packet-in) is therefore returned as an error — each of the reachable index/slice sites is additionally reported as proved in range or as contained; nogo — no reachable function starts a goroutine (a panic there would escape the recover); exit — no reachable function can end the process (os.Exit, log.Fatal*, logrus Fatal*, runtime.Goexit); recursion — every cycle of the reachable call graph passes a strictly shorter input on a call edge (stack depth proportional to the input; a stack overflow is not recoverable); progress/<func>/<loop> — every loop of every reachable function ranges over a slice or has a cursor that grows by >= 1 on every back path and is bounded (loop condition against a loop-invariant bound, verified invariant cursor <= len(input), or a guard every completed iteration passed); alloc/<func>/<site> — allocation sizes are bounded by wire fields of at most 16 bits or by the input length; result/Parse — no path of the entry point returns neither a message nor an error. Together: for every byte string the parser returns a message or an error, does not panic, and every loop advances. Not decided: wall-clock constants; memory retained by append in loops beyond the per-iteration bound. Also decided: reparse — a decoder re-enters the parser entry point at most once and outside loops (cost of nested messages linear in the frame).",
		Assumptions: []string{
			"a deferred recover() catches every run-time panic of its goroutine except fatal errors (stack overflow, concurrent map access); recursion depth is bounded by the recursion rule",
			"the VTA call graph over-approximates the calls reachable from the entry point (closed world for util.Message implementations)",
			"standard-library calls reachable from the parser terminate on every input",
		},
	})
}

// reachableModuleFuncs maps the functions reachable from root (VTA) to their declarations.
func (w *World) reachableModuleFuncs(root *ssa.Function) ([]*FuncInfo, map[*ssa.Function]bool) {
	sw := w.SSA()
	reach := sw.Reachable(root)
	seen := map[*FuncInfo]bool{}
	var out []*FuncInfo
	for f := range reach {
		if !w.inModule(f) {
			continue
		}
		var obj *types.Func
		for g := f; g != nil; g = g.Parent() {
			if o, ok := g.Object().(*types.Func); ok {
				obj = o
				break
			}
			if g.Origin() != nil {
				if o, ok := g.Origin().Object().(*types.Func); ok {
					obj = o
					break
				}
			}
		}
		if obj == nil {
			continue
		}
		if fi := w.FuncOf(obj); fi != nil && !seen[fi] {
			seen[fi] = true
			out = append(out, fi)
		}
	}
	sort.Slice(out, func(i, j int) bool { return out[i].Key < out[j].Key })
	return out, reach
}

func runC07(w *World, r *Report) {
	r.Rule("stepspec", "a list decoder whose advance the wire format fixes (hello elements: next multiple of 8) advances by exactly that", 1)
	stepSpecRule(w, r, "stepspec")
	r.Rule("shadow", "no := in an inner scope re-declares a same-typed variable of the function that is read afterwards (or a named result): the value computed there would be lost", 1)
	shadowRule(w, r, "shadow", func(fi *FuncInfo) bool {
		return fi.Pkg.Types.Name() == "openflow13" || fi.Pkg.Types.Name() == "common" || fi.Pkg.Types.Name() == "util"
	})
	r.Rule("typednil-var", "a pointer result that can be a bare nil is not assigned to an interface-typed variable (a typed nil passes == nil tests the wrong way)", 1)
	typedNilVarRule(w, r, "typednil-var", func(fi *FuncInfo) bool {
		return fi.Pkg.Types.Name() == "openflow13" || fi.Pkg.Types.Name() == "common" || fi.Pkg.Types.Name() == "util"
	})
	r.Rule("storedlen", "a size function that returns a length field read from the wire is bounded by the input in the decoder", 5)
	storedLenRule(w, r, "storedlen")
	r.Rule("stateless", "the parser keeps no package-level state that a frame can change (a cache, a lock left held by a recovered panic, a shared decoding target): what one frame does cannot wedge or corrupt the parsing of the next", 8)
	importStateless(w, r, "stateless")
	r.Rule("contain", "the entry point recovers from decoding panics and rejects headerless input", 1)
	r.Rule("nogo", "no goroutine is started below the entry point", 1)
	r.Rule("exit", "no reachable call can end the process", 1)
	r.Rule("recursion", "every call-graph cycle passes a strictly shorter input", 1)
	r.Rule("bounds", "index/slice sites of reachable functions: proved in range or contained by the entry point's recover", 600)
	r.Rule("progress", "every reachable loop has a growing, bounded cursor (or ranges over a slice)", 30)
	r.Rule("alloc", "allocation sizes are bounded by 16-bit fields or the input length", 30)
	r.Rule("result", "the entry point never returns neither a message nor an error", 1)
	pfi := w.Funcs["openflow13.Parse"]
	if pfi == nil {
		r.Fail(VViolation, "contain", "openflow13.Parse", "", "-", "parser entry point openflow13.Parse not found")
		return
	}
	ppos := w.Pos(pfi.Decl.Pos())
	info := pfi.Pkg.TypesInfo

	// ---------------------------------------------------------------- contain
	contained := ""
	{
		var named []types.Object
		if pfi.Decl.Type.Results != nil {
			for _, f := range pfi.Decl.Type.Results.List {
				for _, nm := range f.Names {
					named = append(named, info.Defs[nm])
				}
			}
		}
		var errObj types.Object
		for _, o := range named {
			if o != nil && types.Identical(o.Type(), types.Universe.Lookup("error").Type()) {
				errObj = o
			}
		}
		okDefer := false
		why := "the first statement of the entry point is not a deferred function"
		// the defer must come before anything that can panic; statements that cannot (a length test that
		// returns, declarations and assignments without calls, indexing, slicing or dereferences) may precede it
		di := -1
		for i, st := range pfi.Decl.Body.List {
			if _, ok := st.(*ast.DeferStmt); ok {
				di = i
				break
			}
			if !cannotPanic(st) {
				break
			}
		}
		if di >= 0 {
			if ds, ok := pfi.Decl.Body.List[di].(*ast.DeferStmt); ok {
				okDefer, why = recoverDefer(w, pfi, ds, errObj)
				if !okDefer && strings.Contains(why, "swallowed") {
					why += " as (nil, nil)"
				}
			}
		}
		if okDefer {
			contained = "openflow13.Parse installs a deferred recover that sets the error result before any decoding starts"
			r.OK("contain", pfi.Key, "recover", ppos, contained, true)
		} else {
			r.Fail(VViolation, "contain", pfi.Key, "recover", ppos, why+": a malformed frame that makes any decoder index out of range crashes the process")
		}
	}

	// ---------------------------------------------------------------- reachable set
	root := w.SSAFunc(pfi)
	if root == nil {
		r.Fail(VUndecided, "nogo", pfi.Key, "", ppos, "no SSA form for the entry point")
		return
	}
	funcs, reach := w.reachableModuleFuncs(root)
	r.Stats["functions_reachable_from_Parse"] = len(funcs)
	if len(funcs) < 150 {
		r.Fail(VViolation, "bounds", pfi.Key, "inventory", ppos, fmt.Sprintf("only %d module functions reachable from the entry point (reference tree: 230): the dispatch no longer reaches the decoders", len(funcs)))
	}

	// ---------------------------------------------------------------- nogo / exit
	nGo, nExit := 0, 0
	var rfs []*ssa.Function
	for f := range reach {
		rfs = append(rfs, f)
	}
	sort.Slice(rfs, func(i, j int) bool { return rfs[i].String() < rfs[j].String() })
	for _, f := range rfs {
		if !w.inModule(f) {
			continue
		}
		for _, b := range f.Blocks {
			for _, ins := range b.Instrs {
				switch x := ins.(type) {
				case *ssa.Go:
					nGo++
					r.Fail(VViolation, "nogo", ssaFuncKey(w, f), "go", w.Pos(x.Pos()), "a goroutine is started in a function reachable from the parser: a panic in it is not caught by the entry point's recover")
				case ssa.CallInstruction:
					if cal := x.Common().StaticCallee(); cal != nil && cal.Pkg != nil {
						n, p := cal.Name(), cal.Pkg.Pkg.Path()
						if (p == "os" && n == "Exit") || (p == "runtime" && n == "Goexit") || ((p == "log" || p == "github.com/sirupsen/logrus") && strings.HasPrefix(n, "Fatal")) {
							nExit++
							r.Fail(VViolation, "exit", ssaFuncKey(w, f), p+"."+n, w.Pos(x.Pos()), "a call that ends the process (or the goroutine) is reachable from the parser: a malformed frame can take the controller down")
						}
					}
				}
			}
		}
	}
	if nGo == 0 {
		r.OK("nogo", pfi.Key, "", ppos, fmt.Sprintf("no go statement in the %d functions reachable from the entry point", len(reach)), true)
	}
	if nExit == 0 {
		r.OK("exit", pfi.Key, "", ppos, "no os.Exit / log.Fatal* / logrus.Fatal* / runtime.Goexit call reachable from the entry point", true)
	}

	// ---------------------------------------------------------------- recursion
	w.recursionRule(r, root, reach)

	// ---------------------------------------------------------------- bounds (contained) / progress / alloc
	decideTotalityC07(w, r, funcs, contained)

	// ---------------------------------------------------------------- the stream's parser goroutines
	r.Rule("reparse", "a decoder re-enters the parser at most once, outside loops (the cost of nested messages stays linear)", 1)
	reparseRule(w, r, "reparse")
	r.Rule("handoff", "a parser goroutine returns its pool buffer on every path, also when parsing failed", 1)
	if so, miss := w.streamObjs(); miss != "" {
		r.Fail(VViolation, "handoff", "util.MessageStream", "", "-", miss)
	} else {
		streamParseHandoff(w, r, so)
	}

	// ---------------------------------------------------------------- result
	{
		var msgObj, errObj types.Object
		if pfi.Decl.Type.Results != nil {
			for _, f := range pfi.Decl.Type.Results.List {
				for _, nm := range f.Names {
					o := info.Defs[nm]
					if o != nil && types.Identical(o.Type(), types.Universe.Lookup("error").Type()) {
						errObj = o
					} else if o != nil {
						msgObj = o
					}
				}
			}
		}
		isNil := func(e ast.Expr) bool {
			id, ok := unparen(e).(*ast.Ident)
			return ok && id.Name == "nil"
		}
		// sets: every path through the statements yields a message or an error
		var sets func(list []ast.Stmt) bool
		sets = func(list []ast.Stmt) bool {
			for _, st := range list {
				switch x := st.(type) {
				case *ast.AssignStmt:
					for i, l := range x.Lhs {
						o := identObj(info, l)
						if o == nil || (o != msgObj && o != errObj) {
							continue
						}
						var rhs ast.Expr
						if len(x.Rhs) == len(x.Lhs) {
							rhs = x.Rhs[i]
						}
						if o == msgObj && (rhs == nil || !isNil(rhs)) {
							return true
						}
						if o == errObj && rhs != nil {
							if c, ok := unparen(rhs).(*ast.CallExpr); ok {
								if se, ok := unparen(c.Fun).(*ast.SelectorExpr); ok {
									if id, ok := se.X.(*ast.Ident); ok && (id.Name == "errors" || id.Name == "fmt") {
										return true
									}
								}
							}
						}
					}
				case *ast.ReturnStmt:
					if len(x.Results) == 2 && (!isNil(x.Results[0]) || !isNil(x.Results[1])) {
						return true
					}
				case *ast.IfStmt:
					if eb, ok := x.Else.(*ast.BlockStmt); ok && sets(x.Body.List) && sets(eb.List) {
						return true
					}
				case *ast.SwitchStmt:
					all, hasDefault := true, false
					for _, cc := range x.Body.List {
						c := cc.(*ast.CaseClause)
						if c.List == nil {
							hasDefault = true
						}
						if !sets(c.Body) {
							all = false
						}
					}
					if all && hasDefault {
						return true
					}
				case *ast.BlockStmt:
					if sets(x.List) {
						return true
					}
				}
			}
			return false
		}
		var top *ast.SwitchStmt
		for _, st := range pfi.Decl.Body.List {
			if sw, ok := st.(*ast.SwitchStmt); ok {
				top = sw
			}
		}
		if msgObj == nil || errObj == nil || top == nil {
			// another shape (helpers, tables): decide from the interpreter's return records — on every
			// return that is not an error exit the message is definitely not nil
			fs := w.Interpret(pfi, "decode")
			bad, n := "", 0
			if fs == nil || len(fs.Rets) == 0 {
				bad = "the interpreter has no return records for the entry point"
			} else {
				for _, rt := range fs.Rets {
					if rt.IsErr {
						continue
					}
					n++
					if len(rt.Vals) < 2 {
						bad = "a return does not carry (message, error)"
						break
					}
					switch v := rt.Vals[0].(type) {
					case ObjV:
					case AltV:
						if v.MayNil {
							bad = "at " + w.Pos(rt.Pos) + " the message may be nil while no error is returned"
						}
					default:
						bad = "at " + w.Pos(rt.Pos) + " the message is " + rt.Vals[0].valString() + " while no error is returned"
					}
				}
			}
			switch {
			case bad != "" && strings.HasPrefix(bad, "at "):
				r.Fail(VViolation, "result", pfi.Key, "", ppos, bad+": the entry point can return (nil, nil), and the stream would deliver a nil message")
			case bad != "":
				r.Fail(VUndecided, "result", pfi.Key, "", ppos, bad)
			default:
				r.OK("result", pfi.Key, "", ppos, fmt.Sprintf("%d successful return paths, each with a non-nil message", n), true)
			}
		} else {
			bad, n, hasDefault := 0, 0, false
			for _, cc := range top.Body.List {
				c := cc.(*ast.CaseClause)
				n++
				label := "default"
				if c.List == nil {
					hasDefault = true
				} else {
					var ls []string
					for _, e := range c.List {
						ls = append(ls, types.ExprString(e))
					}
					label = strings.Join(ls, ",")
				}
				if !sets(c.Body) {
					bad++
					r.Fail(VViolation, "result", pfi.Key, "case:"+label, w.Pos(c.Pos()), "for this type code the entry point assigns neither a message nor an error on some path: it returns (nil, nil), and the stream would deliver a nil message")
				}
			}
			if !hasDefault {
				bad++
				r.Fail(VViolation, "result", pfi.Key, "case:default", w.Pos(top.Pos()), "the dispatch has no default clause: an unknown type code returns (nil, nil)")
			}
			if bad == 0 {
				r.OK("result", pfi.Key, "", ppos, fmt.Sprintf("%d dispatch cases: every path assigns a message or a non-nil error", n), true)
			}
		}
	}
}

// decideTotalityC07: the shared rules with containment for bounds and without the wrap rule
// (narrow arithmetic matters here only through loop progress and allocation sizes).
func decideTotalityC07(w *World, r *Report, funcs []*FuncInfo, contained string) {
	sub := NewReport(r.Prop, r.Tier)
	decideTotality(w, sub, funcs, func(fi *FuncInfo) string { return contained })
	for _, o := range sub.Obs {
		if o.Rule == "wrap" {
			continue
		}
		r.Add(o)
	}
	for k, v := range sub.Stats {
		r.Stats[k] = v
	}
}

// recursionRule: every strongly connected component of the reachable in-module
// call graph must have, on every call edge inside it that passes the input on,
// a strictly shorter slice.
func (w *World) recursionRule(r *Report, root *ssa.Function, reach map[*ssa.Function]bool) {
	sw := w.SSA()
	g := sw.Graph()
	// Tarjan over in-module reachable functions
	index := map[*ssa.Function]int{}
	low := map[*ssa.Function]int{}
	on := map[*ssa.Function]bool{}
	var stack []*ssa.Function
	idx := 0
	var sccs [][]*ssa.Function
	succ := func(f *ssa.Function) []*ssa.Function {
		var out []*ssa.Function
		if n := g.Nodes[f]; n != nil {
			for _, e := range n.Out {
				if c := e.Callee.Func; c != nil && reach[c] && w.inModule(c) {
					out = append(out, c)
				}
			}
		}
		sort.Slice(out, func(i, j int) bool { return out[i].String() < out[j].String() })
		return out
	}
	var strong func(v *ssa.Function)
	strong = func(v *ssa.Function) {
		index[v], low[v] = idx, idx
		idx++
		stack = append(stack, v)
		on[v] = true
		for _, x := range succ(v) {
			if _, seen := index[x]; !seen {
				strong(x)
				if low[x] < low[v] {
					low[v] = low[x]
				}
			} else if on[x] && index[x] < low[v] {
				low[v] = index[x]
			}
		}
		if low[v] == index[v] {
			var comp []*ssa.Function
			for {
				x := stack[len(stack)-1]
				stack = stack[:len(stack)-1]
				on[x] = false
				comp = append(comp, x)
				if x == v {
					break
				}
			}
			self := false
			for _, x := range succ(v) {
				if x == v {
					self = true
				}
			}
			if len(comp) > 1 || self {
				sccs = append(sccs, comp)
			}
		}
	}
	var fl []*ssa.Function
	for f := range reach {
		if w.inModule(f) {
			fl = append(fl, f)
		}
	}
	sort.Slice(fl, func(i, j int) bool { return fl[i].String() < fl[j].String() })
	for _, f := range fl {
		if _, seen := index[f]; !seen {
			strong(f)
		}
	}
	if len(sccs) == 0 {
		r.OK("recursion", "openflow13.Parse", "", "-", "the reachable call graph is acyclic", true)
		return
	}
	for _, comp := range sccs {
		in := map[*ssa.Function]bool{}
		var names []string
		for _, f := range comp {
			in[f] = true
			names = append(names, ssaFuncKey(w, f))
		}
		sort.Strings(names)
		name := strings.Join(names, "→")
		if len(name) > 160 {
			name = name[:160] + "…"
		}
		consumes := false
		for _, f := range comp {
			for _, p := range f.Params {
				if isByteSlice(p.Type()) {
					consumes = true
				}
			}
		}
		if !consumes {
			r.OK("recursion", name, "", "-", "no member takes the input: structural recursion over the decoded value (size / encode functions), whose nesting depth is bounded by the decode recursion", false)
			continue
		}
		// a cycle shrinks if there is a set of edges, hit by every cycle, whose argument is a strictly shorter
		// view. Sufficient check used here: some member function has ALL its intra-component calls shrinking and
		// every cycle passes through it — approximated by: removing the shrinking edges makes the component acyclic.
		type edge struct{ from, to *ssa.Function }
		shrinking := map[edge]bool{}
		var notes []string
		for _, f := range comp {
			obj, _ := f.Object().(*types.Func)
			var fi *FuncInfo
			if obj != nil {
				fi = w.FuncOf(obj)
			}
			n := g.Nodes[f]
			if fi == nil || n == nil {
				continue
			}
			fs := w.Interpret(fi, "decode")
			// call expressions of f by the position of their opening parenthesis
			calls := map[token.Pos]*ast.CallExpr{}
			ast.Inspect(fi.Decl.Body, func(m ast.Node) bool {
				if c, ok := m.(*ast.CallExpr); ok {
					calls[c.Lparen] = c
				}
				return true
			})
			perTarget := map[*ssa.Function][]bool{}
			for _, e := range n.Out {
				t := e.Callee.Func
				if t == nil || !in[t] || e.Site == nil {
					continue
				}
				c := calls[e.Site.Pos()]
				shr := false
				if c != nil {
					for _, a := range c.Args {
						if !isByteSlice(fi.Pkg.TypesInfo.TypeOf(a)) {
							continue
						}
						if off, ok := fs.In.SliceOff[unparen(a)]; ok {
							if w.ProveX(Const(1), off, fs.In.SliceFacts[unparen(a)]) {
								shr = true
								notes = append(notes, fmt.Sprintf("%s passes input[%v:] to %s", ssaFuncKey(w, f), off, ssaFuncKey(w, t)))
							}
						}
					}
				}
				perTarget[t] = append(perTarget[t], shr)
			}
			for t, l := range perTarget {
				all := true
				for _, b := range l {
					all = all && b
				}
				if all {
					shrinking[edge{f, t}] = true
				}
			}
		}
		// acyclic without the shrinking edges?
		state := map[*ssa.Function]int{}
		cyc := false
		var dfs func(v *ssa.Function)
		dfs = func(v *ssa.Function) {
			state[v] = 1
			for _, x := range succ(v) {
				if !in[x] || shrinking[edge{v, x}] {
					continue
				}
				if state[x] == 1 {
					cyc = true
				} else if state[x] == 0 {
					dfs(x)
				}
			}
			state[v] = 2
		}
		for _, f := range comp {
			if state[f] == 0 {
				dfs(f)
			}
		}
		// a function on the cycle that allocates in proportion to the bytes it was given does so at every
		// level of nesting: with n levels of k bytes each the total is quadratic in the frame size
		for _, f := range comp {
			fi := w.ssaFuncInfo(f)
			if fi == nil {
				continue
			}
			fs := w.Interpret(fi, "decode")
			if fs == nil {
				continue
			}
			for _, a := range fs.Allocs {
				if a.Size == nil || a.Fn != fi.Key {
					continue
				}
				// any size that is not a constant comes from the input here: its length, a field read from it
				if !a.Size.IsConst() {
					r.Fail(VViolation, "recursion", ssaFuncKey(w, f), "alloc:"+normSite(a.Text), w.Pos(a.Pos), fmt.Sprintf("%s allocates %v bytes — in proportion to its input — and lies on a cycle of the decode call graph: a frame that nests this kind k deep costs k such allocations, all live until the recursion unwinds, so memory grows with the square of the frame size", ssaFuncKey(w, f), a.Size))
				}
			}
		}
		sort.Strings(notes)
		if !cyc {
			r.OK("recursion", name, "", "-", "every cycle passes a strictly shorter input: "+strings.Join(notes, "; "), true)
		} else {
			r.Fail(VViolation, "recursion", name, "", "-", "a cycle of the decode call graph does not provably pass a shorter input on any edge: nested messages could recurse without bound (stack overflow is not recoverable)")
		}
	}
}

// cannotPanic: a statement with no call (other than len/cap), no index, slice, dereference, type assertion,
// division or conversion to a narrower type — nothing that can raise a run-time panic.
func cannotPanic(st ast.Stmt) bool {
	ok := true
	ast.Inspect(st, func(n ast.Node) bool {
		switch x := n.(type) {
		case *ast.CallExpr:
			id, isId := unparen(x.Fun).(*ast.Ident)
			se, isSel := unparen(x.Fun).(*ast.SelectorExpr)
			switch {
			case isId && (id.Name == "len" || id.Name == "cap"):
			case isSel && (se.Sel.Name == "New" || se.Sel.Name == "Errorf"):
				// errors.New / fmt.Errorf building the rejection
			default:
				ok = false
			}
		case *ast.IndexExpr, *ast.SliceExpr, *ast.StarExpr, *ast.TypeAssertExpr, *ast.GoStmt, *ast.SendStmt:
			ok = false
		case *ast.BinaryExpr:
			if x.Op == token.QUO || x.Op == token.REM {
				ok = false
			}
		case *ast.ForStmt, *ast.RangeStmt:
			ok = false
		}
		return ok
	})
	return ok
}

// recoverDefer decides whether a defer statement of fi installs a handler that recovers a panic in the
// deferred function's own frame and assigns a non-nil value to the function's named error result errObj —
// as a function literal, or as a named module function that is handed &err.
func recoverDefer(w *World, fi *FuncInfo, ds *ast.DeferStmt, errObj types.Object) (ok bool, why string) {
	info := fi.Pkg.TypesInfo
	if errObj == nil {
		return false, "the function has no named error result a deferred function could set"
	}
	repanics := ""
	scan := func(body *ast.BlockStmt, hinfo *types.Info, assigned func(l ast.Expr) bool) (hasRecover, assignsErr bool) {
		ast.Inspect(body, func(m ast.Node) bool {
			switch y := m.(type) {
			case *ast.FuncLit:
				return false // recover() in a nested closure does not stop the panic
			case *ast.CallExpr:
				if id, ok := y.Fun.(*ast.Ident); ok && id.Name == "recover" {
					if _, isB := hinfo.Uses[id].(*types.Builtin); isB {
						hasRecover = true
					}
				}
				// the handler must end every panic: one that panics again (for some kinds of panic value)
				// lets those through to the caller
				if id, ok := y.Fun.(*ast.Ident); ok && id.Name == "panic" {
					if _, isB := hinfo.Uses[id].(*types.Builtin); isB {
						repanics = w.Pos(y.Pos())
					}
				}
				if f := w.calleeOf(hinfo, y); f != nil && f.Pkg() != nil {
					n := f.Name()
					if (f.Pkg().Path() == "log" || strings.HasSuffix(f.Pkg().Path(), "logrus")) && (strings.HasPrefix(n, "Panic") || strings.HasPrefix(n, "Fatal")) {
						repanics = w.Pos(y.Pos())
					}
				}
			case *ast.AssignStmt:
				for i, l := range y.Lhs {
					if assigned(l) && i < len(y.Rhs) {
						if rid, ok := unparen(y.Rhs[i]).(*ast.Ident); !ok || rid.Name != "nil" {
							assignsErr = true
						}
					} else if assigned(l) && len(y.Rhs) == 1 && len(y.Lhs) > 1 {
						assignsErr = true // err, ok = r.(error) style
					}
				}
			}
			return true
		})
		return
	}
	if fl, isLit := ds.Call.Fun.(*ast.FuncLit); isLit {
		hr, ae := scan(fl.Body, info, func(l ast.Expr) bool {
			id, ok := unparen(l).(*ast.Ident)
			return ok && info.Uses[id] == errObj
		})
		switch {
		case !hr:
			return false, "the deferred function does not call recover()"
		case !ae:
			return false, "the deferred function recovers but does not assign a non-nil error result: a panic would be swallowed"
		case repanics != "":
			return false, "the deferred function panics again (" + repanics + ") for some recovered values: those panics leave the parser instead of becoming an error"
		}
		return true, ""
	}
	hf := w.FuncOf(w.calleeOf(info, ds.Call))
	if hf == nil || hf.Decl.Body == nil {
		return false, "the deferred call is neither a function literal nor a module function the rule can inspect"
	}
	var errParam types.Object
	pi := 0
	for _, fl := range hf.Decl.Type.Params.List {
		for _, nm := range fl.Names {
			if pi < len(ds.Call.Args) {
				if u, ok := unparen(ds.Call.Args[pi]).(*ast.UnaryExpr); ok && u.Op == token.AND {
					if id, ok := unparen(u.X).(*ast.Ident); ok && info.Uses[id] == errObj {
						errParam = hf.Pkg.TypesInfo.Defs[nm]
					}
				}
			}
			pi++
		}
	}
	if errParam == nil {
		return false, "the deferred helper is not handed the address of the error result"
	}
	hinfo := hf.Pkg.TypesInfo
	hr, ae := scan(hf.Decl.Body, hinfo, func(l ast.Expr) bool {
		st, ok := unparen(l).(*ast.StarExpr)
		if !ok {
			return false
		}
		id, ok := unparen(st.X).(*ast.Ident)
		return ok && hinfo.Uses[id] == errParam
	})
	switch {
	case !hr:
		return false, "the deferred helper does not call recover() in its own frame"
	case !ae:
		return false, "the deferred helper recovers but does not assign a non-nil error through the pointer it is given"
	case repanics != "":
		return false, "the deferred helper panics again (" + repanics + ") for some recovered values: those panics leave the parser instead of becoming an error"
	}
	return true, ""
}

// storedLenRule: list decoders advance by the size the decoded element reports, and containers add those
// sizes up in 16 bits. An element whose size function hands back a length field that its decoder took from
// the wire reports whatever the frame claims; unless the decoder refuses a claim larger than the bytes it
// was given, the sum in an enclosing container wraps (to 0: the outer loop stops advancing) for a frame of
// a few dozen bytes. For every kind whose size term is a stored field that its decoder fills from the
// input, the decoder's success facts must give field <= len(input) (or size <= len(input)).
func storedLenRule(w *World, r *Report, rule string) {
	for _, k := range w.KindsL {
		if k.Len == nil || k.Unmarshal == nil || !k.OwnUnmarshal || !(strings.HasPrefix(k.Name, "openflow13.") || strings.HasPrefix(k.Name, "common.")) {
			continue
		}
		ls := w.LenSummary(k)
		dfi := w.FuncOf(k.Unmarshal)
		if ls == nil || ls.Term == nil || dfi == nil {
			continue
		}
		// the stored integer fields the size depends on
		var stored []string
		ls.Term.HasAtom(func(a *Atom) bool {
			if a.Kind == "val" && strings.HasPrefix(a.Path, "$.") {
				stored = append(stored, a.Path)
			}
			return false
		})
		if len(stored) == 0 {
			continue
		}
		// the mechanism is "the size IS the stored length" (possibly rounded up to the alignment): a size that
		// is computed from content and merely uses small decoded fields is bounded by what was decoded
		if core := stripRoundWrap(ls.Term); core.SingleAtom() == nil || core.SingleAtom().Kind != "val" || !core.Sub(FromAtom(core.SingleAtom())).IsZero() {
			continue
		}
		ds := w.Interpret(dfi, "decode")
		if ds == nil {
			continue
		}
		fromWire := map[string]bool{}
		for _, rd := range ds.Reads {
			if (rd.Kind == "int" || rd.Kind == "byte") && strings.HasPrefix(rd.Src, "val($") {
				fromWire[rd.Src[4:len(rd.Src)-1]] = true
			}
		}
		// fields of embedded or freshly allocated children (the header a child decoder filled): by the value
		// the field holds at a successful return
		for _, rt := range ds.Rets {
			if rt.IsErr || rt.St == nil {
				continue
			}
			fields := map[string]Val{}
			canonFields(rt.St, "$", "$", fields, 0)
			for p, v := range fields {
				// anything but a constant: a value read here, or left by a child decoder that filled the object
				if iv, ok := v.(IntV); ok && iv.T != nil && !iv.T.IsConst() {
					fromWire[p] = true
				}
			}
		}
		// … or the field lies inside a part (the embedded header) that a child decoder fills from the input
		childKinds := map[string]bool{}
		for _, rd := range ds.Reads {
			if rd.Kind == "child" {
				if i := strings.LastIndex(rd.Src, ":"); i >= 0 {
					childKinds[strings.TrimSuffix(rd.Src[i+1:], ")")] = true
				}
			}
		}
		for _, f := range stored {
			t := types.Type(k.Named)
			for _, name := range strings.Split(strings.TrimPrefix(f, "$."), ".") {
				if p, ok := t.Underlying().(*types.Pointer); ok {
					t = p.Elem()
				}
				st, ok := t.Underlying().(*types.Struct)
				if !ok {
					break
				}
				var ft types.Type
				for i := 0; i < st.NumFields(); i++ {
					if st.Field(i).Name() == name {
						ft = st.Field(i).Type()
					}
				}
				if ft == nil {
					break
				}
				t = ft
				if ck := w.KindOfType(t); ck != nil && childKinds[ck.Name] {
					fromWire[f] = true
				}
			}
		}
		ens := w.Ensures(k.Unmarshal)
		sort.Strings(stored)
		if os.Getenv("OFV_DEBUG") == "storedlen" {
			fmt.Println(k.Name, stored, fromWire)
		}
		seen := map[string]bool{}
		for _, f := range stored {
			if seen[f] || !fromWire[f] {
				continue
			}
			seen[f] = true
			// a one-byte field cannot make a 16-bit sum wrap by itself; the rule is about 16-bit lengths
			if max := fieldMax(k, f); max > 0 && max <= 255 {
				continue
			}
			pos := w.Pos(dfi.Decl.Pos())
			var cens []Fact
			for _, e := range ens {
				cens = append(cens, Fact{L: collapseRoundWrap(e.L), R: collapseRoundWrap(e.R), Src: e.Src, Cond: e.Cond})
			}
			ens = cens
			if w.ProveX(ValOf(f), LenOf("P"), ens) || w.ProveX(collapseRoundWrap(ls.Term), LenOf("P"), ens) || w.ProveX(LenCall("$", k.Name), LenOf("P"), ens) || w.ProveX(ls.Term, LenOf("P"), ens) {
				r.OK(rule, k.Name, f, pos, "the size function returns a length the decoder read from the input, and the decoder accepts it only when it does not exceed the bytes it was given", true)
			} else {
				r.Fail(VViolation, rule, k.Name, f, pos, fmt.Sprintf("the reported size (%v) depends on %s, which the decoder takes from the input without comparing it with the bytes it was given: a frame can make the element report up to 65535 bytes, and the 16-bit sum of sizes in an enclosing container wraps — a list decoder stepping by that sum stops advancing", ls.Term, f))
			}
		}
	}
}

// fieldMax: the largest value of an integer field by its declared type (0 when unknown).
func fieldMax(k *Kind, path string) int64 {
	t := types.Type(k.Named)
	for _, name := range strings.Split(strings.TrimPrefix(path, "$."), ".") {
		if p, ok := t.Underlying().(*types.Pointer); ok {
			t = p.Elem()
		}
		s, ok := t.Underlying().(*types.Struct)
		if !ok {
			return 0
		}
		found := false
		for i := 0; i < s.NumFields(); i++ {
			if s.Field(i).Name() == name {
				t, found = s.Field(i).Type(), true
				break
			}
		}
		if !found {
			return 0
		}
	}
	if b, ok := t.Underlying().(*types.Basic); ok {
		switch b.Kind() {
		case types.Uint8, types.Int8:
			return 255
		case types.Uint16, types.Int16:
			return 65535
		}
	}
	return 0
}

// roundWrapInner: for round8(-7 + wrap[T](7 + X)) — the rendering of ((x+7)/8)*8 in T arithmetic — returns X.
func roundWrapInner(a *Atom) *Term {
	if a.Kind != "round8" || len(a.Sub) != 1 {
		return nil
	}
	in := a.Sub[0]
	wa := in.AddC(7).SingleAtom()
	if wa == nil || wa.Kind != "wrap" || len(wa.Sub) != 1 || !in.AddC(7).Sub(FromAtom(wa)).IsZero() {
		return nil
	}
	return wa.Sub[0].AddC(-7)
}

// collapseRoundWrap: rounding up to a multiple of 8 in 16-bit arithmetic is idempotent — the result of one
// rounding is a multiple of 8 not above 65528, so adding 7 again cannot wrap.
func collapseRoundWrap(t *Term) *Term {
	if t == nil {
		return nil
	}
	for i := 0; i < 8; i++ {
		changed := false
		t = t.Map(func(a *Atom) *Term {
			x := roundWrapInner(a)
			if x == nil {
				return nil
			}
			if ia := x.SingleAtom(); ia != nil && x.Sub(FromAtom(ia)).IsZero() && roundWrapInner(ia) != nil {
				changed = true
				return x
			}
			return nil
		})
		if !changed {
			break
		}
	}
	return t
}

// stripRoundWrap removes every layer of rounding and wrapping around a term.
func stripRoundWrap(t *Term) *Term {
	for i := 0; i < 8; i++ {
		a := t.SingleAtom()
		if a == nil || !t.Sub(FromAtom(a)).IsZero() {
			return t
		}
		if x := roundWrapInner(a); x != nil {
			t = x
			continue
		}
		if a.Kind == "wrap" || a.Kind == "round8" {
			t = a.Sub[0]
			continue
		}
		return t
	}
	return t
}
