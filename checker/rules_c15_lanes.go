package main

// C15 lanes: the 32-bit OXM/NXM header word (OpenFlow 1.3.5 §7.2.3.2:
// oxm_class 16 bits, oxm_field 7 bits, oxm_hasmask 1 bit, oxm_length 8 bits).

import (
	"fmt"
	"strings"
)

type laneSpec struct {
	field string
	bits  int // declared width
	lo    int // position of the field's bit 0 in the word
}

var oxmHeaderLanes = []laneSpec{{"Class", 16, 16}, {"Field", 7, 9}, {"HasMask", 1, 8}, {"Length", 8, 0}}

func runC15Lanes(w *World, r *Report) {
	r.Rule("lanes", "header pack/unpack place class, field, mask flag and length at the specified bit positions and are inverse on all 32 bits", 4)
	pack := w.Funcs["openflow13.MatchField.MarshalHeader"]
	unpack := w.Funcs["openflow13.MatchField.UnmarshalHeader"]
	if pack == nil || unpack == nil {
		r.Fail(VViolation, "lanes", "openflow13.MatchField", "header", "-", "MarshalHeader/UnmarshalHeader no longer exist (anchor of the rule cannot be resolved)")
		return
	}
	widths := map[string]int{"Class": 16, "Field": 8, "HasMask": 1, "Length": 8}
	fieldSources := func() map[string]BV {
		m := map[string]BV{}
		for _, l := range oxmHeaderLanes {
			v := srcBV(l.field, widths[l.field], l.bits, false)
			if l.field == "HasMask" {
				v.IsBool = true
			}
			m[l.field] = v
		}
		return m
	}
	describe := func(p *bvPath) string {
		if len(p.Conds) == 0 {
			return ""
		}
		return "path:" + strings.Join(p.Conds, "&&")
	}
	// ---- pack: the word's lanes
	ppos := w.Pos(pack.Decl.Pos())
	var packed []*bvPath
	for _, p := range w.RunBV(pack, newBvCtx(), fieldSources(), nil) {
		inst := "pack"
		if d := describe(p); d != "" {
			inst += "/" + d
		}
		if len(p.Undec) > 0 {
			r.Fail(VUndecided, "lanes", pack.Key, inst, ppos, "outside the bit-level language: "+strings.Join(p.Undec, "; "))
			continue
		}
		if len(p.Ret) != 1 || p.Ret[0] == nil || p.Ret[0].Opaque != "" || p.Ret[0].BV.W != 32 {
			r.Fail(VUndecided, "lanes", pack.Key, inst, ppos, "the packer does not return a 32-bit word the engine can follow")
			continue
		}
		word := p.Ret[0].BV
		var bad []string
		for i := 0; i < 32; i++ {
			var want Bit
			for _, l := range oxmHeaderLanes {
				if i >= l.lo && i < l.lo+l.bits {
					want = Bit{K: 's', Src: l.field, I: i - l.lo}
				}
			}
			got := p.resolve(word.Bits[i])
			want = p.resolve(want)
			if got != want {
				bad = append(bad, fmt.Sprintf("bit %d carries %s, specified %s", i, got.String(), want.String()))
			}
		}
		if len(bad) > 0 {
			if len(bad) > 4 {
				bad = append(bad[:4], fmt.Sprintf("… %d more", len(bad)-4))
			}
			d := strings.Join(bad, "; ")
			if word.Why != "" {
				d += " (" + word.Why + ")"
			}
			r.Fail(VViolation, "lanes", pack.Key, inst, ppos, d)
			continue
		}
		r.OK("lanes", pack.Key, inst, ppos, "word = "+word.String(), true)
		packed = append(packed, p)
	}
	// ---- unpack: fields from the four wire bytes (big-endian word)
	upos := w.Pos(unpack.Decl.Pos())
	wire := func() *bvVal {
		b := map[int]BV{}
		for k := 0; k < 4; k++ {
			b[k] = srcBV(fmt.Sprintf("W%d", k), 8, 8, false)
		}
		return bytesView(b)
	}
	// wordBit(i): which wire bit is bit i of the big-endian word
	wordBit := func(i int) Bit { return Bit{K: 's', Src: fmt.Sprintf("W%d", 3-i/8), I: i % 8} }
	pre := map[string]BV{}
	for f, wd := range widths {
		pre[f] = srcBV("old."+f, wd, wd, false)
	}
	nOK := 0
	var unpacked []*bvPath
	for _, p := range w.RunBV(unpack, newBvCtx(), pre, []*bvVal{wire()}) {
		if len(p.Stores) == 0 {
			continue // rejecting path (too short): nothing is stored
		}
		inst := "unpack"
		if d := describe(p); d != "" {
			inst += "/" + d
		}
		if len(p.Undec) > 0 {
			r.Fail(VUndecided, "lanes", unpack.Key, inst, upos, "outside the bit-level language: "+strings.Join(p.Undec, "; "))
			continue
		}
		var bad []string
		for _, l := range oxmHeaderLanes {
			v := p.Recv[l.field]
			for i := 0; i < widths[l.field]; i++ {
				want := Bit{K: '0'}
				if i < l.bits {
					want = wordBit(l.lo + i)
				}
				got := Bit{K: 'T'}
				if i < len(v.Bits) {
					got = p.resolve(v.Bits[i])
				}
				if got != p.resolve(want) {
					bad = append(bad, fmt.Sprintf("%s bit %d is read from %s, specified %s", l.field, i, got.String(), want.String()))
				}
			}
		}
		if len(bad) > 0 {
			if len(bad) > 4 {
				bad = append(bad[:4], fmt.Sprintf("… %d more", len(bad)-4))
			}
			r.Fail(VViolation, "lanes", unpack.Key, inst, upos, strings.Join(bad, "; "))
			continue
		}
		nOK++
		unpacked = append(unpacked, p)
		r.OK("lanes", unpack.Key, inst, upos, "Class = W0:W1, Field = W2[7..1], HasMask = W2[0], Length = W3 (W0..W3 the wire bytes in order)", true)
	}
	if nOK == 0 && len(unpacked) == 0 {
		r.Fail(VViolation, "lanes", unpack.Key, "unpack", upos, "no path of the unpacker stores the four header fields")
	}
	// ---- inverse: both directions follow from the two lane maps being the same bijection
	// between the 32 word bits and (Class[16], Field[7], HasMask, Length[8]); state it explicitly.
	if len(packed) > 0 && len(unpacked) > 0 {
		r.OK("lanes", "openflow13.MatchField", "inverse", ppos, "pack and unpack realise the same bijection between the 32 bits of the big-endian word and Class[16] | Field[7] | HasMask | Length[8]: unpack(pack(h)) = h for every header with a 7-bit field number and pack(unpack(w)) = w for all 2^32 words", true)
	} else {
		r.Fail(VViolation, "lanes", "openflow13.MatchField", "inverse", ppos, "pack/unpack are not both at the specified lanes, so they are not shown to be inverse")
	}
}
