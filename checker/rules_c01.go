package main

import (
	"fmt"
	"go/ast"
	"go/types"
	"sort"
	"strings"
)

func init() {
	register(&propCheck{
		ID:    "C01",
		Run:   runC01,
		Level: "Static analysis (abstract interpretation of constructors, size functions and encoders; symbolic size terms; specification code table). Decides for the controller-originated top-level kinds: stamp/<kind> — the header is encoded after Header.Length was assigned the size function's result on every path; size/<kind> — bytes produced ≡ size function (all command variants and child counts at once; transitively for every kind that can be nested inside); type/<ctor>, version/<ctor> — every path of each constructor leaves the ofp_type of the kind (spec/codes.json) and version 4 from the header generator, whose id comes from the atomic add; nilfield/<kind> — interface-typed parts dereferenced unconditionally by Len/MarshalBinary are non-nil after the constructor. Not decided: values of body fields (C03); totals above 65535 bytes. Also decided: encreject/<kind> — no encoder of an OpenFlow kind constructs an error of its own (outside a branch taken for a failed child): every message the constructors and builders can build is encoded, also at the limits.",
		Assumptions: []string{
			"messages are built through the library's constructors and adder methods (the statement's domain)",
			"induction over kinds for nested sizes (see C06)",
			"spec/codes.json transcribes ofp_type from OpenFlow 1.3.5 §7.1",
		},
	})
}

// headerPath returns the path of the common.Header field of kind k, if any.
func headerPath(k *Kind) string {
	s := structOf(k.Named)
	if s == nil {
		return ""
	}
	for i := 0; i < s.NumFields(); i++ {
		f := s.Field(i)
		if n, ok := f.Type().(*types.Named); ok && n.Obj().Name() == "Header" && n.Obj().Pkg() != nil && n.Obj().Pkg().Name() == "common" {
			return "$." + f.Name()
		}
		// embedded pointer to a message that has the header (VendorError → *ErrorMsg)
	}
	return ""
}

func runC01(w *World, r *Report) {
	r.Rule("shadow", "no := in an inner scope re-declares a same-typed variable of the function that is read afterwards (or a named result): the value computed there would be lost", 1)
	shadowRule(w, r, "shadow", func(fi *FuncInfo) bool { return fi.Pkg.Types.Name() == "openflow13" || fi.Pkg.Types.Name() == "common" })
	r.Rule("observers", "methods that formatting calls implicitly (String, Error, …) leave the value unchanged", 1)
	observerRule(w, r, "observers", "openflow13", "common")
	r.Rule("declen", "stored length fields the size rules rely on are kept equal to the element size by every constructor and builder", 13)
	declenRule(w, r)
	codes, err := loadCodes()
	if err != nil {
		r.Fail(VUndecided, "spec", "codes.json", "", "-", err.Error())
		return
	}
	r.Rule("stamp", "header encoded only after Header.Length := Len() on every path", 8)
	r.Rule("encreject", "no encoder of an OpenFlow kind constructs an error of its own: every message the constructors and builders can build is encoded (a refusal by value hits exactly the limit cases)", 60)
	encRejectRule(w, r, "encreject", func(k *Kind) bool { return strings.HasPrefix(k.Name, "openflow13.") || strings.HasPrefix(k.Name, "common.") })
	r.Rule("size", "sizeM ≡ sizeL (and extentM) as symbolic terms", 100)
	r.Rule("type", "constructor leaves the kind's ofp_type in Header.Type", 15)
	r.Rule("version", "header comes from the generator: version 4, length 8, xid from the atomic add", 15)
	r.Rule("nilfield", "optional parts are used under a nil check, or set by every constructor", 3)
	r.Rule("generator", "NewOfp13Header is the version-4 generator and is never reassigned", 2)

	// ---- size, for all kinds that can occur in a message
	sizeRulesOnly(w, r, func(k *Kind) bool { return true })
	builtRule(w, r, "size", func(k *Kind) bool { return true })
	r.Rule("childerr", "the error of every encode call that can fail is read before the child's bytes are used (the size induction's step: a child that produced nothing makes the parent fail)", 60)
	childErrRule(w, r, "childerr")
	r.Rule("typednil", "no pointer that may be nil is stored into an interface-typed field (a typed nil passes the encoders' != nil guards)", 1)
	typedNilRule(w, r, "typednil")

	// ---- kinds with a header must be classified
	for _, k := range w.KindsL {
		hp := headerPath(k)
		if hp == "" || k.Marshal == nil {
			continue
		}
		_, ctl := codes.Controller[k.Name]
		_, sw := codes.SwitchKinds[k.Name]
		if !ctl && !sw {
			r.Fail(VUnmapped, "stamp", k.Name, "", "-", "kind with a message header is listed neither under controller_kinds nor switch_kinds in spec/codes.json")
		}
	}

	// ---- stamp
	var ctlKinds []string
	for kn := range codes.Controller {
		ctlKinds = append(ctlKinds, kn)
	}
	sort.Strings(ctlKinds)
	for _, kn := range ctlKinds {
		k := w.Kinds[kn]
		if k == nil {
			r.Fail(VViolation, "stamp", kn, "", "-", "controller-originated kind named in spec/codes.json no longer exists")
			continue
		}
		if kn == "common.Header" {
			// bare header messages: the generator's literal length must be Header.Len()
			continue
		}
		es := w.EncSummary(k)
		ls := w.LenSummary(k)
		fi := w.FuncOf(k.Marshal)
		pos := "-"
		if fi != nil {
			pos = w.Pos(fi.Decl.Pos())
		}
		if es == nil || ls == nil || ls.Term == nil {
			r.Fail(VUndecided, "stamp", kn, "", pos, "no summary of the encoder or size function")
			continue
		}
		hp := headerPath(k)
		var hdr *Rec
		for _, rec := range es.Recs {
			if rec.Kind == "child" && rec.Src == "enc("+hp+")" {
				hdr = rec
			}
		}
		if hdr == nil {
			r.Fail(VViolation, "stamp", kn, "", pos, "the encoder does not embed the encoding of "+hp)
			continue
		}
		if !hdr.Off.IsZero() {
			r.Fail(VViolation, "stamp", kn, "", w.Pos(hdr.Pos), "the header is not placed at offset 0 but at "+hdr.Off.String())
			continue
		}
		stamped := hdr.Snap["Length"]
		want := LenCall("$", k.Name)
		switch {
		case stamped == nil:
			r.Fail(VViolation, "stamp", kn, "", w.Pos(hdr.Pos), "header encoded without a preceding assignment of "+hp+".Length on this path")
		case stamped.Equal(want) || w.ExpandLens(stamped, 0).Equal(w.ExpandLens(ls.Term, 0)):
			r.OK("stamp", kn, "", w.Pos(hdr.Pos), hp+".Length = "+stamped.String()+" when the header is encoded", true)
		default:
			r.Fail(VViolation, "stamp", kn, "", w.Pos(hdr.Pos), "when the header is encoded "+hp+".Length = "+stamped.String()+", not the size function's result")
		}
	}

	// ---- generator
	w.checkGenerator(r, codes)

	// ---- type / version per constructor
	var ctors []string
	for c := range codes.CtorOfpType {
		ctors = append(ctors, c)
	}
	sort.Strings(ctors)
	// every module constructor that returns a kind with a header must be mapped
	for _, k := range w.KindsL {
		if headerPath(k) == "" && k.Name != "common.Header" {
			continue
		}
		for _, fi := range w.Constructors(k) {
			if _, ok := codes.CtorOfpType[fi.Key]; ok {
				continue
			}
			if _, ok := codes.SwitchSideCtors[fi.Key]; ok {
				continue
			}
			if decodesIntoResult(w, fi, k) {
				continue // a parse helper: the header of what it returns comes from the wire, not from the library
			}
			r.Fail(VUnmapped, "type", fi.Key, "", w.Pos(fi.Decl.Pos()), "constructor of a message kind has no row in spec/codes.json (ctor_ofp_type)")
		}
	}
	for _, cn := range ctors {
		fi := w.Funcs[cn]
		if fi == nil {
			r.Fail(VViolation, "type", cn, "", "-", "constructor named in spec/codes.json no longer exists")
			continue
		}
		cs := w.CtorSummary(fi)
		pos := w.Pos(fi.Decl.Pos())
		if cs.State == nil && len(cs.Fields) == 0 {
			r.Fail(VUndecided, "type", cn, "", pos, "constructor not summarised")
			continue
		}
		hp := "$"
		if k := w.kindOfCtor(fi); k != nil && k.Name != "common.Header" {
			hp = headerPath(k)
		}
		want := codes.OfpType[codes.CtorOfpType[cn]]
		tv, _ := cs.Fields[hp+".Type"].(IntV)
		switch {
		case tv.T == nil:
			r.Fail(VViolation, "type", cn, "", pos, fmt.Sprintf("%s.Type is never assigned (stays 0), want %d (%s)", hp, want, codes.CtorOfpType[cn]))
		case tv.T.IsConst() && tv.T.C == want:
			r.OK("type", cn, "", pos, fmt.Sprintf("%s.Type = %d (%s) on every path", hp, want, codes.CtorOfpType[cn]), true)
		default:
			r.Fail(VViolation, "type", cn, "", pos, fmt.Sprintf("%s.Type = %s, want %d (%s)", hp, tv.T, want, codes.CtorOfpType[cn]))
		}
		// version / length / xid
		vv, _ := cs.Fields[hp+".Version"].(IntV)
		lv, _ := cs.Fields[hp+".Length"].(IntV)
		xv, _ := cs.Fields[hp+".Xid"].(IntV)
		var probs []string
		if vv.T == nil {
			probs = append(probs, "Version never assigned (stays 0)")
		} else if !(vv.T.IsConst() && vv.T.C == codes.Version) {
			// NewHello(ver) passes the caller's version through uint8(ver)
			s := vv.T.String()
			if !(cn == "common.NewHello" && (s == "wrap[uint8](val(arg:ver))" || s == "val(arg:ver)")) {
				probs = append(probs, "Version = "+s)
			}
		}
		if lv.T == nil || !lv.T.IsConst() || lv.T.C != 8 {
			probs = append(probs, "initial Length is not the header size 8")
		}
		if xv.T == nil || !strings.Contains(xv.T.String(), "atomic.AddUint32(&common.messageXid") {
			probs = append(probs, "Xid is not the result of the atomic add on the id counter")
		}
		if len(probs) == 0 {
			r.OK("version", cn, "", pos, "header from the generator: version "+vv.T.String()+", length 8, xid = result of atomic.AddUint32", true)
		} else {
			r.Fail(VViolation, "version", cn, "", pos, "header not taken from the generator: "+strings.Join(probs, "; "))
		}
	}

	// ---- nilfield
	for _, kn := range ctlKinds {
		k := w.Kinds[kn]
		if k == nil {
			continue
		}
		w.nilFieldRule(r, k)
	}
}

func (w *World) kindOfCtor(fi *FuncInfo) *Kind {
	sig := fi.Obj.Type().(*types.Signature)
	if sig.Results().Len() == 0 {
		return nil
	}
	return w.KindOfType(sig.Results().At(0).Type())
}

// sizeRulesOnly adds only the size obligations (C01 shares them with C06).
func sizeRulesOnly(w *World, r *Report, sel func(k *Kind) bool) {
	for _, k := range w.KindsL {
		if k.Len == nil || k.Marshal == nil || !sel(k) {
			continue
		}
		pos := "-"
		if fi := w.FuncOf(k.Marshal); fi != nil {
			pos = w.Pos(fi.Decl.Pos())
		}
		sv := w.compareSize(k)
		if sv.Verdict == VOK {
			r.OK("size", k.Name, "", pos, sv.Note, sv.Symbolic)
		} else {
			r.Fail(sv.Verdict, "size", k.Name, "", pos, sv.Diag)
		}
	}
}

// checkGenerator: openflow13.NewOfp13Header = common.NewHeaderGenerator(VERSION=4),
// assigned nowhere else; the generator's closure builds Header{uint8(ver), 0, 8, xid}.
func (w *World) checkGenerator(r *Report, codes *Codes) {
	of := w.ByName["openflow13"]
	if of == nil {
		r.Fail(VViolation, "generator", "openflow13.NewOfp13Header", "", "-", "package openflow13 not found")
		return
	}
	obj, _ := of.Types.Scope().Lookup("NewOfp13Header").(*types.Var)
	if obj == nil {
		r.Fail(VViolation, "generator", "openflow13.NewOfp13Header", "", "-", "package variable NewOfp13Header not found")
		return
	}
	// interpret a tiny probe: what does calling it give?
	probe := w.Funcs["openflow13.NewEchoRequest"]
	_ = probe
	init, pkg := w.globalInit(obj)
	if init == nil {
		r.Fail(VViolation, "generator", "openflow13.NewOfp13Header", "", w.Pos(obj.Pos()), "no initialiser")
		return
	}
	in := &Interp{w: w, fi: &FuncInfo{Key: "init:NewOfp13Header", Pkg: pkg}, info: pkg.TypesInfo, shared: &sharedCtx{}}
	st := newState()
	text := in.render(st, init)
	if text == "common.NewHeaderGenerator(4)" {
		r.OK("generator", "openflow13.NewOfp13Header", "init", w.Pos(init.Pos()), "initialised by "+text, true)
	} else {
		r.Fail(VViolation, "generator", "openflow13.NewOfp13Header", "init", w.Pos(init.Pos()), "initialiser is "+text+", want common.NewHeaderGenerator(4)")
	}
	// no assignment to the variable anywhere in the module
	writers := w.globalWriters(obj)
	if len(writers) == 0 {
		r.OK("generator", "openflow13.NewOfp13Header", "readonly", w.Pos(obj.Pos()), "no assignment to the variable in the module", true)
	} else {
		r.Fail(VViolation, "generator", "openflow13.NewOfp13Header", "readonly", writers[0], "the generator variable is reassigned")
	}
}

// nilFieldRule: an interface/pointer part that Len or MarshalBinary uses
// without a nil guard must be non-nil after every constructor of the kind.
func (w *World) nilFieldRule(r *Report, k *Kind) {
	need := map[string]string{}    // path -> position of an unguarded use
	guarded := map[string]string{} // path -> position of a guarded use
	for _, f := range []*types.Func{k.Len, k.Marshal} {
		fi := w.FuncOf(f)
		if fi == nil {
			continue
		}
		mode := "encode"
		if f == k.Len {
			mode = "len"
		}
		fs := w.Interpret(fi, mode)
		for _, c := range fs.Calls {
			ov, ok := c.Recv.(ObjV)
			if !ok || !strings.HasPrefix(ov.Path, "$.") || strings.Contains(ov.Path, "[*]") {
				continue
			}
			if ov.Type == nil {
				continue
			}
			// the declared type of the field decides: &s.Header of an embedded struct value is a pointer
			// expression, but the part itself cannot be nil
			ft := declaredTypeAt(k.Named, ov.Path)
			if ft == nil {
				ft = ov.Type
			}
			switch ft.Underlying().(type) {
			case *types.Interface, *types.Pointer:
			default:
				continue
			}
			if strings.Contains(c.Guard, "!("+ov.Path+"==nil)") {
				if _, seen := guarded[ov.Path]; !seen {
					guarded[ov.Path] = w.Pos(c.Pos)
				}
				continue
			}
			if _, seen := need[ov.Path]; !seen {
				need[ov.Path] = w.Pos(c.Pos)
			}
		}
	}
	var paths []string
	for p := range need {
		paths = append(paths, p)
	}
	for p := range guarded {
		if _, also := need[p]; !also {
			paths = append(paths, p)
		}
	}
	sort.Strings(paths)
	ctors := w.Constructors(k)
	for _, p := range paths {
		if _, unguarded := need[p]; !unguarded {
			r.OK("nilfield", k.Name, p, guarded[p], "every use by Len/MarshalBinary is under a nil check", true)
			continue
		}
		if len(ctors) == 0 {
			r.Fail(VViolation, "nilfield", k.Name, p, need[p], "Len/MarshalBinary dereference "+p+" unconditionally and the kind has no constructor that sets it")
			continue
		}
		for _, fi := range ctors {
			cs := w.CtorSummary(fi)
			isNil := false
			if v, ok := cs.Fields[p]; ok {
				_, isNil = v.(NilV)
			} else if cs.State != nil {
				local := strings.Replace(p, "$", cs.Root, 1)
				if v, ok := cs.In.lookupPath(cs.State, local); ok {
					_, isNil = v.(NilV)
				} else if cs.In.isZeroPath(cs.State, local) {
					isNil = true // unassigned field of a fresh object
				}
			}
			if isNil {
				r.Fail(VViolation, "nilfield", k.Name, p+"@"+fi.Key, need[p], "Len/MarshalBinary dereference "+p+" unconditionally but "+fi.Key+" leaves it nil")
			} else {
				r.OK("nilfield", k.Name, p+"@"+fi.Key, need[p], "set by the constructor", true)
			}
		}
	}
}

// declaredTypeAt resolves a receiver path ($.A.B) to the declared type of the last field, following
// pointers and embedded structs; nil when the path cannot be resolved.
func declaredTypeAt(root types.Type, path string) types.Type {
	if !strings.HasPrefix(path, "$.") {
		return nil
	}
	t := root
	for _, name := range strings.Split(path[2:], ".") {
		if strings.Contains(name, "[") || strings.Contains(name, "(") {
			return nil
		}
		st := structOf(t)
		if st == nil {
			return nil
		}
		var ft types.Type
		for i := 0; i < st.NumFields(); i++ {
			if st.Field(i).Name() == name {
				ft = st.Field(i).Type()
			}
		}
		if ft == nil {
			return nil
		}
		t = ft
	}
	return t
}

// decodesIntoResult: fi takes a byte slice and hands it to the decoder of the kind it returns.
func decodesIntoResult(w *World, fi *FuncInfo, k *Kind) bool {
	if k.Unmarshal == nil || fi.Decl.Body == nil {
		return false
	}
	info := fi.Pkg.TypesInfo
	params := map[types.Object]bool{}
	sig := fi.Obj.Type().(*types.Signature)
	for i := 0; i < sig.Params().Len(); i++ {
		if isByteSlice(sig.Params().At(i).Type()) {
			params[sig.Params().At(i)] = true
		}
	}
	found := false
	ast.Inspect(fi.Decl.Body, func(n ast.Node) bool {
		c, ok := n.(*ast.CallExpr)
		if !ok || len(c.Args) != 1 {
			return true
		}
		if fn := w.calleeOf(info, c); fn != nil && fn == k.Unmarshal {
			if id, ok := unparen(c.Args[0]).(*ast.Ident); ok && params[info.Uses[id]] {
				found = true
			}
		}
		return true
	})
	return found
}
