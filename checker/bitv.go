package main

// T — bit-lane analysis (DESIGN §2.8) and the small integer algebra used by
// C16. A BV is the abstract value of an integer expression: a vector of bit
// sources (each bit is 0, 1, bit i of a named source, or unknown), optionally
// its value as a linear term (when no operation on the way can wrap), and
// optionally the closed forms "n ones starting at bit lo" / "2^n" that the
// range helpers build with non-constant shift counts. Nothing is executed and
// nothing is sampled: a verdict about a lane vector holds for every value of
// every source at once.

import (
	"fmt"
	"go/ast"
	"go/constant"
	"go/token"
	"go/types"
	"sort"
	"strings"
)

type Bit struct {
	K   byte   // '0' '1' 's' (source bit) 'T' (unknown)
	Src string // source name for 's'
	I   int    // bit index inside the source
}

func (b Bit) String() string {
	switch b.K {
	case '0', '1':
		return string(b.K)
	case 's':
		return fmt.Sprintf("%s[%d]", b.Src, b.I)
	}
	return "?"
}

type MaskV struct{ Lo, N *Term } // N one-bits starting at bit Lo

type BV struct {
	W      int
	Signed bool
	Bits   []Bit  // len W, index 0 = least significant
	Lin    *Term  // the value as a mathematical integer, when known exactly
	Mask   *MaskV // closed form: N ones starting at Lo
	Pow    *Term  // closed form: 2^Pow
	IsBool bool
	Why    string // why information was lost (first reason)
}

func (v BV) lost(why string) BV {
	if v.Why == "" {
		v.Why = why
	}
	return v
}

func topBV(w int, signed bool, why string) BV {
	v := BV{W: w, Signed: signed, Bits: make([]Bit, w), Why: why}
	for i := range v.Bits {
		v.Bits[i] = Bit{K: 'T'}
	}
	return v
}

func constBV(c uint64, w int, signed bool) BV {
	v := BV{W: w, Signed: signed, Bits: make([]Bit, w)}
	for i := 0; i < w; i++ {
		if i < 64 && c>>uint(i)&1 == 1 {
			v.Bits[i] = Bit{K: '1'}
		} else {
			v.Bits[i] = Bit{K: '0'}
		}
	}
	if signed && w <= 64 && w > 0 && c>>uint(w-1)&1 == 1 {
		// negative constant
		var sv int64
		if w == 64 {
			sv = int64(c)
		} else {
			sv = int64(c) - (int64(1) << uint(w))
		}
		v.Lin = Const(sv)
	} else if c <= 1<<62 {
		v.Lin = Const(int64(c))
	}
	return v
}

// srcBV is a named source of w bits of which only the low decl bits can be set.
func srcBV(name string, w, decl int, signed bool) BV {
	v := BV{W: w, Signed: signed, Bits: make([]Bit, w), Lin: ValOf(name)}
	for i := 0; i < w; i++ {
		if i < decl {
			v.Bits[i] = Bit{K: 's', Src: name, I: i}
		} else {
			v.Bits[i] = Bit{K: '0'}
		}
	}
	return v
}

func (v BV) isConst() (uint64, bool) {
	var c uint64
	for i, b := range v.Bits {
		switch b.K {
		case '1':
			if i >= 64 {
				return 0, false
			}
			c |= 1 << uint(i)
		case '0':
		default:
			return 0, false
		}
	}
	return c, true
}

// topBit is the index of the highest bit that may be non-zero (-1: value is 0).
func (v BV) topBit() int {
	for i := len(v.Bits) - 1; i >= 0; i-- {
		if v.Bits[i].K != '0' {
			return i
		}
	}
	return -1
}

func (v BV) allKnown() bool {
	for _, b := range v.Bits {
		if b.K == 'T' {
			return false
		}
	}
	return true
}

func (v BV) String() string {
	if v.Mask != nil {
		return fmt.Sprintf("ones(n=%v)<<(%v)", v.Mask.N, v.Mask.Lo)
	}
	if v.Pow != nil {
		return fmt.Sprintf("2^(%v)", v.Pow)
	}
	if c, ok := v.isConst(); ok {
		return fmt.Sprintf("%#x", c)
	}
	// compress runs
	var parts []string
	i := len(v.Bits) - 1
	for i >= 0 {
		b := v.Bits[i]
		j := i
		switch b.K {
		case 's':
			for j-1 >= 0 && v.Bits[j-1].K == 's' && v.Bits[j-1].Src == b.Src && v.Bits[j-1].I == v.Bits[j].I-1 {
				j--
			}
			parts = append(parts, fmt.Sprintf("[%d..%d]=%s[%d..%d]", i, j, b.Src, b.I, v.Bits[j].I))
		default:
			for j-1 >= 0 && v.Bits[j-1].K == b.K {
				j--
			}
			if b.K != '0' {
				parts = append(parts, fmt.Sprintf("[%d..%d]=%s", i, j, b.String()))
			}
		}
		i = j - 1
	}
	s := strings.Join(parts, " ")
	if s == "" {
		s = "0"
	}
	if v.Lin != nil {
		s += " (= " + v.Lin.String() + ")"
	}
	return s
}

// ---------------------------------------------------------------- context

// bvCtx carries the facts (ranges of sources, path conditions) and the table
// of whole-value sources used to turn lanes back into terms.
type bvCtx struct {
	facts   []Fact
	srcBits map[string]int   // source name -> number of bits it can occupy
	srcTerm map[string]*Term // source name -> the term it denotes (default val(name))
}

func newBvCtx() *bvCtx { return &bvCtx{srcBits: map[string]int{}, srcTerm: map[string]*Term{}} }

func (c *bvCtx) clone() *bvCtx {
	n := newBvCtx()
	n.facts = append(n.facts, c.facts...)
	for k, v := range c.srcBits {
		n.srcBits[k] = v
	}
	for k, v := range c.srcTerm {
		n.srcTerm[k] = v
	}
	return n
}

// declare registers a source with its range [lo,hi] and returns its value.
func (c *bvCtx) declare(name string, w int, signed bool, lo, hi int64) BV {
	bits := 0
	for bits < 63 && hi >= int64(1)<<uint(bits) {
		bits++
	}
	if bits > w {
		bits = w
	}
	t := ValOf(name)
	c.facts = append(c.facts, Fact{L: Const(lo), R: t, Src: "range of " + name}, Fact{L: t, R: Const(hi), Src: "range of " + name})
	c.srcBits[name] = bits
	c.srcTerm[name] = t
	v := srcBV(name, w, bits, signed)
	if lo < 0 {
		for i := range v.Bits {
			v.Bits[i] = Bit{K: 'T'}
		}
	}
	return v
}

// derived registers a term with a proven range as a lane source.
func (c *bvCtx) derived(t *Term, w int, signed bool) (BV, bool) {
	if t.IsConst() {
		if t.C >= 0 {
			return constBV(uint64(t.C), w, signed), true
		}
		if signed {
			return constBV(uint64(t.C)&(^uint64(0)>>uint(64-w)), w, true), true
		}
		return BV{}, false
	}
	if ok, _ := Prove(Const(0), t, c.facts); !ok {
		return BV{}, false
	}
	bits := -1
	for m := 0; m <= w && m < 63; m++ {
		if ok, _ := Prove(t, Const(int64(1)<<uint(m)-1), c.facts); ok {
			bits = m
			break
		}
	}
	if bits < 0 {
		return BV{}, false
	}
	name := t.String()
	if a := t.SingleAtom(); a != nil && a.Kind == "val" {
		name = a.Path
	}
	if old, ok := c.srcBits[name]; !ok || bits < old {
		c.srcBits[name] = bits
	}
	c.srcTerm[name] = t
	v := srcBV(name, w, c.srcBits[name], signed)
	v.Lin = t
	return v, true
}

// linOf recovers the value of a lane vector as a term when the lanes are
// exactly the whole of one registered source (bit i at position i, zero above).
func (c *bvCtx) linOf(v BV) *Term {
	if v.Lin != nil {
		return v.Lin
	}
	if k, ok := v.isConst(); ok && k < 1<<62 {
		return Const(int64(k))
	}
	src := ""
	n := 0
	for i, b := range v.Bits {
		switch b.K {
		case 's':
			if b.I != i || (src != "" && b.Src != src) || i != n {
				return nil
			}
			src = b.Src
			n++
		case '0':
		default:
			return nil
		}
	}
	if src == "" {
		return nil
	}
	if bits, ok := c.srcBits[src]; ok && n >= bits {
		return c.srcTerm[src]
	}
	return nil
}

func (c *bvCtx) prove(a, b *Term) bool {
	ok, _ := Prove(a, b, c.facts)
	return ok
}

func (c *bvCtx) equal(a, b *Term) bool {
	if a == nil || b == nil {
		return false
	}
	return a.Equal(b) || (c.prove(a, b) && c.prove(b, a))
}

// ---------------------------------------------------------------- operations

func (c *bvCtx) fixLin(v BV) BV {
	if v.Lin == nil {
		v.Lin = c.linOf(v)
	}
	return v
}

// fits: the linear value t certainly lies in the range of a w-bit type.
func (c *bvCtx) fits(t *Term, w int, signed bool) bool {
	if t == nil {
		return false
	}
	if signed {
		if w >= 63 {
			w = 63
		}
		return c.prove(Const(-(int64(1) << uint(w-1))), t) && c.prove(t, Const(int64(1)<<uint(w-1)-1))
	}
	if !c.prove(Const(0), t) {
		return false
	}
	if w >= 63 {
		return true
	}
	return c.prove(t, Const(int64(1)<<uint(w)-1))
}

// fromLin rebuilds lanes from a linear value of known non-negative range.
func (c *bvCtx) fromLin(t *Term, w int, signed bool, why string) BV {
	if v, ok := c.derived(t, w, signed); ok {
		return v
	}
	v := topBV(w, signed, why)
	if c.fits(t, w, signed) {
		v.Lin = t
	}
	return v
}

func (c *bvCtx) bitwise(op token.Token, a, b BV) BV {
	w := a.W
	if b.W > w {
		w = b.W
	}
	r := BV{W: w, Signed: a.Signed, Bits: make([]Bit, w)}
	get := func(v BV, i int) Bit {
		if i < len(v.Bits) {
			return v.Bits[i]
		}
		return Bit{K: '0'}
	}
	same := func(x, y Bit) bool { return x.K == 's' && y.K == 's' && x.Src == y.Src && x.I == y.I }
	disjoint := true
	for i := 0; i < w; i++ {
		x, y := get(a, i), get(b, i)
		if x.K != '0' && y.K != '0' {
			disjoint = false
		}
		var o Bit
		switch op {
		case token.AND:
			switch {
			case x.K == '0' || y.K == '0':
				o = Bit{K: '0'}
			case x.K == '1':
				o = y
			case y.K == '1':
				o = x
			case same(x, y):
				o = x
			default:
				o = Bit{K: 'T'}
			}
		case token.OR:
			switch {
			case x.K == '1' || y.K == '1':
				o = Bit{K: '1'}
			case x.K == '0':
				o = y
			case y.K == '0':
				o = x
			case same(x, y):
				o = x
			default:
				o = Bit{K: 'T'}
			}
		case token.XOR:
			switch {
			case x.K == '0':
				o = y
			case y.K == '0':
				o = x
			case x.K == '1' && y.K == '1', same(x, y):
				o = Bit{K: '0'}
			default:
				o = Bit{K: 'T'}
			}
		case token.AND_NOT:
			switch {
			case x.K == '0' || y.K == '1' || same(x, y):
				o = Bit{K: '0'}
			case y.K == '0':
				o = x
			default:
				o = Bit{K: 'T'}
			}
		}
		r.Bits[i] = o
	}
	if (op == token.OR || op == token.XOR) && disjoint {
		la, lb := c.linOf(a), c.linOf(b)
		if la != nil && lb != nil {
			r.Lin = la.Add(lb)
		}
	}
	if !r.allKnown() {
		r = r.lost("bitwise " + op.String() + " of overlapping lanes: " + a.String() + " " + op.String() + " " + b.String())
		if a.Why != "" {
			r.Why = a.Why
		} else if b.Why != "" {
			r.Why = b.Why
		}
	}
	return c.fixLin(r)
}

func (c *bvCtx) not(a BV) BV {
	r := BV{W: a.W, Signed: a.Signed, Bits: make([]Bit, a.W)}
	for i, b := range a.Bits {
		switch b.K {
		case '0':
			r.Bits[i] = Bit{K: '1'}
		case '1':
			r.Bits[i] = Bit{K: '0'}
		default:
			r.Bits[i] = Bit{K: 'T'}
			r = r.lost("complement of a non-constant value")
		}
	}
	return c.fixLin(r)
}

func (c *bvCtx) shlConst(a BV, k int) BV {
	r := BV{W: a.W, Signed: a.Signed, Bits: make([]Bit, a.W), Why: a.Why}
	for i := range r.Bits {
		if i-k >= 0 && i-k < len(a.Bits) {
			r.Bits[i] = a.Bits[i-k]
		} else {
			r.Bits[i] = Bit{K: '0'}
		}
	}
	if la := c.linOf(a); la != nil && k < 62 && a.topBit()+k < a.W && a.allKnown() {
		r.Lin = la.Scale(int64(1) << uint(k))
	} else if la != nil && k < 62 && c.fits(la.Scale(int64(1)<<uint(k)), a.W, a.Signed) {
		r.Lin = la.Scale(int64(1) << uint(k))
	}
	return r
}

func (c *bvCtx) shrConst(a BV, k int) BV {
	r := BV{W: a.W, Signed: a.Signed, Bits: make([]Bit, a.W), Why: a.Why}
	for i := range r.Bits {
		if i+k < len(a.Bits) {
			r.Bits[i] = a.Bits[i+k]
		} else if a.Signed && len(a.Bits) > 0 && a.Bits[len(a.Bits)-1].K != '0' {
			r.Bits[i] = Bit{K: 'T'}
			r = r.lost("arithmetic right shift of a possibly negative value")
		} else {
			r.Bits[i] = Bit{K: '0'}
		}
	}
	if k == 0 {
		r.Lin = a.Lin
	}
	return c.fixLin(r)
}

func isAllOnes(v BV) bool {
	if v.Signed {
		return false
	}
	for _, b := range v.Bits {
		if b.K != '1' {
			return false
		}
	}
	return len(v.Bits) > 0
}

// shift by a non-constant count: only the closed forms the range helpers use.
func (c *bvCtx) shiftSym(op token.Token, a, k BV) BV {
	if a.Why != "" && a.Mask == nil && a.Pow == nil && !a.allKnown() {
		return topBV(a.W, a.Signed, a.Why) // keep the first reason information was lost
	}
	kl := c.linOf(k)
	if kl == nil {
		why := "shift count is not a known linear value"
		if k.Why != "" {
			why += " (" + k.Why + ")"
		}
		return topBV(a.W, a.Signed, why)
	}
	if !c.prove(Const(0), kl) {
		return topBV(a.W, a.Signed, fmt.Sprintf("shift count %v not provably >= 0", kl))
	}
	W := Const(int64(a.W))
	switch {
	case op == token.SHR && isAllOnes(a):
		if !c.prove(kl, W) {
			return topBV(a.W, a.Signed, fmt.Sprintf("shift count %v not provably <= %d", kl, a.W))
		}
		r := topBV(a.W, a.Signed, "")
		r.Mask = &MaskV{Lo: Const(0), N: W.Sub(kl)}
		return r
	case op == token.SHL && a.Mask != nil && a.Mask.Lo.IsZero():
		if !c.prove(kl.Add(a.Mask.N), W) {
			return topBV(a.W, a.Signed, fmt.Sprintf("mask of %v ones shifted left by %v may lose bits beyond bit %d", a.Mask.N, kl, a.W-1))
		}
		r := topBV(a.W, a.Signed, "")
		r.Mask = &MaskV{Lo: kl, N: a.Mask.N}
		return r
	case op == token.SHL:
		if cv, ok := a.isConst(); ok && cv == 1 {
			if !c.prove(kl, W.AddC(-1)) {
				return topBV(a.W, a.Signed, fmt.Sprintf("1 << %v may shift the bit out of the %d-bit word", kl, a.W))
			}
			r := topBV(a.W, a.Signed, "")
			r.Pow = kl
			return r
		}
	}
	return topBV(a.W, a.Signed, "shift by a non-constant count outside the recognised closed forms")
}

func (c *bvCtx) addsub(op token.Token, a, b BV) BV {
	w := a.W
	// 2^n - 1  =  n ones
	if op == token.SUB && a.Pow != nil {
		if cv, ok := b.isConst(); ok && cv == 1 {
			r := topBV(w, a.Signed, "")
			r.Mask = &MaskV{Lo: Const(0), N: a.Pow}
			return r
		}
	}
	la, lb := c.linOf(a), c.linOf(b)
	if op == token.ADD {
		// no carry possible when the lanes are disjoint: same as OR
		disjoint := true
		for i := 0; i < w && i < len(a.Bits) && i < len(b.Bits); i++ {
			if a.Bits[i].K != '0' && b.Bits[i].K != '0' {
				disjoint = false
				break
			}
		}
		if disjoint && a.allKnown() && b.allKnown() {
			return c.bitwise(token.OR, a, b)
		}
	}
	if la == nil || lb == nil {
		why := "arithmetic on a value that is not a known linear term"
		if a.Why != "" {
			why = a.Why
		} else if b.Why != "" {
			why = b.Why
		}
		return topBV(w, a.Signed, why)
	}
	var t *Term
	if op == token.ADD {
		t = la.Add(lb)
	} else {
		t = la.Sub(lb)
	}
	if !c.fits(t, w, a.Signed) {
		return topBV(w, a.Signed, fmt.Sprintf("%v may wrap in %s", t, typeName(w, a.Signed)))
	}
	return c.fromLin(t, w, a.Signed, "")
}

func typeName(w int, signed bool) string {
	if signed {
		return fmt.Sprintf("int%d", w)
	}
	return fmt.Sprintf("uint%d", w)
}

func (c *bvCtx) convert(a BV, w int, signed bool) BV {
	la := c.linOf(a)
	if a.Signed && !signed {
		// a negative value wraps when converted to an unsigned type
		neg := false
		if la != nil {
			neg = !c.prove(Const(0), la)
		} else if len(a.Bits) > 0 && a.Bits[len(a.Bits)-1].K != '0' {
			neg = true
		}
		if neg {
			why := "possibly negative value converted to " + typeName(w, signed)
			if la != nil {
				why = fmt.Sprintf("%v not provably >= 0 when converted to %s", la, typeName(w, signed))
			}
			if a.Why != "" {
				why = a.Why
			}
			return topBV(w, signed, why)
		}
	}
	r := BV{W: w, Signed: signed, Bits: make([]Bit, w), Why: a.Why, Mask: a.Mask, Pow: a.Pow, IsBool: a.IsBool}
	for i := range r.Bits {
		if i < len(a.Bits) {
			r.Bits[i] = a.Bits[i]
		} else if a.Signed && len(a.Bits) > 0 && a.Bits[len(a.Bits)-1].K != '0' && (la == nil || !c.prove(Const(0), la)) {
			r.Bits[i] = Bit{K: 'T'}
		} else {
			r.Bits[i] = Bit{K: '0'}
		}
	}
	if la != nil && c.fits(la, w, signed) {
		r.Lin = la
		if !r.allKnown() || (a.Signed && !a.allKnown()) {
			if v, ok := c.derived(la, w, signed); ok {
				v.Mask, v.Pow = a.Mask, a.Pow
				return v
			}
		}
	} else if la != nil && w < a.W {
		// truncation: lanes are kept, the linear value is not
		r.Lin = nil
	}
	if a.Mask != nil && w < a.W {
		r.Mask = nil
	}
	return c.fixLin(r)
}

// ---------------------------------------------------------------- interpreter

type bvVal struct {
	BV     BV
	Fields map[string]BV // struct value (composite literal / receiver)
	Bytes  map[int]BV    // byte buffer with constant indices
	Opaque string
}

type bvPath struct {
	Ctx    *bvCtx
	Conds  []string
	Vars   map[types.Object]*bvVal
	Recv   map[string]BV // receiver fields
	Ret    []*bvVal
	Done   bool
	Undec  []string
	Stores []string // receiver fields assigned
	Assume map[string]byte // lane bits fixed by the branch conditions of this path ('0' / '1')
}

func (p *bvPath) clone() *bvPath {
	n := &bvPath{Ctx: p.Ctx.clone(), Conds: append([]string(nil), p.Conds...), Vars: map[types.Object]*bvVal{}, Recv: map[string]BV{},
		Done: p.Done, Undec: append([]string(nil), p.Undec...), Stores: append([]string(nil), p.Stores...)}
	for k, v := range p.Vars {
		n.Vars[k] = v
	}
	for k, v := range p.Recv {
		n.Recv[k] = v
	}
	n.Ret = p.Ret
	if p.Assume != nil {
		n.Assume = map[string]byte{}
		for k, v := range p.Assume {
			n.Assume[k] = v
		}
	}
	return n
}

type bvInterp struct {
	w     *World
	fi    *FuncInfo
	info  *types.Info
	recv  types.Object
	depth int
	param types.Object // byte-slice input parameter
}

func (bi *bvInterp) undec(p *bvPath, pos token.Pos, f string, a ...any) {
	p.Undec = append(p.Undec, bi.w.Pos(pos)+": "+fmt.Sprintf(f, a...))
}

func typeBits(t types.Type) (int, bool, bool) {
	if t == nil {
		return 0, false, false
	}
	b, ok := t.Underlying().(*types.Basic)
	if !ok {
		return 0, false, false
	}
	if b.Info()&types.IsBoolean != 0 {
		return 1, false, true
	}
	w, unsigned := intBits(t)
	if w == 0 {
		return 0, false, false
	}
	return w, !unsigned, true
}

// RunBV interprets fi on the given receiver fields and arguments; every
// control-flow path is returned separately.
func (w *World) RunBV(fi *FuncInfo, ctx *bvCtx, recv map[string]BV, args []*bvVal) []*bvPath {
	bi := &bvInterp{w: w, fi: fi, info: fi.Pkg.TypesInfo}
	return bi.run(ctx, recv, args, 0)
}

func (bi *bvInterp) run(ctx *bvCtx, recv map[string]BV, args []*bvVal, depth int) []*bvPath {
	bi.depth = depth
	p := &bvPath{Ctx: ctx, Vars: map[types.Object]*bvVal{}, Recv: map[string]BV{}}
	for k, v := range recv {
		p.Recv[k] = v
	}
	fi := bi.fi
	if fi.Decl.Recv != nil && len(fi.Decl.Recv.List) > 0 && len(fi.Decl.Recv.List[0].Names) > 0 {
		bi.recv = bi.info.Defs[fi.Decl.Recv.List[0].Names[0]]
	}
	i := 0
	for _, fl := range fi.Decl.Type.Params.List {
		for _, nm := range fl.Names {
			o := bi.info.Defs[nm]
			if i < len(args) && args[i] != nil {
				p.Vars[o] = args[i]
				if args[i].Bytes != nil {
					bi.param = o
				}
			} else {
				p.Vars[o] = &bvVal{Opaque: "arg:" + nm.Name}
			}
			i++
		}
	}
	if fi.Decl.Type.Results != nil {
		for _, f := range fi.Decl.Type.Results.List {
			for _, nm := range f.Names {
				o := bi.info.Defs[nm]
				if w, s, ok := typeBits(o.Type()); ok {
					p.Vars[o] = &bvVal{BV: constBV(0, w, s)}
				} else {
					p.Vars[o] = &bvVal{Opaque: "zero"}
				}
			}
		}
	}
	out := bi.block([]*bvPath{p}, fi.Decl.Body.List)
	for _, q := range out {
		if !q.Done {
			q.Done = true
			// named results
			if fi.Decl.Type.Results != nil {
				for _, f := range fi.Decl.Type.Results.List {
					for _, nm := range f.Names {
						q.Ret = append(q.Ret, q.Vars[bi.info.Defs[nm]])
					}
				}
			}
		}
	}
	return out
}

func (bi *bvInterp) block(paths []*bvPath, stmts []ast.Stmt) []*bvPath {
	for _, s := range stmts {
		var next []*bvPath
		for _, p := range paths {
			if p.Done {
				next = append(next, p)
				continue
			}
			next = append(next, bi.stmt(p, s)...)
		}
		paths = next
		if len(paths) > 64 {
			for _, p := range paths {
				bi.undec(p, s.Pos(), "more than 64 paths")
			}
			return paths
		}
	}
	return paths
}

func (bi *bvInterp) stmt(p *bvPath, s ast.Stmt) []*bvPath {
	switch x := s.(type) {
	case *ast.BlockStmt:
		return bi.block([]*bvPath{p}, x.List)
	case *ast.EmptyStmt:
		return []*bvPath{p}
	case *ast.DeclStmt:
		gd, ok := x.Decl.(*ast.GenDecl)
		if !ok || gd.Tok != token.VAR {
			return []*bvPath{p}
		}
		for _, sp := range gd.Specs {
			vs := sp.(*ast.ValueSpec)
			for i, nm := range vs.Names {
				o := bi.info.Defs[nm]
				if i < len(vs.Values) {
					p.Vars[o] = bi.expr(p, vs.Values[i])
				} else if w, sg, ok := typeBits(o.Type()); ok {
					v := constBV(0, w, sg)
					if _, _, isb := typeBits(o.Type()); isb && w == 1 {
						v.IsBool = true
					}
					p.Vars[o] = &bvVal{BV: v}
				} else {
					p.Vars[o] = &bvVal{Opaque: "zero:" + nm.Name}
				}
			}
		}
		return []*bvPath{p}
	case *ast.AssignStmt:
		if len(x.Lhs) != len(x.Rhs) {
			// multi-value call: evaluate for effect, results opaque
			for _, l := range x.Lhs {
				if id, ok := l.(*ast.Ident); ok && id.Name != "_" {
					if o := bi.obj(id); o != nil {
						p.Vars[o] = &bvVal{Opaque: "multi"}
					}
				}
			}
			return []*bvPath{p}
		}
		vals := make([]*bvVal, len(x.Rhs))
		for i, r := range x.Rhs {
			rv := bi.expr(p, r)
			if x.Tok != token.ASSIGN && x.Tok != token.DEFINE {
				op := assignOp(x.Tok)
				lv := bi.expr(p, x.Lhs[i])
				rv = bi.binary(p, op, lv, rv, x.Lhs[i], r, x.Pos())
			}
			vals[i] = rv
		}
		for i, l := range x.Lhs {
			bi.assign(p, l, vals[i])
		}
		return []*bvPath{p}
	case *ast.IncDecStmt:
		lv := bi.expr(p, x.X)
		one := &bvVal{BV: constBV(1, lv.BV.W, lv.BV.Signed)}
		op := token.ADD
		if x.Tok == token.DEC {
			op = token.SUB
		}
		bi.assign(p, x.X, bi.binary(p, op, lv, one, x.X, x.X, x.Pos()))
		return []*bvPath{p}
	case *ast.ExprStmt:
		if call, ok := x.X.(*ast.CallExpr); ok {
			bi.expr(p, call)
			return []*bvPath{p}
		}
		bi.undec(p, x.Pos(), "expression statement")
		return []*bvPath{p}
	case *ast.ReturnStmt:
		if len(x.Results) == 0 && bi.fi.Decl.Type.Results != nil {
			for _, f := range bi.fi.Decl.Type.Results.List {
				for _, nm := range f.Names {
					p.Ret = append(p.Ret, p.Vars[bi.info.Defs[nm]])
				}
			}
		}
		for _, r := range x.Results {
			p.Ret = append(p.Ret, bi.expr(p, r))
		}
		p.Done = true
		return []*bvPath{p}
	case *ast.IfStmt:
		if x.Init != nil {
			ps := bi.stmt(p, x.Init)
			if len(ps) != 1 {
				bi.undec(p, x.Pos(), "branching initialiser")
				return ps
			}
			p = ps[0]
		}
		if tv, ok := bi.info.Types[x.Cond]; ok && tv.Value != nil && tv.Value.Kind() == constant.Bool {
			if constant.BoolVal(tv.Value) {
				return bi.block([]*bvPath{p}, x.Body.List)
			}
			if x.Else != nil {
				return bi.stmt(p, x.Else)
			}
			return []*bvPath{p}
		}
		pt, pf := p.clone(), p.clone()
		cond := bi.expr(pt, x.Cond)
		cs := bi.condText(p, x.Cond)
		// a condition that is a single known lane bit picks the branch per value of that bit
		pt.Conds = append(pt.Conds, cs)
		pf.Conds = append(pf.Conds, "!("+cs+")")
		if cond.Opaque == "" && cond.Fields == nil && cond.BV.W == 1 && cond.BV.Bits[0].K == 's' {
			// the branch fixes one lane bit: remember it, and specialise a boolean receiver field
			for _, q := range []*bvPath{pt, pf} {
				if q.Assume == nil {
					q.Assume = map[string]byte{}
				}
			}
			key := cond.BV.Bits[0].String()
			pt.Assume[key], pf.Assume[key] = '1', '0'
			if f, ok := bi.recvField(x.Cond); ok {
				one, zero := constBV(1, 1, false), constBV(0, 1, false)
				one.IsBool, zero.IsBool = true, true
				pt.Recv[f], pf.Recv[f] = one, zero
			}
		}
		bi.assume(pt, x.Cond, true)
		bi.assume(pf, x.Cond, false)
		_ = cond
		out := bi.block([]*bvPath{pt}, x.Body.List)
		if x.Else != nil {
			out = append(out, bi.stmt(pf, x.Else)...)
		} else {
			out = append(out, pf)
		}
		return out
	}
	bi.undec(p, s.Pos(), "statement %T outside the bit-level language", s)
	return []*bvPath{p}
}

func assignOp(t token.Token) token.Token {
	switch t {
	case token.ADD_ASSIGN:
		return token.ADD
	case token.SUB_ASSIGN:
		return token.SUB
	case token.MUL_ASSIGN:
		return token.MUL
	case token.AND_ASSIGN:
		return token.AND
	case token.OR_ASSIGN:
		return token.OR
	case token.XOR_ASSIGN:
		return token.XOR
	case token.SHL_ASSIGN:
		return token.SHL
	case token.SHR_ASSIGN:
		return token.SHR
	case token.AND_NOT_ASSIGN:
		return token.AND_NOT
	}
	return token.ILLEGAL
}

func (bi *bvInterp) obj(id *ast.Ident) types.Object {
	if o := bi.info.Uses[id]; o != nil {
		return o
	}
	return bi.info.Defs[id]
}

// recvField recognises recv.f (one declared field of the receiver).
func (bi *bvInterp) recvField(e ast.Expr) (string, bool) {
	se, ok := unparen(e).(*ast.SelectorExpr)
	if !ok {
		return "", false
	}
	id, ok := unparen(se.X).(*ast.Ident)
	if !ok || bi.recv == nil || bi.obj(id) != bi.recv {
		return "", false
	}
	if sel, ok := bi.info.Selections[se]; ok && sel.Kind() == types.FieldVal {
		return se.Sel.Name, true
	}
	return "", false
}

func (bi *bvInterp) assign(p *bvPath, l ast.Expr, v *bvVal) {
	l = unparen(l)
	if id, ok := l.(*ast.Ident); ok {
		if id.Name == "_" {
			return
		}
		if o := bi.obj(id); o != nil {
			// conversion to the declared type is implicit for untyped constants
			if w, s, ok := typeBits(o.Type()); ok && v != nil && v.Opaque == "" && v.Fields == nil && (v.BV.W != w || v.BV.Signed != s) {
				nv := *v
				nv.BV = p.Ctx.convert(v.BV, w, s)
				v = &nv
			}
			p.Vars[o] = v
		}
		return
	}
	if f, ok := bi.recvField(l); ok {
		if v == nil || v.Opaque != "" || v.Fields != nil {
			bi.undec(p, l.Pos(), "receiver field %s assigned a value outside the bit-level language", f)
			if old, ok := p.Recv[f]; ok {
				p.Recv[f] = topBV(old.W, old.Signed, "assigned an opaque value")
			}
			p.Stores = append(p.Stores, f)
			return
		}
		bv := v.BV
		if se, ok := l.(*ast.SelectorExpr); ok {
			if w, s, ok := typeBits(bi.info.TypeOf(se)); ok && (bv.W != w || bv.Signed != s) {
				bv = p.Ctx.convert(bv, w, s)
			}
		}
		p.Recv[f] = bv
		p.Stores = append(p.Stores, f)
		return
	}
	// field of a local struct value
	if se, ok := l.(*ast.SelectorExpr); ok {
		if id, ok := unparen(se.X).(*ast.Ident); ok {
			if o := bi.obj(id); o != nil {
				if sv := p.Vars[o]; sv != nil && sv.Fields != nil && v != nil && v.Opaque == "" {
					nf := map[string]BV{}
					for k, x := range sv.Fields {
						nf[k] = x
					}
					bv := v.BV
					if w, s, ok := typeBits(bi.info.TypeOf(se)); ok && (bv.W != w || bv.Signed != s) {
						bv = p.Ctx.convert(bv, w, s)
					}
					nf[se.Sel.Name] = bv
					p.Vars[o] = &bvVal{Fields: nf}
					return
				}
			}
		}
	}
	bi.undec(p, l.Pos(), "assignment target outside the bit-level language")
}

func (bi *bvInterp) condText(p *bvPath, e ast.Expr) string {
	return types.ExprString(e)
}

// assume records linear facts implied by a branch condition.
func (bi *bvInterp) assume(p *bvPath, cond ast.Expr, truth bool) {
	cond = unparen(cond)
	switch x := cond.(type) {
	case *ast.UnaryExpr:
		if x.Op == token.NOT {
			bi.assume(p, x.X, !truth)
		}
	case *ast.BinaryExpr:
		switch x.Op {
		case token.LAND:
			if truth {
				bi.assume(p, x.X, true)
				bi.assume(p, x.Y, true)
			}
		case token.LOR:
			if !truth {
				bi.assume(p, x.X, false)
				bi.assume(p, x.Y, false)
			}
		case token.LSS, token.LEQ, token.GTR, token.GEQ, token.EQL, token.NEQ:
			q := p.clone() // evaluate without disturbing p
			av, bv := bi.expr(q, x.X), bi.expr(q, x.Y)
			if av.Opaque != "" || bv.Opaque != "" {
				return
			}
			a, b := p.Ctx.linOf(av.BV), p.Ctx.linOf(bv.BV)
			if a == nil || b == nil {
				return
			}
			op := x.Op
			if !truth {
				op = map[token.Token]token.Token{token.LSS: token.GEQ, token.LEQ: token.GTR, token.GTR: token.LEQ, token.GEQ: token.LSS, token.EQL: token.NEQ, token.NEQ: token.EQL}[op]
			}
			src := types.ExprString(cond)
			add := func(l, r *Term) { p.Ctx.facts = append(p.Ctx.facts, Fact{L: l, R: r, Src: src}) }
			switch op {
			case token.LSS:
				add(a.AddC(1), b)
			case token.LEQ:
				add(a, b)
			case token.GTR:
				add(b.AddC(1), a)
			case token.GEQ:
				add(b, a)
			case token.EQL:
				add(a, b)
				add(b, a)
			}
		}
	}
}

func (bi *bvInterp) expr(p *bvPath, e ast.Expr) *bvVal {
	if tv, ok := bi.info.Types[e]; ok && tv.Value != nil {
		w, s, ok2 := typeBits(tv.Type)
		switch tv.Value.Kind() {
		case constant.Int:
			if !ok2 {
				w, s = 64, true
			}
			if u, ok := constant.Uint64Val(tv.Value); ok {
				return &bvVal{BV: constBV(u, w, s)}
			}
			if i, ok := constant.Int64Val(tv.Value); ok {
				mask := ^uint64(0)
				if w < 64 {
					mask = (uint64(1) << uint(w)) - 1
				}
				return &bvVal{BV: constBV(uint64(i)&mask, w, s)}
			}
		case constant.Bool:
			v := constBV(0, 1, false)
			if constant.BoolVal(tv.Value) {
				v = constBV(1, 1, false)
			}
			v.IsBool = true
			return &bvVal{BV: v}
		}
		return &bvVal{Opaque: "const"}
	}
	switch x := e.(type) {
	case *ast.ParenExpr:
		return bi.expr(p, x.X)
	case *ast.Ident:
		o := bi.obj(x)
		if v, ok := p.Vars[o]; ok && v != nil {
			return v
		}
		return &bvVal{Opaque: "ident:" + x.Name}
	case *ast.SelectorExpr:
		if f, ok := bi.recvField(x); ok {
			if v, ok := p.Recv[f]; ok {
				return &bvVal{BV: v}
			}
			return &bvVal{Opaque: "recv." + f}
		}
		if id, ok := unparen(x.X).(*ast.Ident); ok {
			if o := bi.obj(id); o != nil {
				if sv := p.Vars[o]; sv != nil && sv.Fields != nil {
					if v, ok := sv.Fields[x.Sel.Name]; ok {
						return &bvVal{BV: v}
					}
				}
			}
		}
		return &bvVal{Opaque: types.ExprString(x)}
	case *ast.StarExpr:
		return bi.expr(p, x.X)
	case *ast.UnaryExpr:
		v := bi.expr(p, x.X)
		switch x.Op {
		case token.AND:
			return v // &T{...}
		case token.XOR:
			if v.Opaque == "" {
				return &bvVal{BV: p.Ctx.not(v.BV)}
			}
		case token.SUB:
			if v.Opaque == "" {
				if l := p.Ctx.linOf(v.BV); l != nil {
					return &bvVal{BV: p.Ctx.fromLin(l.Scale(-1), v.BV.W, v.BV.Signed, "negation")}
				}
			}
		case token.NOT:
			if v.Opaque == "" && v.BV.W == 1 {
				r := p.Ctx.not(v.BV)
				r.IsBool = true
				return &bvVal{BV: r}
			}
		}
		return &bvVal{Opaque: "unary " + x.Op.String()}
	case *ast.BinaryExpr:
		a, b := bi.expr(p, x.X), bi.expr(p, x.Y)
		return bi.binary(p, x.Op, a, b, x.X, x.Y, x.Pos())
	case *ast.CompositeLit:
		t := bi.info.TypeOf(x)
		st := structOf(t)
		if st == nil {
			return &bvVal{Opaque: "composite"}
		}
		fields := map[string]BV{}
		for i := 0; i < st.NumFields(); i++ {
			if w, s, ok := typeBits(st.Field(i).Type()); ok {
				fields[st.Field(i).Name()] = constBV(0, w, s)
			}
		}
		for i, el := range x.Elts {
			name, val := "", el
			if kv, ok := el.(*ast.KeyValueExpr); ok {
				if id, ok := kv.Key.(*ast.Ident); ok {
					name = id.Name
				}
				val = kv.Value
			} else if i < st.NumFields() {
				name = st.Field(i).Name()
			}
			v := bi.expr(p, val)
			if v.Opaque != "" || name == "" {
				continue
			}
			for j := 0; j < st.NumFields(); j++ {
				if st.Field(j).Name() == name {
					if w, s, ok := typeBits(st.Field(j).Type()); ok {
						bv := v.BV
						if bv.W != w || bv.Signed != s {
							bv = p.Ctx.convert(bv, w, s)
						}
						fields[name] = bv
					}
				}
			}
		}
		return &bvVal{Fields: fields}
	case *ast.IndexExpr:
		bv := bi.expr(p, x.X)
		iv := bi.expr(p, x.Index)
		if bv.Bytes != nil && iv.Opaque == "" {
			if l := p.Ctx.linOf(iv.BV); l != nil && l.IsConst() {
				if b, ok := bv.Bytes[int(l.C)]; ok {
					return &bvVal{BV: b}
				}
			}
		}
		return &bvVal{Opaque: "index"}
	case *ast.SliceExpr:
		bv := bi.expr(p, x.X)
		if bv.Bytes != nil && x.High == nil {
			lo := 0
			if x.Low != nil {
				lv := bi.expr(p, x.Low)
				l := p.Ctx.linOf(lv.BV)
				if lv.Opaque != "" || l == nil || !l.IsConst() {
					return &bvVal{Opaque: "slice"}
				}
				lo = int(l.C)
			}
			nb := map[int]BV{}
			for k, v := range bv.Bytes {
				if k >= lo {
					nb[k-lo] = v
				}
			}
			return &bvVal{Bytes: nb}
		}
		return &bvVal{Opaque: "slice"}
	case *ast.CallExpr:
		return bi.call(p, x)
	}
	return &bvVal{Opaque: fmt.Sprintf("%T", e)}
}

func (bi *bvInterp) binary(p *bvPath, op token.Token, a, b *bvVal, ea, eb ast.Expr, pos token.Pos) *bvVal {
	if a.Opaque != "" || b.Opaque != "" || a.Fields != nil || b.Fields != nil {
		return &bvVal{Opaque: "binary on opaque"}
	}
	c := p.Ctx
	av, bv := a.BV, b.BV
	switch op {
	case token.AND, token.OR, token.XOR, token.AND_NOT:
		if av.W != bv.W {
			if bv.W < av.W {
				bv = c.convert(bv, av.W, av.Signed)
			} else {
				av = c.convert(av, bv.W, bv.Signed)
			}
		}
		return &bvVal{BV: c.bitwise(op, av, bv)}
	case token.SHL, token.SHR:
		if k, ok := bv.isConst(); ok {
			if int(k) >= av.W+64 {
				k = uint64(av.W)
			}
			if av.Mask != nil || av.Pow != nil || isAllOnes(av) && op == token.SHR && false {
				return &bvVal{BV: c.shiftSym(op, av, bv)}
			}
			if op == token.SHL {
				return &bvVal{BV: c.shlConst(av, int(k))}
			}
			return &bvVal{BV: c.shrConst(av, int(k))}
		}
		return &bvVal{BV: c.shiftSym(op, av, bv)}
	case token.ADD, token.SUB:
		if av.W != bv.W {
			if bv.W < av.W {
				bv = c.convert(bv, av.W, av.Signed)
			} else {
				av = c.convert(av, bv.W, bv.Signed)
			}
		}
		return &bvVal{BV: c.addsub(op, av, bv)}
	case token.MUL:
		la, lb := c.linOf(av), c.linOf(bv)
		if la != nil && lb != nil && (la.IsConst() || lb.IsConst()) {
			t := Mul(la, lb)
			if c.fits(t, av.W, av.Signed) {
				return &bvVal{BV: c.fromLin(t, av.W, av.Signed, "")}
			}
		}
		return &bvVal{BV: topBV(av.W, av.Signed, "multiplication")}
	case token.EQL, token.NEQ, token.LSS, token.LEQ, token.GTR, token.GEQ:
		r := topBV(1, false, "comparison")
		r.IsBool = true
		// x&m == m  /  x&m != 0  with a single-bit constant m: the tested lane bit
		if op == token.EQL || op == token.NEQ {
			if cv, ok := bv.isConst(); ok {
				nz := -1
				cnt := 0
				for i, bt := range av.Bits {
					if bt.K != '0' {
						nz = i
						cnt++
					}
				}
				if cnt == 1 && av.Bits[nz].K == 's' {
					bitv := uint64(1) << uint(nz)
					switch {
					case (op == token.EQL && cv == bitv) || (op == token.NEQ && cv == 0):
						r = BV{W: 1, Bits: []Bit{av.Bits[nz]}, IsBool: true}
					case (op == token.EQL && cv == 0) || (op == token.NEQ && cv == bitv):
						r = topBV(1, false, "negated lane bit")
						r.IsBool = true
					}
				}
			}
		}
		return &bvVal{BV: r}
	}
	return &bvVal{Opaque: "operator " + op.String()}
}

func (bi *bvInterp) call(p *bvPath, x *ast.CallExpr) *bvVal {
	// conversion
	if tv, ok := bi.info.Types[x.Fun]; ok && tv.IsType() && len(x.Args) == 1 {
		v := bi.expr(p, x.Args[0])
		if w, s, ok := typeBits(tv.Type); ok && v.Opaque == "" && v.Fields == nil && v.Bytes == nil {
			r := p.Ctx.convert(v.BV, w, s)
			return &bvVal{BV: r}
		}
		return v
	}
	var callee *types.Func
	switch f := unparen(x.Fun).(type) {
	case *ast.Ident:
		callee, _ = bi.obj(f).(*types.Func)
		if b, ok := bi.obj(f).(*types.Builtin); ok {
			if b.Name() == "len" && len(x.Args) == 1 {
				return &bvVal{Opaque: "len"}
			}
			if b.Name() == "new" {
				if st := structOf(bi.info.TypeOf(x.Args[0])); st != nil {
					fields := map[string]BV{}
					for i := 0; i < st.NumFields(); i++ {
						if w, s, ok := typeBits(st.Field(i).Type()); ok {
							fields[st.Field(i).Name()] = constBV(0, w, s)
						}
					}
					return &bvVal{Fields: fields}
				}
			}
			return &bvVal{Opaque: "builtin " + b.Name()}
		}
	case *ast.SelectorExpr:
		if sel, ok := bi.info.Selections[f]; ok {
			callee, _ = sel.Obj().(*types.Func)
		} else {
			callee, _ = bi.info.Uses[f.Sel].(*types.Func)
		}
	}
	if callee == nil {
		return &bvVal{Opaque: "call"}
	}
	// encoding/binary readers over the input bytes
	if callee.Pkg() != nil && callee.Pkg().Path() == "encoding/binary" && len(x.Args) == 1 {
		n := map[string]int{"Uint16": 2, "Uint32": 4, "Uint64": 8}[callee.Name()]
		if se, ok := unparen(x.Fun).(*ast.SelectorExpr); ok && n > 0 {
			order := types.ExprString(se.X)
			src := bi.expr(p, x.Args[0])
			if src.Bytes != nil {
				r := BV{W: n * 8, Bits: make([]Bit, n*8)}
				for k := 0; k < n; k++ {
					b, ok := src.Bytes[k]
					if !ok {
						return &bvVal{Opaque: "read beyond the modelled bytes"}
					}
					pos := n - 1 - k
					if strings.Contains(order, "LittleEndian") {
						pos = k
					}
					copy(r.Bits[pos*8:pos*8+8], b.Bits)
				}
				return &bvVal{BV: p.Ctx.fixLin(r)}
			}
		}
		return &bvVal{Opaque: "binary." + callee.Name()}
	}
	fi := bi.w.FuncOf(callee)
	if fi == nil {
		for _, a := range x.Args {
			bi.expr(p, a)
		}
		return &bvVal{Opaque: "call:" + callee.FullName()}
	}
	if bi.depth >= 3 {
		return &bvVal{Opaque: "call depth"}
	}
	var args []*bvVal
	for _, a := range x.Args {
		args = append(args, bi.expr(p, a))
	}
	recv := map[string]BV{}
	if se, ok := unparen(x.Fun).(*ast.SelectorExpr); ok {
		if id, ok := unparen(se.X).(*ast.Ident); ok && bi.recv != nil && bi.obj(id) == bi.recv {
			recv = p.Recv
		} else {
			rv := bi.expr(p, se.X)
			if rv.Fields != nil {
				recv = rv.Fields
			}
		}
	}
	sub := &bvInterp{w: bi.w, fi: fi, info: fi.Pkg.TypesInfo}
	outs := sub.run(p.Ctx.clone(), recv, args, bi.depth+1)
	var live []*bvPath
	for _, o := range outs {
		live = append(live, o)
	}
	if len(live) != 1 {
		bi.undec(p, x.Pos(), "call to %s has %d paths (only single-path helpers are inlined)", fi.Key, len(live))
		return &bvVal{Opaque: "multi-path call"}
	}
	o := live[0]
	p.Undec = append(p.Undec, o.Undec...)
	p.Ctx.facts = o.Ctx.facts
	for k, v := range o.Ctx.srcBits {
		p.Ctx.srcBits[k] = v
	}
	for k, v := range o.Ctx.srcTerm {
		p.Ctx.srcTerm[k] = v
	}
	if se, ok := unparen(x.Fun).(*ast.SelectorExpr); ok {
		if id, ok := unparen(se.X).(*ast.Ident); ok && bi.recv != nil && bi.obj(id) == bi.recv {
			for k, v := range o.Recv {
				p.Recv[k] = v
			}
			p.Stores = append(p.Stores, o.Stores...)
		}
	}
	if len(o.Ret) >= 1 && o.Ret[0] != nil {
		return o.Ret[0]
	}
	return &bvVal{Opaque: "no result"}
}

// sortedKeys of a BV map.
func bvKeys(m map[string]BV) []string {
	var ks []string
	for k := range m {
		ks = append(ks, k)
	}
	sort.Strings(ks)
	return ks
}

// resolve applies the path's branch assumptions to a lane bit.
func (p *bvPath) resolve(b Bit) Bit {
	if b.K == 's' && p.Assume != nil {
		if v, ok := p.Assume[b.String()]; ok {
			return Bit{K: v}
		}
	}
	return b
}
