package main

// SSA program and call graphs (lazily built).

import (
	"go/types"
	"sort"

	"golang.org/x/tools/go/callgraph"
	"golang.org/x/tools/go/callgraph/cha"
	"golang.org/x/tools/go/callgraph/vta"
	"golang.org/x/tools/go/ssa"
	"golang.org/x/tools/go/ssa/ssautil"
)

type ssaWorld struct {
	Prog   *ssa.Program
	Pkgs   []*ssa.Package
	All    map[*ssa.Function]bool
	vta    *callgraph.Graph
	cha    *callgraph.Graph
	byObj  map[*types.Func]*ssa.Function
	useCHA bool
}

func (w *World) SSA() *ssaWorld {
	if w.ssaw != nil {
		return w.ssaw
	}
	prog, pkgs := ssautil.AllPackages(w.All, ssa.InstantiateGenerics)
	prog.Build()
	sw := &ssaWorld{Prog: prog, Pkgs: pkgs, byObj: map[*types.Func]*ssa.Function{}}
	sw.All = ssautil.AllFunctions(prog)
	for fn := range sw.All {
		if obj, ok := fn.Object().(*types.Func); ok && fn.Synthetic == "" {
			sw.byObj[obj] = fn
		}
	}
	w.ssaw = sw
	return sw
}

func (sw *ssaWorld) CHA() *callgraph.Graph {
	if sw.cha == nil {
		sw.cha = cha.CallGraph(sw.Prog)
	}
	return sw.cha
}

func (sw *ssaWorld) VTA() *callgraph.Graph {
	if sw.vta == nil {
		sw.vta = vta.CallGraph(sw.All, sw.CHA())
	}
	return sw.vta
}

// Graph returns the call graph in use (VTA, or CHA in the thorough cross-check).
func (sw *ssaWorld) Graph() *callgraph.Graph {
	if sw.useCHA {
		return sw.CHA()
	}
	return sw.VTA()
}

func (w *World) SSAFunc(fi *FuncInfo) *ssa.Function {
	sw := w.SSA()
	if f, ok := sw.byObj[fi.Obj]; ok {
		return f
	}
	return sw.Prog.FuncValue(fi.Obj)
}

// inModule reports whether fn belongs to the analysed module (including
// synthetic wrappers of promoted methods, which have no package).
func (w *World) inModule(fn *ssa.Function) bool {
	if fn == nil {
		return false
	}
	if fn.Pkg != nil {
		return w.isModPkg(fn.Pkg.Pkg)
	}
	if o := fn.Object(); o != nil && o.Pkg() != nil {
		return w.isModPkg(o.Pkg())
	}
	if fn.Origin() != nil {
		return w.inModule(fn.Origin())
	}
	if fn.Parent() != nil {
		return w.inModule(fn.Parent())
	}
	return false
}

func (w *World) isModPkg(p *types.Package) bool {
	if p == nil {
		return false
	}
	for _, m := range w.Mod {
		if m.Types == p || m.PkgPath == p.Path() {
			return true
		}
	}
	return false
}

// callees returns the possible callees of a call instruction, sorted by name.
func (sw *ssaWorld) callees(site ssa.CallInstruction) []*ssa.Function {
	if f := site.Common().StaticCallee(); f != nil {
		return []*ssa.Function{f}
	}
	g := sw.Graph()
	n := g.Nodes[site.Parent()]
	if n == nil {
		return nil
	}
	seen := map[*ssa.Function]bool{}
	var out []*ssa.Function
	for _, e := range n.Out {
		if e.Site == site && e.Callee != nil && e.Callee.Func != nil && !seen[e.Callee.Func] {
			seen[e.Callee.Func] = true
			out = append(out, e.Callee.Func)
		}
	}
	sort.Slice(out, func(i, j int) bool { return out[i].String() < out[j].String() })
	return out
}

// Reachable returns the functions reachable from roots in the call graph.
func (sw *ssaWorld) Reachable(roots ...*ssa.Function) map[*ssa.Function]bool {
	g := sw.Graph()
	seen := map[*ssa.Function]bool{}
	var visit func(f *ssa.Function)
	visit = func(f *ssa.Function) {
		if f == nil || seen[f] {
			return
		}
		seen[f] = true
		if n := g.Nodes[f]; n != nil {
			for _, e := range n.Out {
				visit(e.Callee.Func)
			}
		}
		for _, af := range f.AnonFuncs {
			visit(af)
		}
	}
	for _, r := range roots {
		visit(r)
	}
	return seen
}
