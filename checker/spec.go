package main

import (
	"encoding/json"
	"fmt"
	"os"
	"path/filepath"
)

type Codes struct {
	Version         int64                      `json:"ofp_version_1_3"`
	OfpType         map[string]int64           `json:"ofp_type"`
	CtorOfpType     map[string]string          `json:"ctor_ofp_type"`
	SwitchSideCtors map[string]string          `json:"switch_side_ctors_without_type"`
	VendorCtor      map[string]map[string]any  `json:"vendor_ctor"`
	NxVendor        int64                      `json:"nx_vendor_id"`
	OnfExp          int64                      `json:"onf_experimenter_id"`
	ActionType      map[string]int64           `json:"ofp_action_type"`
	CtorAction      map[string]string          `json:"ctor_action_type"`
	InstrType       map[string]int64           `json:"ofp_instruction_type"`
	CtorInstr       map[string]string          `json:"ctor_instruction_type"`
	Nxast           map[string]int64           `json:"nxast"`
	CtorNxast       map[string]string          `json:"ctor_nxast"`
	HelloElem       map[string]int64           `json:"hello_elem_type"`
	MatchType       map[string]int64           `json:"ofp_match_type"`
	NxtSubtype      map[string]int64           `json:"nxt_subtype"`
	OnfBundle       map[string]int64           `json:"onf_bundle_exp_type"`
	Controller      map[string]string          `json:"controller_kinds"`
	SwitchKinds     map[string]string          `json:"switch_kinds"`
	CtStateBits     map[string]int64           `json:"ct_state_bits"`
	OxmExtra        map[string]int64           `json:"oxm_extra_widths"`
	NatRangeBits    map[string]int64           `json:"nx_nat_range_bits"`
	ParseKinds      map[string]string          `json:"parse_kinds"`
	MultipartType   map[string]int64           `json:"ofp_multipart_type"`
	MultipartBody   map[string]string          `json:"multipart_reply_body"`
	Extra           map[string]json.RawMessage `json:"-"`
}

func loadSpec(name string, into any) error {
	b, err := os.ReadFile(filepath.Join(verifRoot(), "spec", name))
	if err != nil {
		return err
	}
	if err := json.Unmarshal(b, into); err != nil {
		return fmt.Errorf("spec/%s: %v", name, err)
	}
	return nil
}

func loadCodes() (*Codes, error) {
	c := &Codes{}
	if err := loadSpec("codes.json", c); err != nil {
		return nil, err
	}
	// internal consistency: no duplicate codes inside one table
	for tn, t := range map[string]map[string]int64{"ofp_type": c.OfpType, "ofp_action_type": c.ActionType, "ofp_instruction_type": c.InstrType, "nxast": c.Nxast} {
		seen := map[int64]string{}
		for n, v := range t {
			if o, ok := seen[v]; ok {
				return nil, fmt.Errorf("spec/codes.json: %s: %s and %s share code %d", tn, o, n, v)
			}
			seen[v] = n
		}
	}
	return c, nil
}

// Layout is one kind's wire layout from spec/layout.json.
type Layout struct {
	Cite   string      `json:"cite"`
	Fields [][5]string `json:"fields"`
}

func loadLayouts() (map[string]*Layout, error) {
	var f struct {
		Layouts map[string]*Layout `json:"layouts"`
	}
	if err := loadSpec("layout.json", &f); err != nil {
		return nil, err
	}
	for k, l := range f.Layouts {
		seen := map[string]bool{}
		for _, r := range l.Fields {
			key := r[0] + "|" + r[2] + "|" + r[4]
			if seen[key] {
				return nil, fmt.Errorf("spec/layout.json: %s: duplicate row %v", k, r)
			}
			seen[key] = true
		}
	}
	return f.Layouts, nil
}
