package main

import (
	"fmt"
	"go/ast"
	"go/token"
	"go/types"
	"sort"
	"strings"
)

// ---- size functions, encoders and accessors do not hand their state to code that may change it ----
//
// noConsumeRule: starting from the roots (Len, MarshalBinary and the read accessors of every kind) and
// following calls inside the module — interface calls to every implementation — no value that is
// reachable from the receiver is passed, as receiver or argument, in a position through which it can be
// changed (pointer, slice, map, interface, channel) to a function outside the module, unless that
// function is listed as pure. The stores of the module's own code are the business of the settled rules;
// this rule closes the other door: a reader drained by io.ReadAll, a list reordered by sort.Slice.

var purePackages = map[string]string{
	"fmt":                        "formats its arguments",
	"errors":                     "constructs errors",
	"strings":                    "strings are immutable",
	"strconv":                    "conversions",
	"bytes":                      "package-level functions of bytes read their arguments (Buffer methods are listed one by one)",
	"encoding/hex":               "reads src (the destination is checked separately)",
	"math":                       "numeric",
	"math/bits":                  "numeric",
	"unicode/utf8":               "reads",
	"github.com/sirupsen/logrus": "formats its arguments for the log",
	"log":                        "formats its arguments for the log",
	"reflect":                    "reflect.DeepEqual / TypeOf style inspection",
}

var pureMethods = map[string]string{
	"(*bytes.Buffer).Bytes":                 "returns the unread portion without consuming it",
	"(*bytes.Buffer).Len":                   "reads",
	"(*bytes.Buffer).Cap":                   "reads",
	"(*bytes.Buffer).String":                "reads",
	"(*bytes.Reader).Len":                   "reads",
	"(*bytes.Reader).Size":                  "reads",
	"(net.Conn).RemoteAddr":                 "reads",
	"(net.Conn).LocalAddr":                  "reads",
	"(encoding/binary.bigEndian).Uint16":    "reads its argument",
	"(encoding/binary.bigEndian).Uint32":    "reads its argument",
	"(encoding/binary.bigEndian).Uint64":    "reads its argument",
	"(encoding/binary.littleEndian).Uint16": "reads its argument",
	"(encoding/binary.littleEndian).Uint32": "reads its argument",
	"(encoding/binary.littleEndian).Uint64": "reads its argument",
	"encoding/binary.Size":                  "inspects the type",
}

// value-receiver methods of these packages' types read their receiver and arguments (net.IP.To4, Equal,
// Mask, String; time.Time arithmetic)
var pureValueMethodPkgs = map[string]bool{"net": true, "time": true, "net/netip": true}

// destination-writing functions: only the listed argument (-1 = receiver) is written; all others are read.
var writesOnlyArg = map[string]int{
	"(encoding/binary.bigEndian).PutUint16":    0,
	"(encoding/binary.bigEndian).PutUint32":    0,
	"(encoding/binary.bigEndian).PutUint64":    0,
	"(encoding/binary.littleEndian).PutUint16": 0,
	"(encoding/binary.littleEndian).PutUint32": 0,
	"(encoding/binary.littleEndian).PutUint64": 0,
	"encoding/binary.Write":                    0,
	"encoding/binary.Read":                     0, // the reader is consumed; the data pointer is written
	"encoding/hex.Encode":                      0,
	"(*bytes.Buffer).Write":                    -1,
	"(*bytes.Buffer).WriteByte":                -1,
	"(*bytes.Buffer).WriteString":              -1,
}

func pointerLike(t types.Type) bool {
	if t == nil {
		return false
	}
	switch t.Underlying().(type) {
	case *types.Pointer, *types.Slice, *types.Map, *types.Interface, *types.Chan:
		return true
	}
	return false
}

type pureSite struct {
	Func *FuncInfo
	Pos  token.Pos
	Text string
	Bad  string
}

type pureWalk struct {
	w      *World
	fa     *failInfo
	rooted map[*FuncInfo]map[types.Object]bool // parameters / receiver reachable from a root's receiver
	order  []*FuncInfo
	sites  []*pureSite
}

func (w *World) pureSites(isRoot func(fi *FuncInfo) bool) *pureWalk {
	pw := &pureWalk{w: w, fa: w.failInfo(), rooted: map[*FuncInfo]map[types.Object]bool{}}
	var work []*FuncInfo
	mark := func(fi *FuncInfo, obj types.Object) {
		if obj == nil {
			return
		}
		m := pw.rooted[fi]
		if m == nil {
			m = map[types.Object]bool{}
			pw.rooted[fi] = m
			pw.order = append(pw.order, fi)
		}
		if !m[obj] {
			m[obj] = true
			work = append(work, fi)
		}
	}
	touch := func(fi *FuncInfo) {
		if pw.rooted[fi] == nil {
			pw.rooted[fi] = map[types.Object]bool{}
			pw.order = append(pw.order, fi)
			work = append(work, fi)
		}
	}
	for _, key := range w.sortedFuncKeys() {
		fi := w.Funcs[key]
		if fi.Decl.Body == nil || fi.Recv == nil || !isRoot(fi) {
			continue
		}
		touch(fi)
		if r := recvObj(fi); r != nil {
			mark(fi, r)
		}
	}
	// propagate rootedness into module callees to a fixed point
	for len(work) > 0 {
		fi := work[len(work)-1]
		work = work[:len(work)-1]
		info := fi.Pkg.TypesInfo
		rooted := pw.localRoots(fi)
		ast.Inspect(fi.Decl.Body, func(nd ast.Node) bool {
			call, ok := nd.(*ast.CallExpr)
			if !ok {
				return true
			}
			f := calleeFunc(info, call)
			if f == nil {
				return true
			}
			var targets []*FuncInfo
			if t := w.ByObj[f]; t != nil {
				targets = append(targets, t)
			} else if sig, _ := f.Type().(*types.Signature); sig != nil && sig.Recv() != nil {
				if it, isI := sig.Recv().Type().Underlying().(*types.Interface); isI {
					for _, m := range pw.fa.impls[f.Name()] {
						if types.Implements(types.NewPointer(m.Recv), it) || types.Implements(m.Recv, it) {
							targets = append(targets, m)
						}
					}
				}
			}
			if len(targets) == 0 {
				return true
			}
			var recvRooted bool
			if se, ok := unparen(call.Fun).(*ast.SelectorExpr); ok {
				recvRooted = pw.exprRooted(info, se.X, rooted)
			}
			for _, t := range targets {
				if t.Decl.Body == nil {
					continue
				}
				touch(t)
				if recvRooted {
					mark(t, recvObj(t))
				}
				params := paramObjs(t)
				for i, a := range call.Args {
					if i < len(params) && pointerLike(info.TypeOf(a)) && pw.exprRooted(info, a, rooted) {
						mark(t, params[i])
					}
				}
			}
			return true
		})
	}
	sort.Slice(pw.order, func(i, j int) bool { return pw.order[i].Key < pw.order[j].Key })
	for _, fi := range pw.order {
		pw.scan(fi)
	}
	return pw
}

func recvObj(fi *FuncInfo) types.Object {
	if fi.Decl.Recv == nil || len(fi.Decl.Recv.List) == 0 || len(fi.Decl.Recv.List[0].Names) == 0 {
		return nil
	}
	return fi.Pkg.TypesInfo.ObjectOf(fi.Decl.Recv.List[0].Names[0])
}

func paramObjs(fi *FuncInfo) []types.Object {
	var out []types.Object
	if fi.Decl.Type.Params == nil {
		return nil
	}
	for _, f := range fi.Decl.Type.Params.List {
		if len(f.Names) == 0 {
			out = append(out, nil)
		}
		for _, n := range f.Names {
			out = append(out, fi.Pkg.TypesInfo.ObjectOf(n))
		}
	}
	return out
}

// localRoots: the rooted parameters plus every local variable that aliases something reachable from them
// (assignment, range, type assertion, address, index, slice, field selection).
func (pw *pureWalk) localRoots(fi *FuncInfo) map[types.Object]bool {
	info := fi.Pkg.TypesInfo
	rooted := map[types.Object]bool{}
	for o := range pw.rooted[fi] {
		rooted[o] = true
	}
	for changed := true; changed; {
		changed = false
		set := func(l ast.Expr, r ast.Expr) {
			id, ok := unparen(l).(*ast.Ident)
			if !ok || id.Name == "_" {
				return
			}
			obj := info.ObjectOf(id)
			if obj == nil || rooted[obj] || !pointerLike(obj.Type()) {
				return
			}
			if pw.exprRooted(info, r, rooted) {
				rooted[obj] = true
				changed = true
			}
		}
		ast.Inspect(fi.Decl.Body, func(nd ast.Node) bool {
			switch x := nd.(type) {
			case *ast.AssignStmt:
				if len(x.Lhs) == len(x.Rhs) {
					for i := range x.Lhs {
						set(x.Lhs[i], x.Rhs[i])
					}
				} else if len(x.Rhs) == 1 {
					// v, ok := e.(T)   v, ok := m[k]
					set(x.Lhs[0], x.Rhs[0])
				}
			case *ast.ValueSpec:
				for i, n := range x.Names {
					if i < len(x.Values) {
						set(n, x.Values[i])
					}
				}
			case *ast.RangeStmt:
				if x.Value != nil {
					set(x.Value, x.X)
				}
			case *ast.TypeSwitchStmt:
				if as, ok := x.Assign.(*ast.AssignStmt); ok && len(as.Rhs) == 1 {
					if ta, ok := unparen(as.Rhs[0]).(*ast.TypeAssertExpr); ok && pw.exprRooted(info, ta.X, rooted) {
						for _, cl := range x.Body.List {
							if obj := info.Implicits[cl]; obj != nil && !rooted[obj] {
								rooted[obj] = true
								changed = true
							}
						}
					}
				}
			}
			return true
		})
	}
	return rooted
}

func (pw *pureWalk) exprRooted(info *types.Info, e ast.Expr, rooted map[types.Object]bool) bool {
	switch x := unparen(e).(type) {
	case *ast.Ident:
		return rooted[info.ObjectOf(x)]
	case *ast.SelectorExpr:
		if _, isPkg := info.Uses[identOf(x.X)].(*types.PkgName); isPkg {
			return false
		}
		return pw.exprRooted(info, x.X, rooted)
	case *ast.IndexExpr:
		return pw.exprRooted(info, x.X, rooted)
	case *ast.SliceExpr:
		return pw.exprRooted(info, x.X, rooted)
	case *ast.StarExpr:
		return pw.exprRooted(info, x.X, rooted)
	case *ast.UnaryExpr:
		if x.Op == token.AND {
			return pw.exprRooted(info, x.X, rooted)
		}
	case *ast.TypeAssertExpr:
		return pw.exprRooted(info, x.X, rooted)
	case *ast.CallExpr:
		// a conversion keeps the reference
		if tv, ok := info.Types[x.Fun]; ok && tv.IsType() && len(x.Args) == 1 {
			return pw.exprRooted(info, x.Args[0], rooted)
		}
		// a pure accessor that returns a view of the state: buf.Bytes()
		if f := calleeFunc(info, x); f != nil {
			if se, ok := unparen(x.Fun).(*ast.SelectorExpr); ok && pointerLike(info.TypeOf(x)) {
				if _, listed := pureMethods[f.FullName()]; listed {
					return pw.exprRooted(info, se.X, rooted)
				}
			}
		}
	}
	return false
}

func identOf(e ast.Expr) *ast.Ident {
	id, _ := unparen(e).(*ast.Ident)
	return id
}

func (pw *pureWalk) scan(fi *FuncInfo) {
	info := fi.Pkg.TypesInfo
	rooted := pw.localRoots(fi)
	ast.Inspect(fi.Decl.Body, func(nd ast.Node) bool {
		call, ok := nd.(*ast.CallExpr)
		if !ok {
			return true
		}
		f := calleeFunc(info, call)
		if f == nil || pw.w.ByObj[f] != nil || f.Pkg() == nil || strings.HasPrefix(f.Pkg().Path(), pw.w.ModPath) {
			return true
		}
		sig, _ := f.Type().(*types.Signature)
		if sig == nil {
			return true
		}
		name := f.FullName()
		s := &pureSite{Func: fi, Pos: call.Pos(), Text: types.ExprString(call.Fun)}
		// what of ours goes in, and where
		var exposed []string
		wr, hasWr := writesOnlyArg[name]
		if sig.Recv() != nil {
			if se, ok := unparen(call.Fun).(*ast.SelectorExpr); ok && pw.exprRooted(info, se.X, rooted) {
				_, isPtr := sig.Recv().Type().Underlying().(*types.Pointer)
				_, isIface := sig.Recv().Type().Underlying().(*types.Interface)
				if isPtr || isIface {
					if _, pure := pureMethods[name]; !pure {
						exposed = append(exposed, "receiver "+types.ExprString(se.X))
					}
				}
			}
		}
		_, purePkg := purePackages[f.Pkg().Path()]
		pureMethod := false
		if _, listed := pureMethods[name]; listed {
			purePkg, pureMethod = true, true
		}
		if sig.Recv() != nil {
			purePkg = pureMethod
			if _, isPtr := sig.Recv().Type().Underlying().(*types.Pointer); !isPtr && pureValueMethodPkgs[f.Pkg().Path()] {
				if _, isIface := sig.Recv().Type().Underlying().(*types.Interface); !isIface {
					purePkg, pureMethod = true, true
				}
			}
			// methods with value receivers of basic/slice types (net.IP.To4) only read their receiver;
			// their arguments are treated like any other
		}
		for i, a := range call.Args {
			if !pointerLike(info.TypeOf(a)) || !pw.exprRooted(info, a, rooted) {
				continue
			}
			if hasWr {
				if i == wr || name == "encoding/binary.Read" && i == 2 {
					exposed = append(exposed, fmt.Sprintf("argument %d %s (written or consumed by the callee)", i, types.ExprString(a)))
				}
				continue
			}
			if purePkg && (sig.Recv() == nil || pureMethod) {
				continue
			}
			exposed = append(exposed, fmt.Sprintf("argument %d %s", i, types.ExprString(a)))
		}
		if len(exposed) > 0 {
			s.Bad = strings.Join(exposed, ", ") + " handed to " + name + ", which is not known to leave it unchanged"
		}
		pw.sites = append(pw.sites, s)
		return true
	})
}

func noConsumeRule(w *World, r *Report, rule string, isRoot func(fi *FuncInfo) bool) {
	pw := w.pureSites(isRoot)
	per := map[string]int{}
	for _, s := range pw.sites {
		per[s.Func.Key+"/"+s.Text]++
		inst := fmt.Sprintf("%s#%d", s.Text, per[s.Func.Key+"/"+s.Text])
		if s.Bad != "" {
			r.Fail(VViolation, rule, s.Func.Key, inst, w.Pos(s.Pos), s.Bad+": sizing, encoding or reading the value would change what it encodes to afterwards")
		} else {
			r.OK(rule, s.Func.Key, inst, w.Pos(s.Pos), "no state reachable from the receiver is passed where the callee could change it", true)
		}
	}
	r.Extra[rule+"_functions_walked"] = len(pw.order)
}

func sizingRoot(fi *FuncInfo) bool {
	n := fi.Decl.Name.Name
	return n == "Len" || n == "MarshalBinary"
}

func readRoot(fi *FuncInfo) bool {
	n := fi.Decl.Name.Name
	return sizingRoot(fi) || strings.HasPrefix(n, "Get") || n == "Header" || n == "String"
}

func init() {
	extraDumps["puresites"] = func(w *World, args []string) {
		pw := w.pureSites(readRoot)
		fmt.Println("functions walked:", len(pw.order))
		for _, s := range pw.sites {
			if s.Bad != "" {
				fmt.Printf("%-50s %s %s: %s\n", s.Func.Key, w.Pos(s.Pos), s.Text, s.Bad)
			}
		}
		fmt.Println("sites:", len(pw.sites))
	}
}

// ---- methods that formatting calls implicitly leave the value unchanged ----
//
// observerRule: fmt (and through it every logging call) invokes String, Error, GoString and Format on the
// values it prints, and the encoders of encoding/json and encoding/text invoke MarshalJSON / MarshalText.
// A log line between a decode and an encode — in the application or in the codec itself — therefore runs
// these methods on the message. For every such method of the packages in scope:
//
//	(a) nothing reachable from the receiver is handed to a function outside the module that may change
//	    it (a buffer drained by Next, a list reordered by sort) — the walk of noConsumeRule;
//	(b) the module's own code reached from the method does not store through, append onto, or copy into
//	    memory derived from the receiver (alias analysis with the receiver as the source).
//
// A violation means printing the value changes what it encodes to afterwards.
var observerNames = map[string]bool{"String": true, "Error": true, "GoString": true, "Format": true, "MarshalJSON": true, "MarshalText": true}

func observerRule(w *World, r *Report, rule string, pkgs ...string) {
	in := map[string]bool{}
	for _, p := range pkgs {
		in[p] = true
	}
	isObs := func(fi *FuncInfo) bool {
		return fi.Recv != nil && observerNames[fi.Decl.Name.Name] && in[fi.Pkg.Types.Name()] && !strings.HasSuffix(w.Fset.Position(fi.Decl.Pos()).Filename, "_test.go")
	}
	n := 0
	a := NewAlias(w)
	for _, key := range w.sortedFuncKeys() {
		fi := w.Funcs[key]
		if fi.Decl.Body == nil || !isObs(fi) {
			continue
		}
		n++
		sf := w.SSAFunc(fi)
		if sf == nil {
			r.Fail(VUndecided, rule, fi.Key, "stores", w.Pos(fi.Decl.Pos()), "no SSA form for the method")
			continue
		}
		sum := a.AnalyzeParam(sf, 0)
		var bad []string
		evs := append([]*AliasEvent{}, sum.events...)
		sortEvents(evs, w)
		for _, e := range evs {
			if e.Kind == "mutate" {
				bad = append(bad, e.What+" at "+w.Pos(e.Pos))
			}
		}
		if len(bad) > 0 {
			r.Fail(VViolation, rule, fi.Key, "stores", w.Pos(fi.Decl.Pos()), "formatting calls this method implicitly, and it changes the value it is called on: "+strings.Join(bad, "; ")+" — after a log line the value encodes differently")
		} else {
			r.OK(rule, fi.Key, "stores", w.Pos(fi.Decl.Pos()), "no store through, append onto or copy into memory derived from the receiver, in the method or the module code it calls", true)
		}
	}
	noConsumeRule(w, r, rule, isObs)
	r.OK(rule, "inventory", strings.Join(pkgs, "+"), "-", fmt.Sprintf("%d methods that formatting calls implicitly (String, Error, GoString, Format, MarshalJSON, MarshalText) in scope; each checked", n), true)
}
