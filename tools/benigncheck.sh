#!/bin/bash
# usage: benigncheck.sh <dir-with-patch.diff> [props...]  — applies a behaviour-preserving patch to a scratch worktree of
# /repo HEAD, confirms it builds and the pinned suite passes, then runs the checks: every alarm is a FALSE ALARM.
set -u
export GOFLAGS=-mod=mod GOPROXY=off GOSUMDB=off GOTOOLCHAIN=local; unset GOWORK
D=$(realpath $1); shift
name=$(basename $D)
props=${@:-$(python3 -c "import json;print(' '.join(json.loads(l)['id'] for l in open('/verif/properties.jsonl')))")}
WT=/tmp/benign/$name.$$; rm -rf $WT; mkdir -p /tmp/benign
git -C /repo worktree add -q --detach $WT HEAD || exit 2
trap "git -C /repo worktree remove --force $WT 2>/dev/null; rm -rf /tmp/benign/ev-$name.$$" EXIT
if ! git -C $WT apply $D/patch.diff 2>/tmp/benign/$name.err; then echo "$name PATCH-DOES-NOT-APPLY: $(head -1 /tmp/benign/$name.err)"; exit 0; fi
if ! (cd $WT && go build ./... 2>/dev/null); then echo "$name DOES-NOT-BUILD"; exit 0; fi
if (cd $WT && go test -vet=off -count=1 ./openflow13/ ./protocol/ ./common/ ./util/ ./ofbase/ 2>&1) | grep -q "^FAIL\|^--- FAIL"; then echo "$name SUITE-FAILS"; exit 0; fi
bad=0
for p in $props; do
  out=$(cd /verif && VERIF_ROOT=/verif OFV_EVIDENCE_DIR=/tmp/benign/ev-$name.$$ OFV_NO_SEED_AUDIT=1 ${OFV_BIN:-./bin/ofverify} check $p --repo $WT 2>&1); rc=$?
  if [ $rc -ne 0 ]; then bad=1; echo "$name $p FALSE-ALARM rc=$rc: $(echo "$out" | grep -E "^(VIOLATION|UNDECIDED|UNMAPPED) $p|rror" | head -2 | cut -c1-300 | tr '\n' '|')"; fi
done
[ $bad -eq 0 ] && echo "$name quiet on: $props"
