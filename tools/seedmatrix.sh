#!/bin/bash
# usage: seedmatrix.sh [seed-id ...]  — runs every property's quick check on every stored seeded variant
# (scratch worktrees of /repo HEAD under /tmp, removed afterwards) and writes seeded/MATRIX.tsv:
# seed <TAB> property <TAB> caught|silent|n/a <TAB> first reported obligation
# MATRIX_PROPS=own runs only the property a seed was written against (its id prefix); with MATRIX_MERGE=1 the
# rows produced replace the rows of the same (seed, property) in the existing table and all others are kept
# (the full 19-column pass over ~400 seeds takes hours; the own-property pass minutes).
set -u
cd "$(dirname "$0")/.."
seeds=${@:-$(ls seeded | grep -E '^C[0-9]+-' )}
props=$(python3 -c "import json;print(' '.join(json.loads(l)['id'] for l in open('properties.jsonl')))")
one() {
  s=$1; WT=/tmp/seedmx/$s; rm -rf $WT; mkdir -p /tmp/seedmx
  if grep -q '"status": "obsolete"' seeded/$s/meta.json 2>/dev/null; then for p in $props; do printf "%s\t%s\tobsolete\t\n" $s $p; done; return; fi
  git -C /repo worktree add -q --detach $WT HEAD 2>/dev/null || { echo "$s worktree failed" >&2; return; }
  if ! git -C $WT apply $(realpath seeded/$s/patch.diff) 2>/dev/null; then for p in $props; do printf "%s\t%s\tn/a\tpatch does not apply\n" $s $p; done; git -C /repo worktree remove --force $WT; return; fi
  myprops=$props; [ "${MATRIX_PROPS:-}" = own ] && myprops=${s%%-*}
  for p in $myprops; do
    out=$(VERIF_ROOT=$PWD OFV_EVIDENCE_DIR=/tmp/seedmx/ev-$s OFV_NO_SEED_AUDIT=1 ${OFV_BIN:-./bin/ofverify} check $p --repo $WT 2>&1); rc=$?
    if [ $rc -eq 1 ]; then printf "%s\t%s\tcaught\t%s\n" $s $p "$(echo "$out" | grep -E "^(VIOLATION|UNDECIDED|UNMAPPED) $p/" | head -1 | cut -d' ' -f2)"
    elif [ $rc -eq 0 ]; then printf "%s\t%s\tsilent\t\n" $s $p; else printf "%s\t%s\terror\t%s\n" $s $p "$(echo "$out" | tail -1 | cut -c1-120)"; fi
  done
  git -C /repo worktree remove --force $WT; rm -rf /tmp/seedmx/ev-$s
}
export -f one; export props
echo $seeds | tr ' ' '\n' | xargs -P ${MATRIX_JOBS:-7} -I{} bash -c 'one {}' > seeded/MATRIX.tsv.tmp
if [ "${MATRIX_MERGE:-}" = 1 ] && [ -f seeded/MATRIX.tsv ]; then
  awk -F'\t' 'NR==FNR{k[$1 FS $2]=1; print; next} !(($1 FS $2) in k)' seeded/MATRIX.tsv.tmp seeded/MATRIX.tsv | sort > seeded/MATRIX.tsv.new
  mv seeded/MATRIX.tsv.new seeded/MATRIX.tsv; rm seeded/MATRIX.tsv.tmp
else
  sort seeded/MATRIX.tsv.tmp > seeded/MATRIX.tsv; rm seeded/MATRIX.tsv.tmp
fi
echo "wrote seeded/MATRIX.tsv ($(wc -l < seeded/MATRIX.tsv) rows)"
