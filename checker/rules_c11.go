package main

// C11 — outbound stream (DESIGN §3 C11).

import (
	"fmt"
	"go/ast"
	"go/token"
	"go/types"
	"strings"

	"golang.org/x/tools/go/types/typeutil"
)

func init() {
	register(&propCheck{
		ID:    "C11",
		Run:   runC11,
		Level: "Static analysis (who-may-call / who-may-receive rules over the typed syntax of the whole module + path enumeration on the control-flow graph of the writer). Decides: single-writer — the writer method is started by exactly one go statement, outside any loop, in the stream constructor and is called from nowhere else; conn-uses — every use of the stream's connection field is the receiver of a method call, Write is called at exactly one site in the module and that site is in the writer; one-write-per-message — on every control-flow path through one iteration of the writer's loop there is exactly one receive from the outbound channel, exactly one encoding of the received message and exactly one Write whose argument is that encoding's unmodified result slice, in this order (or none of the three); paths leaving the loop write at most once; receivers — every other receive from the outbound channel discards the value and happens after the connection was closed (the shutdown drain); fifo-source — the channel field is assigned only by the constructor. Under Go's channel FIFO guarantee and net.Conn.Write writing the whole slice or failing, these imply the statement: one writer and one whole write per message give contiguity and exactly-once, one FIFO gives per-producer order. Not decided: messages still queued at shutdown (drained by design); the process exit on a write error.",
		Assumptions: []string{
			"Go channels deliver values in the order sent by any single sender; net.Conn.Write writes the whole slice or returns an error",
			"producers hand messages over only by sending on the exported Outbound channel",
		},
	})
}

// streamObjs resolves the stream type, its fields and methods.
type streamObjs struct {
	named                                               *types.Named
	conn, outboundF, inboundF, errorF, shutdownF, poolF *types.Var
	poolEmpty, poolFull                                 *types.Var
	outbound, inbound, parse, shutdown, ctor            *FuncInfo
	info                                                *types.Info
}

func (w *World) streamObjs() (*streamObjs, string) {
	ut := w.ByName["util"]
	if ut == nil {
		return nil, "package util not found"
	}
	tn, _ := ut.Types.Scope().Lookup("MessageStream").(*types.TypeName)
	if tn == nil {
		return nil, "type util.MessageStream not found"
	}
	so := &streamObjs{info: ut.TypesInfo}
	so.named, _ = tn.Type().(*types.Named)
	st, _ := so.named.Underlying().(*types.Struct)
	if st == nil {
		return nil, "util.MessageStream is not a struct"
	}
	for i := 0; i < st.NumFields(); i++ {
		f := st.Field(i)
		switch f.Name() {
		case "conn":
			so.conn = f
		case "Outbound":
			so.outboundF = f
		case "Inbound":
			so.inboundF = f
		case "Error":
			so.errorF = f
		case "Shutdown":
			so.shutdownF = f
		case "pool":
			so.poolF = f
		}
	}
	if so.poolF != nil {
		if ps := structOf(so.poolF.Type()); ps != nil {
			for i := 0; i < ps.NumFields(); i++ {
				switch ps.Field(i).Name() {
				case "Empty":
					so.poolEmpty = ps.Field(i)
				case "Full":
					so.poolFull = ps.Field(i)
				}
			}
		}
	}
	so.outbound = w.Funcs["util.MessageStream.outbound"]
	so.inbound = w.Funcs["util.MessageStream.inbound"]
	so.parse = w.Funcs["util.MessageStream.parse"]
	so.shutdown = w.Funcs["util.MessageStream.shutdown"]
	so.ctor = w.Funcs["util.NewMessageStream"]
	var missing []string
	for n, v := range map[string]any{"field conn": so.conn, "field Outbound": so.outboundF, "field Inbound": so.inboundF, "field Error": so.errorF, "field pool": so.poolF, "pool.Empty": so.poolEmpty, "pool.Full": so.poolFull} {
		if v == (*types.Var)(nil) {
			missing = append(missing, n)
		}
	}
	for n, v := range map[string]*FuncInfo{"method outbound": so.outbound, "method inbound": so.inbound, "method parse": so.parse, "NewMessageStream": so.ctor} {
		if v == nil {
			missing = append(missing, n)
		}
	}
	if len(missing) > 0 {
		return so, "anchors of the stream rules cannot be resolved: " + strings.Join(missing, ", ")
	}
	return so, ""
}

// eachModuleFunc visits every function body of the module's non-test files,
// including function literals (reported with their enclosing declaration).
func (w *World) eachModuleFunc(f func(fi *FuncInfo)) {
	for _, k := range w.sortedFuncKeys() {
		f(w.Funcs[k])
	}
}

// chanRecv recognises <-x.f for the given field.
func chanRecvOf(info *types.Info, e ast.Expr, field *types.Var) bool {
	ue, ok := unparen(e).(*ast.UnaryExpr)
	return ok && ue.Op == token.ARROW && fieldOf(info, ue.X) == field
}

func runC11(w *World, r *Report) {
	r.Rule("shadow", "no := in an inner scope re-declares a same-typed variable of the function that is read afterwards (or a named result): the value computed there would be lost", 1)
	shadowRule(w, r, "shadow", func(fi *FuncInfo) bool { return fi.Pkg.Types.Name() == "util" })
	r.Rule("alive", "the stream goroutines cannot panic on a failed call's nil result or on a short byte slice handed to a helper", 2)
	streamAliveRule(w, r, "alive")
	r.Rule("observers", "methods that formatting calls implicitly (String, Error, …) leave the value unchanged", 1)
	observerRule(w, r, "observers", "util")
	r.Rule("single-writer", "the writer goroutine is started exactly once per stream and called from nowhere else", 1)
	r.Rule("conn-uses", "the connection is used only as a method receiver; Write has exactly one call site, in the writer", 5)
	r.Rule("one-write-per-message", "each iteration of the writer: one receive, one encoding of it, one Write of the unmodified encoding", 1)
	r.Rule("receivers", "other receives from the outbound channel discard the value after the connection was closed", 1)
	r.Rule("fifo-source", "the outbound channel field is assigned only by the constructor", 1)
	so, miss := w.streamObjs()
	if miss != "" {
		r.Fail(VViolation, "single-writer", "util.MessageStream", "", "-", miss)
		return
	}
	info := so.info

	// ---------------- single-writer
	nGo := 0
	w.eachModuleFunc(func(fi *FuncInfo) {
		ast.Inspect(fi.Decl.Body, func(n ast.Node) bool {
			switch x := n.(type) {
			case *ast.GoStmt:
				if fn, ok := typeutil.Callee(fi.Pkg.TypesInfo, x.Call).(*types.Func); ok && fn == so.outbound.Obj {
					nGo++
					switch {
					case fi != so.ctor:
						r.Fail(VViolation, "single-writer", fi.Key, "go", w.Pos(x.Pos()), "the writer goroutine is started outside the stream constructor: a second writer can interleave frames")
					case insideLoop(fi.Decl, x.Pos()):
						r.Fail(VViolation, "single-writer", fi.Key, "go", w.Pos(x.Pos()), "the writer goroutine is started inside a loop: several writers per stream")
					}
				}
				return true
			case *ast.CallExpr:
				if fn, ok := typeutil.Callee(fi.Pkg.TypesInfo, x).(*types.Func); ok && fn == so.outbound.Obj {
					// is it the call of a go statement? checked via parent scan below
					isGo := false
					ast.Inspect(fi.Decl.Body, func(m ast.Node) bool {
						if g, ok := m.(*ast.GoStmt); ok && g.Call == x {
							isGo = true
						}
						return true
					})
					if !isGo {
						r.Fail(VViolation, "single-writer", fi.Key, "call", w.Pos(x.Pos()), "the writer method is called directly (a second writer besides the goroutine)")
					}
				}
			case *ast.SelectorExpr:
				// method value m.outbound taken without calling it
				if sel, ok := fi.Pkg.TypesInfo.Selections[x]; ok && sel.Kind() == types.MethodVal && sel.Obj() == so.outbound.Obj {
					called := false
					ast.Inspect(fi.Decl.Body, func(m ast.Node) bool {
						if c, ok := m.(*ast.CallExpr); ok && unparen(c.Fun) == ast.Expr(x) {
							called = true
						}
						return true
					})
					if !called {
						r.Fail(VViolation, "single-writer", fi.Key, "method-value", w.Pos(x.Pos()), "the writer method escapes as a method value; its callers cannot be enumerated")
					}
				}
			}
			return true
		})
	})
	if nGo == 1 {
		r.OK("single-writer", "util.NewMessageStream", "", w.Pos(so.ctor.Decl.Pos()), "exactly one go statement starts the writer, in the constructor, outside any loop; no other call site", true)
	} else if nGo == 0 {
		r.Fail(VViolation, "single-writer", "util.NewMessageStream", "", w.Pos(so.ctor.Decl.Pos()), "no go statement starts the writer")
	} else {
		r.Fail(VViolation, "single-writer", "util.NewMessageStream", "", w.Pos(so.ctor.Decl.Pos()), fmt.Sprintf("%d go statements start the writer: frames of different writers can interleave", nGo))
	}

	// ---------------- conn-uses
	allowed := map[string]bool{"Read": true, "Write": true, "Close": true, "SetWriteDeadline": true, "SetReadDeadline": true, "SetDeadline": true, "RemoteAddr": true, "LocalAddr": true}
	nWrite := 0
	w.eachModuleFunc(func(fi *FuncInfo) {
		inf := fi.Pkg.TypesInfo
		// collect selector expressions that are the Fun of a call: conn.M(...)
		calledSel := map[*ast.SelectorExpr]*ast.CallExpr{}
		ast.Inspect(fi.Decl.Body, func(n ast.Node) bool {
			if c, ok := n.(*ast.CallExpr); ok {
				if se, ok := unparen(c.Fun).(*ast.SelectorExpr); ok {
					calledSel[se] = c
				}
			}
			return true
		})
		recvOfCall := map[ast.Expr]string{}
		for se := range calledSel {
			recvOfCall[unparen(se.X)] = se.Sel.Name
		}
		ast.Inspect(fi.Decl.Body, func(n ast.Node) bool {
			se, ok := n.(*ast.SelectorExpr)
			if !ok || fieldOf(inf, se) != so.conn {
				return true
			}
			m, isRecv := recvOfCall[ast.Expr(se)]
			switch {
			case !isRecv:
				// the positional constructor literal and plain reads are not selector uses; any other use lets the connection escape
				r.Fail(VViolation, "conn-uses", fi.Key, "escape", w.Pos(se.Pos()), "the connection is used other than as a method receiver (passed on, stored or wrapped): writers elsewhere cannot be excluded")
			case !allowed[m]:
				r.Fail(VViolation, "conn-uses", fi.Key, m, w.Pos(se.Pos()), "method "+m+" of the connection is not one of the reviewed operations (Read, Write, Close, deadlines, addresses)")
			case m == "Write":
				nWrite++
				if fi != so.outbound {
					r.Fail(VViolation, "conn-uses", fi.Key, "Write", w.Pos(se.Pos()), "Write on the stream's connection outside the writer goroutine: bytes of two messages can interleave")
				} else {
					r.OK("conn-uses", fi.Key, "Write", w.Pos(se.Pos()), "the Write call site of the module", true)
				}
			default:
				r.OK("conn-uses", fi.Key, m, w.Pos(se.Pos()), "method receiver", false)
			}
			return true
		})
	})
	if nWrite != 1 {
		r.Fail(VViolation, "conn-uses", "util.MessageStream", "write-sites", w.Pos(so.outbound.Decl.Pos()), fmt.Sprintf("%d Write call sites on the connection, expected exactly one", nWrite))
	}

	// ---------------- one-write-per-message
	ofi := so.outbound
	g := w.funcCFG(info, ofi.Decl.Body)
	classify := func(n ast.Node, emit func(cfgEvent)) {
		// assignment context
		var lhs0 types.Object
		var rhs0 ast.Expr
		if as, ok := n.(*ast.AssignStmt); ok && len(as.Rhs) == 1 {
			lhs0 = identObj(info, as.Lhs[0])
			rhs0 = unparen(as.Rhs[0])
		}
		special := map[ast.Node]bool{}
		ast.Inspect(n, func(m ast.Node) bool {
			switch x := m.(type) {
			case *ast.FuncLit:
				return false
			case *ast.UnaryExpr:
				if chanRecvOf(info, x, so.outboundF) {
					ev := cfgEvent{Kind: "R", Node: x}
					if rhs0 == ast.Expr(x) {
						ev.Obj = lhs0
						special[n] = true
					}
					emit(ev)
				}
			case *ast.CallExpr:
				se, ok := unparen(x.Fun).(*ast.SelectorExpr)
				if !ok {
					return true
				}
				if se.Sel.Name == "MarshalBinary" {
					ev := cfgEvent{Kind: "M", Node: x, Obj: identObj(info, se.X), Text: types.ExprString(se.X)}
					if rhs0 == ast.Expr(x) {
						ev.Obj2 = lhs0
						special[n] = true
					}
					emit(ev)
				}
				if se.Sel.Name == "Write" && fieldOf(info, se.X) == so.conn && len(x.Args) == 1 {
					emit(cfgEvent{Kind: "W", Node: x, Obj: identObj(info, x.Args[0]), Text: types.ExprString(x.Args[0])})
				}
			}
			return true
		})
		// other definitions / modifications of locals
		switch x := n.(type) {
		case *ast.AssignStmt:
			for i, l := range x.Lhs {
				if i == 0 && special[n] {
					continue
				}
				base := unparen(l)
				if ix, ok := base.(*ast.IndexExpr); ok {
					base = unparen(ix.X)
				}
				if o := identObj(info, base); o != nil {
					emit(cfgEvent{Kind: "A", Node: x, Obj: o})
				}
			}
		case *ast.IncDecStmt:
			if o := identObj(info, x.X); o != nil {
				emit(cfgEvent{Kind: "A", Node: x, Obj: o})
			}
		case *ast.ExprStmt:
			// copy(data, ...) and similar in-place modifications
			if c, ok := x.X.(*ast.CallExpr); ok {
				if id, ok := c.Fun.(*ast.Ident); ok && (id.Name == "copy" || id.Name == "clear") && len(c.Args) > 0 {
					base := unparen(c.Args[0])
					if sl, ok := base.(*ast.SliceExpr); ok {
						base = unparen(sl.X)
					}
					if o := identObj(info, base); o != nil {
						emit(cfgEvent{Kind: "A", Node: x, Obj: o})
					}
				}
				// binary.BigEndian.PutUintN(data[2:4], …): an in-place write into the bytes
				if se, ok := unparen(c.Fun).(*ast.SelectorExpr); ok && strings.HasPrefix(se.Sel.Name, "PutUint") && len(c.Args) > 0 {
					base := unparen(c.Args[0])
					if sl, ok := base.(*ast.SliceExpr); ok {
						base = unparen(sl.X)
					}
					if o := identObj(info, base); o != nil {
						emit(cfgEvent{Kind: "A", Node: x, Obj: o})
					}
				}
			}
		}
	}
	enter := func(rs *ast.RangeStmt, emit func(cfgEvent)) {
		if fieldOf(info, rs.X) == so.outboundF {
			emit(cfgEvent{Kind: "R", Node: rs, Obj: identObj(info, rs.Key)})
		}
	}
	loops := w.loopsOf(g, classify, enter)
	// the writer loop: the loop whose paths contain a Write
	nIter, nExit := 0, 0
	var bad []string
	writerLoops := 0
	checkPath := func(p *cfgPath) string {
		var seq []cfgEvent
		for _, e := range p.Events {
			if e.Kind != "A" {
				seq = append(seq, e)
			}
		}
		kinds := ""
		for _, e := range seq {
			kinds += e.Kind
		}
		okKinds := map[string]bool{"": true, "RMW": true}
		if !p.Back {
			okKinds["R"], okKinds["RM"] = true, true
		}
		if !okKinds[kinds] {
			what := map[bool]string{true: "through one iteration", false: "leaving the loop"}[p.Back]
			return fmt.Sprintf("a path %s performs the sequence [%s] (R = receive from the outbound channel, M = encode, W = Write); expected exactly R M W or nothing", what, kinds)
		}
		var msg, data types.Object
		phase := 0
		for _, e := range p.Events {
			switch e.Kind {
			case "R":
				msg = e.Obj
				phase = 1
				if msg == nil {
					return "the received message is not bound to a variable before it is encoded"
				}
			case "M":
				if e.Obj == nil || e.Obj != msg {
					return "the value encoded (" + e.Text + ") is not the message received in this iteration"
				}
				data = e.Obj2
				phase = 2
				if data == nil {
					return "the encoding's result is not bound to a variable"
				}
			case "W":
				if e.Obj == nil || e.Obj != data {
					return "the slice written (" + e.Text + ") is not the unmodified result of encoding the received message"
				}
				phase = 3
			case "A":
				if phase == 1 && e.Obj == msg {
					return "the received message variable is reassigned before it is encoded"
				}
				if phase == 2 && e.Obj == data {
					return "the encoded bytes are modified or replaced between encoding and Write"
				}
			}
		}
		return ""
	}
	for _, lp := range loops {
		hasW := false
		for _, p := range lp.Paths {
			for _, e := range p.Events {
				if e.Kind == "W" || e.Kind == "R" {
					hasW = true
				}
			}
		}
		if !hasW {
			continue
		}
		writerLoops++
		if lp.Trunc {
			bad = append(bad, "too many paths to enumerate")
		}
		for _, p := range lp.Paths {
			if p.Back {
				nIter++
			} else {
				nExit++
			}
			if d := checkPath(p); d != "" {
				dup := false
				for _, b := range bad {
					if b == d {
						dup = true
					}
				}
				if !dup {
					bad = append(bad, d)
				}
			}
		}
	}
	opos := w.Pos(ofi.Decl.Pos())
	// writes outside any loop
	for _, b := range g.Blocks {
		_ = b
	}
	switch {
	case writerLoops == 0:
		r.Fail(VViolation, "one-write-per-message", ofi.Key, "", opos, "no loop of the writer receives from the outbound channel and writes")
	case len(bad) > 0:
		for i, d := range bad {
			r.Fail(VViolation, "one-write-per-message", ofi.Key, fmt.Sprintf("path-class-%d", i+1), opos, d)
		}
	default:
		r.OK("one-write-per-message", ofi.Key, "", opos, fmt.Sprintf("%d iteration paths and %d exit paths of the writer loop: each iteration is exactly receive → encode(received) → Write(encoding) or nothing", nIter, nExit), true)
	}
	r.Stats["writer_iteration_paths"] = nIter
	r.Stats["writer_exit_paths"] = nExit

	// ---------------- receivers
	nOther := 0
	w.eachModuleFunc(func(fi *FuncInfo) {
		inf := fi.Pkg.TypesInfo
		// positions of conn.Close() calls in this declaration
		var closes []token.Pos
		ast.Inspect(fi.Decl.Body, func(n ast.Node) bool {
			if c, ok := n.(*ast.CallExpr); ok {
				if se, ok := unparen(c.Fun).(*ast.SelectorExpr); ok && se.Sel.Name == "Close" && fieldOf(inf, se.X) == so.conn {
					closes = append(closes, c.Pos())
				}
			}
			return true
		})
		var stack []ast.Node
		ast.Inspect(fi.Decl.Body, func(n ast.Node) bool {
			if n == nil {
				stack = stack[:len(stack)-1]
				return true
			}
			stack = append(stack, n)
			isRecv := false
			var pos token.Pos
			discarded := false
			switch x := n.(type) {
			case *ast.UnaryExpr:
				if chanRecvOf(inf, x, so.outboundF) {
					isRecv, pos = true, x.Pos()
					if len(stack) >= 2 {
						if es, ok := stack[len(stack)-2].(*ast.ExprStmt); ok && es.X == ast.Expr(x) {
							discarded = true
						}
					}
				}
			case *ast.RangeStmt:
				if fieldOf(inf, x.X) == so.outboundF {
					isRecv, pos = true, x.Pos()
					discarded = x.Key == nil
				}
			}
			if !isRecv {
				return true
			}
			if fi == so.outbound {
				return true // the writer's own receives are the one-write-per-message rule's business
			}
			nOther++
			afterClose := false
			for _, c := range closes {
				if c < pos {
					afterClose = true
				}
			}
			if !afterClose && len(closes) == 0 {
				// the drain may be a method of its own: every place that calls or starts it must do so after
				// closing the connection
				nSites, allAfter := 0, true
				w.eachModuleFunc(func(g *FuncInfo) {
					ginf := g.Pkg.TypesInfo
					var gcloses []token.Pos
					ast.Inspect(g.Decl.Body, func(m ast.Node) bool {
						if c, ok := m.(*ast.CallExpr); ok {
							if se, ok := unparen(c.Fun).(*ast.SelectorExpr); ok && se.Sel.Name == "Close" && fieldOf(ginf, se.X) == so.conn {
								gcloses = append(gcloses, c.Pos())
							}
						}
						return true
					})
					ast.Inspect(g.Decl.Body, func(m ast.Node) bool {
						c, ok := m.(*ast.CallExpr)
						if !ok {
							return true
						}
						if fn, ok := typeutil.Callee(ginf, c).(*types.Func); ok && fn == fi.Obj {
							nSites++
							before := false
							for _, cp := range gcloses {
								if cp < c.Pos() {
									before = true
								}
							}
							if !before {
								allAfter = false
							}
						}
						return true
					})
				})
				if nSites > 0 && allAfter {
					afterClose = true
				}
			}
			switch {
			case !discarded:
				r.Fail(VViolation, "receivers", fi.Key, "recv", w.Pos(pos), "a second consumer takes messages from the outbound channel and uses them: order and exactly-once of the writer no longer hold")
			case !afterClose:
				r.Fail(VViolation, "receivers", fi.Key, "recv", w.Pos(pos), "messages are discarded from the outbound channel while the connection is still open")
			default:
				r.OK("receivers", fi.Key, "drain", w.Pos(pos), "discarding receive after the connection was closed (shutdown drain)", true)
			}
			return true
		})
	})
	if nOther == 0 {
		r.OK("receivers", "util.MessageStream", "", opos, "the writer is the only receiver of the outbound channel", true)
	}

	// ---------------- fifo-source
	nAssign := 0
	w.eachModuleFunc(func(fi *FuncInfo) {
		inf := fi.Pkg.TypesInfo
		ast.Inspect(fi.Decl.Body, func(n ast.Node) bool {
			as, ok := n.(*ast.AssignStmt)
			if !ok {
				return true
			}
			for _, l := range as.Lhs {
				if fieldOf(inf, l) == so.outboundF {
					nAssign++
					if fi != so.ctor {
						r.Fail(VViolation, "fifo-source", fi.Key, "assign", w.Pos(l.Pos()), "the outbound channel field is replaced after construction: messages sent on the old channel are never written")
					}
				}
			}
			return true
		})
	})
	r.OK("fifo-source", "util.MessageStream.Outbound", "", w.Pos(so.outboundF.Pos()), fmt.Sprintf("%d assignments to the field outside the constructor literal", nAssign), true)
}

// streamAliveRule: the stream's goroutines are the connection. One that panics takes the process with it
// (no recover in the stream), and every message submitted or received afterwards is lost. Two structural
// conditions of staying alive are decided for package util:
//
//	nil result — a value obtained together with an error (the parser's message, an encoder's bytes) is not
//	  used as a receiver, indexed or dereferenced on a path where that error may be set (nilResultRule);
//	helper bounds — every function of the package that takes a byte slice indexes and slices it in range
//	  for every slice it may be given (the bounds engine of C08 on arbitrary input): what reaches these
//	  helpers is an encoding or a frame of any length, including an empty one after a failed encode.
func streamAliveRule(w *World, r *Report, rule string) {
	inUtil := func(fi *FuncInfo) bool { return fi.Pkg.Types.Name() == "util" }
	nilResultRule(w, r, rule, inUtil)
	var funcs []*FuncInfo
	for _, key := range w.sortedFuncKeys() {
		fi := w.Funcs[key]
		if fi.Decl.Body == nil || !inUtil(fi) || strings.HasSuffix(w.Fset.Position(fi.Decl.Pos()).Filename, "_test.go") {
			continue
		}
		has, counted := false, false
		if fi.Decl.Type.Params != nil {
			for _, f := range fi.Decl.Type.Params.List {
				t := fi.Pkg.TypesInfo.TypeOf(f.Type)
				if isByteSlice(t) {
					has = true
				}
				// a slice that comes with an integer (the count conn.Read returned) carries a contract between
				// the two that only the caller's context gives: such helpers are not decided on arbitrary input
				if isIntType(t) {
					counted = true
				}
			}
		}
		if has && !counted {
			funcs = append(funcs, fi)
		}
	}
	r2 := NewReport(r.Prop, r.Tier)
	r2.Rule("bounds", "", 0)
	r2.Rule("wrap", "", 0)
	r2.Rule("progress", "", 0)
	r2.Rule("alloc", "", 0)
	decideTotality(w, r2, funcs, nil)
	for _, o := range r2.Obs {
		// the question is what a helper does with the slice it is HANDED (an encoding or a frame of any
		// length); buffers it owns (a prefix array in a struct field) have lengths this rule does not know
		if o.Verdict != VOK && !strings.Contains(o.Diag, "len(P)") {
			continue
		}
		o.Instance = o.Rule + ":" + o.Instance
		o.Rule = rule
		r.Add(o)
	}
	r.OK(rule, "inventory", "util", "-", fmt.Sprintf("%d functions of package util take a byte slice; each decided on arbitrary input", len(funcs)), true)
}
