package main

import (
	"fmt"
	"sort"
	"strings"
)

var extraDumps = map[string]func(w *World, args []string){}

func runDump(w *World, args []string) {
	if f, ok := extraDumps[args[0]]; ok {
		f(w, args)
		return
	}
	switch args[0] {
	case "kinds":
		for _, k := range w.KindsL {
			fmt.Printf("%-45s Len=%v Marshal=%v Unmarshal=%v Read=%v Write=%v own=%v/%v/%v\n", k.Name, k.Len != nil, k.Marshal != nil, k.Unmarshal != nil, k.Read != nil, k.Write != nil, k.OwnLen, k.OwnMarshal, k.OwnUnmarshal)
		}
		fmt.Println("kinds:", len(w.KindsL))
	case "sizes":
		for _, k := range w.KindsL {
			if len(args) > 1 && !strings.Contains(k.Name, args[1]) {
				continue
			}
			ls := w.LenSummary(k)
			es := w.EncSummary(k)
			fmt.Printf("== %s\n", k.Name)
			if ls != nil {
				fmt.Printf("   Len    = %v\n", ls.Term)
				for _, n := range ls.Notes {
					fmt.Printf("   note(L): %s %s\n", w.Pos(n.Pos), n.Text)
				}
				for _, s := range ls.Stores {
					fmt.Printf("   store(L): %s %s %s\n", s.Path, s.Op, s.RHS)
				}
			}
			if es != nil {
				fmt.Printf("   Size   = %v\n   Extent = %v  origin=%s\n", es.Size, es.Extent, es.Origin)
				for _, n := range es.Notes {
					fmt.Printf("   note(M): %s %s\n", w.Pos(n.Pos), n.Text)
				}
				for _, s := range es.Stores {
					fmt.Printf("   store(M): %s %s %s [%s]\n", s.Path, s.Op, s.RHS, s.Guard)
				}
				recs := append([]*Rec(nil), es.Recs...)
				sort.SliceStable(recs, func(i, j int) bool { return recs[i].Off.String() < recs[j].Off.String() })
				for _, r := range es.Recs {
					loop := ""
					if r.Loop != nil {
						loop = fmt.Sprintf(" loop(%s step %v)", r.Loop.List, r.Loop.Step)
					}
					fmt.Printf("   rec off=%v w=%v %s %s %s guard[%s]%s\n", r.Off, r.W, r.Kind, r.Order, r.Src, r.Guard, loop)
				}
			}
		}
	case "fn":
		// dump fn <key> [mode]
		fi := w.Funcs[args[1]]
		if fi == nil {
			fmt.Println("no such function")
			return
		}
		mode := "decode"
		if len(args) > 2 {
			mode = args[2]
		}
		fs := w.Interpret(fi, mode)
		for _, s := range fs.Sites {
			fmt.Printf("   site %s %s %s buf=%s origin=%s:", w.Pos(s.Pos), s.Kind, s.Text, s.Buf, s.Origin)
			for _, n := range s.Needs {
				ok, _ := Prove(n.A, n.B, s.Facts)
				fmt.Printf(" [%v <= %v : %v]", n.A, n.B, ok)
			}
			fmt.Println()
		}
		for _, s := range fs.Stores {
			fmt.Printf("   store %s %s %s [%s]\n", s.Path, s.Op, s.RHS, s.Guard)
		}
		for _, rr := range fs.Rets {
			var vs []string
			for _, v := range rr.Vals {
				vs = append(vs, v.valString())
			}
			fmt.Printf("   ret %s [%s] iserr=%v (%s)\n", w.Pos(rr.Pos), rr.Guard, rr.IsErr, strings.Join(vs, ", "))
		}
		for _, l := range fs.Loops {
			fmt.Printf("   loop %s %s cond=%s bounded=%q\n", w.Pos(l.Pos), l.Kind, l.Cond, l.Bounded)
		}
		for _, n := range fs.Notes {
			fmt.Printf("   note: %s %s\n", w.Pos(n.Pos), n.Text)
		}
	case "bounds":
		// dump bounds <pkg-prefix>: unproved sites of every decoder-like function
		tot, open := 0, 0
		for _, key := range w.sortedFuncKeys() {
			if len(args) > 1 && !strings.HasPrefix(key, args[1]) {
				continue
			}
			fi := w.Funcs[key]
			if !w.isDecoderLike(fi) {
				continue
			}
			fs := w.Interpret(fi, "decode")
			seen := map[string]bool{}
			n, bad := 0, 0
			var lines []string
			for _, s := range fs.Sites {
				k := fmt.Sprintf("%d|%s|%s", s.Pos, s.Kind, s.Text)
				if seen[k] {
					continue
				}
				seen[k] = true
				n++
				for _, nd := range s.Needs {
					if !w.ProveX(nd.A, nd.B, s.Facts) {
						bad++
						lines = append(lines, fmt.Sprintf("      OPEN %s %s %s: %v <= %v", w.Pos(s.Pos), s.Kind, s.Text, nd.A, nd.B))
						if len(args) > 2 {
							for _, f := range s.Facts {
								if !badHyps[f.Src] {
									lines = append(lines, fmt.Sprintf("           fact %s   [%s] cond=%q", f.String(), f.Src, f.Cond))
								}
							}
						}
						break
					}
				}
			}
			tot += n
			open += bad
			fmt.Printf("%-55s sites=%d open=%d loops=%d\n", key, n, bad, len(fs.Loops))
			for _, l := range lines {
				fmt.Println(l)
			}
			for _, l := range fs.Loops {
				fmt.Printf("      loop %s %s cond=%s bounded=%q back=%d\n", w.Pos(l.Pos), l.Kind, l.Cond, l.Bounded, l.NBack)
				for _, cp := range l.Prog {
					fmt.Printf("         cursor %s strict=%v bound=%q %s\n", cp.Var, cp.Strict, cp.Bound, cp.MinWhy)
				}
			}
			for _, nt := range fs.Notes {
				fmt.Printf("      note %s %s\n", w.Pos(nt.Pos), nt.Text)
			}
		}
		fmt.Println("total sites", tot, "open", open)
	case "ensures":
		for _, k := range w.KindsL {
			if len(args) > 1 && !strings.Contains(k.Name, args[1]) {
				continue
			}
			if k.Unmarshal == nil {
				continue
			}
			fmt.Println("==", k.Name)
			for _, f := range w.Ensures(k.Unmarshal) {
				fmt.Printf("   %s   [%s]\n", f.String(), f.Src)
			}
		}
	case "facts":
		for _, k := range w.KindsL {
			if k.Len == nil || k.Marshal == nil {
				continue
			}
			v := w.compareSize(k)
			if i := strings.Index(v.Note, " under {"); i >= 0 {
				fmt.Printf("%-40s %s\n", k.Name, v.Note[i+7:])
			}
		}
	case "ctors":
		for _, k := range w.KindsL {
			if len(args) > 1 && !strings.Contains(k.Name, args[1]) {
				continue
			}
			for _, fi := range w.Constructors(k) {
				cs := w.CtorSummary(fi)
				fmt.Printf("== %s -> %s root=%s\n", fi.Key, k.Name, cs.Root)
				var keys []string
				for p := range cs.Fields {
					keys = append(keys, p)
				}
				sort.Strings(keys)
				for _, p := range keys {
					v := cs.Fields[p]
					extra := ""
					if bv, ok := v.(BufV); ok && cs.State != nil && cs.State.bufs[bv.ID] != nil {
						extra = " len=" + cs.State.bufs[bv.ID].Len.String() + " origin=" + cs.State.bufs[bv.ID].Origin
					}
					fmt.Printf("   %s = %s%s\n", p, v.valString(), extra)
				}
				for _, n := range cs.Notes {
					fmt.Printf("   note: %s %s\n", w.Pos(n.Pos), n.Text)
				}
			}
		}
	case "dec":
		for _, k := range w.KindsL {
			if len(args) > 1 && !strings.Contains(k.Name, args[1]) {
				continue
			}
			if k.Unmarshal == nil {
				continue
			}
			fi := w.FuncOf(k.Unmarshal)
			if fi == nil {
				continue
			}
			fs := w.Interpret(fi, "decode")
			fmt.Printf("== %s (%s)\n", k.Name, fi.Key)
			for _, r := range fs.Reads {
				loop := ""
				if r.Loop != nil {
					loop = fmt.Sprintf(" loop(%s)", r.Loop.List)
				}
				fmt.Printf("   read off=%v w=%v %s %s -> %s guard[%s]%s\n", r.Off, r.W, r.Kind, r.Order, r.Src, r.Guard, loop)
			}
			for _, s := range fs.Sites {
				fmt.Printf("   site %s %s %s :", w.Pos(s.Pos), s.Kind, s.Text)
				for _, n := range s.Needs {
					ok, _ := Prove(n.A, n.B, s.Facts)
					fmt.Printf(" [%v <= %v : %v]", n.A, n.B, ok)
				}
				fmt.Println()
			}
			for _, l := range fs.Loops {
				fmt.Printf("   loop %s %s cond=%s bounded=%q\n", w.Pos(l.Pos), l.Kind, l.Cond, l.Bounded)
				for _, c := range l.Cursors {
					fmt.Printf("      cursor %s:", c.Var)
					for _, p := range c.Paths {
						fmt.Printf(" %v;", p)
					}
					fmt.Println()
				}
			}
			for _, n := range fs.Notes {
				fmt.Printf("   note: %s %s\n", w.Pos(n.Pos), n.Text)
			}
		}
	}
}

func init() {
	extraDumps["registry"] = func(w *World, args []string) {
		es, err := w.registryEntries()
		if err != "" {
			fmt.Println("error:", err)
		}
		fmt.Println("{")
		for i, e := range es {
			c := ","
			if i == len(es)-1 {
				c = ""
			}
			fmt.Printf("  %q: [%d, %d, %d]%s\n", e.Name, e.Class, e.Field, e.Width, c)
		}
		fmt.Println("}")
	}
}

func init() {
	extraDumps["builders"] = func(w *World, args []string) {
		for _, k := range w.KindsL {
			for _, m := range w.methodsOf(k) {
				if isCodecMethod(m.Decl.Name.Name) {
					continue
				}
				fs := w.Interpret(m, "builder")
				if len(fs.Stores) == 0 {
					continue
				}
				fmt.Printf("== %s\n", m.Key)
				for _, s := range fs.Stores {
					fmt.Printf("   %s %s %s [%s]\n", s.Path, s.Op, s.Val.valString(), s.Guard)
				}
			}
		}
	}
}

func init() {
	extraDumps["layout"] = func(w *World, args []string) {
		for _, k := range w.KindsL {
			if len(args) > 1 && !strings.HasPrefix(k.Name, args[1]) {
				continue
			}
			es := w.EncSummary(k)
			if es == nil || k.Marshal == nil || !k.OwnMarshal {
				continue
			}
			used := map[string]bool{}
			kf := w.Facts(k)
			fmt.Printf("%s:", k.Name)
			seen := map[string]bool{}
			for _, rc := range es.Recs {
				off := w.applyNestedFacts(k, w.applyPremises(k, applyFacts(stripWraps(rc.Off, used), kf, used), used), used)
				wd := w.applyNestedFacts(k, w.applyPremises(k, applyFacts(stripWraps(rc.W, used), kf, used), used), used)
				s := fmt.Sprintf(" [%v,%v,%s%s]", off, wd, rc.Src, map[bool]string{true: "?" + rc.Guard, false: ""}[rc.Guard != ""])
				if !seen[s] {
					seen[s] = true
					fmt.Print(s)
				}
			}
			fmt.Println()
		}
	}
}

// layoutRecords returns the normalised write records of a kind: (offset, width, source, order, guard).
func (w *World) layoutRecords(k *Kind) [][5]string {
	es := w.EncSummary(k)
	if es == nil || k.Marshal == nil || !k.OwnMarshal {
		return nil
	}
	used := map[string]bool{}
	kf := w.Facts(k)
	norm := func(t *Term) *Term {
		return w.applyNestedFacts(k, w.applyPremises(k, applyFacts(stripWraps(t, used), kf, used), used), used)
	}
	var out [][5]string
	seen := map[string]bool{}
	for _, rc := range es.Recs {
		src := rc.Src
		if rc.Kind == "byte" && src == "0" {
			continue // an explicit zero byte: padding written by hand (the buffer starts zeroed anyway)
		}
		if rc.Kind == "packed" || strings.Contains(src, "opq(") {
			src = "packed"
		}
		guard := rc.Guard
		if rc.Loop != nil && rc.Loop.List != "" {
			guard = dropEmptinessGuards(guard, rc.Loop.List)
		}
		row := [5]string{norm(rc.Off).String(), norm(rc.W).String(), src, rc.Order, guard}
		key := strings.Join(row[:], "|")
		if !seen[key] {
			seen[key] = true
			out = append(out, row)
		}
	}
	return out
}

// dropEmptinessGuards removes, from the guard of a record written once per element of list, the tests
// that the list is not empty: they hold whenever there is an element to write.
func dropEmptinessGuards(guard, list string) string {
	if guard == "" {
		return guard
	}
	nonEmpty := map[string]bool{
		"0<len(" + list + ")":     true,
		"!(len(" + list + ")==0)": true,
		"!(" + list + "==nil)":    true,
	}
	var out []string
	for _, g := range strings.Split(guard, " && ") {
		if nonEmpty[g] {
			continue
		}
		if strings.HasPrefix(g, "!(") && strings.HasSuffix(g, ")") {
			inner := g[2 : len(g)-1]
			parts := splitOr(inner)
			if len(parts) > 1 {
				var rest []string
				for _, d := range parts {
					if nonEmpty[negCond(d)] {
						continue
					}
					rest = append(rest, d)
				}
				if len(rest) != len(parts) {
					c := "false"
					for _, d := range rest {
						c = orCond(c, d)
					}
					g = negCond(c)
					if g == "true" {
						continue
					}
				}
			}
		}
		out = append(out, g)
	}
	return strings.Join(out, " && ")
}

func init() {
	extraDumps["layoutjson"] = func(w *World, args []string) {
		fmt.Println("{")
		first := true
		for _, k := range w.KindsL {
			rows := w.layoutRecords(k)
			if rows == nil {
				continue
			}
			if !first {
				fmt.Println(",")
			}
			first = false
			fmt.Printf(" %q: {\"cite\": \"\", \"fields\": [", k.Name)
			for i, r := range rows {
				if i > 0 {
					fmt.Print(", ")
				}
				fmt.Printf("[%q, %q, %q, %q, %q]", r[0], r[1], r[2], r[3], r[4])
			}
			fmt.Print("]}")
		}
		fmt.Println("\n}")
	}
}
