package main

// S — ordering / exactly-once rules on the control-flow graph (DESIGN §2.9):
// enumeration of the simple paths through one iteration of a loop, with a
// caller-supplied classification of the nodes into events.

import (
	"go/ast"
	"go/token"
	"go/types"
	"strings"

	"golang.org/x/tools/go/cfg"
	"golang.org/x/tools/go/types/typeutil"
)

type cfgEvent struct {
	Kind string // caller-defined
	Obj  types.Object
	Obj2 types.Object
	Node ast.Node
	Text string
}

type cfgPath struct {
	Events []cfgEvent
	Back   bool // ends at the loop head again (one full iteration); false: leaves the function
	Blocks []int32
}

type loopPaths struct {
	Head  *cfg.Block
	Stmt  ast.Stmt
	Paths []*cfgPath
	Trunc bool
}

// noReturn: calls that end the goroutine or process.
func (w *World) noReturnCall(info *types.Info, call *ast.CallExpr) bool {
	if id, ok := call.Fun.(*ast.Ident); ok && id.Name == "panic" {
		if _, isB := info.Uses[id].(*types.Builtin); isB {
			return true
		}
	}
	if fn, ok := typeutil.Callee(info, call).(*types.Func); ok && fn.Pkg() != nil {
		n := fn.Name()
		switch fn.Pkg().Path() {
		case "os":
			return n == "Exit"
		case "log", "github.com/sirupsen/logrus":
			return strings.HasPrefix(n, "Fatal") || strings.HasPrefix(n, "Panic")
		case "runtime":
			return n == "Goexit"
		}
	}
	return false
}

// funcCFG builds the control-flow graph of a function body.
func (w *World) funcCFG(info *types.Info, body *ast.BlockStmt) *cfg.CFG {
	return cfg.New(body, func(c *ast.CallExpr) bool { return !w.noReturnCall(info, c) })
}

// loopsOf enumerates, for every loop head of the graph, the simple paths from
// the head back to it (iterations) and from the head out of the function.
// classify is called for every node of a block, in order; enter is called when
// a path steps from a range head into the range body (the implicit receive /
// element fetch of a RangeStmt).
func (w *World) loopsOf(g *cfg.CFG, classify func(n ast.Node, emit func(cfgEvent)), enter func(rs *ast.RangeStmt, emit func(cfgEvent))) []*loopPaths {
	// loop heads: targets of back edges in a DFS from the entry
	if len(g.Blocks) == 0 {
		return nil
	}
	state := map[*cfg.Block]int{}
	heads := map[*cfg.Block]bool{}
	var dfs func(b *cfg.Block)
	dfs = func(b *cfg.Block) {
		state[b] = 1
		for _, s := range b.Succs {
			switch state[s] {
			case 0:
				dfs(s)
			case 1:
				heads[s] = true
			}
		}
		state[b] = 2
	}
	dfs(g.Blocks[0])
	var out []*loopPaths
	for _, h := range g.Blocks {
		if !heads[h] {
			continue
		}
		lp := &loopPaths{Head: h, Stmt: h.Stmt}
		// go/cfg evaluates every communication of a select before branching; the
		// communication that actually happens is the one of the clause taken, so
		// its events are attributed to the clause body instead.
		comms := map[ast.Node]bool{}
		for _, b := range g.Blocks {
			if b.Kind == cfg.KindSelectCaseBody {
				if cc, ok := b.Stmt.(*ast.CommClause); ok && cc.Comm != nil {
					comms[cc.Comm] = true
				}
			}
		}
		blockEvents := func(b *cfg.Block) []cfgEvent {
			var evs []cfgEvent
			if b.Kind == cfg.KindSelectCaseBody {
				if cc, ok := b.Stmt.(*ast.CommClause); ok && cc.Comm != nil {
					classify(cc.Comm, func(e cfgEvent) { evs = append(evs, e) })
				}
			}
			for _, n := range b.Nodes {
				if comms[n] {
					continue
				}
				classify(n, func(e cfgEvent) { evs = append(evs, e) })
			}
			return evs
		}
		var walk func(b *cfg.Block, seen map[*cfg.Block]bool, evs []cfgEvent, blocks []int32)
		walk = func(b *cfg.Block, seen map[*cfg.Block]bool, evs []cfgEvent, blocks []int32) {
			if len(lp.Paths) > 20000 {
				lp.Trunc = true
				return
			}
			evs = append(append([]cfgEvent(nil), evs...), blockEvents(b)...)
			blocks = append(append([]int32(nil), blocks...), b.Index)
			if len(b.Succs) == 0 {
				lp.Paths = append(lp.Paths, &cfgPath{Events: evs, Back: false, Blocks: blocks})
				return
			}
			for i, s := range b.Succs {
				e2 := evs
				if b.Kind == cfg.KindRangeLoop && i == 0 && enter != nil {
					if rs, ok := b.Stmt.(*ast.RangeStmt); ok {
						e2 = append([]cfgEvent(nil), evs...)
						enter(rs, func(e cfgEvent) { e2 = append(e2, e) })
					}
				}
				if s == h {
					lp.Paths = append(lp.Paths, &cfgPath{Events: e2, Back: true, Blocks: blocks})
					continue
				}
				if seen[s] {
					continue // inner cycle: already taken once on this path
				}
				ns := map[*cfg.Block]bool{}
				for k := range seen {
					ns[k] = true
				}
				ns[s] = true
				walk(s, ns, e2, blocks)
			}
		}
		walk(h, map[*cfg.Block]bool{h: true}, nil, nil)
		out = append(out, lp)
	}
	return out
}

// fieldOf resolves x.f to the field object when e is a selector of a struct field.
func fieldOf(info *types.Info, e ast.Expr) *types.Var {
	se, ok := unparen(e).(*ast.SelectorExpr)
	if !ok {
		return nil
	}
	if sel, ok := info.Selections[se]; ok && sel.Kind() == types.FieldVal {
		v, _ := sel.Obj().(*types.Var)
		return v
	}
	return nil
}

// identObj returns the object of a plain identifier expression.
func identObj(info *types.Info, e ast.Expr) types.Object {
	if id, ok := unparen(e).(*ast.Ident); ok {
		if o := info.Uses[id]; o != nil {
			return o
		}
		return info.Defs[id]
	}
	return nil
}

// enclosingLoops reports whether pos lies inside a for/range statement of fn.
func insideLoop(fn *ast.FuncDecl, pos token.Pos) bool {
	in := false
	ast.Inspect(fn.Body, func(n ast.Node) bool {
		switch x := n.(type) {
		case *ast.ForStmt:
			if x.Body.Pos() <= pos && pos < x.Body.End() {
				in = true
			}
		case *ast.RangeStmt:
			if x.Body.Pos() <= pos && pos < x.Body.End() {
				in = true
			}
		}
		return true
	})
	return in
}

// localClosure: fun names a local variable of the function with body `body` that is bound exactly once, to a
// function literal, and is otherwise only called (never reassigned, passed on, started with go or deferred):
// a call of it runs the literal's body at the call site. It returns the literal.
func localClosure(info *types.Info, body *ast.BlockStmt, fun ast.Expr) *ast.FuncLit {
	id, ok := unparen(fun).(*ast.Ident)
	if !ok || body == nil {
		return nil
	}
	v, ok := identObj(info, id).(*types.Var)
	if !ok || v.IsField() || v.Pkg() == nil || v.Parent() == v.Pkg().Scope() {
		return nil
	}
	var lit *ast.FuncLit
	binds, bad := 0, false
	called := map[*ast.Ident]bool{}
	ast.Inspect(body, func(n ast.Node) bool {
		switch x := n.(type) {
		case *ast.AssignStmt:
			for i, l := range x.Lhs {
				if identObj(info, l) == v {
					binds++
					if len(x.Lhs) == len(x.Rhs) {
						lit, _ = unparen(x.Rhs[i]).(*ast.FuncLit)
					}
				}
			}
		case *ast.ValueSpec:
			for i, nm := range x.Names {
				if info.Defs[nm] == v {
					binds++
					if i < len(x.Values) {
						lit, _ = unparen(x.Values[i]).(*ast.FuncLit)
					}
				}
			}
		case *ast.GoStmt:
			if identObj(info, x.Call.Fun) == v {
				bad = true
			}
		case *ast.DeferStmt:
			if identObj(info, x.Call.Fun) == v {
				bad = true
			}
		case *ast.CallExpr:
			if ci, ok := unparen(x.Fun).(*ast.Ident); ok && info.Uses[ci] == v {
				called[ci] = true
			}
		}
		return true
	})
	if binds != 1 || lit == nil || bad {
		return nil
	}
	// every other mention is the function position of a call
	ast.Inspect(body, func(n ast.Node) bool {
		if i, ok := n.(*ast.Ident); ok && info.Uses[i] == v && !called[i] {
			bad = true
		}
		return true
	})
	// the literal does not call itself and has a plain body (a return inside it would end the literal, not the caller)
	ast.Inspect(lit.Body, func(n ast.Node) bool {
		switch x := n.(type) {
		case *ast.Ident:
			if info.Uses[x] == v {
				bad = true
			}
		case *ast.ReturnStmt:
			bad = true
		case *ast.FuncLit:
			return false
		}
		return true
	})
	if bad {
		return nil
	}
	return lit
}

// closureCallSites lists the statements of body that call the local closure lit is bound to.
func closureCallSites(info *types.Info, body *ast.BlockStmt, lit *ast.FuncLit) []ast.Stmt {
	var out []ast.Stmt
	ast.Inspect(body, func(n ast.Node) bool {
		es, ok := n.(*ast.ExprStmt)
		if !ok {
			return true
		}
		if c, ok := es.X.(*ast.CallExpr); ok {
			if l := localClosure(info, body, c.Fun); l == lit {
				out = append(out, es)
			}
		}
		return true
	})
	return out
}
