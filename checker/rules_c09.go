package main

// C09 — packet headers (DESIGN §3 C09).

import (
	"fmt"
	"go/types"
	"sort"
	"strings"
)

func init() {
	extraDumps["bv"] = func(w *World, args []string) {
		for _, key := range args {
			fi := w.Funcs[key]
			if fi == nil {
				fmt.Println("no function", key)
				continue
			}
			recv, sub := bvRecvOf(w, fi, nil)
			var as []*bvVal
			for _, fl := range fi.Decl.Type.Params.List {
				for range fl.Names {
					if isByteSlice(fi.Pkg.TypesInfo.TypeOf(fl.Type)) {
						as = append(as, symView("P", ValOf("len(P)")))
					} else {
						as = append(as, nil)
					}
				}
			}
			bi := &bvInterp{w: w, fi: fi, info: fi.Pkg.TypesInfo, tolerant: true}
			paths := bi.run(newBvCtx(), recv, sub, as, 0, nil)
			fmt.Printf("== %s: %d paths\n", key, len(paths))
			for i, p := range paths {
				fmt.Printf("-- path %d conds=%v undec=%v stores=%v\n", i, p.Conds, p.Undec, p.Stores)
				var fs []string
				for f := range p.Recv {
					fs = append(fs, f)
				}
				sort.Strings(fs)
				for _, f := range fs {
					fmt.Printf("   recv.%s = %s\n", f, p.Recv[f].String())
				}
				for j, rv := range p.Ret {
					if rv == nil {
						continue
					}
					if rv.View != nil {
						var ks []string
						for k := range rv.View.Buf.Cells {
							ks = append(ks, k)
						}
						sort.Strings(ks)
						for _, k := range ks {
							fmt.Printf("   ret%d[%s] = %s\n", j, k, rv.View.Buf.Cells[k].String())
						}
					} else if rv.isInt() {
						fmt.Printf("   ret%d = %s\n", j, rv.BV.String())
					} else {
						fmt.Printf("   ret%d opaque=%q\n", j, rv.Opaque)
					}
				}
			}
		}
	}
}

// bvRecvOf builds lane sources for the receiver struct of fi: integer and bool fields become declared-width
// sources named by their path, struct-valued fields become nested values, byte-slice fields symbolic views of
// the declared length. declared maps a field path to its width in bits (integers) or bytes (slices).
func bvRecvOf(w *World, fi *FuncInfo, declared map[string]int) (map[string]BV, map[string]*bvVal) {
	recv := map[string]BV{}
	sub := map[string]*bvVal{}
	if fi.Recv == nil {
		return recv, sub
	}
	st := structOf(fi.Recv)
	if st == nil {
		return recv, sub
	}
	var build func(st *types.Struct, prefix string, depth int) (map[string]BV, map[string]*bvVal)
	build = func(st *types.Struct, prefix string, depth int) (map[string]BV, map[string]*bvVal) {
		ints, subs := map[string]BV{}, map[string]*bvVal{}
		for i := 0; i < st.NumFields(); i++ {
			f := st.Field(i)
			path := prefix + f.Name()
			if wd, signed, ok := typeBits(f.Type()); ok {
				d := wd
				if dd, ok := declared[path]; ok {
					d = dd
				}
				v := srcBV(path, wd, d, signed)
				if b, ok := f.Type().Underlying().(*types.Basic); ok && b.Info()&types.IsBoolean != 0 {
					v.IsBool = true
				}
				ints[f.Name()] = v
				continue
			}
			if isByteSlice(f.Type()) {
				var l *Term
				if n, ok := declared[path]; ok {
					l = Const(int64(n))
				} else {
					l = LenOf(path)
				}
				subs[f.Name()] = symView(path, l)
				continue
			}
			if _, isPtr := f.Type().Underlying().(*types.Pointer); isPtr {
				continue
			}
			if inner := structOf(f.Type()); inner != nil && depth < 2 {
				fi, fs := build(inner, path+".", depth+1)
				subs[f.Name()] = &bvVal{Fields: fi, Sub: fs}
			}
		}
		return ints, subs
	}
	return build(st, "", 0)
}

var _ = strings.TrimSpace

func init() {
	extraDumps["builderpairs"] = func(w *World, args []string) {
		for _, k := range w.KindsL {
			type bs struct {
				key string
				set map[string]bool
			}
			var all []bs
			for _, m := range w.methodsOf(k) {
				if isCodecMethod(m.Decl.Name.Name) {
					continue
				}
				fs := w.Interpret(m, "builder")
				set := map[string]bool{}
				for _, s := range fs.Stores {
					if strings.HasPrefix(s.Path, "$.") && s.Op == "=" {
						if _, isInt := s.Val.(IntV); isInt {
							set[strings.TrimSuffix(s.Path, "[]")] = true
						}
					}
				}
				if len(set) > 0 {
					all = append(all, bs{m.Key, set})
				}
			}
			for _, a := range all {
				for _, b := range all {
					if a.key == b.key {
						continue
					}
					common, onlyA := 0, []string{}
					for p := range a.set {
						if b.set[p] {
							common++
						} else {
							onlyA = append(onlyA, p)
						}
					}
					if common > 0 && len(onlyA) > 0 {
						sort.Strings(onlyA)
						fmt.Printf("%s stores %v more than %s (common %d)\n", a.key, onlyA, b.key, common)
					}
				}
			}
		}
	}
}
