package main

import (
	"go/token"
	"go/types"
	"sort"
	"strings"
)

func init() {
	register(&propCheck{
		ID:  "C06",
		Run: runC06,
		Level: "Static analysis (abstract interpretation of every Len / MarshalBinary over the typed AST, symbolic size terms). Also decided: wirelen (the C02 rule) — an encoder that sizes its buffer from a stored length finds that length equal to the bytes the element occupies at the moment of encoding; order/<builder>/every-path — an adder adds on every successful path. Also decided: errfail (as in C02): a child that cannot be encoded fails the parent instead of being left out of an encoding whose size still counts it." +
			"Decides, for every encodable kind in every package: size/<kind> — the length of the slice the encoder returns and the extent it writes are the same term as the size function's result (for all field values and child counts at once, by induction over kinds), up to the grammar's zero padding, under constructor-established widths of fixed-size fields and the reviewed declared-length premises; " +
			"embed/<kind>/<child> — each child's complete encoding is placed, not a capped window of it; nooverlap/<kind> — no two writes provably overlap. " +
			"Not decided: the 16-bit wrap of a total above 65535 bytes; the bytes.Buffer/binary.Write kinds (DHCP, LLDP TLVs) beyond what is listed; values of fields (C03).",
		Assumptions: []string{
			"Go semantics as implemented by go/types (x/tools v0.29.0)",
			"induction hypothesis: len(child.MarshalBinary()) = child.Len() is the child kind's own size obligation (for interface-typed children: of every implementation in the module)",
			"fixed-width byte-slice fields keep the width their constructors give them (values built through the API)",
			"declared-length premises listed in checker/premises.go",
		},
	})
}

func runC06(w *World, r *Report) {
	r.Rule("shadow", "no := in an inner scope re-declares a same-typed variable of the function that is read afterwards (or a named result): the value computed there would be lost", 1)
	shadowRule(w, r, "shadow", func(fi *FuncInfo) bool {
		return fi.Pkg.Types.Name() == "openflow13" || fi.Pkg.Types.Name() == "protocol" || fi.Pkg.Types.Name() == "common"
	})
	r.Rule("observers", "methods that formatting calls implicitly (String, Error, …) leave the value unchanged", 1)
	observerRule(w, r, "observers", "openflow13", "protocol", "util")
	r.Rule("nowrap", "no size function of a packet-header kind computes a length in arithmetic narrower than 16 bits that the field ranges can overflow (the C09 rule; a wrapped size cuts the header short)", 10)
	{
		r2 := NewReport(r.Prop, r.Tier)
		runC09(w, r2)
		for _, o := range r2.Obs {
			if o.Rule == "nowrap" {
				r.Add(o)
			}
		}
	}
	r.Rule("declen", "stored length fields the size rules rely on are kept equal to the element size by every constructor and builder", 13)
	declenRule(w, r)
	r.Rule("size", "sizeM ≡ sizeL (and extentM ≡ sizeL up to round8) as symbolic terms, per kind", 100)
	r.Rule("embed", "child encodings are copied whole", 60)
	r.Rule("nooverlap", "no two write records provably overlap", 100)
	sizeRules(w, r, func(k *Kind) bool { return true })
	r.Rule("order", "builders only extend the lists the encoder walks; they never reassign elements in place", 5)
	orderRule(w, r)
	// an encoder that sizes its buffer from a stored length is only as right as that length is at the moment of
	// encoding (a child that grew after it was added): the C02 rule
	r.Rule("wirelen", "the declared length each encoder puts on the wire (and sizes its buffer by) equals the bytes the element occupies at the moment of encoding (the C02 rule)", 25)
	if ak, ik, ok := elementKinds(w); ok {
		runWirelen(w, r, ak, ik)
	}
	r.Rule("errfail", "in the codecs a failed step fails the whole: the branch for a non-nil error returns a non-nil error (no log-and-continue that leaves an element out while sizes still count it)", 50)
	errFailRule(w, r, "errfail", func(fi *FuncInfo) bool {
		n := fi.Pkg.Types.Name()
		return n == "openflow13" || n == "protocol" || n == "common"
	})
	r.Rule("childerr", "the error of every encode call that can fail is read before the child's bytes are used (a child that produced nothing makes the parent fail instead of being left out silently)", 60)
	childErrRule(w, r, "childerr")
	r.Rule("noconsume", "size functions, encoders and read accessors (Get*, Header, String) hand nothing reachable from the value to outside code that could change it (a drained reader, a re-sorted list): what was added stays in the message", 200)
	noConsumeRule(w, r, "noconsume", readRoot)
	r.Rule("typednil", "no pointer that may be nil is stored into an interface-typed field (a typed nil passes the encoders' != nil guards)", 1)
	typedNilRule(w, r, "typednil")
}

// sizeRules runs size/embed/nooverlap over the selected kinds.
func sizeRules(w *World, r *Report, sel func(k *Kind) bool) {
	for _, k := range w.KindsL {
		if k.Len == nil || k.Marshal == nil || !sel(k) {
			continue
		}
		es := w.EncSummary(k)
		pos := "-"
		var tp token.Pos
		if fi := w.FuncOf(k.Marshal); fi != nil {
			tp = fi.Decl.Pos()
			pos = w.Pos(tp)
		}
		sv := w.compareSize(k)
		switch sv.Verdict {
		case VOK:
			r.OK("size", k.Name, "", pos, sv.Note, sv.Symbolic)
		default:
			r.Fail(sv.Verdict, "size", k.Name, "", pos, sv.Diag)
		}
		if es == nil || es.Size == nil {
			continue
		}
		if k.OwnMarshal {
			w.embedCheck(k, es, func(inst, verdict, diag, note string, p token.Pos) {
				if verdict == VOK {
					r.OK("embed", k.Name, inst, w.Pos(p), note, true)
				} else {
					r.Fail(verdict, "embed", k.Name, inst, w.Pos(p), diag)
				}
			})
		}
		if d, bad := overlapCheck(es.Recs); bad {
			r.Fail(VViolation, "nooverlap", k.Name, "", pos, d)
		} else {
			r.OK("nooverlap", k.Name, "", pos, "", len(es.Recs) > 1)
		}
	}
	builtRule(w, r, "size", sel)
	var prem []string
	for _, p := range premiseTable {
		prem = append(prem, p.Kind+": "+p.Atom+" = "+p.To().String()+" — "+p.Reason)
	}
	sort.Strings(prem)
	r.Extra["declared_length_premises"] = prem
}

// orderRule: children are encoded in the order the API put them into the list (append at the end, prepend
// at the front, the others keeping their relative order). A builder that overwrites list elements in place
// (a swap, an indexed assignment) changes the order of what was already added, or drops an element.
func orderRule(w *World, r *Report) {
	for _, k := range w.KindsL {
		es := w.EncSummary(k)
		if es == nil || !k.OwnMarshal {
			continue
		}
		lists := map[string]bool{}
		for _, rec := range es.Recs {
			if rec.Kind == "child" && rec.Loop != nil && rec.Loop.List != "" {
				lists[rec.Loop.List] = true
			}
		}
		if len(lists) == 0 {
			continue
		}
		for _, m := range w.methodsOf(k) {
			if isCodecMethod(m.Decl.Name.Name) {
				continue
			}
			fs := w.Interpret(m, "builder")
			touched, bad := "", ""
			for _, s := range fs.Stores {
				p := strings.TrimSuffix(s.Path, "[]")
				if !lists[p] {
					continue
				}
				touched = p
				if strings.HasSuffix(s.Path, "[]") {
					bad = p
				}
			}
			if touched == "" {
				continue
			}
			pos := w.Pos(m.Decl.Pos())
			// an adder extends the list on every successful path: a path that returns with the list as it was has
			// dropped its argument (or put it somewhere the encoder does not look for it)
			takesBytes := false
			if sg, ok := m.Obj.Type().(*types.Signature); ok {
				for i := 0; i < sg.Params().Len(); i++ {
					if isByteSlice(sg.Params().At(i).Type()) {
						takesBytes = true // a step of a decoder: what it stores depends on the input, not on the caller's wish
					}
				}
			}
			if bad == "" && !takesBytes {
				extended, skipped := 0, token.NoPos
				for _, rt := range fs.Rets {
					if rt.IsErr || rt.St == nil {
						continue
					}
					grown := false
					if sv, ok := rt.St.fields[touched].(SliceV); ok {
						for _, e := range sv.Elems {
							if sp, isSpread := e.(SpreadV); !isSpread || sp.S.Path != touched {
								grown = true
							}
						}
					}
					if grown {
						extended++
					} else if skipped == token.NoPos {
						skipped = rt.Pos
					}
				}
				if extended > 0 && skipped != token.NoPos && !guardedByNilArg(m, rt0Guard(fs, skipped)) {
					r.Fail(VViolation, "order", m.Key, touched+"/every-path", w.Pos(skipped), "the builder extends "+touched+" on some paths and returns with the list unchanged on another: on that path what the caller handed over is not encoded where the API put it (it is dropped, or folded into an element that was added earlier)")
					continue
				}
			}
			if bad != "" {
				r.Fail(VViolation, "order", m.Key, bad, pos, "the builder assigns to elements of "+bad+" in place: elements that were already added change position (or are lost), so the children are not encoded in the order the API was given them")
			} else {
				r.OK("order", m.Key, touched, pos, "the list is only extended (append / prepend of the new element around the old contents)", true)
			}
		}
	}
}

// rt0Guard returns the path condition of the return at pos.
func rt0Guard(fs *FuncSummary, pos token.Pos) string {
	for _, rt := range fs.Rets {
		if rt.Pos == pos {
			return rt.Guard
		}
	}
	return ""
}

// guardedByNilArg: the path is taken only when an argument is nil (nothing to add).
func guardedByNilArg(m *FuncInfo, guard string) bool {
	for _, cj := range conjunctsOf(guard) {
		cj = strings.TrimSpace(cj)
		if strings.HasPrefix(cj, "arg:") && strings.HasSuffix(cj, "==nil") {
			return true
		}
	}
	return false
}
