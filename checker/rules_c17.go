package main

// C17 — generic match-field builder (DESIGN §3 C17). Three clauses are
// decided; the numeric placement of value and mask is not.

import (
	"fmt"
	"go/ast"
	"go/token"
	"go/types"
	"regexp"
	"strings"

	"golang.org/x/tools/go/types/typeutil"
)

func init() {
	register(&propCheck{
		ID:      "C17",
		Run:     runC17,
		NeedSSA: true,
		Level:   "Static analysis (guard prover on the width-copy helper, may-alias/mutation analysis of the builder's arguments on go/ssa, closed-form abstract interpretation of the window-mask helper, error-propagation and mask-check rules on the typed syntax). Decides five NECESSARY clauses of the property: nopanic — in the helper that right-aligns the big integer into a width-sized slice every index, slice and allocation site is proved in range from the dominating guards (a value wider than the field, or negative, takes the error return instead of the copy); nomutate — nothing derived from the caller's value/mask arguments is written through (in particular no receiver-mutating math/big method on a pointer derived from the argument), stored, sent or returned; errprop — every call in the builder that can fail has its error bound to a variable, tested by the next statement and returned (nil value, non-nil error), and every return of the builder has exactly one of (value, error) nil; maskform — on every feasible path the window-mask helper returns the closed form 'length ones starting at bit start' (math/big and machine-word operations evaluated on closed forms, every shift proved not to lose bits); maskcheck — the builder compares the value with value AND mask (or tests value AND-NOT mask) and returns an error on a difference. NOT decided (no static argument in reach): that the shifted value equals the input placed at the window under each of the three calling conventions, the width bookkeeping for masked lookups, and byte-agreement with the dedicated register constructor. maskcheck also requires that the value, the mask and their AND are not written between the AND and the comparison (no second try that accepts what the first comparison refused).",
		Assumptions: []string{
			"math/big and reflect models in checker/alias.go (which methods mutate their receiver, which results alias their operands)",
			"(*big.Int).Bytes returns the magnitude's big-endian bytes (length >= 0)",
		},
	})
}

func runC17(w *World, r *Report) {
	r.Rule("shadow", "no := in an inner scope re-declares a same-typed variable of the function that is read afterwards (or a named result): the value computed there would be lost", 1)
	shadowRule(w, r, "shadow", func(fi *FuncInfo) bool { return fi.Pkg.Types.Name() == "openflow13" })
	r.Rule("nopanic", "the width-copy helper cannot index out of range; oversize and negative values take the error return", 2)
	r.Rule("nomutate", "the builder leaves its value and mask arguments untouched and does not retain them", 2)
	r.Rule("errprop", "errors of the lookup and of the width check reach the caller; no return is (nil, nil)", 4)
	r.Rule("maskargs", "the data's bit length stands in for the window width only under conditions on the number of window arguments, never because a width is 0", 1)
	r.Rule("errsource", "an error the builder returns comes from the registry lookup, the mask test or the width-copy helper", 2)
	r.Rule("maskform", "the window mask helper yields exactly 'length ones starting at bit start' on every path", 1)
	r.Rule("maskcheck", "a value with a bit outside the mask takes the error return", 1)
	r.Rule("masksource", "the field's mask is produced only by the window-mask helper that maskform decides", 1)
	r.Rule("convform", "the value converter hands the big integer exactly the argument's own value (no transformation per input shape)", 3)
	convFormRule(w, r)
	r.Rule("fresh", "the builders' helpers hand out no object held in package-level storage", 1)
	{
		r2 := NewReport(r.Prop, r.Tier)
		escapeRule(w, r2, nil)
		for _, o := range r2.Obs {
			o.Rule = "fresh"
			r.Add(o)
		}
	}
	nb := w.Funcs["openflow13.NewMatchField"]
	if nb == nil {
		r.Fail(VViolation, "errprop", "openflow13.NewMatchField", "", "-", "the generic builder openflow13.NewMatchField no longer exists (anchor cannot be resolved)")
		return
	}
	info := nb.Pkg.TypesInfo
	npos := w.Pos(nb.Decl.Pos())
	// the builder and the same-package functions it delegates to in tail position (return f(…) with the
	// same (field, error) results): a split into a generic wrapper and a non-generic core is one builder
	parts := builderParts(w, nb)
	isPart := map[*types.Func]bool{}
	for _, p := range parts {
		isPart[p.Obj] = true
	}
	inspectParts := func(f func(ast.Node) bool) {
		for _, p := range parts {
			ast.Inspect(p.Decl.Body, f)
		}
	}

	// ---------------------------------------------------------------- nopanic (window arguments)
	// the builder indexes its variadic window list: every element it touches must exist on that path
	// (len(mask) tells how many were given; `mask != nil` does not: an empty, non-nil list has none)
	for _, p := range parts {
		fs := w.Interpret(p, "decode")
		seen := map[string]bool{}
		for _, st := range fs.Sites {
			if st.Origin != "list" {
				continue
			}
			inst := "window:" + normSite(st.Text) + "@" + fmt.Sprint(w.Fset.Position(st.Pos).Line-w.Fset.Position(p.Decl.Pos()).Line)
			if seen[inst] {
				continue
			}
			seen[inst] = true
			okAll := true
			var failed Need
			for _, nd := range st.Needs {
				if !w.ProveX(nd.A, nd.B, st.Facts) {
					okAll, failed = false, nd
				}
			}
			if okAll {
				r.OK("nopanic", p.Key, inst, w.Pos(st.Pos), "the window argument indexed here exists on this path", true)
			} else {
				r.Fail(VViolation, "nopanic", p.Key, inst, w.Pos(st.Pos), fmt.Sprintf("%s: %s needs %v <= %v, which the conditions on this path do not give (an empty but non-nil argument list reaches it): index out of range", st.Text, failed.What, failed.A, failed.B))
			}
		}
	}
	// ---------------------------------------------------------------- nopanic
	// helpers called from the builder that produce the ByteArrayField payloads
	helpers := map[*FuncInfo]bool{}
	inspectParts(func(n ast.Node) bool {
		if c, ok := n.(*ast.CallExpr); ok {
			if fn, ok := typeutil.Callee(info, c).(*types.Func); ok {
				if fi := w.FuncOf(fn); fi != nil && fi.Recv == nil {
					sig := fn.Type().(*types.Signature)
					if sig.Results().Len() >= 1 && strings.Contains(types.TypeString(sig.Results().At(0).Type(), nil), "ByteArrayField") {
						helpers[fi] = true
					}
				}
			}
		}
		return true
	})
	if len(helpers) == 0 {
		// the copy is done inline: analyse the builder itself
		helpers[nb] = true
	}
	for fi := range helpers {
		fs := w.Interpret(fi, "decode")
		pos := w.Pos(fi.Decl.Pos())
		undec := ""
		for _, n := range fs.Notes {
			if strings.Contains(n.Text, "unhandled") || strings.Contains(n.Text, "goto") || strings.Contains(n.Text, "general for loop") {
				undec = normNote(n.Text)
			}
		}
		if undec != "" {
			r.Fail(VUndecided, "nopanic", fi.Key, "", pos, "shape outside the interpreter's language: "+undec)
			continue
		}
		seen := map[string]bool{}
		for _, s := range fs.Sites {
			inst := s.Kind + ":" + normSite(s.Text)
			if seen[inst] {
				continue
			}
			seen[inst] = true
			okAll := true
			var failed Need
			for _, nd := range s.Needs {
				if ok, _ := Prove(nd.A, nd.B, s.Facts); !ok {
					okAll = false
					failed = nd
					break
				}
			}
			if okAll {
				var fs []string
				for _, f := range s.Facts {
					fs = append(fs, f.String())
				}
				r.OK("nopanic", fi.Key, inst, w.Pos(s.Pos), "in range under {"+strings.Join(fs, "; ")+"}", true)
			} else {
				r.Fail(VViolation, "nopanic", fi.Key, inst, w.Pos(s.Pos), fmt.Sprintf("%s: %s needs %v <= %v, which no dominating guard gives — a value wider than the field panics here instead of being reported", s.Text, failed.What, failed.A, failed.B))
			}
		}
		// negative values: a sign test guards the copy
		hasSign := false
		ast.Inspect(fi.Decl.Body, func(n ast.Node) bool {
			if c, ok := n.(*ast.CallExpr); ok {
				if fn, ok := typeutil.Callee(fi.Pkg.TypesInfo, c).(*types.Func); ok && fn.Pkg() != nil && fn.Pkg().Path() == "math/big" && (fn.Name() == "Sign" || fn.Name() == "Cmp") {
					hasSign = true
				}
			}
			return true
		})
		if fi != nb {
			if hasSign {
				r.OK("nopanic", fi.Key, "sign", pos, "the sign of the value is tested before its magnitude is copied", true)
			} else {
				r.Fail(VViolation, "nopanic", fi.Key, "sign", pos, "the magnitude of the value is copied without a sign test: a negative input is silently encoded as its absolute value")
			}
		}
	}

	// ---------------------------------------------------------------- nomutate
	fn := w.SSAFunc(nb)
	if fn == nil {
		r.Fail(VUndecided, "nomutate", nb.Key, "", npos, "no SSA form for the generic builder")
	} else {
		for idx, p := range fn.Params {
			if idx == 0 {
				continue // the field name (a string)
			}
			a := NewAlias(w)
			sum := a.AnalyzeParam(fn, idx)
			inst := "arg:" + p.Name()
			bad := false
			dedup := map[string]bool{}
			for _, e := range sum.events {
				k := e.Kind + ":" + e.What
				if dedup[k] {
					continue
				}
				dedup[k] = true
				bad = true
				v := VViolation
				if e.Kind == "unmodelled" {
					v = VUndecided
				}
				r.Fail(v, "nomutate", nb.Key, inst+"/"+e.Kind+"@"+ssaFuncKey(w, e.Fn), w.Pos(e.Pos), fmt.Sprintf("the caller's argument %s: %s", p.Name(), e.What))
			}
			if sum.returns {
				bad = true
				r.Fail(VViolation, "nomutate", nb.Key, inst+"/return", npos, "the result may alias the caller's argument "+p.Name())
			}
			if !bad {
				r.OK("nomutate", nb.Key, inst, npos, fmt.Sprintf("%d functions receive a value derived from it; none writes through, stores, sends or returns it", len(a.Visited)), true)
			}
		}
	}

	// ---------------------------------------------------------------- maskform
	if rm := w.Funcs["openflow13.rangeMask"]; rm == nil {
		r.Fail(VViolation, "maskform", "openflow13.rangeMask", "", "-", "the window mask helper openflow13.rangeMask no longer exists (anchor cannot be resolved)")
	} else {
		pos := w.Pos(rm.Decl.Pos())
		ctx := newBvCtx()
		st := ctx.declare("start", 64, false, 0, 1<<20)
		ln := ctx.declare("length", 64, false, 0, 1<<20)
		paths := w.RunBV(rm, ctx, nil, []*bvVal{{BV: st}, {BV: ln}})
		for _, p := range paths {
			inst := ""
			if len(p.Conds) > 0 {
				inst = "path:" + strings.Join(p.Conds, "&&")
			}
			if len(p.Undec) > 0 {
				r.Fail(VUndecided, "maskform", rm.Key, inst, pos, "outside the bit-level language: "+strings.Join(p.Undec, "; "))
				continue
			}
			if infeasible(p.Ctx) {
				continue
			}
			if len(p.Ret) != 1 || p.Ret[0] == nil || p.Ret[0].Big == nil {
				r.Fail(VUndecided, "maskform", rm.Key, inst, pos, "the helper does not return a big integer the engine can follow")
				continue
			}
			b := p.Ret[0].Big
			dom := "start, length >= 0"
			if len(p.Conds) > 0 {
				dom += " and " + strings.Join(p.Conds, " and ")
			}
			switch {
			case b.Mask != nil && p.Ctx.equal(b.Mask.Lo, ValOf("start")) && p.Ctx.equal(b.Mask.N, ValOf("length")):
				r.OK("maskform", rm.Key, inst, pos, fmt.Sprintf("on {%s}: %v ones starting at bit %v", dom, b.Mask.N, b.Mask.Lo), true)
			case b.Mask != nil:
				r.Fail(VViolation, "maskform", rm.Key, inst, pos, fmt.Sprintf("on {%s} the mask is %v ones starting at bit %v; specified: length ones starting at bit start", dom, b.Mask.N, b.Mask.Lo))
			default:
				why := b.Why
				if why == "" {
					why = "the result has no closed form 'n ones << lo'"
				}
				r.Fail(VViolation, "maskform", rm.Key, inst, pos, fmt.Sprintf("on {%s}: %s", dom, why))
			}
		}
	}

	// ---------------------------------------------------------------- maskcheck
	// the variables handed to the width-copy helper as mask and as value
	{
		var maskObj, valueObj types.Object
		inspectParts(func(n ast.Node) bool {
			as, ok := n.(*ast.AssignStmt)
			if !ok || len(as.Rhs) != 1 {
				return true
			}
			c, ok := unparen(as.Rhs[0]).(*ast.CallExpr)
			if !ok || len(c.Args) < 1 {
				return true
			}
			fnc, _ := typeutil.Callee(info, c).(*types.Func)
			if fnc == nil {
				return true
			}
			fi := w.FuncOf(fnc)
			if fi == nil || !helpers[fi] {
				return true
			}
			o := identObj(info, c.Args[0])
			// which one feeds field.Mask? the result variable later assigned to a selector named Mask
			res := identObj(info, as.Lhs[0])
			isMask := false
			inspectParts(func(m ast.Node) bool {
				if a2, ok := m.(*ast.AssignStmt); ok && len(a2.Lhs) == 1 && len(a2.Rhs) == 1 {
					if se, ok := unparen(a2.Lhs[0]).(*ast.SelectorExpr); ok && se.Sel.Name == "Mask" && identObj(info, a2.Rhs[0]) == res && res != nil {
						isMask = true
					}
				}
				return true
			})
			if se, ok := unparen(as.Lhs[0]).(*ast.SelectorExpr); ok && se.Sel.Name == "Mask" {
				isMask = true
			}
			if isMask {
				maskObj = o
			} else {
				valueObj = o
			}
			return true
		})
		if maskObj != nil {
			// masksource: the mask comes from the window-mask helper that maskform decides, on every path
			rmf := w.Funcs["openflow13.rangeMask"]
			nsrc, bad := 0, ""
			inspectParts(func(n ast.Node) bool {
				as, ok := n.(*ast.AssignStmt)
				if !ok || len(as.Lhs) != len(as.Rhs) {
					return true
				}
				for i, l := range as.Lhs {
					if identObj(info, l) != maskObj {
						continue
					}
					nsrc++
					c, isCall := unparen(as.Rhs[i]).(*ast.CallExpr)
					var fnc *types.Func
					if isCall {
						fnc, _ = typeutil.Callee(info, c).(*types.Func)
					}
					if fnc == nil || rmf == nil || fnc.Origin() != rmf.Obj {
						bad = w.Pos(as.Pos()) + ": " + types.ExprString(as.Rhs[i])
					}
				}
				return true
			})
			switch {
			case bad != "":
				r.Fail(VViolation, "masksource", nb.Key, "", npos, "the mask of the field is also produced by "+bad+", not by the window-mask helper openflow13.rangeMask whose closed form is decided: for the inputs taking that path the mask is whatever that expression yields (a 32-bit helper drops the bits above 31 instead of making the value check fail)")
			case nsrc > 0:
				r.OK("masksource", nb.Key, "", npos, fmt.Sprintf("every one of the %d assignments of the mask is a call of openflow13.rangeMask", nsrc), true)
			}
		}
		// maskargs: where the width may come from the data. The one-argument form takes the width from the
		// data's bit length; with an explicit width (two or three window arguments) the width is the caller's,
		// also when it is 0 — the empty window, which must refuse every non-zero value. The data's bit length
		// (value.BitLen()) may therefore be asked for only under conditions on the NUMBER of window arguments;
		// a BitLen taken under a test that some integer equals 0 ("no width given") turns an explicit 0 into the
		// data's size.
		{
			fs := w.Interpret(nb, "decode")
			zeroTest := regexp.MustCompile(`^[A-Za-z_][A-Za-z0-9_.:\[\]*]*==0$`)
			nCalls := 0
			for _, c := range fs.Calls {
				if c.Callee == nil || c.Callee.Name() != "BitLen" || c.Callee.Pkg() == nil || c.Callee.Pkg().Path() != "math/big" {
					continue
				}
				inPart := false
				for _, p := range parts {
					if c.Pos >= p.Decl.Pos() && c.Pos <= p.Decl.End() {
						inPart = true
					}
				}
				if !inPart {
					continue
				}
				nCalls++
				inst := fmt.Sprintf("bitlen#%d", nCalls)
				bad := ""
				for _, cj := range conjunctsOf(c.Guard) {
					cj = strings.TrimSpace(cj)
					if zeroTest.MatchString(cj) && !strings.HasPrefix(cj, "len(") {
						bad = cj
					}
				}
				if bad != "" {
					r.Fail(VViolation, "maskargs", nb.Key, inst, w.Pos(c.Pos), "the data's bit length is taken as the window width under ["+c.Guard+"]: the test "+bad+" makes an explicit width of 0 (the empty window, which must refuse every non-zero value) indistinguishable from 'no width given', and the window becomes as wide as the data")
				} else {
					r.OK("maskargs", nb.Key, inst, w.Pos(c.Pos), "the data's bit length is used under ["+c.Guard+"], a condition on the number of window arguments", true)
				}
			}
			if nCalls == 0 {
				r.OK("maskargs", nb.Key, "bitlen", npos, "the builder never takes a width from the data's bit length", false)
			}
		}
		if maskObj == nil || valueObj == nil {
			r.Fail(VUndecided, "maskcheck", nb.Key, "", npos, "cannot identify the big integers that become the field's value and mask")
		} else {
			// accepted idioms: t := And(value, mask); value.Cmp(t) != 0 → error   |   AndNot(value, mask).Sign()/BitLen() != 0 → error
			tampered := ""
			scan := func(inspectParts func(func(ast.Node) bool), info *types.Info, valueObj, maskObj types.Object, helperMode bool) bool {
				found := false
				inspectParts(func(n ast.Node) bool {
					is, ok := n.(*ast.IfStmt)
					if !ok {
						return true
					}
					retErr := false
					for _, bs := range is.Body.List {
						if rs, ok := bs.(*ast.ReturnStmt); ok && len(rs.Results) == 2 {
							if id, ok := unparen(rs.Results[0]).(*ast.Ident); ok && id.Name == "nil" {
								if id2, ok2 := unparen(rs.Results[1]).(*ast.Ident); !ok2 || id2.Name != "nil" {
									retErr = true
								}
							}
						}
						// inside a helper whose only result is the error
						if rs, ok := bs.(*ast.ReturnStmt); ok && helperMode && len(rs.Results) == 1 {
							if id, ok := unparen(rs.Results[0]).(*ast.Ident); !ok || id.Name != "nil" {
								retErr = true
							}
						}
					}
					be, ok := unparen(is.Cond).(*ast.BinaryExpr)
					if !retErr || !ok || be.Op != token.NEQ {
						return true
					}
					if v, isC := constIntOf(info, be.Y); !isC || v != 0 {
						return true
					}
					call, ok := unparen(be.X).(*ast.CallExpr)
					if !ok {
						return true
					}
					se, ok := unparen(call.Fun).(*ast.SelectorExpr)
					if !ok {
						return true
					}
					// bigAnd(e): e is (or is a variable assigned from) X.And(value, mask) / X.AndNot(value, mask)
					var bigOp func(e ast.Expr, op string) bool
					var andObj types.Object
					andPos := token.NoPos
					bigOp = func(e ast.Expr, op string) bool {
						if o := identObj(info, e); o != nil {
							ok2 := false
							inspectParts(func(m ast.Node) bool {
								if a2, ok := m.(*ast.AssignStmt); ok && len(a2.Lhs) == 1 && len(a2.Rhs) == 1 && identObj(info, a2.Lhs[0]) == o && a2.Pos() < is.Pos() {
									if bigOp(a2.Rhs[0], op) {
										ok2 = true
										andObj, andPos = o, a2.End()
									}
								}
								return true
							})
							return ok2
						}
						c2, ok := unparen(e).(*ast.CallExpr)
						if !ok || len(c2.Args) != 2 {
							return false
						}
						s2, ok := unparen(c2.Fun).(*ast.SelectorExpr)
						if !ok || s2.Sel.Name != op {
							return false
						}
						a0, a1 := identObj(info, c2.Args[0]), identObj(info, c2.Args[1])
						if op == "And" {
							return (a0 == valueObj && a1 == maskObj) || (a0 == maskObj && a1 == valueObj)
						}
						return a0 == valueObj && a1 == maskObj
					}
					// between taking value AND mask and testing it, none of the three integers is written (a method called
					// on one of them stores into it): a "second try" that shifts the value back and masks again accepts
					// what the first comparison would have refused
					untouched := func() bool {
						if andPos == token.NoPos {
							return true
						}
						clean := true
						inspectParts(func(m ast.Node) bool {
							c3, ok := m.(*ast.CallExpr)
							if !ok || c3.Pos() <= andPos || c3.Pos() >= is.Pos() {
								return true
							}
							if s3, ok := unparen(c3.Fun).(*ast.SelectorExpr); ok {
								if o := identObj(info, s3.X); o != nil && (o == valueObj || o == maskObj || o == andObj) {
									if fn, ok := info.Uses[s3.Sel].(*types.Func); ok && fn.Pkg() != nil && fn.Pkg().Path() == "math/big" {
										if sig := fn.Type().(*types.Signature); sig.Results().Len() == 1 && types.Identical(sig.Results().At(0).Type(), sig.Recv().Type()) {
											clean = false // z.Op(x, y) stores into z
											tampered = w.Pos(c3.Pos())
										}
									}
								}
							}
							return true
						})
						return clean
					}
					switch se.Sel.Name {
					case "Cmp":
						if len(call.Args) == 1 && ((identObj(info, se.X) == valueObj && bigOp(call.Args[0], "And")) || (identObj(info, call.Args[0]) == valueObj && bigOp(se.X, "And"))) {
							if untouched() {
								found = true
							}
						}
					case "Sign", "BitLen":
						if bigOp(se.X, "AndNot") {
							found = true
						}
					}
					return true
				})
				return found
			}
			found := scan(inspectParts, info, valueObj, maskObj, false)
			if !found {
				// the test moved into a helper: `if err := check(value, mask); err != nil { return nil, err }` — the
				// helper must contain the test on its own parameters and return a non-nil error from it
				inspectParts(func(n ast.Node) bool {
					is, ok := n.(*ast.IfStmt)
					if !ok || found {
						return true
					}
					be, ok := unparen(is.Cond).(*ast.BinaryExpr)
					if !ok || be.Op != token.NEQ {
						return true
					}
					if id, ok := unparen(be.Y).(*ast.Ident); !ok || id.Name != "nil" {
						return true
					}
					errObj := identObj(info, be.X)
					if errObj == nil {
						return true
					}
					passes := false
					for _, bs := range is.Body.List {
						if rs, ok := bs.(*ast.ReturnStmt); ok && len(rs.Results) == 2 && identObj(info, rs.Results[1]) == errObj {
							if id, ok := unparen(rs.Results[0]).(*ast.Ident); ok && id.Name == "nil" {
								passes = true
							}
						}
					}
					as, ok := is.Init.(*ast.AssignStmt)
					if !passes || !ok || len(as.Lhs) != 1 || len(as.Rhs) != 1 || identObj(info, as.Lhs[0]) != errObj {
						return true
					}
					call, ok := unparen(as.Rhs[0]).(*ast.CallExpr)
					if !ok {
						return true
					}
					fnc, _ := typeutil.Callee(info, call).(*types.Func)
					hf := w.FuncOf(fnc)
					if hf == nil || hf.Decl.Body == nil || hf.Decl.Type.Results == nil || len(hf.Decl.Type.Results.List) != 1 {
						return true
					}
					var pv, pm types.Object
					pi := 0
					for _, fl := range hf.Decl.Type.Params.List {
						for _, nm := range fl.Names {
							if pi < len(call.Args) {
								switch identObj(info, call.Args[pi]) {
								case valueObj:
									pv = hf.Pkg.TypesInfo.Defs[nm]
								case maskObj:
									pm = hf.Pkg.TypesInfo.Defs[nm]
								}
							}
							pi++
						}
					}
					if pv == nil || pm == nil {
						return true
					}
					if scan(func(f func(ast.Node) bool) { ast.Inspect(hf.Decl.Body, f) }, hf.Pkg.TypesInfo, pv, pm, true) {
						found = true
					}
					return true
				})
			}
			if found {
				r.OK("maskcheck", nb.Key, "", npos, "value is compared with value AND mask (or value AND-NOT mask with zero) and a difference returns an error", true)
			} else if tampered != "" {
				r.Fail(VViolation, "maskcheck", nb.Key, "", tampered, "the value, the mask or their AND is rewritten between the AND and the test that compares them: what is tested is no longer 'the value has no bit outside the window', so a value that does not fit can be accepted as a different one")
			} else {
				r.Fail(VViolation, "maskcheck", nb.Key, "", npos, "no test that the value has no bit outside the mask (value.Cmp(And(value, mask)) != 0 → error, or the AndNot form) guards the field: a value with stray bits is accepted silently")
			}
		}
	}

	// ---------------------------------------------------------------- errprop
	errT := types.Universe.Lookup("error").Type()
	isNilLit := func(e ast.Expr) bool {
		id, ok := unparen(e).(*ast.Ident)
		return ok && id.Name == "nil" && info.Uses[id] == types.Universe.Lookup("nil")
	}
	// (a) every return: exactly one of (value, error) is nil
	nRet := 0
	inspectParts(func(n ast.Node) bool {
		if _, ok := n.(*ast.FuncLit); ok {
			return false
		}
		rs, ok := n.(*ast.ReturnStmt)
		if !ok {
			return true
		}
		nRet++
		if len(rs.Results) == 1 {
			if c, ok := unparen(rs.Results[0]).(*ast.CallExpr); ok {
				if fnc, _ := typeutil.Callee(info, c).(*types.Func); fnc != nil && isPart[fnc.Origin()] {
					r.OK("errprop", nb.Key, fmt.Sprintf("return#%d", nRet), w.Pos(rs.Pos()), "delegates to "+fnc.Name()+", whose returns are checked as part of the builder", false)
					return true
				}
			}
		}
		if len(rs.Results) != 2 {
			r.Fail(VUndecided, "errprop", nb.Key, fmt.Sprintf("return#%d", nRet), w.Pos(rs.Pos()), "return without explicit (value, error) results")
			return true
		}
		v0, v1 := isNilLit(rs.Results[0]), isNilLit(rs.Results[1])
		switch {
		case v0 && v1:
			r.Fail(VViolation, "errprop", nb.Key, fmt.Sprintf("return#%d", nRet), w.Pos(rs.Pos()), "a path returns (nil, nil): the caller gets neither a field nor an error")
		case !v0 && !v1:
			r.Fail(VViolation, "errprop", nb.Key, fmt.Sprintf("return#%d", nRet), w.Pos(rs.Pos()), "a path returns a field together with an error expression")
		default:
			r.OK("errprop", nb.Key, fmt.Sprintf("return#%d", nRet), w.Pos(rs.Pos()), "exactly one of (field, error) is nil", false)
		}
		return true
	})
	// (b) every fallible call: error bound, tested by the next statement, returned
	var checkBlock func(list []ast.Stmt)
	nFallible := 0
	checkStmtCalls := func(st ast.Stmt, next ast.Stmt) {
		as, ok := st.(*ast.AssignStmt)
		var call *ast.CallExpr
		if ok && len(as.Rhs) == 1 {
			call, _ = unparen(as.Rhs[0]).(*ast.CallExpr)
		}
		if es, ok := st.(*ast.ExprStmt); ok {
			call, _ = unparen(es.X).(*ast.CallExpr)
		}
		if call == nil {
			return
		}
		fnc, _ := typeutil.Callee(info, call).(*types.Func)
		if fnc == nil || w.FuncOf(fnc) == nil {
			return // only the module's own fallible helpers carry the property's error cases
		}
		sig := fnc.Type().(*types.Signature)
		ei := -1
		for i := 0; i < sig.Results().Len(); i++ {
			if types.Identical(sig.Results().At(i).Type(), errT) {
				ei = i
			}
		}
		if ei < 0 {
			return
		}
		nFallible++
		inst := "call:" + fnc.Name()
		if as == nil || ei >= len(as.Lhs) {
			r.Fail(VViolation, "errprop", nb.Key, inst, w.Pos(call.Pos()), "the error result of "+fnc.Name()+" is discarded")
			return
		}
		eo := identObj(info, as.Lhs[ei])
		if eo == nil {
			r.Fail(VViolation, "errprop", nb.Key, inst, w.Pos(call.Pos()), "the error result of "+fnc.Name()+" is assigned to the blank identifier")
			return
		}
		is, ok := next.(*ast.IfStmt)
		tested := false
		if ok {
			if be, ok := unparen(is.Cond).(*ast.BinaryExpr); ok && be.Op == token.NEQ && identObj(info, be.X) == eo && isNilLit(be.Y) {
				// the body returns (nil, non-nil)
				for _, bs := range is.Body.List {
					if rs, ok := bs.(*ast.ReturnStmt); ok && len(rs.Results) == 2 && isNilLit(rs.Results[0]) && !isNilLit(rs.Results[1]) {
						tested = true
					}
				}
			}
		}
		if tested {
			r.OK("errprop", nb.Key, inst, w.Pos(call.Pos()), "error bound, tested by the next statement and returned with a nil field", true)
		} else {
			r.Fail(VViolation, "errprop", nb.Key, inst, w.Pos(call.Pos()), "the error of "+fnc.Name()+" is not tested by the next statement and returned: the builder continues with an invalid field")
		}
	}
	checkBlock = func(list []ast.Stmt) {
		for i, st := range list {
			var next ast.Stmt
			if i+1 < len(list) {
				next = list[i+1]
			}
			// `if x, err := f(); err != nil {…}` form
			if is, ok := st.(*ast.IfStmt); ok && is.Init != nil {
				checkStmtCalls(is.Init, &ast.IfStmt{Cond: is.Cond, Body: is.Body})
			} else {
				checkStmtCalls(st, next)
			}
			switch x := st.(type) {
			case *ast.IfStmt:
				checkBlock(x.Body.List)
				if eb, ok := x.Else.(*ast.BlockStmt); ok {
					checkBlock(eb.List)
				}
			case *ast.BlockStmt:
				checkBlock(x.List)
			case *ast.ForStmt:
				checkBlock(x.Body.List)
			case *ast.RangeStmt:
				checkBlock(x.Body.List)
			}
		}
	}
	for _, p := range parts {
		checkBlock(p.Decl.Body.List)
	}
	// (c) where an error of the builder can come from. The statement allows three reasons to refuse an input:
	// an unknown name (the registry lookup), a value with bits outside the window (the literal error behind
	// the mask test) and a value too wide or negative (the width-copy helper). An error taken over from any
	// other fallible function of the module makes the builder refuse inputs for that function's reasons.
	{
		regVar, _ := nb.Pkg.Types.Scope().Lookup("oxxFieldHeaderMap").(*types.Var)
		var readsRegistry func(fi *FuncInfo, depth int) bool
		readsRegistry = func(fi *FuncInfo, depth int) bool {
			if fi == nil || fi.Decl.Body == nil || depth > 3 {
				return false
			}
			hit := false
			ast.Inspect(fi.Decl.Body, func(n ast.Node) bool {
				switch x := n.(type) {
				case *ast.Ident:
					if regVar != nil && fi.Pkg.TypesInfo.Uses[x] == regVar {
						hit = true
					}
				case *ast.CallExpr:
					if fnc, _ := typeutil.Callee(fi.Pkg.TypesInfo, x).(*types.Func); fnc != nil {
						if g := w.FuncOf(fnc.Origin()); g != nil && g != fi && g.Pkg == fi.Pkg && readsRegistry(g, depth+1) {
							hit = true
						}
					}
				}
				return !hit
			})
			return hit
		}
		var sourceOK func(fi *FuncInfo, depth int) (bool, string)
		calleeOK := func(fnc *types.Func, depth int) (bool, string) {
			g := w.FuncOf(fnc.Origin())
			if g == nil {
				return true, "" // outside the module: not a carrier of this property's cases
			}
			if helpers[g] || isPart[fnc.Origin()] || readsRegistry(g, 0) {
				return true, ""
			}
			if g.Pkg == nb.Pkg && g.Recv == nil && depth < 3 {
				return sourceOK(g, depth+1)
			}
			return false, g.Key
		}
		sourceOK = func(fi *FuncInfo, depth int) (bool, string) {
			inf := fi.Pkg.TypesInfo
			ok, why := true, ""
			ast.Inspect(fi.Decl.Body, func(n ast.Node) bool {
				as, isAs := n.(*ast.AssignStmt)
				if !isAs || len(as.Rhs) != 1 {
					return true
				}
				call, isCall := unparen(as.Rhs[0]).(*ast.CallExpr)
				if !isCall {
					return true
				}
				fnc, _ := typeutil.Callee(inf, call).(*types.Func)
				if fnc == nil || !returnsError(fnc) {
					return true
				}
				if id, isID := unparen(as.Lhs[len(as.Lhs)-1]).(*ast.Ident); !isID || id.Name == "_" {
					return true
				}
				if o, y := calleeOK(fnc, depth); !o {
					ok, why = false, y
				}
				return true
			})
			return ok, why
		}
		seenCallee := map[string]bool{}
		inspectParts(func(n ast.Node) bool {
			var call *ast.CallExpr
			switch x := n.(type) {
			case *ast.AssignStmt:
				if len(x.Rhs) == 1 {
					call, _ = unparen(x.Rhs[0]).(*ast.CallExpr)
					if call != nil {
						if id, isID := unparen(x.Lhs[len(x.Lhs)-1]).(*ast.Ident); !isID || id.Name == "_" {
							call = nil
						}
					}
				}
			}
			if call == nil {
				return true
			}
			fnc, _ := typeutil.Callee(info, call).(*types.Func)
			if fnc == nil || !returnsError(fnc) || w.FuncOf(fnc.Origin()) == nil {
				return true
			}
			name := fnc.Name()
			if seenCallee[name] {
				return true
			}
			seenCallee[name] = true
			if ok, why := calleeOK(fnc, 0); ok {
				r.OK("errsource", nb.Key, "call:"+name, w.Pos(call.Pos()), "its error is one of the builder's own: the registry lookup, the width-copy helper, or a helper of the builder whose errors come from those", true)
			} else {
				r.Fail(VViolation, "errsource", nb.Key, "call:"+name, w.Pos(call.Pos()), "the builder returns the error of "+why+", which is neither the registry lookup nor the width check: inputs that are representable in the field are refused for that function's reasons")
			}
			return true
		})
	}
	r.Stats["fallible_calls_in_builder"] = nFallible
	r.Stats["returns_in_builder"] = nRet
}

// builderParts: fi and, transitively, the same-package functions it returns the results of directly.
func builderParts(w *World, fi *FuncInfo) []*FuncInfo {
	parts := []*FuncInfo{fi}
	seen := map[*FuncInfo]bool{fi: true}
	for i := 0; i < len(parts); i++ {
		p := parts[i]
		info := p.Pkg.TypesInfo
		ast.Inspect(p.Decl.Body, func(n ast.Node) bool {
			if _, ok := n.(*ast.FuncLit); ok {
				return false
			}
			rs, ok := n.(*ast.ReturnStmt)
			if !ok || len(rs.Results) != 1 {
				return true
			}
			c, ok := unparen(rs.Results[0]).(*ast.CallExpr)
			if !ok {
				return true
			}
			fnc, _ := typeutil.Callee(info, c).(*types.Func)
			if fnc == nil {
				return true
			}
			g := w.FuncOf(fnc.Origin())
			if g == nil || seen[g] || g.Pkg != fi.Pkg || g.Decl.Body == nil {
				return true
			}
			a, b := fnc.Origin().Type().(*types.Signature).Results(), fi.Obj.Type().(*types.Signature).Results()
			if a.Len() != b.Len() {
				return true
			}
			for k := 0; k < a.Len(); k++ {
				if !types.Identical(a.At(k).Type(), b.At(k).Type()) {
					return true
				}
			}
			seen[g] = true
			parts = append(parts, g)
			return true
		})
	}
	return parts
}

// convFormRule: in the converter that turns the builder's value argument into a big integer, every value
// handed to a Set* method of the result is the argument itself read through the reflect accessor of its
// kind (vi.Int(), vi.Uint(), vi.Bytes(), vi.Interface().(*big.Int)) — not something computed from it. A
// transformation applied to some input shapes (a 16-byte address folded to 4 bytes) silently builds another
// match than the one asked for.
func convFormRule(w *World, r *Report) {
	fi := w.Funcs["openflow13.conv"]
	if fi == nil {
		r.Fail(VViolation, "convform", "openflow13.conv", "", "-", "the value converter openflow13.conv no longer exists (anchor cannot be resolved)")
		return
	}
	info := fi.Pkg.TypesInfo
	var param types.Object
	for _, fl := range fi.Decl.Type.Params.List {
		for _, nm := range fl.Names {
			param = info.Defs[nm]
		}
	}
	// locals holding reflect.ValueOf(param)
	rv := map[types.Object]bool{}
	assigns := map[types.Object]int{}
	ast.Inspect(fi.Decl.Body, func(n ast.Node) bool {
		as, ok := n.(*ast.AssignStmt)
		if !ok {
			return true
		}
		for i, l := range as.Lhs {
			o := identObj(info, l)
			if o == nil {
				continue
			}
			assigns[o]++
			if i < len(as.Rhs) {
				if c, ok := unparen(as.Rhs[i]).(*ast.CallExpr); ok {
					if fn, ok := typeutil.Callee(info, c).(*types.Func); ok && fn.FullName() == "reflect.ValueOf" && len(c.Args) == 1 && identObj(info, c.Args[0]) == param {
						rv[o] = true
					}
				}
			}
		}
		return true
	})
	// direct: vi.X() or vi.Interface().(T) or the parameter itself
	var direct func(e ast.Expr, depth int) bool
	direct = func(e ast.Expr, depth int) bool {
		e = unparen(e)
		switch x := e.(type) {
		case *ast.Ident:
			o := info.Uses[x]
			if o == param {
				return true
			}
			// a local assigned exactly once, from a direct read
			if o != nil && assigns[o] == 1 && depth < 2 {
				ok := false
				ast.Inspect(fi.Decl.Body, func(n ast.Node) bool {
					if as, isAs := n.(*ast.AssignStmt); isAs {
						for i, l := range as.Lhs {
							if identObj(info, l) == o && i < len(as.Rhs) && direct(as.Rhs[i], depth+1) {
								ok = true
							}
						}
					}
					return true
				})
				return ok
			}
		case *ast.TypeAssertExpr:
			return direct(x.X, depth)
		case *ast.CallExpr:
			if se, ok := unparen(x.Fun).(*ast.SelectorExpr); ok && len(x.Args) == 0 {
				if o := identObj(info, se.X); o != nil && rv[o] {
					return true
				}
			}
			// a conversion of a direct read
			if tv, ok := info.Types[x.Fun]; ok && tv.IsType() && len(x.Args) == 1 {
				return direct(x.Args[0], depth)
			}
		}
		return false
	}
	n := 0
	ast.Inspect(fi.Decl.Body, func(nd ast.Node) bool {
		c, ok := nd.(*ast.CallExpr)
		if !ok {
			return true
		}
		fn, ok := typeutil.Callee(info, c).(*types.Func)
		if !ok || fn.Pkg() == nil || fn.Pkg().Path() != "math/big" || !strings.HasPrefix(fn.Name(), "Set") || len(c.Args) != 1 {
			return true
		}
		n++
		inst := fn.Name()
		if direct(c.Args[0], 0) {
			r.OK("convform", fi.Key, inst, w.Pos(c.Pos()), "(*big.Int)."+fn.Name()+" receives the argument's own value through its reflect accessor", true)
		} else {
			r.Fail(VViolation, "convform", fi.Key, inst, w.Pos(c.Pos()), "(*big.Int)."+fn.Name()+" receives "+types.ExprString(c.Args[0])+", which is not the argument's own value read through its reflect accessor: some inputs are transformed before they are placed, so the field built is not the one asked for")
		}
		return true
	})
	if n == 0 {
		r.Fail(VUndecided, "convform", fi.Key, "", w.Pos(fi.Decl.Pos()), "the converter no longer sets the result through (*big.Int).Set* calls")
	}
}
