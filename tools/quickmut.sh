#!/bin/bash
# usage: quickmut.sh <prop[,prop]> <file-relative-to-repo> <sed-expression>   — one-off sensitivity probe on a scratch worktree
set -u
export GOFLAGS=-mod=mod GOPROXY=off GOSUMDB=off GOTOOLCHAIN=local; unset GOWORK
props=${1//,/ }; f=$2; expr=$3
WT=/tmp/qm/$$; mkdir -p /tmp/qm
git -C /repo worktree add -q --detach $WT HEAD || exit 2
trap "git -C /repo worktree remove --force $WT 2>/dev/null; rm -rf /tmp/qm/ev-$$" EXIT
sed -i -E "$expr" $WT/$f
if git -C $WT diff --quiet; then echo "NO-CHANGE ($expr)"; exit 0; fi
(cd $WT && go build ./... 2>&1 | head -3) | grep -q . && { echo "DOES-NOT-BUILD ($expr)"; exit 0; }
mkdir -p /tmp/qm/ev-$$
for p in $props; do
  out=$(cd /verif && VERIF_ROOT=/verif OFV_EVIDENCE_DIR=/tmp/qm/ev-$$ ./bin/ofverify check $p --repo $WT 2>&1); rc=$?
  if [ $rc -eq 1 ]; then echo "$p DETECTED ($expr): $(echo "$out" | grep -E "^(VIOLATION|UNDECIDED|UNMAPPED) $p" | head -1 | cut -c1-260)"
  elif [ $rc -eq 0 ]; then echo "$p missed ($expr)"; else echo "$p ERROR rc=$rc ($expr): $(echo "$out" | tail -1)"; fi
done
