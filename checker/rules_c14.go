package main

import (
	"fmt"
	"go/ast"
	"go/token"
	"go/types"
	"sort"
	"strings"

	"golang.org/x/tools/go/ssa"
	"golang.org/x/tools/go/types/typeutil"
)

func init() {
	register(&propCheck{
		ID:      "C14",
		Run:     runC14,
		NeedSSA: true,
		Level:   "Static analysis (syntax + go/ssa effect and alias rules). Decides: atomic/messageXid — every reference to the id counter is &messageXid passed directly to sync/atomic.AddUint32 (one atomic read-modify-write), and the generated header's Xid is that call's result; globals/<var> — no function other than package initialisation stores into any package-level variable, into a map or array held by one, or through a pointer loaded from one (every package-level variable of the module gets the rule automatically); registry-ro — pointers loaded from the field registry are neither written through, retained, nor returned; noscratch — no sync.Pool and no function-level state that outlives a call. With these, goroutines working on independent values share only an atomic counter and read-only tables. Not decided: races inside third-party or standard packages; races on values the caller itself shares between goroutines. Also decided: handoff (the C10 typestate rule): a frame buffer has one owner at a time and returns to the pool exactly once on every path.",
		Assumptions: []string{
			"sync/atomic.AddUint32 is an atomic read-modify-write that returns the new value (Go memory model)",
			"third-party and standard packages are race-free when used from different goroutines on different values",
			"VTA call graph (CHA in the thorough tier) over-approximates calls",
		},
	})
}

// moduleGlobals lists the package-level variables of the module's non-test files.
func (w *World) moduleGlobals() []*types.Var {
	var out []*types.Var
	for _, p := range w.Mod {
		for _, f := range p.Syntax {
			if strings.HasSuffix(w.Fset.Position(f.Pos()).Filename, "_test.go") {
				continue
			}
			for _, d := range f.Decls {
				gd, ok := d.(*ast.GenDecl)
				if !ok || gd.Tok != token.VAR {
					continue
				}
				for _, sp := range gd.Specs {
					for _, nm := range sp.(*ast.ValueSpec).Names {
						if v, ok := p.TypesInfo.Defs[nm].(*types.Var); ok && nm.Name != "_" {
							out = append(out, v)
						}
					}
				}
			}
		}
	}
	sort.Slice(out, func(i, j int) bool {
		return out[i].Pkg().Name()+"."+out[i].Name() < out[j].Pkg().Name()+"."+out[j].Name()
	})
	return out
}

func runC14(w *World, r *Report) {
	r.Rule("atomic", "the id counter is touched only by atomic.AddUint32(&messageXid, …) whose result becomes the Xid", 2)
	r.Rule("globals", "package-level state is written only by package initialisation", 5)
	r.Rule("escape", "no function returns a pointer or slice into package-level storage", 1)
	r.Rule("registry-ro", "pointers loaded from package-level tables are not written through, retained or returned", 1)
	r.Rule("noscratch", "no pooled or function-level scratch state shared between calls", 1)
	if r.Prop == "C14" {
		r.Rule("closure-state", "a function value that outlives its maker does not write to variables it captured", 1)
		closureStateRule(w, r)
	}
	if r.Prop == "C14" {
		// memory shared between goroutines without anyone intending it: a parsed message that still points
		// into the stream's recycled frame buffer is written by the reader goroutine while the consumer reads
		// it, and pool buffers that share one backing array grow into each other
		r.Rule("owns-memory", "nothing a decoder returns points into its input (the C12 may-alias rule): the reader goroutine refills the frame buffer while the consumer holds the message", 100)
		r.Rule("pool-disjoint", "every buffer put into the stream's pool has backing storage of its own (the C10 rule)", 1)
		r.Rule("handoff", "a frame buffer has one owner at a time: the reader does not touch it after the hand-off, the parser returns it to the pool exactly once, on every path (the C10 typestate rule) — a buffer that is in the pool twice is filled by the reader while a parser still reads it", 2)
		{
			// (sub-reports under the other properties' names: their own imports of this property's rules test
			// the name and would otherwise come back here)
			r2 := NewReport("C12", r.Tier)
			runC12(w, r2)
			for _, o := range r2.Obs {
				if o.Rule == "noalias" {
					o.Rule = "owns-memory"
					r.Add(o)
				}
			}
			r3 := NewReport("C10", r.Tier)
			runC10(w, r3)
			for _, o := range r3.Obs {
				if o.Rule == "pool-disjoint" || o.Rule == "handoff" {
					r.Add(o)
				}
			}
		}
		// a builder that writes through (or keeps) an argument makes goroutines that pass the same read-only
		// value interfere: the argument rules of C17 for the generic match-field builder
		r.Rule("argsafe", "the generic builder neither writes through nor keeps its value and mask arguments", 2)
		r2 := NewReport(r.Prop, r.Tier)
		runC17(w, r2)
		for _, o := range r2.Obs {
			if o.Rule == "nomutate" || o.Rule == "convform" {
				o.Subject = o.Rule + ":" + o.Subject
				o.Rule = "argsafe"
				r.Add(o)
			}
		}
	}

	// ---------------- atomic
	cm := w.ByName["common"]
	var ctr *types.Var
	if cm != nil {
		ctr, _ = cm.Types.Scope().Lookup("messageXid").(*types.Var)
	}
	if ctr == nil {
		r.Fail(VViolation, "atomic", "common.messageXid", "", "-", "the transaction id counter common.messageXid no longer exists")
	} else {
		nref := 0
		bad := false
		for _, p := range w.Mod {
			for _, f := range p.Syntax {
				if strings.HasSuffix(w.Fset.Position(f.Pos()).Filename, "_test.go") {
					continue
				}
				var stack []ast.Node
				ast.Inspect(f, func(n ast.Node) bool {
					if n == nil {
						stack = stack[:len(stack)-1]
						return true
					}
					stack = append(stack, n)
					id, ok := n.(*ast.Ident)
					if !ok || p.TypesInfo.Uses[id] != ctr {
						return true
					}
					nref++
					// expected shape: atomic.AddUint32(&messageXid, k)
					okShape := false
					if len(stack) >= 3 {
						if ue, ok := stack[len(stack)-2].(*ast.UnaryExpr); ok && ue.Op == token.AND {
							if call, ok := stack[len(stack)-3].(*ast.CallExpr); ok && len(call.Args) >= 1 && call.Args[0] == ue {
								if fn, ok := typeutil.Callee(p.TypesInfo, call).(*types.Func); ok && fn.Pkg() != nil && fn.Pkg().Path() == "sync/atomic" {
									if fn.Name() == "AddUint32" {
										okShape = true
										r.OK("atomic", "common.messageXid", "ref@"+enclosingFunc(w, p.TypesInfo, stack), w.Pos(id.Pos()), "&messageXid passed directly to sync/atomic.AddUint32", true)
									} else {
										bad = true
										r.Fail(VViolation, "atomic", "common.messageXid", "ref@"+enclosingFunc(w, p.TypesInfo, stack), w.Pos(id.Pos()), "the counter is accessed by sync/atomic."+fn.Name()+": drawing an id is no longer one atomic read-modify-write")
										okShape = true
									}
								}
							}
						}
					}
					if !okShape {
						bad = true
						r.Fail(VViolation, "atomic", "common.messageXid", "ref@"+enclosingFunc(w, p.TypesInfo, stack), w.Pos(id.Pos()), "the counter is referenced outside a direct sync/atomic.AddUint32(&messageXid, …) call")
					}
					return true
				})
			}
		}
		if nref == 0 {
			r.Fail(VViolation, "atomic", "common.messageXid", "", w.Pos(ctr.Pos()), "the counter is never advanced")
		}
		_ = bad
		// the Xid of the generated header is the result of the add
		if fi := w.Funcs["openflow13.NewEchoRequest"]; fi != nil {
			cs := w.CtorSummary(fi)
			xv, _ := cs.Fields["$.Xid"].(IntV)
			if xv.T != nil && strings.HasPrefix(xv.T.String(), "opq(call:atomic.AddUint32(&common.messageXid,1)") {
				r.OK("atomic", "common.NewHeaderGenerator", "xid", w.Pos(fi.Decl.Pos()), "Xid of a generated header = result of atomic.AddUint32(&messageXid, 1)", true)
			} else {
				s := "<unassigned>"
				if xv.T != nil {
					s = xv.T.String()
				}
				r.Fail(VViolation, "atomic", "common.NewHeaderGenerator", "xid", w.Pos(fi.Decl.Pos()), "Xid of a generated header is "+s+", not the result of atomic.AddUint32(&messageXid, 1)")
			}
		}
	}

	escapeRule(w, r, nil)
	// ---------------- globals (SSA)
	sw := w.SSA()
	globals := w.moduleGlobals()
	gset := map[string]*types.Var{}
	for _, g := range globals {
		gset[g.Pkg().Path()+"."+g.Name()] = g
	}
	type gviol struct {
		pos  token.Pos
		what string
		fn   string
	}
	viol := map[string][]gviol{}
	nFuncs := 0
	var fns []*ssa.Function
	for fn := range sw.All {
		if w.inModule(fn) && len(fn.Blocks) > 0 {
			fns = append(fns, fn)
		}
	}
	sort.Slice(fns, func(i, j int) bool { return fns[i].String() < fns[j].String() })
	tableViol := map[string][]gviol{}
	for _, fn := range fns {
		if fn.Synthetic != "" && strings.Contains(fn.Synthetic, "package initializer") || fn.Name() == "init" && fn.Signature.Recv() == nil {
			continue
		}
		if isTestFunc(w, fn) {
			continue
		}
		nFuncs++
		var seeds []ssa.Value
		seedOf := map[ssa.Value]string{}
		for _, b := range fn.Blocks {
			for _, ins := range b.Instrs {
				switch x := ins.(type) {
				case *ssa.Store:
					if g := globalRoot(x.Addr); g != nil && w.isModPkg(g.Pkg.Pkg) {
						name := g.Pkg.Pkg.Name() + "." + g.Name()
						viol[name] = append(viol[name], gviol{x.Pos(), "store into " + describeAddr(x.Addr), ssaFuncKey(w, fn)})
					}
				case *ssa.UnOp:
					if x.Op == token.MUL {
						if g, ok := x.X.(*ssa.Global); ok && w.isModPkg(g.Pkg.Pkg) && pointerBearing(x.Type()) {
							seeds = append(seeds, x)
							seedOf[x] = g.Pkg.Pkg.Name() + "." + g.Name()
						}
					}
				case *ssa.Call:
					// atomic / other mutators applied to a global's address
					for ai, a := range x.Call.Args {
						if g := globalRootVia(a); g != nil && w.isModPkg(g.Pkg.Pkg) {
							name := g.Pkg.Pkg.Name() + "." + g.Name()
							// a callee that fills the memory an argument points to (binary.Read's data pointer, a reader's
							// destination, the destination of copy) stores into the variable
							if b, ok := x.Call.Value.(*ssa.Builtin); ok && b.Name() == "copy" && ai == 0 {
								viol[name] = append(viol[name], gviol{x.Pos(), "copy into " + describeAddr(a), ssaFuncKey(w, fn)})
								continue
							}
							if cf := x.Call.StaticCallee(); cf != nil {
								if wa, ok := fillsArgument[fnName(cf)]; ok && wa == ai {
									viol[name] = append(viol[name], gviol{x.Pos(), "its address is handed to " + fnName(cf) + ", which stores the bytes it reads there", ssaFuncKey(w, fn)})
									continue
								}
							}
							if globalRoot(a) == nil {
								continue
							}
							if cf := x.Call.StaticCallee(); cf != nil {
								if fnName(cf) == "sync/atomic.AddUint32" && name == "common.messageXid" {
									continue // the counter: covered by the atomic rule
								}
								if m, ok := stdModels[fnName(cf)]; ok && (m.all == "none" || m.all == "ret") {
									continue
								}
								viol[name] = append(viol[name], gviol{x.Pos(), "address passed to " + fnName(cf), ssaFuncKey(w, fn)})
							}
						}
					}
				}
			}
		}
		if len(seeds) > 0 {
			a := NewAlias(w)
			sum := a.AnalyzeSeeds(fn, seeds)
			for _, e := range sum.events {
				if e.Kind == "mutate" {
					for _, s := range seeds {
						name := seedOf[s]
						viol[name] = append(viol[name], gviol{e.Pos, "write through a pointer loaded from the variable: " + e.What, ssaFuncKey(w, e.Fn)})
						break
					}
				}
				if e.Kind == "unmodelled" {
					// a method of an out-of-module type called on an object a package-level variable holds: unless the
					// type is documented as safe for concurrent use (those are modelled), concurrent callers race on it
					name := seedOf[seeds[0]]
					viol[name] = append(viol[name], gviol{e.Pos, "call on the shared object it holds, not known to be safe for concurrent use: " + e.What, ssaFuncKey(w, e.Fn)})
				}
				if e.Kind == "retain" || e.Kind == "send" {
					name := seedOf[seeds[0]]
					tableViol[name] = append(tableViol[name], gviol{e.Pos, e.What, ssaFuncKey(w, e.Fn)})
				}
			}
			if sum.returns {
				name := seedOf[seeds[0]]
				// returning the table itself or a pointer into it hands out shared mutable state
				tableViol[name] = append(tableViol[name], gviol{fn.Pos(), "a pointer loaded from the table is returned to the caller", ssaFuncKey(w, fn)})
			}
		}
	}
	r.Stats["functions_scanned_for_global_effects"] = nFuncs
	for _, g := range globals {
		name := g.Pkg().Name() + "." + g.Name()
		if name == "common.messageXid" {
			// only the atomic add may touch it
			if len(viol[name]) == 0 {
				r.OK("globals", name, "", w.Pos(g.Pos()), "written only through the atomic add", true)
			}
		}
		if vs := viol[name]; len(vs) > 0 {
			seen := map[string]bool{}
			for _, v := range vs {
				inst := v.fn + ": " + v.what
				if seen[inst] {
					continue
				}
				seen[inst] = true
				r.Fail(VViolation, "globals", name, inst, w.Pos(v.pos), "package-level state is modified after initialisation: "+v.what+" in "+v.fn)
			}
		} else if name != "common.messageXid" {
			r.OK("globals", name, "", w.Pos(g.Pos()), "no store into it, into memory it holds, or through a pointer loaded from it, outside package initialisation", true)
		}
		if w.sentinelError(g) {
			// `var errShort = errors.New("…")`: an immutable value that is meant to be handed out; the globals rule
			// above already says that nothing assigns to the variable
			r.OK("registry-ro", name, "", w.Pos(g.Pos()), "a sentinel error (errors.New / fmt.Errorf, never reassigned): handing it out shares nothing that can change", false)
		} else if pointerBearing(g.Type()) {
			if vs := tableViol[name]; len(vs) > 0 {
				seen := map[string]bool{}
				for _, v := range vs {
					inst := v.fn + ": " + v.what
					if seen[inst] {
						continue
					}
					seen[inst] = true
					r.Fail(VViolation, "registry-ro", name, inst, w.Pos(v.pos), "shared table entry escapes: "+v.what+" in "+v.fn)
				}
			} else if _, isFunc := g.Type().Underlying().(*types.Signature); !isFunc {
				r.OK("registry-ro", name, "", w.Pos(g.Pos()), "pointers loaded from it are not retained, returned or sent", true)
			}
		}
	}

	// ---------------- noscratch
	poolUse := ""
	for _, p := range w.Mod {
		for id, obj := range p.TypesInfo.Uses {
			if tn, ok := obj.(*types.TypeName); ok && tn.Pkg() != nil && tn.Pkg().Path() == "sync" && tn.Name() == "Pool" {
				if !strings.HasSuffix(w.Fset.Position(id.Pos()).Filename, "_test.go") {
					poolUse = w.Pos(id.Pos())
				}
			}
		}
	}
	if poolUse != "" {
		r.Fail(VViolation, "noscratch", "module", "sync.Pool", poolUse, "sync.Pool introduces state shared between calls")
	} else {
		r.OK("noscratch", "module", "sync.Pool", "-", fmt.Sprintf("no sync.Pool; %d package-level variables, all covered by the globals rule", len(globals)), true)
	}
}

func enclosingFunc(w *World, info *types.Info, stack []ast.Node) string {
	for i := len(stack) - 1; i >= 0; i-- {
		if fd, ok := stack[i].(*ast.FuncDecl); ok {
			if obj, ok := info.Defs[fd.Name].(*types.Func); ok {
				if fi := w.FuncOf(obj); fi != nil {
					return fi.Key
				}
			}
			return fd.Name.Name
		}
	}
	return "package-level"
}

func globalRoot(v ssa.Value) *ssa.Global {
	for i := 0; i < 20; i++ {
		switch x := v.(type) {
		case *ssa.Global:
			return x
		case *ssa.FieldAddr:
			v = x.X
		case *ssa.IndexAddr:
			v = x.X
		default:
			return nil
		}
	}
	return nil
}

// fillsArgument: standard-library functions that write through one of their arguments (index in the SSA
// argument list, receiver = 0 for methods).
var fillsArgument = map[string]int{
	"encoding/binary.Read":    2,
	"(*bytes.Buffer).Read":    1,
	"(*bytes.Reader).Read":    1,
	"io.ReadFull":             1,
	"io.ReadAtLeast":          1,
	"(*bufio.Reader).Read":    1,
	"encoding/json.Unmarshal": 1,
}

// globalRootVia is globalRoot seen through the conversions an argument goes through on its way into a
// call: boxed into an interface, re-typed, or sliced (an array variable passed as arr[:]).
func globalRootVia(v ssa.Value) *ssa.Global {
	for i := 0; i < 20; i++ {
		switch x := v.(type) {
		case *ssa.MakeInterface:
			v = x.X
		case *ssa.ChangeType:
			v = x.X
		case *ssa.Slice:
			v = x.X
		default:
			return globalRoot(v)
		}
	}
	return nil
}

func isTestFunc(w *World, fn *ssa.Function) bool {
	if fn.Pos().IsValid() {
		return strings.HasSuffix(w.Fset.Position(fn.Pos()).Filename, "_test.go")
	}
	return false
}

// escapeRule: no function hands its caller a pointer or slice into package-level storage. Library code
// may never write such storage itself (globals rule) and still share it: a result that aliases a package
// array, or a table entry, lets independent callers (and goroutines) modify the same bytes.
func escapeRule(w *World, r *Report, only *ssa.Function) int {
	sw := w.SSA()
	var fns []*ssa.Function
	for fn := range sw.All {
		if w.inModule(fn) && len(fn.Blocks) > 0 && (only == nil || fn == only) {
			fns = append(fns, fn)
		}
	}
	sort.Slice(fns, func(i, j int) bool { return fns[i].String() < fns[j].String() })
	refType := func(t types.Type) bool {
		switch u := t.Underlying().(type) {
		case *types.Slice, *types.Map:
			return true
		case *types.Pointer:
			// pointers to error sentinels and to functions are not mutable shared bytes
			switch u.Elem().Underlying().(type) {
			case *types.Struct, *types.Array, *types.Basic:
				return true
			}
		}
		return false
	}
	nChecked := 0
	for _, fn := range fns {
		if fn.Name() == "init" || strings.HasPrefix(fn.Name(), "init#") {
			continue
		}
		var seeds []ssa.Value
		names := map[string]bool{}
		for _, b := range fn.Blocks {
			for _, ins := range b.Instrs {
				var g *ssa.Global
				var v ssa.Value
				switch x := ins.(type) {
				case *ssa.Slice:
					g, _ = x.X.(*ssa.Global)
					v = x
				case *ssa.IndexAddr:
					g, _ = x.X.(*ssa.Global)
					v = x
				case *ssa.FieldAddr:
					g, _ = x.X.(*ssa.Global)
					v = x
				case *ssa.UnOp:
					if x.Op == token.MUL {
						if gg, ok := x.X.(*ssa.Global); ok && refType(x.Type()) {
							g, v = gg, x
						}
					}
				case *ssa.Call:
					// a value fetched from a package-level container (sync.Map.Load, a getter on a global
					// cache): what comes out is shared with every other caller
					if len(x.Call.Args) > 0 && x.Call.StaticCallee() != nil && !w.inModule(x.Call.StaticCallee()) {
						if gg, ok := x.Call.Args[0].(*ssa.Global); ok {
							name := x.Call.StaticCallee().Name()
							if strings.HasPrefix(name, "Load") || strings.HasPrefix(name, "Get") || name == "Swap" {
								g, v = gg, x
							}
						}
					}
				}
				if g == nil || g.Pkg == nil || g.Pkg.Pkg == nil {
					continue
				}
				if !strings.HasPrefix(g.Pkg.Pkg.Path(), w.ModPath) {
					// a slice or map held by a package-level variable of another package (net.IPv4zero): shared
					// with the whole process just the same; only a loaded reference value is of interest
					if _, isLoad := ins.(*ssa.UnOp); !isLoad {
						continue
					}
				}
				seeds = append(seeds, v)
				names[g.Pkg.Pkg.Name()+"."+g.Name()] = true
			}
		}
		if len(seeds) == 0 {
			continue
		}
		nChecked++
		var ns []string
		for n := range names {
			ns = append(ns, n)
		}
		sort.Strings(ns)
		a := NewAlias(w)
		sum := a.AnalyzeSeeds(fn, seeds)
		key := ssaFuncKey(w, fn)
		if sum.returns {
			r.Fail(VViolation, "escape", key, strings.Join(ns, ","), w.Pos(fn.Pos()), "the result may be, or contain, a pointer or slice into the package-level storage "+strings.Join(ns, ", ")+": every caller (and goroutine) that modifies what it was given modifies the same shared bytes")
		} else {
			r.OK("escape", key, strings.Join(ns, ","), w.Pos(fn.Pos()), "uses "+strings.Join(ns, ", ")+"; nothing derived from it is returned", true)
		}
	}
	return nChecked
}

// importStateless runs the shared-state rules of C14 (globals, escape, registry-ro, noscratch) and adds
// their obligations under one rule name: a codec whose result depends on package-level state that calls
// can change (a pooled scratch buffer, a cache, a shared table entry handed out) is not a function of its
// input — a necessary condition of the repeatability and round-trip properties.
func importStateless(w *World, r *Report, rule string) {
	r2 := NewReport(r.Prop, r.Tier)
	runC14(w, r2)
	for _, o := range r2.Obs {
		switch o.Rule {
		case "globals", "escape", "registry-ro", "noscratch":
			o.Subject = o.Rule + ":" + o.Subject
			o.Rule = rule
			r.Add(o)
		}
	}
}

// closureStateRule: a function value that outlives the call that made it (returned, stored, sent, started
// as a goroutine) and writes to a variable it captured has state that every caller of the value shares —
// a generator that keeps its template in a captured variable is a data race between the goroutines that
// draw from it. For every closure that escapes: no store into a captured variable (or into memory reached
// from one). Closures that run before their maker returns (deferred, called in place, passed to a function
// that calls them synchronously such as sort.Slice) may write their maker's locals.
func closureStateRule(w *World, r *Report) {
	sw := w.SSA()
	var fns []*ssa.Function
	for fn := range sw.All {
		if w.inModule(fn) && len(fn.Blocks) > 0 && !isTestFunc(w, fn) {
			fns = append(fns, fn)
		}
	}
	sort.Slice(fns, func(i, j int) bool { return fns[i].String() < fns[j].String() })
	nClos := 0
	for _, fn := range fns {
		for _, b := range fn.Blocks {
			for _, ins := range b.Instrs {
				mc, ok := ins.(*ssa.MakeClosure)
				if !ok {
					continue
				}
				cf, ok := mc.Fn.(*ssa.Function)
				if !ok || len(cf.FreeVars) == 0 {
					continue
				}
				// does the function value leave the call?
				escapes := ""
				for _, ref := range *mc.Referrers() {
					switch x := ref.(type) {
					case *ssa.Return:
						escapes = "returned"
					case *ssa.Store:
						if x.Val == mc {
							escapes = "stored"
						}
					case *ssa.MapUpdate, *ssa.Send:
						escapes = "stored"
					case *ssa.Go:
						escapes = "started as a goroutine"
					case *ssa.MakeInterface:
						escapes = "boxed into an interface"
					case *ssa.Call:
						// passed to another function: synchronous helpers of the standard library call it at once
						if x.Call.Value != mc {
							if cf2 := x.Call.StaticCallee(); cf2 == nil || w.inModule(cf2) {
								escapes = "passed on"
							}
						}
					}
				}
				if escapes == "" {
					continue
				}
				nClos++
				var bad []string
				for _, cb := range cf.Blocks {
					for _, ci := range cb.Instrs {
						st, ok := ci.(*ssa.Store)
						if !ok {
							continue
						}
						root := st.Addr
						for i := 0; i < 20; i++ {
							switch a := root.(type) {
							case *ssa.FieldAddr:
								root = a.X
								continue
							case *ssa.IndexAddr:
								root = a.X
								continue
							}
							break
						}
						if fv, ok := root.(*ssa.FreeVar); ok {
							bad = append(bad, fmt.Sprintf("store into the captured variable %s at %s", fv.Name(), w.Pos(st.Pos())))
						}
					}
				}
				inst := fmt.Sprintf("closure@%s", cf.Name())
				if len(bad) > 0 {
					r.Fail(VViolation, "closure-state", ssaFuncKey(w, fn), inst, w.Pos(cf.Pos()), "the function value is "+escapes+" and writes state it captured: "+strings.Join(bad, "; ")+" — every caller of the value, on whatever goroutine, reads and writes that one variable")
				} else {
					r.OK("closure-state", ssaFuncKey(w, fn), inst, w.Pos(cf.Pos()), "the function value is "+escapes+"; it does not store into anything it captured", true)
				}
			}
		}
	}
	r.OK("closure-state", "inventory", "", "-", fmt.Sprintf("%d function values that outlive their maker examined", nClos), true)
}

// sentinelError: a package-level variable of type error whose initialiser is errors.New(…) or fmt.Errorf(…).
func (w *World) sentinelError(g *types.Var) bool {
	if !isErrorType(g.Type()) {
		return false
	}
	init, pkg := w.globalInit(g)
	if init == nil || pkg == nil {
		return false
	}
	c, ok := unparen(init).(*ast.CallExpr)
	if !ok {
		return false
	}
	fn := w.calleeOf(pkg.TypesInfo, c)
	if fn == nil || fn.Pkg() == nil {
		return false
	}
	return (fn.Pkg().Path() == "errors" && fn.Name() == "New") || (fn.Pkg().Path() == "fmt" && fn.Name() == "Errorf")
}
