package main

// B — guard prover (DESIGN §2.5). Facts are linear inequalities L <= R over
// size terms collected from dominating conditions; obligations are decided by
// the sign rule after subtracting at most three facts.

import (
	"go/ast"
	"go/token"
	"go/types"
	"strings"
)

type Fact struct {
	L, R *Term // L <= R
	Src  string
	Cond string // non-empty: the fact holds only when this branch condition holds (kept across an if-join)
}

func (f Fact) equal(g Fact) bool { return f.L.Equal(g.L) && f.R.Equal(g.R) && f.Cond == g.Cond }
func (f Fact) String() string    { return f.L.String() + " <= " + f.R.String() }

// Need is one inequality A <= B that must hold at a site.
type Need struct {
	A, B *Term
	What string
}

type Site struct {
	Kind   string // index | slice | slicehi | put | get | order
	Buf    string // buffer name ("P" for the input)
	Origin string
	Needs  []Need
	Facts  []Fact
	Pos    token.Pos
	Text   string
	Fn     string
	Guard  string
	Expr   ast.Expr
}

func (in *Interp) addSite(s *Site) {
	for i := in; i != nil; i = i.parent {
		if i.parent == nil {
			i.Sites = append(i.Sites, s)
			return
		}
	}
}

// limit returns the exclusive upper bound for accesses through view v.
func (in *Interp) limit(st *State, v BufV) *Term {
	if v.Hi != nil {
		return v.Hi
	}
	if b := st.bufs[v.ID]; b != nil {
		return b.Len
	}
	return Opq("len(?)")
}

// site records the obligation for one access. off is the absolute start
// offset in the buffer, w the number of bytes needed (nil for a bare slice
// bound where off itself must be <= limit).
func (in *Interp) site(st *State, v BufV, kind string, off *Term, w *Term, e ast.Expr) {
	if in.noSites {
		return
	}
	b := st.bufs[v.ID]
	if b == nil {
		return
	}
	lim := in.limit(st, v)
	s := &Site{Kind: kind, Buf: in.bufName(st, v), Origin: b.Origin, Pos: e.Pos(), Fn: in.fi.Key, Guard: in.guard(), Expr: e}
	s.Text = in.render(nil, e)
	switch kind {
	case "index", "put", "get":
		s.Needs = append(s.Needs, Need{A: off.Add(w), B: lim, What: "end of access within buffer"})
		s.Needs = append(s.Needs, Need{A: Const(0), B: off, What: "offset non-negative"})
	case "slice":
		s.Needs = append(s.Needs, Need{A: off, B: lim, What: "slice start within buffer"})
		s.Needs = append(s.Needs, Need{A: Const(0), B: off, What: "slice start non-negative"})
	case "slicehi":
		// Go allows hi up to cap; len is used as the conservative bound
		blen := b.Len
		if v.Hi != nil {
			blen = v.Hi
		}
		s.Needs = append(s.Needs, Need{A: off, B: blen, What: "slice end within buffer"})
	}
	s.Facts = append([]Fact(nil), st.facts...)
	in.addSite(s)
}

func (in *Interp) sitePair(st *State, v BufV, lo, hi *Term, e ast.Expr) {
	if in.noSites {
		return
	}
	b := st.bufs[v.ID]
	if b == nil {
		return
	}
	s := &Site{Kind: "order", Buf: in.bufName(st, v), Origin: b.Origin, Pos: e.Pos(), Fn: in.fi.Key, Guard: in.guard(), Expr: e, Text: in.render(nil, e)}
	s.Needs = append(s.Needs, Need{A: lo, B: hi, What: "slice start <= end"})
	s.Facts = append([]Fact(nil), st.facts...)
	in.addSite(s)
}

// assume adds the facts implied by cond being true/false.
func (in *Interp) assume(st *State, cond ast.Expr, truth bool) {
	cond = unparen(cond)
	switch x := cond.(type) {
	case *ast.CallExpr:
		// a predicate helper whose body is one `return <condition>` (shorterThan(data, n)): the branch learns
		// what the condition says about the arguments
		f := in.callee(x)
		if f == nil {
			return
		}
		fi := in.w.FuncOf(f)
		if fi == nil || fi.Decl.Body == nil || len(fi.Decl.Body.List) != 1 || fi.Decl.Recv != nil || in.depth >= maxInline {
			return
		}
		rs, ok := fi.Decl.Body.List[0].(*ast.ReturnStmt)
		if !ok || len(rs.Results) != 1 {
			return
		}
		save := in.noSites
		in.noSites = true
		var args []Val
		for _, a := range x.Args {
			args = append(args, in.eval(st, a))
		}
		in.noSites = save
		sub := &Interp{w: in.w, fi: fi, info: fi.Pkg.TypesInfo, depth: in.depth + 1, parent: in, shared: in.shared, noSites: true}
		saved := st.vars
		st.vars = map[types.Object]Val{}
		i := 0
		for _, fl := range fi.Decl.Type.Params.List {
			for _, nm := range fl.Names {
				if i < len(args) {
					st.vars[fi.Pkg.TypesInfo.Defs[nm]] = args[i]
				}
				i++
			}
		}
		sub.assume(st, rs.Results[0], truth)
		st.vars = saved
		return
	case *ast.UnaryExpr:
		if x.Op == token.NOT {
			in.assume(st, x.X, !truth)
		}
		return
	case *ast.BinaryExpr:
		switch x.Op {
		case token.LAND:
			if truth {
				in.assume(st, x.X, true)
				in.assume(st, x.Y, true)
			}
			return
		case token.LOR:
			if !truth {
				in.assume(st, x.X, false)
				in.assume(st, x.Y, false)
			}
			return
		case token.LSS, token.LEQ, token.GTR, token.GEQ, token.EQL, token.NEQ:
			tx, ty := in.info.TypeOf(x.X), in.info.TypeOf(x.Y)
			if tx == nil || ty == nil {
				return
			}
			if !isIntLike(tx) || !isIntLike(ty) {
				in.assumeNil(st, x, truth)
				return
			}
			save := in.noSites
			in.noSites = true
			a, b := in.evalInt(st, x.X), in.evalInt(st, x.Y)
			in.noSites = save
			op := x.Op
			if !truth {
				switch op {
				case token.LSS:
					op = token.GEQ
				case token.LEQ:
					op = token.GTR
				case token.GTR:
					op = token.LEQ
				case token.GEQ:
					op = token.LSS
				case token.EQL:
					op = token.NEQ
				case token.NEQ:
					op = token.EQL
				}
			}
			src := in.render(nil, cond)
			add := func(l, r *Term) { st.facts = append(st.facts, Fact{L: l, R: r, Src: src}) }
			switch op {
			case token.LSS:
				add(a.AddC(1), b)
			case token.LEQ:
				add(a, b)
			case token.GTR:
				add(b.AddC(1), a)
			case token.GEQ:
				add(b, a)
			case token.EQL:
				add(a, b)
				add(b, a)
			case token.NEQ:
				// x != 0 for a non-negative x: x >= 1
				if b.IsZero() && a.NonNeg() {
					add(Const(1), a)
				} else if a.IsZero() && b.NonNeg() {
					add(Const(1), b)
				} else if ok, _ := Prove(a, b, st.facts); ok {
					// a <= b is known and a != b: a < b (a cursor that is not at the end yet)
					add(a.AddC(1), b)
				} else if ok, _ := Prove(b, a, st.facts); ok {
					add(b.AddC(1), a)
				}
			}
		}
	}
}

func isIntLike(t types.Type) bool {
	b, ok := t.Underlying().(*types.Basic)
	return ok && b.Info()&types.IsInteger != 0
}

// assumeNil records x != nil / x == nil for object paths (used by the nil rules).
func (in *Interp) assumeNil(st *State, x *ast.BinaryExpr, truth bool) {
	if x.Op != token.EQL && x.Op != token.NEQ {
		return
	}
	var other ast.Expr
	if id, ok := unparen(x.Y).(*ast.Ident); ok && id.Name == "nil" {
		other = x.X
	} else if id, ok := unparen(x.X).(*ast.Ident); ok && id.Name == "nil" {
		other = x.Y
	}
	if other == nil {
		return
	}
	nonNil := (x.Op == token.NEQ) == truth
	if id, ok := unparen(other).(*ast.Ident); ok {
		o := in.obj(id)
		// err == nil after a child decode: the child's success guarantees hold
		if ov, isObj := st.vars[o].(ObjV); isObj && !nonNil && st.ensures != nil {
			if fs, ok := st.ensures[ov.Path]; ok {
				st.facts = append(st.facts, fs...)
			}
		}
		// an error value known to be nil on this branch
		if ov, isObj := st.vars[o].(ObjV); isObj && !nonNil && (strings.HasPrefix(ov.Path, "err:") || ov.Path == "error") {
			st.vars[o] = NilV{}
		}
		if mv, ok := st.vars[o].(MaybeV); ok && nonNil {
			st.vars[o] = mv.V
		}
		if nonNil {
			st.nonNil = append(st.nonNil, o)
		} else {
			st.isNil = append(st.isNil, o)
		}
	}
}

// atomMax records declared upper bounds of atoms (by key): bytes and 16/32-bit
// reads of the input, integer fields by their Go type, masked values.
var atomMax = map[string]int64{}

func setAtomMax(t *Term, max int64) *Term {
	if a := t.SingleAtom(); a != nil && max >= 0 {
		if old, ok := atomMax[a.Key()]; !ok || max < old {
			atomMax[a.Key()] = max
		}
	}
	return t
}

// UpperBound returns a constant c with t <= c when every atom with a positive
// coefficient has a declared maximum and every atom with a negative
// coefficient is non-negative.
func (t *Term) UpperBound() (int64, bool) {
	ub := t.C
	for k, v := range t.K {
		a := t.Atoms[k]
		switch {
		case v > 0:
			m, ok := atomMax[k]
			if !ok {
				if a.Kind == "ite" {
					u0, ok0 := a.Sub[0].UpperBound()
					u1, ok1 := a.Sub[1].UpperBound()
					if ok0 && ok1 {
						if u1 > u0 {
							u0 = u1
						}
						ub += v * u0
						continue
					}
				}
				return 0, false
			}
			ub += v * m
		case v < 0:
			if !nonNegAtom(a) {
				return 0, false
			}
		}
	}
	return ub, true
}

// Prove decides A <= B from the facts (sound, incomplete): sign rule, declared
// ranges of atoms, at most three recorded facts, case split on branch values.
func Prove(a, b *Term, facts []Fact) (bool, []Fact) {
	return proveD(b.Sub(a), facts, "", 0)
}

func proveD(d *Term, facts []Fact, branch string, depth int) (bool, []Fact) {
	if d.NonNeg() {
		return true, nil
	}
	if lb, ok := d.LowerBound(); ok && lb >= 0 {
		return true, nil
	}
	// usable facts: unconditional ones and those of the branch under consideration
	var fs []Fact
	for _, f := range facts {
		if badHyps[f.Src] {
			continue
		}
		if f.Cond == "" || (branch != "" && strings.Contains(branch, "\x00"+f.Cond+"\x00")) {
			fs = append(fs, f)
		}
	}
	// declared ranges of the atoms that pull the difference down
	ranged := map[string]bool{}
	addRange := func(t *Term) {
		for k := range t.K {
			if m, ok := atomMax[k]; ok && !ranged[k] {
				ranged[k] = true
				fs = append(fs, Fact{L: FromAtom(t.Atoms[k]), R: Const(m), Src: "declared range"})
			}
		}
	}
	addRange(d)
	// x <= round8(x) for every rounding atom in play
	addRound := func(t *Term) {
		t.HasAtom(func(a *Atom) bool {
			if a.Kind == "round8" && !ranged["r8:"+a.Key()] {
				ranged["r8:"+a.Key()] = true
				fs = append(fs, Fact{L: a.Sub[0], R: FromAtom(a), Src: "x <= round8(x)"})
			}
			return false
		})
	}
	addRound(d)
	for _, f := range fs[:len(fs):len(fs)] {
		if f.Src != "declared range" {
			addRange(f.L)
			addRange(f.R)
		}
	}
	var used []Fact
	var rec func(d *Term, depth int, start int) bool
	rec = func(d *Term, depth int, start int) bool {
		if d.NonNeg() {
			return true
		}
		if depth == 0 {
			return false
		}
		for i := 0; i < len(fs); i++ {
			f := fs[i]
			g := f.R.Sub(f.L)
			if !sharesAtom(d, g) {
				continue
			}
			// the fact may be used scaled by the (positive integer) ratio of a shared atom's coefficients
			mults := []int64{1}
			for k, cd := range d.K {
				if cg, ok := g.K[k]; ok && cg != 0 && cd%cg == 0 && cd/cg > 1 {
					mults = append(mults, cd/cg)
				}
			}
			for _, m := range mults {
				nd := d.AddScaled(g, -m)
				if termWeight(nd) > termWeight(d)+2 {
					continue
				}
				used = append(used, f)
				if rec(nd, depth-1, i+1) {
					return true
				}
				used = used[:len(used)-1]
			}
		}
		return false
	}
	if rec(d, 5, 0) {
		return true, append([]Fact(nil), used...)
	}
	// case split on a branch value: ite(c ? x : y) is x when c holds, y otherwise;
	// facts recorded on one arm of that branch become usable in its case
	if depth < 3 {
		for _, k := range d.keys() {
			at := d.Atoms[k]
			if at.Kind != "ite" {
				continue
			}
			rest := d.AddScaled(FromAtom(at), -d.K[k])
			d1 := rest.AddScaled(at.Sub[0], d.K[k])
			d0 := rest.AddScaled(at.Sub[1], d.K[k])
			ok1, u1 := proveD(d1, facts, branch+"\x00"+at.Cond+"\x00", depth+1)
			if !ok1 {
				return false, nil
			}
			ok0, u0 := proveD(d0, facts, branch+"\x00"+negCond(at.Cond)+"\x00", depth+1)
			if !ok0 {
				return false, nil
			}
			return true, append(u1, u0...)
		}
	}
	return false, nil
}

func sharesAtom(a, b *Term) bool {
	for k := range a.K {
		if _, ok := b.K[k]; ok {
			return true
		}
	}
	return false
}

func termWeight(t *Term) int { return len(t.K) }
