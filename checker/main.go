package main

import (
	"encoding/json"
	"fmt"
	"os"
	"sort"
	"strings"
)

type propCheck struct {
	ID          string
	Run         func(w *World, r *Report)
	Level       string   // explanation written into the evidence
	Assumptions []string // trusted base
	NeedSSA     bool
}

var registry = map[string]*propCheck{}

func register(p *propCheck) { registry[p.ID] = p }

func usage() {
	fmt.Fprintln(os.Stderr, "usage: ofverify check <Cnn> [--tier quick|thorough] [--repo DIR]\n       ofverify explain <replay.json> [--repo DIR]\n       ofverify list\n       ofverify dump <what> [--repo DIR]")
	os.Exit(2)
}

func main() {
	if len(os.Args) < 2 {
		usage()
	}
	args := os.Args[2:]
	repo := os.Getenv("OFV_REPO")
	if repo == "" {
		repo = "/repo"
	}
	tier := os.Getenv("VERIF_TIER")
	if tier == "" {
		tier = "quick"
	}
	var pos []string
	for i := 0; i < len(args); i++ {
		switch args[i] {
		case "--tier":
			i++
			if i < len(args) {
				tier = args[i]
			}
		case "--repo":
			i++
			if i < len(args) {
				repo = args[i]
			}
		default:
			pos = append(pos, args[i])
		}
	}
	if tier != "quick" && tier != "thorough" {
		tier = "quick"
	}
	switch os.Args[1] {
	case "list":
		var ids []string
		for id := range registry {
			ids = append(ids, id)
		}
		sort.Strings(ids)
		fmt.Println(strings.Join(ids, " "))
	case "check":
		if len(pos) != 1 {
			usage()
		}
		os.Exit(runCheck(pos[0], tier, repo, ""))
	case "explain":
		if len(pos) != 1 {
			usage()
		}
		b, err := os.ReadFile(pos[0])
		if err != nil {
			fmt.Fprintln(os.Stderr, "error:", err)
			os.Exit(2)
		}
		var rp struct {
			Property string `json:"property"`
			Key      string `json:"key"`
			Tier     string `json:"tier"`
		}
		if err := json.Unmarshal(b, &rp); err != nil {
			fmt.Fprintln(os.Stderr, "error:", err)
			os.Exit(2)
		}
		if rp.Tier != "" {
			tier = rp.Tier
		}
		os.Exit(runCheck(rp.Property, tier, repo, rp.Key))
	case "dump":
		if len(pos) < 1 {
			usage()
		}
		w, err := LoadWorld(repo, false)
		if err != nil {
			fmt.Fprintln(os.Stderr, "error:", err)
			os.Exit(2)
		}
		runDump(w, pos)
	default:
		usage()
	}
}

// runCheck decides one property. With only != "" it re-decides the single
// obligation with that key (replay) without touching evidence files.
func runCheck(id, tier, repo, only string) (code int) {
	pc, ok := registry[id]
	if !ok {
		fmt.Fprintf(os.Stderr, "error: no check registered for %s\n", id)
		return 2
	}
	r := NewReport(id, tier)
	defer func() {
		if e := recover(); e != nil {
			// an analyser crash is never a pass
			fmt.Fprintf(os.Stderr, "analyser panic: %v\n", e)
			panic(e)
		}
	}()
	w, err := LoadWorld(repo, false)
	if err != nil {
		fmt.Fprintln(os.Stderr, "error:", err)
		return 2
	}
	r.Stats["packages"] = len(w.Mod)
	r.Stats["functions"] = len(w.Funcs)
	r.Stats["wire_kinds"] = len(w.KindsL)
	pc.Run(w, r)
	if tier == "thorough" {
		runThoroughExtras(pc, w, r, repo)
	}
	if only != "" {
		found := false
		for _, o := range r.Obs {
			if o.Key() == only {
				found = true
				fmt.Printf("%s %s at %s\n  diagnosis: %s\n  note: %s\n", strings.ToUpper(o.Verdict), o.Key(), o.Pos, o.Diag, o.Note)
				if o.Verdict != VOK {
					code = 1
				}
			}
		}
		if !found {
			fmt.Printf("obligation %s no longer exists on the current tree\n", only)
		}
		return code
	}
	return r.Finish(pc.Level, pc.Assumptions)
}
