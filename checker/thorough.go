package main

// Thorough tier (DESIGN §5): everything the quick tier decides, plus
//   (a) the same rules over the tree as built for a 32-bit target (GOARCH=386: the files and constant
//       arithmetic that build selects), reporting every obligation that fails there and not on the default target;
//   (b) a sensitivity audit: each stored seeded change of the property (/verif/seeded/<id>-k/patch.diff, written
//       by an independent agent from the property text alone and confirmed to break the property) is applied
//       to a scratch copy of the CURRENT working tree and the property's rules are run on the variant; the
//       evidence records which seeds the rules catch. A seed that no longer applies or that a later repair made
//       harmless is recorded as such. The audit never changes the verdict on /repo;
//   (c) a cross-reference run of the generic analysers (go vet, staticcheck) over the module, recorded as
//       information only.
// All of it is static: no code of the library is executed.

import (
	"encoding/json"
	"fmt"
	"os"
	"os/exec"
	"path/filepath"
	"sort"
	"strings"
)

func runThoroughExtras(pc *propCheck, w *World, r *Report, repo string) {
	thorough386(pc, w, r, repo)
	thoroughSeeds(pc, r, repo)
	thoroughCrossRef(r, repo)
}

func thorough386(pc *propCheck, w *World, r *Report, repo string) {
	old, had := os.LookupEnv("OFV_GOARCH")
	os.Setenv("OFV_GOARCH", "386")
	defer func() {
		if had {
			os.Setenv("OFV_GOARCH", old)
		} else {
			os.Unsetenv("OFV_GOARCH")
		}
	}()
	w2, err := LoadWorld(repo, false)
	if err != nil {
		r.Notef("GOARCH=386: the tree could not be loaded for a 32-bit target (%v); rules not re-run there", firstLine(err.Error()))
		r.Extra["goarch_386"] = "not loadable"
		return
	}
	r2 := NewReport(pc.ID, r.Tier)
	pc.Run(w2, r2)
	failing := map[string]bool{}
	for _, o := range r.Obs {
		if o.Verdict != VOK {
			failing[o.Key()+"|"+o.Diag] = true
		}
	}
	extra := 0
	for _, o := range r2.Obs {
		if o.Verdict == VOK || strings.HasPrefix(o.Rule, "floor") {
			continue
		}
		if failing[o.Key()+"|"+o.Diag] {
			continue
		}
		// keep the key: known findings and assumed rows apply to both targets
		seen := false
		for _, m := range r.Obs {
			if m.Key() == o.Key() && m.Verdict != VOK {
				seen = true
			}
		}
		if seen {
			continue
		}
		extra++
		no := *o
		no.Instance = strings.TrimSuffix(o.Instance+" [GOARCH=386]", " ")
		r.Add(&no)
	}
	r.Extra["goarch_386"] = map[string]any{"obligations": len(r2.Obs), "failing_only_on_386": extra, "functions": len(w2.Funcs)}
}

func firstLine(s string) string {
	if i := strings.Index(s, "\n"); i >= 0 {
		return s[:i]
	}
	return s
}

type seedAudit struct {
	Seed    string `json:"seed"`
	Outcome string `json:"outcome"` // caught | silent | obsolete | not-applicable
	Detail  string `json:"detail,omitempty"`
}

func thoroughSeeds(pc *propCheck, r *Report, repo string) {
	if os.Getenv("OFV_NO_SEED_AUDIT") != "" {
		return // the audit runs this binary on variants; those runs must not recurse
	}
	dirs, _ := filepath.Glob(filepath.Join(verifRoot(), "seeded", pc.ID+"-*"))
	sort.Strings(dirs)
	var out []seedAudit
	exe, err := os.Executable()
	if err != nil {
		r.Notef("seed audit skipped: %v", err)
		return
	}
	for _, d := range dirs {
		name := filepath.Base(d)
		a := seedAudit{Seed: name}
		var meta struct {
			Status  string `json:"status"`
			Summary string `json:"summary"`
		}
		if b, err := os.ReadFile(filepath.Join(d, "meta.json")); err == nil {
			json.Unmarshal(b, &meta)
		}
		if meta.Status == "obsolete" {
			a.Outcome, a.Detail = "obsolete", "a later repair of the library made this change harmless (see meta.json)"
			out = append(out, a)
			continue
		}
		tmp, err := os.MkdirTemp("", "ofv-seed-")
		if err != nil {
			a.Outcome, a.Detail = "not-applicable", err.Error()
			out = append(out, a)
			continue
		}
		func() {
			defer os.RemoveAll(tmp)
			variant := filepath.Join(tmp, "tree")
			if err := copyTree(repo, variant); err != nil {
				a.Outcome, a.Detail = "not-applicable", "copy failed: "+err.Error()
				return
			}
			patch, _ := filepath.Abs(filepath.Join(d, "patch.diff"))
			cmd := exec.Command("git", "apply", "--whitespace=nowarn", patch)
			cmd.Dir = variant
			cmd.Env = append(os.Environ(), "GIT_CEILING_DIRECTORIES="+tmp)
			if b, err := cmd.CombinedOutput(); err != nil {
				a.Outcome, a.Detail = "not-applicable", "the patch does not apply to the current tree: "+firstLine(string(b))
				return
			}
			ev := filepath.Join(tmp, "ev")
			c2 := exec.Command(exe, "check", pc.ID, "--tier", "quick", "--repo", variant)
			c2.Env = append(os.Environ(), "OFV_EVIDENCE_DIR="+ev, "OFV_NO_SEED_AUDIT=1", "VERIF_ROOT="+verifRoot())
			b, err := c2.CombinedOutput()
			code := 0
			if ee, ok := err.(*exec.ExitError); ok {
				code = ee.ExitCode()
			} else if err != nil {
				code = -1
			}
			switch code {
			case 1:
				a.Outcome = "caught"
				for _, l := range strings.Split(string(b), "\n") {
					if strings.HasPrefix(l, "VIOLATION "+pc.ID+"/") || strings.HasPrefix(l, "UNDECIDED "+pc.ID+"/") || strings.HasPrefix(l, "UNMAPPED "+pc.ID+"/") {
						if len(l) > 260 {
							l = l[:260] + "…"
						}
						a.Detail = l
						break
					}
				}
			case 0:
				a.Outcome, a.Detail = "silent", "the rules of this property do not fire on this change (other properties' rules may; see DESIGN.md)"
			default:
				a.Outcome, a.Detail = "not-applicable", fmt.Sprintf("the variant could not be analysed (exit %d): %s", code, firstLine(string(b)))
			}
		}()
		out = append(out, a)
	}
	n := map[string]int{}
	for _, a := range out {
		n[a.Outcome]++
	}
	r.Extra["seed_audit"] = map[string]any{
		"what":    "independently written changes that break this property, applied one at a time to a scratch copy of the current tree; 'caught' = this property's rules report a violation on the variant",
		"results": out, "caught": n["caught"], "silent": n["silent"], "obsolete": n["obsolete"], "not_applicable": n["not-applicable"],
	}
}

func copyTree(src, dst string) error {
	return filepath.Walk(src, func(p string, info os.FileInfo, err error) error {
		if err != nil {
			return err
		}
		rel, _ := filepath.Rel(src, p)
		if rel == ".git" || strings.HasPrefix(rel, ".git"+string(filepath.Separator)) {
			if info.IsDir() {
				return filepath.SkipDir
			}
			return nil
		}
		t := filepath.Join(dst, rel)
		if info.IsDir() {
			return os.MkdirAll(t, 0o755)
		}
		if !info.Mode().IsRegular() {
			return nil
		}
		b, err := os.ReadFile(p)
		if err != nil {
			return err
		}
		return os.WriteFile(t, b, 0o644)
	})
}

// thoroughCrossRef records what the generic analysers say about the module (information only).
func thoroughCrossRef(r *Report, repo string) {
	res := map[string]any{}
	run := func(name string, args ...string) {
		if _, err := exec.LookPath(name); err != nil {
			res[name] = "not installed"
			return
		}
		cmd := exec.Command(name, args...)
		cmd.Dir = repo
		cmd.Env = goEnv()
		b, _ := cmd.CombinedOutput()
		lines := 0
		for _, l := range strings.Split(string(b), "\n") {
			if strings.Contains(l, ".go:") {
				lines++
			}
		}
		res[name+" "+strings.Join(args, " ")] = fmt.Sprintf("%d diagnostics", lines)
	}
	run("go", "vet", "./...")
	run("staticcheck", "./...")
	res["note"] = "generic analysers give no verdict on the property; their diagnostics were triaged once during design (DESIGN.md §6) and are listed here as a cross-reference only"
	r.Extra["generic_analysers"] = res
}
