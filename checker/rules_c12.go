package main

import (
	"fmt"
	"go/ast"
	"go/types"
	"sort"
	"strings"

	"golang.org/x/tools/go/ssa"
)

func init() {
	register(&propCheck{
		ID:      "C12",
		Run:     runC12,
		NeedSSA: true,
		Level:   "Static analysis (may-alias taint over go/ssa along the VTA call graph). Decides the statement as a may-alias property: with the byte-slice parameter of the parser entry point as source, no value derived from it (sub-slices, conversions between slice types, interface boxing, values loaded from local carriers, results of callees that return their argument, bytes.NewBuffer / Buffer.Bytes / net.IP.To4 …) is stored into memory that outlives the call, sent, captured by a goroutine, or returned — in any function reachable from Parse. Flow stops at copying operations (copy, append of bytes, Buffer.Write, binary.BigEndian.*, string conversion). An out-of-module callee that receives a derived value and has no model fails the run.",
		Assumptions: []string{
			"closed world: util.Message implementations outside the module are out of scope",
			"standard-library aliasing models listed in checker/alias.go (stdModels)",
			"no unsafe pointer arithmetic in the module (checked: unsafe is used for Sizeof only)",
			"VTA call graph is a sound over-approximation (the thorough tier repeats the analysis on the CHA graph)",
		},
	})
}

func ssaFuncKey(w *World, fn *ssa.Function) string {
	if fn == nil {
		return "?"
	}
	if o, ok := fn.Object().(*types.Func); ok {
		if fi := w.FuncOf(o); fi != nil {
			return fi.Key
		}
		return o.FullName()
	}
	if fn.Parent() != nil {
		return ssaFuncKey(w, fn.Parent()) + "$closure"
	}
	return fn.String()
}

func runC12(w *World, r *Report) {
	r.Rule("noalias", "no value derived from the parser's input reaches a store that outlives the call, a send, a goroutine or the result", 100)
	r.Rule("nounsafe", "unsafe is used for Sizeof only", 1)
	r.Rule("positive", "the engine flags a known aliasing pattern (self-test on a synthetic function)", 0)
	fi := w.Funcs["openflow13.Parse"]
	if fi == nil {
		r.Fail(VViolation, "noalias", "openflow13.Parse", "", "-", "parser entry point openflow13.Parse not found")
		return
	}
	sw := w.SSA()
	pf := w.SSAFunc(fi)
	if pf == nil || len(pf.Params) == 0 {
		r.Fail(VUndecided, "noalias", "openflow13.Parse", "", "-", "no SSA form for the parser entry point")
		return
	}
	a := NewAlias(w)
	sum := a.AnalyzeParam(pf, 0)
	aliasReport(w, r, a, sum, "noalias", "openflow13.Parse")
	r.Stats["ssa_functions_total"] = len(sw.All)
	r.Stats["functions_visited_with_a_derived_argument"] = len(a.Visited)
	r.Stats["values_marked_derived"] = a.Marked
	reach := sw.Reachable(pf)
	nmod := 0
	for f := range reach {
		if w.inModule(f) {
			nmod++
		}
	}
	r.Stats["in_module_functions_reachable_from_Parse"] = nmod

	// the stream's parser goroutine hands Parse the pool buffer's bytes; covered by the same entry point.

	// informational: every decoder taken as its own entry point
	var notes []string
	for _, k := range w.KindsL {
		for _, f := range []*types.Func{k.Unmarshal, k.Write} {
			dfi := w.FuncOf(f)
			if dfi == nil || dfi.Recv == nil || dfi.Recv.Obj() != k.Named.Obj() {
				continue
			}
			df := w.SSAFunc(dfi)
			if df == nil || len(df.Params) < 2 {
				continue
			}
			a2 := NewAlias(w)
			s2 := a2.AnalyzeParam(df, 1)
			for _, e := range s2.events {
				if e.Kind == "retain" && ssaFuncKey(w, e.Fn) == dfi.Key {
					if !reach[df] {
						notes = append(notes, fmt.Sprintf("%s keeps part of its input (%s at %s); not reachable from Parse, outside the statement", dfi.Key, e.What, w.Pos(e.Pos)))
					}
				}
			}
		}
	}
	sort.Strings(notes)
	for _, n := range notes {
		r.Notef("%s", n)
	}

	// unsafe
	bad := w.unsafeUses()
	if len(bad) == 0 {
		r.OK("nounsafe", "module", "", "-", "every use of package unsafe is unsafe.Sizeof (a compile-time constant)", true)
	} else {
		r.Fail(VViolation, "nounsafe", "module", "", bad[0], "package unsafe is used for more than Sizeof: the alias analysis does not model it")
	}
}

// aliasReport turns events into obligations: one failing obligation per
// event, one passing obligation per visited function without events.
func aliasReport(w *World, r *Report, a *Alias, sum *aliasSummary, rule, entry string) {
	byFn := map[string][]*AliasEvent{}
	for _, e := range sum.events {
		if rule == "noalias" && e.Kind == "mutate" {
			continue // writing into the input buffer is not an ownership violation of the result
		}
		byFn[ssaFuncKey(w, e.Fn)] = append(byFn[ssaFuncKey(w, e.Fn)], e)
	}
	if sum.returns {
		r.Fail(VViolation, rule, entry, "result", "-", "the entry point's result may alias its input")
	}
	var fns []string
	for f := range a.Visited {
		fns = append(fns, ssaFuncKey(w, f))
	}
	sort.Strings(fns)
	seen := map[string]bool{}
	for _, fk := range fns {
		if seen[fk] {
			continue
		}
		seen[fk] = true
		evs := byFn[fk]
		if len(evs) == 0 {
			r.OK(rule, fk, "", "-", "receives a derived value; nothing derived outlives the call", true)
			continue
		}
		sortEvents(evs, w)
		dedup := map[string]bool{}
		for _, e := range evs {
			inst := e.Kind + ": " + e.What
			if dedup[inst] {
				continue
			}
			dedup[inst] = true
			verdict := VViolation
			if e.Kind == "unmodelled" {
				verdict = VUndecided
			}
			r.Fail(verdict, rule, fk, inst, w.Pos(e.Pos), e.What)
		}
	}
	for fk, evs := range byFn {
		if !seen[fk] {
			for _, e := range evs {
				r.Fail(VViolation, rule, fk, e.Kind+": "+e.What, w.Pos(e.Pos), e.What)
			}
		}
	}
}

func (w *World) unsafeUses() []string {
	var bad []string
	for _, p := range w.Mod {
		for _, f := range p.Syntax {
			if strings.HasSuffix(w.Fset.Position(f.Pos()).Filename, "_test.go") {
				continue
			}
			ast.Inspect(f, func(n ast.Node) bool {
				sel, ok := n.(*ast.SelectorExpr)
				if !ok {
					return true
				}
				id, ok := sel.X.(*ast.Ident)
				if !ok {
					return true
				}
				if pn, ok := p.TypesInfo.Uses[id].(*types.PkgName); ok && pn.Imported().Path() == "unsafe" {
					if sel.Sel.Name != "Sizeof" {
						bad = append(bad, w.Pos(sel.Pos()))
					}
				}
				return true
			})
		}
	}
	return bad
}

// ssaFuncInfo: the source function behind an SSA function (nil for synthetic ones and closures).
func (w *World) ssaFuncInfo(fn *ssa.Function) *FuncInfo {
	if fn == nil {
		return nil
	}
	if o, ok := fn.Object().(*types.Func); ok {
		return w.FuncOf(o)
	}
	return nil
}
