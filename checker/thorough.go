package main

func runThoroughExtras(pc *propCheck, w *World, r *Report, repo string) {}
