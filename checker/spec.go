package main

import (
	"encoding/json"
	"fmt"
	"os"
	"path/filepath"
)

type Codes struct {
	Version         int64                      `json:"ofp_version_1_3"`
	OfpType         map[string]int64           `json:"ofp_type"`
	CtorOfpType     map[string]string          `json:"ctor_ofp_type"`
	SwitchSideCtors map[string]string          `json:"switch_side_ctors_without_type"`
	VendorCtor      map[string]map[string]any  `json:"vendor_ctor"`
	NxVendor        int64                      `json:"nx_vendor_id"`
	OnfExp          int64                      `json:"onf_experimenter_id"`
	ActionType      map[string]int64           `json:"ofp_action_type"`
	CtorAction      map[string]string          `json:"ctor_action_type"`
	InstrType       map[string]int64           `json:"ofp_instruction_type"`
	CtorInstr       map[string]string          `json:"ctor_instruction_type"`
	Nxast           map[string]int64           `json:"nxast"`
	CtorNxast       map[string]string          `json:"ctor_nxast"`
	HelloElem       map[string]int64           `json:"hello_elem_type"`
	MatchType       map[string]int64           `json:"ofp_match_type"`
	NxtSubtype      map[string]int64           `json:"nxt_subtype"`
	OnfBundle       map[string]int64           `json:"onf_bundle_exp_type"`
	Controller      map[string]string          `json:"controller_kinds"`
	SwitchKinds     map[string]string          `json:"switch_kinds"`
	CtStateBits     map[string]int64           `json:"ct_state_bits"`
	Extra           map[string]json.RawMessage `json:"-"`
}

func loadSpec(name string, into any) error {
	b, err := os.ReadFile(filepath.Join(verifRoot(), "spec", name))
	if err != nil {
		return err
	}
	if err := json.Unmarshal(b, into); err != nil {
		return fmt.Errorf("spec/%s: %v", name, err)
	}
	return nil
}

func loadCodes() (*Codes, error) {
	c := &Codes{}
	if err := loadSpec("codes.json", c); err != nil {
		return nil, err
	}
	// internal consistency: no duplicate codes inside one table
	for tn, t := range map[string]map[string]int64{"ofp_type": c.OfpType, "ofp_action_type": c.ActionType, "ofp_instruction_type": c.InstrType, "nxast": c.Nxast} {
		seen := map[int64]string{}
		for n, v := range t {
			if o, ok := seen[v]; ok {
				return nil, fmt.Errorf("spec/codes.json: %s: %s and %s share code %d", tn, o, n, v)
			}
			seen[v] = n
		}
	}
	return c, nil
}
