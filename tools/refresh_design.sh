#!/bin/bash
# Regenerates the generated tail of DESIGN.md (§8.2–§8.6) in place.
cd "$(dirname "$0")/.."
python3 tools/gen_results.py > /tmp/gen.$$.md || exit 1
python3 - /tmp/gen.$$.md <<'PY'
import sys
p='DESIGN.md'; s=open(p).read(); g=open(sys.argv[1]).read()
a='<!-- BEGIN GENERATED (tools/gen_results.py) -->\n'; b='\n<!-- END GENERATED -->'
i=s.index(a)+len(a); j=s.index(b)
open(p,'w').write(s[:i]+g+s[j:])
PY
rm -f /tmp/gen.$$.md; echo refreshed
