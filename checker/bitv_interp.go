package main

// Path-splitting interpreter for loop-free integer / byte-buffer code over the
// lane-vector domain of bitv_ops.go. Used for the bit-range helpers (C16), the
// conntrack state builder (C18), the OXM header word (C15), the base
// encoder/decoder primitives (C19) and the packed packet-header fields (C09).

import (
	"fmt"
	"go/ast"
	"go/constant"
	"go/token"
	"go/types"
	"sort"
	"strings"
)

// bvBuf is byte storage; cells are keyed by the text of their absolute index term.
type bvBuf struct {
	Name  string
	Sym   bool // unknown contents: cells are created on demand as 8-bit sources
	Cells map[string]BV
	Len   *Term // nil: unknown
	Zero  bool  // every byte is zero
	// HavocFrom >= 0: bytes at absolute offsets >= HavocFrom without a cell are unknown (overwritten by code
	// the interpreter did not follow)
	HavocFrom int64
	Havoc     bool
}

type bvView struct {
	Buf  *bvBuf
	Base *Term
	Len  *Term // nil: to the end of the storage
}

func (v *bvView) length() *Term {
	if v.Len != nil {
		return v.Len
	}
	if v.Buf.Len != nil {
		return v.Buf.Len.Sub(v.Base)
	}
	return nil
}

type bvOutItem struct {
	Byte *BV
	View *bvView
}

// bvOut is a bytes.Buffer used as an append-only output stream.
type bvOut struct {
	Len0  *Term
	Items []bvOutItem
}

func (o *bvOut) length() *Term {
	t := o.Len0
	if t == nil {
		return nil
	}
	for _, it := range o.Items {
		if it.Byte != nil {
			t = t.AddC(1)
			continue
		}
		l := it.View.length()
		if l == nil {
			return nil
		}
		t = t.Add(l)
	}
	return t
}

type bvVal struct {
	BV     BV
	Fields map[string]BV     // integer fields of a struct value
	Sub    map[string]*bvVal // other fields of a struct value
	View   *bvView
	Out    *bvOut
	Big    *bigV // *math/big.Int value in closed form (pointer semantics)
	Opaque string
}

// bigV is an arbitrary-precision integer known only in closed form.
type bigV struct {
	Lin  *Term  // exact value as a linear term (small values)
	Pow  *Term  // 2^Pow
	Mask *MaskV // N ones starting at Lo
	NegP *Term  // -(2^NegP): what -1 << n is
	Why  string // why the value is unknown
}

func (v *bvVal) isInt() bool {
	return v != nil && v.Opaque == "" && v.Fields == nil && v.View == nil && v.Out == nil && v.Big == nil
}

type bvSite struct {
	Pos  token.Pos
	Text string
	A, B *Term // obligation A <= B
	OK   bool
	Seq  int // value of the path's access counter at this access
	// Slice: the obligation comes from a slice expression b[i:j]; at run time j is checked against the
	// capacity, not the length, so a failed obligation need not panic
	Slice bool
}

type bvPath struct {
	Ctx     *bvCtx
	Conds   []string
	Vars    map[types.Object]*bvVal
	Recv    map[string]BV // integer receiver fields
	RecvSub map[string]*bvVal
	Ret     []*bvVal
	Done    bool
	Undec   []string
	Stores  []string        // receiver fields assigned
	Assume  map[string]byte // lane bits fixed by the branch conditions of this path ('0' / '1')
	Sites   []*bvSite
	Defers  []*ast.DeferStmt
	Reads   int // number of buffer accesses performed so far (orders defers against reads)
	DeferAt []int
	Locals  map[string]*bvVal // final values of the named locals (filled when the function ends)
}

type cloneMemo struct {
	vals map[*bvVal]*bvVal
	bufs map[*bvBuf]*bvBuf
	outs map[*bvOut]*bvOut
}

func (m *cloneMemo) buf(b *bvBuf) *bvBuf {
	if b == nil {
		return nil
	}
	if n, ok := m.bufs[b]; ok {
		return n
	}
	n := &bvBuf{Name: b.Name, Sym: b.Sym, Cells: map[string]BV{}, Len: b.Len, Zero: b.Zero, Havoc: b.Havoc, HavocFrom: b.HavocFrom}
	for k, v := range b.Cells {
		n.Cells[k] = v
	}
	m.bufs[b] = n
	return n
}

func (m *cloneMemo) val(v *bvVal) *bvVal {
	if v == nil {
		return nil
	}
	if v.Fields == nil && v.Sub == nil && v.View == nil && v.Out == nil && v.Big == nil {
		return v // immutable
	}
	if n, ok := m.vals[v]; ok {
		return n
	}
	n := &bvVal{BV: v.BV, Opaque: v.Opaque}
	m.vals[v] = n
	if v.Big != nil {
		b := *v.Big
		n.Big = &b
	}
	if v.Fields != nil {
		n.Fields = map[string]BV{}
		for k, x := range v.Fields {
			n.Fields[k] = x
		}
	}
	if v.Sub != nil {
		n.Sub = map[string]*bvVal{}
		for k, x := range v.Sub {
			n.Sub[k] = m.val(x)
		}
	}
	if v.View != nil {
		n.View = &bvView{Buf: m.buf(v.View.Buf), Base: v.View.Base, Len: v.View.Len}
	}
	if v.Out != nil {
		if o, ok := m.outs[v.Out]; ok {
			n.Out = o
		} else {
			o := &bvOut{Len0: v.Out.Len0}
			for _, it := range v.Out.Items {
				ni := bvOutItem{Byte: it.Byte}
				if it.View != nil {
					ni.View = &bvView{Buf: m.buf(it.View.Buf), Base: it.View.Base, Len: it.View.Len}
				}
				o.Items = append(o.Items, ni)
			}
			m.outs[v.Out] = o
			n.Out = o
		}
	}
	return n
}

func (p *bvPath) clone() *bvPath {
	n := &bvPath{Ctx: p.Ctx.clone(), Conds: append([]string(nil), p.Conds...), Vars: map[types.Object]*bvVal{}, Recv: map[string]BV{}, RecvSub: map[string]*bvVal{},
		Done: p.Done, Undec: append([]string(nil), p.Undec...), Stores: append([]string(nil), p.Stores...), Sites: append([]*bvSite(nil), p.Sites...),
		Defers: append([]*ast.DeferStmt(nil), p.Defers...), Reads: p.Reads, DeferAt: append([]int(nil), p.DeferAt...)}
	m := &cloneMemo{vals: map[*bvVal]*bvVal{}, bufs: map[*bvBuf]*bvBuf{}, outs: map[*bvOut]*bvOut{}}
	for k, v := range p.Vars {
		n.Vars[k] = m.val(v)
	}
	for k, v := range p.Recv {
		n.Recv[k] = v
	}
	for k, v := range p.RecvSub {
		n.RecvSub[k] = m.val(v)
	}
	n.Ret = p.Ret
	if p.Assume != nil {
		n.Assume = map[string]byte{}
		for k, v := range p.Assume {
			n.Assume[k] = v
		}
	}
	return n
}

// resolve applies the path's branch assumptions to a lane bit.
func (p *bvPath) resolve(b Bit) Bit {
	if b.K == 's' && p.Assume != nil {
		if v, ok := p.Assume[b.String()]; ok {
			return Bit{K: v}
		}
	}
	return b
}

type bvInterp struct {
	w     *World
	fi    *FuncInfo
	info  *types.Info
	recv  types.Object
	depth int
	// tolerant: statements and calls outside the bit-level language do not make the path undecided; everything
	// they may assign is forgotten instead (locals, receiver fields, buffer bytes at or above the lowest offset
	// they can reach). Used where only a few bytes/fields of a larger function are examined (C09).
	tolerant bool
	lastRets []*bvVal // results of the last inlined call (tuple assignments)
}

func (bi *bvInterp) undec(p *bvPath, pos token.Pos, f string, a ...any) {
	if bi.tolerant {
		return
	}
	p.Undec = append(p.Undec, bi.w.Pos(pos)+": "+fmt.Sprintf(f, a...))
}

func typeBits(t types.Type) (int, bool, bool) {
	if t == nil {
		return 0, false, false
	}
	b, ok := t.Underlying().(*types.Basic)
	if !ok {
		return 0, false, false
	}
	if b.Info()&types.IsBoolean != 0 {
		return 1, false, true
	}
	w, unsigned := intBits(t)
	if w == 0 {
		return 0, false, false
	}
	return w, !unsigned, true
}

// symView is an input buffer of unknown contents and length.
func symView(name string, length *Term) *bvVal {
	return &bvVal{View: &bvView{Buf: &bvBuf{Name: name, Sym: true, Cells: map[string]BV{}, Len: length}, Base: Const(0)}}
}

// bytesView is an input buffer whose first n bytes are the given sources.
func bytesView(cells map[int]BV) *bvVal {
	b := &bvBuf{Name: "P", Cells: map[string]BV{}}
	for k, v := range cells {
		b.Cells[Const(int64(k)).String()] = v
	}
	return &bvVal{View: &bvView{Buf: b, Base: Const(0)}}
}

// RunBV interprets fi on the given receiver fields and arguments; every
// control-flow path is returned separately.
func (w *World) RunBV(fi *FuncInfo, ctx *bvCtx, recv map[string]BV, args []*bvVal) []*bvPath {
	return w.RunBV2(fi, ctx, recv, nil, args)
}

func (w *World) RunBV2(fi *FuncInfo, ctx *bvCtx, recv map[string]BV, recvSub map[string]*bvVal, args []*bvVal) []*bvPath {
	bi := &bvInterp{w: w, fi: fi, info: fi.Pkg.TypesInfo}
	return bi.run(ctx, recv, recvSub, args, 0, nil)
}

func (bi *bvInterp) run(ctx *bvCtx, recv map[string]BV, recvSub map[string]*bvVal, args []*bvVal, depth int, from *bvPath) []*bvPath {
	bi.depth = depth
	p := &bvPath{Ctx: ctx, Vars: map[types.Object]*bvVal{}, Recv: map[string]BV{}, RecvSub: map[string]*bvVal{}}
	if from != nil {
		p.Assume, p.Reads = from.Assume, from.Reads
	}
	for k, v := range recv {
		p.Recv[k] = v
	}
	for k, v := range recvSub {
		p.RecvSub[k] = v
	}
	fi := bi.fi
	if fi.Decl.Recv != nil && len(fi.Decl.Recv.List) > 0 && len(fi.Decl.Recv.List[0].Names) > 0 {
		bi.recv = bi.info.Defs[fi.Decl.Recv.List[0].Names[0]]
	}
	i := 0
	for _, fl := range fi.Decl.Type.Params.List {
		for _, nm := range fl.Names {
			o := bi.info.Defs[nm]
			if i < len(args) && args[i] != nil {
				p.Vars[o] = args[i]
			} else {
				p.Vars[o] = &bvVal{Opaque: "arg:" + nm.Name}
			}
			i++
		}
	}
	if fi.Decl.Type.Results != nil {
		for _, f := range fi.Decl.Type.Results.List {
			for _, nm := range f.Names {
				o := bi.info.Defs[nm]
				if w, s, ok := typeBits(o.Type()); ok {
					p.Vars[o] = &bvVal{BV: constBV(0, w, s)}
				} else {
					p.Vars[o] = &bvVal{Opaque: "zero"}
				}
			}
		}
	}
	out := bi.block([]*bvPath{p}, fi.Decl.Body.List)
	for _, q := range out {
		if depth == 0 {
			q.Locals = map[string]*bvVal{}
			for o, v := range q.Vars {
				if o != nil {
					q.Locals[o.Name()] = v
				}
			}
		}
		if !q.Done {
			q.Done = true
			if fi.Decl.Type.Results != nil {
				for _, f := range fi.Decl.Type.Results.List {
					for _, nm := range f.Names {
						q.Ret = append(q.Ret, q.Vars[bi.info.Defs[nm]])
					}
				}
			}
		}
	}
	return out
}

func (bi *bvInterp) block(paths []*bvPath, stmts []ast.Stmt) []*bvPath {
	for _, s := range stmts {
		var next []*bvPath
		for _, p := range paths {
			if p.Done {
				next = append(next, p)
				continue
			}
			next = append(next, bi.stmt(p, s)...)
		}
		paths = next
		if len(paths) > 64 {
			for _, p := range paths {
				bi.undec(p, s.Pos(), "more than 64 paths")
			}
			return paths
		}
	}
	return paths
}

func (bi *bvInterp) zeroVal(t types.Type, name string) *bvVal {
	if w, sg, ok := typeBits(t); ok {
		v := constBV(0, w, sg)
		if b, isB := t.Underlying().(*types.Basic); isB && b.Info()&types.IsBoolean != 0 {
			v.IsBool = true
		}
		return &bvVal{BV: v}
	}
	if n, ok := isByteArray(t); ok {
		if _, isPtr := t.Underlying().(*types.Pointer); !isPtr {
			b := &bvBuf{Name: name, Cells: map[string]BV{}, Len: Const(n)}
			for i := int64(0); i < n; i++ {
				b.Cells[Const(i).String()] = constBV(0, 8, false)
			}
			return &bvVal{View: &bvView{Buf: b, Base: Const(0)}}
		}
	}
	if st := structOf(t); st != nil {
		if _, isPtr := t.Underlying().(*types.Pointer); !isPtr {
			return bi.zeroStruct(st)
		}
	}
	return &bvVal{Opaque: "zero:" + name}
}

func (bi *bvInterp) zeroStruct(st *types.Struct) *bvVal {
	v := &bvVal{Fields: map[string]BV{}, Sub: map[string]*bvVal{}}
	for i := 0; i < st.NumFields(); i++ {
		if w, s, ok := typeBits(st.Field(i).Type()); ok {
			v.Fields[st.Field(i).Name()] = constBV(0, w, s)
		}
	}
	return v
}

func (bi *bvInterp) stmt(p *bvPath, s ast.Stmt) []*bvPath {
	switch x := s.(type) {
	case *ast.BlockStmt:
		return bi.block([]*bvPath{p}, x.List)
	case *ast.EmptyStmt:
		return []*bvPath{p}
	case *ast.DeferStmt:
		p.Defers = append(p.Defers, x)
		p.DeferAt = append(p.DeferAt, p.Reads)
		return []*bvPath{p}
	case *ast.DeclStmt:
		gd, ok := x.Decl.(*ast.GenDecl)
		if !ok || gd.Tok != token.VAR {
			return []*bvPath{p}
		}
		for _, sp := range gd.Specs {
			vs := sp.(*ast.ValueSpec)
			for i, nm := range vs.Names {
				o := bi.info.Defs[nm]
				if i < len(vs.Values) {
					bi.assign(p, nm, bi.expr(p, vs.Values[i]))
				} else {
					p.Vars[o] = bi.zeroVal(o.Type(), nm.Name)
				}
			}
		}
		return []*bvPath{p}
	case *ast.AssignStmt:
		if len(x.Lhs) != len(x.Rhs) {
			if bi.tolerant && len(x.Rhs) == 1 {
				if call, ok := unparen(x.Rhs[0]).(*ast.CallExpr); ok {
					bi.lastRets = nil
					first := bi.expr(p, call)
					rets := bi.lastRets
					bi.lastRets = nil
					if len(rets) == len(x.Lhs) {
						for i, l := range x.Lhs {
							v := rets[i]
							if v == nil {
								v = &bvVal{Opaque: "multi"}
							}
							bi.assign(p, l, v)
						}
						return []*bvPath{p}
					}
					// the first result is known, the others are not
					for i, l := range x.Lhs {
						if i == 0 && first != nil {
							bi.assign(p, l, first)
						} else {
							bi.assign(p, l, &bvVal{Opaque: "multi"})
						}
					}
					return []*bvPath{p}
				}
			}
			for _, r := range x.Rhs {
				bi.expr(p, r)
			}
			for _, l := range x.Lhs {
				if id, ok := l.(*ast.Ident); ok && id.Name != "_" {
					if o := bi.obj(id); o != nil {
						p.Vars[o] = &bvVal{Opaque: "multi"}
					}
				}
			}
			return []*bvPath{p}
		}
		vals := make([]*bvVal, len(x.Rhs))
		for i, r := range x.Rhs {
			rv := bi.expr(p, r)
			// a struct assigned by value is a copy (r := *n): later writes to it leave the original alone
			if rv != nil && rv.Fields != nil && (x.Tok == token.ASSIGN || x.Tok == token.DEFINE) {
				if t := bi.info.TypeOf(r); t != nil {
					if _, isStruct := t.Underlying().(*types.Struct); isStruct {
						if _, lit := unparen(r).(*ast.CompositeLit); !lit {
							cp := &bvVal{Fields: map[string]BV{}}
							for k, v := range rv.Fields {
								cp.Fields[k] = v
							}
							if rv.Sub != nil {
								cp.Sub = map[string]*bvVal{}
								for k, v := range rv.Sub {
									cp.Sub[k] = v
								}
							}
							rv = cp
						}
					}
				}
			}
			if x.Tok != token.ASSIGN && x.Tok != token.DEFINE {
				op := assignOp(x.Tok)
				lv := bi.expr(p, x.Lhs[i])
				rv = bi.binary(p, op, lv, rv, x.Pos())
			}
			vals[i] = rv
		}
		for i, l := range x.Lhs {
			bi.assign(p, l, vals[i])
		}
		return []*bvPath{p}
	case *ast.IncDecStmt:
		lv := bi.expr(p, x.X)
		one := &bvVal{BV: constBV(1, lv.BV.W, lv.BV.Signed)}
		op := token.ADD
		if x.Tok == token.DEC {
			op = token.SUB
		}
		bi.assign(p, x.X, bi.binary(p, op, lv, one, x.Pos()))
		return []*bvPath{p}
	case *ast.ExprStmt:
		if call, ok := x.X.(*ast.CallExpr); ok {
			bi.expr(p, call)
			return []*bvPath{p}
		}
		bi.undec(p, x.Pos(), "expression statement")
		return []*bvPath{p}
	case *ast.ReturnStmt:
		if len(x.Results) == 0 && bi.fi.Decl.Type.Results != nil {
			for _, f := range bi.fi.Decl.Type.Results.List {
				for _, nm := range f.Names {
					p.Ret = append(p.Ret, p.Vars[bi.info.Defs[nm]])
				}
			}
		}
		for _, r := range x.Results {
			p.Ret = append(p.Ret, bi.expr(p, r))
		}
		p.Done = true
		return []*bvPath{p}
	case *ast.IfStmt:
		if x.Init != nil {
			ps := bi.stmt(p, x.Init)
			if len(ps) != 1 {
				bi.undec(p, x.Pos(), "branching initialiser")
				return ps
			}
			p = ps[0]
		}
		if tv, ok := bi.info.Types[x.Cond]; ok && tv.Value != nil && tv.Value.Kind() == constant.Bool {
			if constant.BoolVal(tv.Value) {
				return bi.block([]*bvPath{p}, x.Body.List)
			}
			if x.Else != nil {
				return bi.stmt(p, x.Else)
			}
			return []*bvPath{p}
		}
		if bi.tolerant {
			if known, val := bi.decide(p, x.Cond); known {
				bi.expr(p, x.Cond)
				if val {
					return bi.block([]*bvPath{p}, x.Body.List)
				}
				if x.Else != nil {
					return bi.stmt(p, x.Else)
				}
				return []*bvPath{p}
			}
		}
		cond := bi.expr(p, x.Cond) // evaluated once, in the common prefix
		pt, pf := p.clone(), p.clone()
		cs := types.ExprString(x.Cond)
		pt.Conds = append(pt.Conds, cs)
		pf.Conds = append(pf.Conds, "!("+cs+")")
		if cond.isInt() && cond.BV.W == 1 && cond.BV.Bits[0].K == 's' {
			for _, q := range []*bvPath{pt, pf} {
				if q.Assume == nil {
					q.Assume = map[string]byte{}
				}
			}
			key := cond.BV.Bits[0].String()
			pt.Assume[key], pf.Assume[key] = '1', '0'
			if f, ok := bi.recvField(x.Cond); ok {
				one, zero := constBV(1, 1, false), constBV(0, 1, false)
				one.IsBool, zero.IsBool = true, true
				pt.Recv[f], pf.Recv[f] = one, zero
			}
		}
		bi.assume(pt, x.Cond, true)
		bi.assume(pf, x.Cond, false)
		out := bi.block([]*bvPath{pt}, x.Body.List)
		if x.Else != nil {
			out = append(out, bi.stmt(pf, x.Else)...)
		} else {
			out = append(out, pf)
		}
		return out
	}
	if bi.tolerant {
		bi.havocStmt(p, s)
		return []*bvPath{p}
	}
	bi.undec(p, s.Pos(), "statement %T outside the bit-level language", s)
	return []*bvPath{p}
}

func assignOp(t token.Token) token.Token {
	switch t {
	case token.ADD_ASSIGN:
		return token.ADD
	case token.SUB_ASSIGN:
		return token.SUB
	case token.MUL_ASSIGN:
		return token.MUL
	case token.QUO_ASSIGN:
		return token.QUO
	case token.AND_ASSIGN:
		return token.AND
	case token.OR_ASSIGN:
		return token.OR
	case token.XOR_ASSIGN:
		return token.XOR
	case token.SHL_ASSIGN:
		return token.SHL
	case token.SHR_ASSIGN:
		return token.SHR
	case token.AND_NOT_ASSIGN:
		return token.AND_NOT
	}
	return token.ILLEGAL
}

func (bi *bvInterp) obj(id *ast.Ident) types.Object {
	if o := bi.info.Uses[id]; o != nil {
		return o
	}
	return bi.info.Defs[id]
}

// recvField recognises recv.f (one declared field of the receiver).
func (bi *bvInterp) recvField(e ast.Expr) (string, bool) {
	se, ok := unparen(e).(*ast.SelectorExpr)
	if !ok {
		return "", false
	}
	id, ok := unparen(se.X).(*ast.Ident)
	if !ok || bi.recv == nil || bi.obj(id) != bi.recv {
		return "", false
	}
	if sel, ok := bi.info.Selections[se]; ok && sel.Kind() == types.FieldVal {
		return se.Sel.Name, true
	}
	return "", false
}

func (bi *bvInterp) assign(p *bvPath, l ast.Expr, v *bvVal) {
	l = unparen(l)
	if id, ok := l.(*ast.Ident); ok {
		if id.Name == "_" {
			return
		}
		if o := bi.obj(id); o != nil {
			if w, s, ok := typeBits(o.Type()); ok && v.isInt() && (v.BV.W != w || v.BV.Signed != s) {
				nv := *v
				nv.BV = p.Ctx.convert(v.BV, w, s)
				v = &nv
			}
			p.Vars[o] = v
		}
		return
	}
	if f, ok := bi.recvField(l); ok {
		p.Stores = append(p.Stores, f)
		if v != nil && (v.View != nil || v.Out != nil || v.Fields != nil) {
			p.RecvSub[f] = v
			return
		}
		if !v.isInt() {
			bi.undec(p, l.Pos(), "receiver field %s assigned a value outside the bit-level language", f)
			if old, ok := p.Recv[f]; ok {
				p.Recv[f] = topBV(old.W, old.Signed, "assigned an opaque value")
			}
			return
		}
		bv := v.BV
		if w, s, ok := typeBits(bi.info.TypeOf(l)); ok && (bv.W != w || bv.Signed != s) {
			bv = p.Ctx.convert(bv, w, s)
		}
		p.Recv[f] = bv
		return
	}
	// field of a struct value held in a local (pointer semantics: updated in place)
	if se, ok := l.(*ast.SelectorExpr); ok {
		sv := bi.expr(p, se.X)
		if sv != nil && sv.Fields != nil {
			if v.isInt() {
				bv := v.BV
				if w, s, ok := typeBits(bi.info.TypeOf(se)); ok && (bv.W != w || bv.Signed != s) {
					bv = p.Ctx.convert(bv, w, s)
				}
				sv.Fields[se.Sel.Name] = bv
				return
			}
			if v != nil && (v.View != nil || v.Out != nil || v.Fields != nil) {
				if sv.Sub == nil {
					sv.Sub = map[string]*bvVal{}
				}
				sv.Sub[se.Sel.Name] = v
				return
			}
		}
	}
	// element of a byte buffer
	if ix, ok := l.(*ast.IndexExpr); ok {
		bv := bi.expr(p, ix.X)
		iv := bi.expr(p, ix.Index)
		if bv.View != nil && iv.isInt() && v.isInt() {
			if il := p.Ctx.linOf(iv.BV); il != nil {
				bi.access(p, bv.View, il, Const(1), ix.Pos(), types.ExprString(ix))
				bv.View.Buf.Cells[bv.View.Base.Add(il).String()] = p.Ctx.convert(v.BV, 8, false)
				return
			}
		}
	}
	if bi.tolerant {
		if ix, ok := l.(*ast.IndexExpr); ok {
			if bv := bi.expr(p, ix.X); bv != nil && bv.View != nil {
				iv := bi.expr(p, ix.Index)
				if iv.isInt() {
					if il := p.Ctx.linOf(iv.BV); il != nil {
						// a byte the engine cannot evaluate, at a known place
						bv.View.Buf.Cells[bv.View.Base.Add(il).String()] = topBV(8, false, "assigned a value outside the bit-level language")
						return
					}
				}
				bi.havocView(p, bv.View)
			}
		}
		return
	}
	bi.undec(p, l.Pos(), "assignment target outside the bit-level language")
}

// assume records linear facts implied by a branch condition.
func (bi *bvInterp) assume(p *bvPath, cond ast.Expr, truth bool) {
	cond = unparen(cond)
	switch x := cond.(type) {
	case *ast.UnaryExpr:
		if x.Op == token.NOT {
			bi.assume(p, x.X, !truth)
		}
	case *ast.BinaryExpr:
		switch x.Op {
		case token.LAND:
			if truth {
				bi.assume(p, x.X, true)
				bi.assume(p, x.Y, true)
			}
		case token.LOR:
			if !truth {
				bi.assume(p, x.X, false)
				bi.assume(p, x.Y, false)
			}
		case token.LSS, token.LEQ, token.GTR, token.GEQ, token.EQL, token.NEQ:
			q := p.clone() // evaluate without disturbing p
			q.Sites = nil
			av, bv := bi.expr(q, x.X), bi.expr(q, x.Y)
			if !av.isInt() || !bv.isInt() {
				return
			}
			a, b := p.Ctx.linOf(av.BV), p.Ctx.linOf(bv.BV)
			if a == nil || b == nil {
				return
			}
			op := x.Op
			if !truth {
				op = map[token.Token]token.Token{token.LSS: token.GEQ, token.LEQ: token.GTR, token.GTR: token.LEQ, token.GEQ: token.LSS, token.EQL: token.NEQ, token.NEQ: token.EQL}[op]
			}
			src := types.ExprString(cond)
			add := func(l, r *Term) { p.Ctx.facts = append(p.Ctx.facts, Fact{L: l, R: r, Src: src}) }
			switch op {
			case token.LSS:
				add(a.AddC(1), b)
			case token.LEQ:
				add(a, b)
			case token.GTR:
				add(b.AddC(1), a)
			case token.GEQ:
				add(b, a)
			case token.EQL:
				add(a, b)
				add(b, a)
			}
		}
	}
}

// access records the bounds obligation of reading/writing n bytes at view offset idx.
func (bi *bvInterp) access(p *bvPath, v *bvView, idx, n *Term, pos token.Pos, text string) {
	p.Reads++
	l := v.length()
	if l == nil {
		return
	}
	a := idx.Add(n)
	s := &bvSite{Pos: pos, Text: text, A: a, B: l, Seq: p.Reads}
	s.OK = p.Ctx.prove(a, l) && p.Ctx.prove(Const(0), idx)
	p.Sites = append(p.Sites, s)
}

func (bi *bvInterp) cell(p *bvPath, v *bvView, idx *Term) (BV, bool) {
	abs := v.Base.Add(idx)
	k := abs.String()
	if c, ok := v.Buf.Cells[k]; ok {
		return c, true
	}
	if v.Buf.Havoc {
		if !abs.IsConst() || abs.C >= v.Buf.HavocFrom {
			return BV{}, false
		}
	}
	if v.Buf.Zero {
		return constBV(0, 8, false), true
	}
	if v.Buf.Sym {
		c := srcBV(v.Buf.Name+"["+k+"]", 8, 8, false)
		c.Lin = nil
		v.Buf.Cells[k] = c
		return c, true
	}
	return BV{}, false
}

func (bi *bvInterp) expr(p *bvPath, e ast.Expr) *bvVal {
	if tv, ok := bi.info.Types[e]; ok && tv.Value != nil {
		w, s, ok2 := typeBits(tv.Type)
		switch tv.Value.Kind() {
		case constant.Int:
			if !ok2 {
				w, s = 64, true
			}
			if u, ok := constant.Uint64Val(tv.Value); ok {
				return &bvVal{BV: constBV(u, w, s)}
			}
			if i, ok := constant.Int64Val(tv.Value); ok {
				mask := ^uint64(0)
				if w < 64 {
					mask = (uint64(1) << uint(w)) - 1
				}
				return &bvVal{BV: constBV(uint64(i)&mask, w, s)}
			}
		case constant.Bool:
			v := constBV(0, 1, false)
			if constant.BoolVal(tv.Value) {
				v = constBV(1, 1, false)
			}
			v.IsBool = true
			return &bvVal{BV: v}
		}
		return &bvVal{Opaque: "const"}
	}
	switch x := e.(type) {
	case *ast.ParenExpr:
		return bi.expr(p, x.X)
	case *ast.Ident:
		o := bi.obj(x)
		if v, ok := p.Vars[o]; ok && v != nil {
			return v
		}
		if bi.recv != nil && o == bi.recv && p.Recv != nil {
			// the receiver as a whole (*n, or n handed on): the same fields, seen as a struct value
			return &bvVal{Fields: p.Recv, Sub: p.RecvSub}
		}
		return &bvVal{Opaque: "ident:" + x.Name}
	case *ast.SelectorExpr:
		if f, ok := bi.recvField(x); ok {
			if v, ok := p.RecvSub[f]; ok {
				return v
			}
			if v, ok := p.Recv[f]; ok {
				return &bvVal{BV: v}
			}
			return &bvVal{Opaque: "recv." + f}
		}
		if sel, ok := bi.info.Selections[x]; ok && sel.Kind() == types.FieldVal {
			sv := bi.expr(p, x.X)
			if sv != nil && sv.Fields != nil {
				if v, ok := sv.Fields[x.Sel.Name]; ok {
					return &bvVal{BV: v}
				}
				if v, ok := sv.Sub[x.Sel.Name]; ok {
					return v
				}
			}
		}
		return &bvVal{Opaque: types.ExprString(x)}
	case *ast.StarExpr:
		return bi.expr(p, x.X)
	case *ast.UnaryExpr:
		v := bi.expr(p, x.X)
		switch x.Op {
		case token.AND:
			return v // &T{...}: struct values have pointer semantics here
		case token.XOR:
			if v.isInt() {
				return &bvVal{BV: p.Ctx.not(v.BV)}
			}
		case token.SUB:
			if v.isInt() {
				if l := p.Ctx.linOf(v.BV); l != nil {
					return &bvVal{BV: p.Ctx.fromLin(l.Scale(-1), v.BV.W, v.BV.Signed, "negation")}
				}
			}
		case token.NOT:
			if v.isInt() && v.BV.W == 1 {
				r := p.Ctx.not(v.BV)
				r.IsBool = true
				return &bvVal{BV: r}
			}
		}
		return &bvVal{Opaque: "unary " + x.Op.String()}
	case *ast.BinaryExpr:
		a, b := bi.expr(p, x.X), bi.expr(p, x.Y)
		return bi.binary(p, x.Op, a, b, x.Pos())
	case *ast.CompositeLit:
		t := bi.info.TypeOf(x)
		if isByteSlice(t) || func() bool { _, ok := isByteArray(t); return ok }() {
			b := &bvBuf{Name: "lit", Cells: map[string]BV{}, Len: Const(int64(len(x.Elts)))}
			for i, el := range x.Elts {
				v := bi.expr(p, el)
				if !v.isInt() {
					return &bvVal{Opaque: "byte literal"}
				}
				b.Cells[Const(int64(i)).String()] = p.Ctx.convert(v.BV, 8, false)
			}
			return &bvVal{View: &bvView{Buf: b, Base: Const(0)}}
		}
		st := structOf(t)
		if st == nil {
			return &bvVal{Opaque: "composite"}
		}
		sv := bi.zeroStruct(st)
		for i, el := range x.Elts {
			name, val := "", el
			if kv, ok := el.(*ast.KeyValueExpr); ok {
				if id, ok := kv.Key.(*ast.Ident); ok {
					name = id.Name
				}
				val = kv.Value
			} else if i < st.NumFields() {
				name = st.Field(i).Name()
			}
			v := bi.expr(p, val)
			if name == "" {
				continue
			}
			for j := 0; j < st.NumFields(); j++ {
				if st.Field(j).Name() != name {
					continue
				}
				if w, s, ok := typeBits(st.Field(j).Type()); ok && v.isInt() {
					bv := v.BV
					if bv.W != w || bv.Signed != s {
						bv = p.Ctx.convert(bv, w, s)
					}
					sv.Fields[name] = bv
				} else if v != nil && (v.View != nil || v.Out != nil || v.Fields != nil) {
					sv.Sub[name] = v
				}
			}
		}
		return sv
	case *ast.IndexExpr:
		bv := bi.expr(p, x.X)
		iv := bi.expr(p, x.Index)
		if bv.View != nil && iv.isInt() {
			if l := p.Ctx.linOf(iv.BV); l != nil {
				bi.access(p, bv.View, l, Const(1), x.Pos(), types.ExprString(x))
				if c, ok := bi.cell(p, bv.View, l); ok {
					return &bvVal{BV: c}
				}
			}
		}
		return &bvVal{Opaque: "index"}
	case *ast.SliceExpr:
		bv := bi.expr(p, x.X)
		if bv.View == nil {
			return &bvVal{Opaque: "slice"}
		}
		lo := Const(0)
		if x.Low != nil {
			lv := bi.expr(p, x.Low)
			if !lv.isInt() || p.Ctx.linOf(lv.BV) == nil {
				return &bvVal{Opaque: "slice"}
			}
			lo = p.Ctx.linOf(lv.BV)
		}
		nv := &bvView{Buf: bv.View.Buf, Base: bv.View.Base.Add(lo)}
		vl := bv.View.length()
		if x.High != nil {
			hv := bi.expr(p, x.High)
			if !hv.isInt() || p.Ctx.linOf(hv.BV) == nil {
				return &bvVal{Opaque: "slice"}
			}
			hi := p.Ctx.linOf(hv.BV)
			nv.Len = hi.Sub(lo)
			if vl != nil {
				s := &bvSite{Pos: x.Pos(), Text: types.ExprString(x), A: hi, B: vl, Seq: p.Reads + 1, Slice: true}
				s.OK = p.Ctx.prove(hi, vl) && p.Ctx.prove(lo, hi) && p.Ctx.prove(Const(0), lo)
				p.Sites = append(p.Sites, s)
			}
		} else if vl != nil {
			nv.Len = vl.Sub(lo)
			s := &bvSite{Pos: x.Pos(), Text: types.ExprString(x), A: lo, B: vl, Seq: p.Reads + 1, Slice: true}
			s.OK = p.Ctx.prove(lo, vl) && p.Ctx.prove(Const(0), lo)
			p.Sites = append(p.Sites, s)
		}
		p.Reads++
		return &bvVal{View: nv}
	case *ast.CallExpr:
		return bi.call(p, x)
	case *ast.FuncLit:
		return &bvVal{Opaque: "func"}
	}
	return &bvVal{Opaque: fmt.Sprintf("%T", e)}
}

func (bi *bvInterp) binary(p *bvPath, op token.Token, a, b *bvVal, pos token.Pos) *bvVal {
	if !a.isInt() || !b.isInt() {
		return &bvVal{Opaque: "binary on opaque"}
	}
	c := p.Ctx
	av, bv := a.BV, b.BV
	widen := func() {
		if av.W != bv.W {
			if bv.W < av.W {
				bv = c.convert(bv, av.W, av.Signed)
			} else {
				av = c.convert(av, bv.W, bv.Signed)
			}
		}
	}
	switch op {
	case token.AND, token.OR, token.XOR, token.AND_NOT:
		widen()
		return &bvVal{BV: c.bitwise(op, av, bv)}
	case token.SHL, token.SHR:
		if k, ok := bv.isConst(); ok {
			if int(k) >= av.W+64 {
				k = uint64(av.W)
			}
			if av.Mask != nil || av.Pow != nil {
				return &bvVal{BV: c.shiftSym(op, av, bv)}
			}
			if op == token.SHL {
				return &bvVal{BV: c.shlConst(av, int(k))}
			}
			return &bvVal{BV: c.shrConst(av, int(k))}
		}
		return &bvVal{BV: c.shiftSym(op, av, bv)}
	case token.ADD, token.SUB:
		widen()
		return &bvVal{BV: c.addsub(op, av, bv)}
	case token.MUL, token.QUO:
		widen()
		la, lb := c.linOf(av), c.linOf(bv)
		if la != nil && lb != nil {
			var t *Term
			if op == token.MUL {
				if r8 := matchRound8(la, lb); r8 != nil {
					t = r8
				} else {
					t = Mul(la, lb)
				}
			} else if lb.IsConst() && lb.C > 0 {
				t = Div(la, lb)
			}
			if t != nil && c.fits(t, av.W, av.Signed) {
				return &bvVal{BV: c.fromLin(t, av.W, av.Signed, "")}
			}
		}
		return &bvVal{BV: topBV(av.W, av.Signed, "multiplication/division outside the linear forms")}
	case token.EQL, token.NEQ, token.LSS, token.LEQ, token.GTR, token.GEQ:
		r := topBV(1, false, "comparison")
		r.IsBool = true
		if op == token.EQL || op == token.NEQ {
			if cv, ok := bv.isConst(); ok {
				nz, cnt := -1, 0
				for i, bt := range av.Bits {
					if bt.K != '0' {
						nz = i
						cnt++
					}
				}
				if cnt == 1 && av.Bits[nz].K == 's' {
					bitv := uint64(1) << uint(nz)
					switch {
					case (op == token.EQL && cv == bitv) || (op == token.NEQ && cv == 0):
						r = BV{W: 1, Bits: []Bit{av.Bits[nz]}, IsBool: true}
					case (op == token.EQL && cv == 0) || (op == token.NEQ && cv == bitv):
						r = topBV(1, false, "negated lane bit")
						r.IsBool = true
					}
				}
			}
		}
		return &bvVal{BV: r}
	case token.LAND, token.LOR:
		r := topBV(1, false, "boolean connective")
		r.IsBool = true
		return &bvVal{BV: r}
	}
	return &bvVal{Opaque: "operator " + op.String()}
}

func (bi *bvInterp) call(p *bvPath, x *ast.CallExpr) *bvVal {
	// conversion
	if tv, ok := bi.info.Types[x.Fun]; ok && tv.IsType() && len(x.Args) == 1 {
		v := bi.expr(p, x.Args[0])
		if w, s, ok := typeBits(tv.Type); ok && v.isInt() {
			return &bvVal{BV: p.Ctx.convert(v.BV, w, s)}
		}
		return v
	}
	var callee *types.Func
	var recvExpr ast.Expr
	switch f := unparen(x.Fun).(type) {
	case *ast.Ident:
		callee, _ = bi.obj(f).(*types.Func)
		if b, ok := bi.obj(f).(*types.Builtin); ok {
			switch b.Name() {
			case "len":
				if len(x.Args) == 1 {
					v := bi.expr(p, x.Args[0])
					if v.View != nil {
						if l := v.View.length(); l != nil {
							return &bvVal{BV: p.Ctx.fromLin(l, 64, true, "")}
						}
					}
				}
				return &bvVal{Opaque: "len"}
			case "new":
				if types.TypeString(bi.info.TypeOf(x.Args[0]), nil) == "math/big.Int" {
					return &bvVal{Big: &bigV{Lin: Const(0)}}
				}
				if st := structOf(bi.info.TypeOf(x.Args[0])); st != nil {
					return bi.zeroStruct(st)
				}
			case "make":
				if len(x.Args) >= 2 && isByteSlice(bi.info.TypeOf(x.Args[0])) {
					n := bi.expr(p, x.Args[1])
					if n.isInt() {
						if l := p.Ctx.linOf(n.BV); l != nil {
							b := &bvBuf{Name: "made", Cells: map[string]BV{}, Len: l, Zero: true}
							return &bvVal{View: &bvView{Buf: b, Base: Const(0)}}
						}
					}
					if bi.tolerant {
						return &bvVal{View: &bvView{Buf: &bvBuf{Name: "made", Cells: map[string]BV{}, Zero: true}, Base: Const(0)}}
					}
				}
				return &bvVal{Opaque: "make"}
			case "copy":
				if bi.tolerant && len(x.Args) == 2 {
					dst, src := bi.expr(p, x.Args[0]), bi.expr(p, x.Args[1])
					bi.copyInto(p, dst, src)
					return &bvVal{Opaque: "copy"}
				}
			case "recover", "panic", "print", "println":
				return &bvVal{Opaque: b.Name()}
			}
			for _, a := range x.Args {
				bi.expr(p, a)
			}
			return &bvVal{Opaque: "builtin " + b.Name()}
		}
	case *ast.SelectorExpr:
		if sel, ok := bi.info.Selections[f]; ok {
			callee, _ = sel.Obj().(*types.Func)
			recvExpr = f.X
		} else {
			callee, _ = bi.info.Uses[f.Sel].(*types.Func)
		}
	}
	if callee == nil {
		for _, a := range x.Args {
			bi.havocArg(p, bi.expr(p, a))
		}
		return &bvVal{Opaque: "call"}
	}
	pkg := ""
	if callee.Pkg() != nil {
		pkg = callee.Pkg().Path()
	}
	// ---- encoding/binary over modelled bytes
	if pkg == "encoding/binary" {
		n := map[string]int{"Uint16": 2, "Uint32": 4, "Uint64": 8, "PutUint16": 2, "PutUint32": 4, "PutUint64": 8}[callee.Name()]
		order := ""
		if se, ok := unparen(x.Fun).(*ast.SelectorExpr); ok {
			order = types.ExprString(se.X)
		}
		little := strings.Contains(order, "LittleEndian")
		if an := map[string]int{"AppendUint16": 2, "AppendUint32": 4, "AppendUint64": 8}[callee.Name()]; an > 0 && len(x.Args) == 2 {
			// AppendUintN(b, v): the bytes of v behind the current length of b (within the modelled array)
			src := bi.expr(p, x.Args[0])
			v := bi.expr(p, x.Args[1])
			if src.View != nil && v.isInt() {
				if l := src.View.length(); l != nil && l.IsConst() {
					bv := p.Ctx.convert(v.BV, an*8, false)
					for k := 0; k < an; k++ {
						pos := an - 1 - k
						if little {
							pos = k
						}
						c := BV{W: 8, Bits: append([]Bit(nil), bv.Bits[pos*8:pos*8+8]...), Why: bv.Why}
						src.View.Buf.Cells[src.View.Base.AddC(l.C+int64(k)).String()] = c
					}
					return &bvVal{View: &bvView{Buf: src.View.Buf, Base: src.View.Base, Len: Const(l.C + int64(an))}}
				}
			}
			bi.havocArg(p, src)
			return &bvVal{Opaque: "binary." + callee.Name()}
		}
		if n > 0 && len(x.Args) >= 1 {
			src := bi.expr(p, x.Args[0])
			if src.View != nil {
				bi.access(p, src.View, Const(0), Const(int64(n)), x.Pos(), types.ExprString(x))
				if strings.HasPrefix(callee.Name(), "Put") && len(x.Args) == 2 {
					v := bi.expr(p, x.Args[1])
					if !v.isInt() {
						for k := 0; k < n; k++ {
							src.View.Buf.Cells[src.View.Base.AddC(int64(k)).String()] = topBV(8, false, "put of a value outside the bit-level language")
						}
						return &bvVal{Opaque: "put of opaque"}
					}
					bv := p.Ctx.convert(v.BV, n*8, false)
					for k := 0; k < n; k++ {
						pos := n - 1 - k
						if little {
							pos = k
						}
						c := BV{W: 8, Bits: append([]Bit(nil), bv.Bits[pos*8:pos*8+8]...), Why: bv.Why}
						src.View.Buf.Cells[src.View.Base.AddC(int64(k)).String()] = c
					}
					return &bvVal{Opaque: "void"}
				}
				r := BV{W: n * 8, Bits: make([]Bit, n*8)}
				for k := 0; k < n; k++ {
					b, ok := bi.cell(p, src.View, Const(int64(k)))
					if !ok {
						return &bvVal{Opaque: "read beyond the modelled bytes"}
					}
					pos := n - 1 - k
					if little {
						pos = k
					}
					copy(r.Bits[pos*8:pos*8+8], b.Bits)
				}
				return &bvVal{BV: p.Ctx.fixLin(r)}
			}
		}
		if bi.tolerant && callee.Name() == "Read" && len(x.Args) == 3 {
			if u, ok := unparen(x.Args[2]).(*ast.UnaryExpr); ok && u.Op == token.AND {
				if w, sg, ok := typeBits(bi.info.TypeOf(u.X)); ok {
					p.Reads++
					v := srcBV(fmt.Sprintf("read#%d", p.Reads), w, w, sg)
					v.Lin = nil
					bi.assign(p, u.X, &bvVal{BV: v})
					return &bvVal{Opaque: "ident:nil"}
				}
				bi.assign(p, u.X, &bvVal{Opaque: "binary.Read"})
			}
		}
		for _, a := range x.Args {
			bi.havocArg(p, bi.expr(p, a))
		}
		return &bvVal{Opaque: "binary." + callee.Name()}
	}
	// ---- bytes.Buffer as an output stream, bytes.Repeat
	if pkg == "bytes" {
		if callee.Name() == "Repeat" && len(x.Args) == 2 {
			b, n := bi.expr(p, x.Args[0]), bi.expr(p, x.Args[1])
			if b.View != nil && n.isInt() {
				if nl := p.Ctx.linOf(n.BV); nl != nil {
					if l := b.View.length(); l != nil && l.IsConst() && l.C == 1 {
						if c, ok := bi.cell(p, b.View, Const(0)); ok {
							if cv, isC := c.isConst(); isC && cv == 0 {
								return &bvVal{View: &bvView{Buf: &bvBuf{Name: "zeros", Zero: true, Cells: map[string]BV{}, Len: nl}, Base: Const(0)}}
							}
						}
					}
				}
			}
			return &bvVal{Opaque: "bytes.Repeat"}
		}
		if recvExpr != nil {
			rv := bi.expr(p, recvExpr)
			if rv.Out != nil {
				switch callee.Name() {
				case "Write":
					if len(x.Args) == 1 {
						a := bi.expr(p, x.Args[0])
						if a.View != nil {
							// snapshot: later writes to the source must not change what was appended
							m := &cloneMemo{vals: map[*bvVal]*bvVal{}, bufs: map[*bvBuf]*bvBuf{}, outs: map[*bvOut]*bvOut{}}
							rv.Out.Items = append(rv.Out.Items, bvOutItem{View: &bvView{Buf: m.buf(a.View.Buf), Base: a.View.Base, Len: a.View.Len}})
							return &bvVal{Opaque: "void"}
						}
					}
				case "WriteByte":
					if len(x.Args) == 1 {
						a := bi.expr(p, x.Args[0])
						if a.isInt() {
							c := p.Ctx.convert(a.BV, 8, false)
							rv.Out.Items = append(rv.Out.Items, bvOutItem{Byte: &c})
							return &bvVal{Opaque: "void"}
						}
					}
				case "Bytes":
					return &bvVal{View: &bvView{Buf: &bvBuf{Name: "out", Sym: true, Cells: map[string]BV{}, Len: rv.Out.length()}, Base: Const(0)}}
				case "Len":
					if l := rv.Out.length(); l != nil {
						return &bvVal{BV: p.Ctx.fromLin(l, 64, true, "")}
					}
				}
				bi.undec(p, x.Pos(), "call of (*bytes.Buffer).%s on the output stream is outside the modelled operations", callee.Name())
				return &bvVal{Opaque: "bytes.Buffer." + callee.Name()}
			}
		}
	}
	if pkg == "math/big" {
		if v := bi.bigCall(p, x, callee, recvExpr); v != nil {
			return v
		}
	}
	fi := bi.w.FuncOf(callee)
	if fi == nil {
		for _, a := range x.Args {
			v := bi.expr(p, a)
			if pkg != "net" && pkg != "errors" && pkg != "fmt" {
				bi.havocArg(p, v)
			}
		}
		if bi.tolerant && pkg == "net" && len(x.Args) == 0 && recvExpr != nil && (callee.Name() == "To4" || callee.Name() == "To16") {
			// a view of the address bytes: contents unknown, length as the name says
			n := int64(4)
			if callee.Name() == "To16" {
				n = 16
			}
			return &bvVal{View: &bvView{Buf: &bvBuf{Name: types.ExprString(recvExpr) + "." + callee.Name(), Sym: true, Cells: map[string]BV{}, Len: Const(n)}, Base: Const(0)}}
		}
		return &bvVal{Opaque: "call:" + callee.FullName()}
	}
	if bi.depth >= 4 {
		if bi.tolerant {
			bi.havocCallEffects(p, x, recvExpr)
		}
		return &bvVal{Opaque: "call depth"}
	}
	var args []*bvVal
	for _, a := range x.Args {
		args = append(args, bi.expr(p, a))
	}
	recv := map[string]BV{}
	var recvSub map[string]*bvVal
	var target *bvVal
	self := false
	if recvExpr != nil {
		if id, ok := unparen(recvExpr).(*ast.Ident); ok && bi.recv != nil && bi.obj(id) == bi.recv {
			recv, recvSub, self = p.Recv, p.RecvSub, true
		} else {
			rv := bi.expr(p, recvExpr)
			if rv.Fields != nil {
				target = rv
				recv, recvSub = rv.Fields, rv.Sub
			}
		}
	}
	sub := &bvInterp{w: bi.w, fi: fi, info: fi.Pkg.TypesInfo, tolerant: bi.tolerant}
	var outs []*bvPath
	if bi.tolerant {
		// run on copies: a callee that turns out to branch must leave nothing half-updated behind
		pc := p.clone()
		crecv, crecvSub := map[string]BV{}, map[string]*bvVal{}
		switch {
		case self:
			crecv, crecvSub = pc.Recv, pc.RecvSub
		case target != nil:
			for k, v := range recv {
				crecv[k] = v
			}
			for k, v := range recvSub {
				crecvSub[k] = v
			}
		}
		var cargs []*bvVal
		m := &cloneMemo{vals: map[*bvVal]*bvVal{}, bufs: map[*bvBuf]*bvBuf{}, outs: map[*bvOut]*bvOut{}}
		for _, a := range args {
			cargs = append(cargs, m.val(a))
		}
		trial := sub.run(p.Ctx.clone(), crecv, crecvSub, cargs, bi.depth+1, pc)
		okIdx := -1
		if len(trial) > 1 {
			// exactly one path reports success (returns a nil error): the paths examined are those on which every
			// child step succeeded, so its effects are the callee's effects
			nOK := 0
			for i, o := range trial {
				if n := len(o.Ret); n > 0 && o.Ret[n-1] != nil && o.Ret[n-1].Opaque == "ident:nil" {
					if isErrorResult(fi) {
						nOK++
						okIdx = i
					}
				}
				// the comma-ok form: the last result is the constant true on exactly one path, false on the others
				if n := len(o.Ret); n > 1 && isBoolResult(fi) && o.Ret[n-1] != nil && o.Ret[n-1].isInt() && o.Ret[n-1].BV.IsBool {
					if c, isC := o.Ret[n-1].BV.isConst(); isC && c == 1 {
						nOK++
						okIdx = i
					} else if !isC {
						nOK += 2 // not a constant: no path can be singled out
					}
				}
			}
			if nOK != 1 {
				okIdx = -1
			}
		}
		if okIdx >= 0 {
			real := sub.run(p.Ctx.clone(), recv, recvSub, args, bi.depth+1, p)
			if len(real) == len(trial) {
				outs = []*bvPath{real[okIdx]}
			}
		}
		if len(trial) != 1 && outs == nil {
			// forget what the callee may assign
			bi.havocCallEffects(p, x, recvExpr)
			if self || target != nil {
				fields := map[string]bool{}
				for _, o := range trial {
					for _, f := range o.Stores {
						fields[f] = true
					}
				}
				for f := range fields {
					if self {
						if old, ok := p.Recv[f]; ok {
							p.Recv[f] = topBV(old.W, old.Signed, "assigned on some path of "+fi.Key)
						}
						delete(p.RecvSub, f)
					} else if old, ok := target.Fields[f]; ok {
						target.Fields[f] = topBV(old.W, old.Signed, "assigned on some path of "+fi.Key)
					}
				}
			}
			// a result every path agrees on survives (size functions returning a constant)
			var r0 *bvVal
			same := true
			for _, o := range trial {
				if len(o.Ret) == 0 || o.Ret[0] == nil || !o.Ret[0].isInt() {
					same = false
					break
				}
				if r0 == nil {
					r0 = o.Ret[0]
				} else if r0.BV.String() != o.Ret[0].BV.String() {
					same = false
				}
			}
			if same && r0 != nil {
				return r0
			}
			return &bvVal{Opaque: "multi-path call"}
		}
	}
	if outs == nil {
		outs = sub.run(p.Ctx.clone(), recv, recvSub, args, bi.depth+1, p)
	}
	if len(outs) != 1 {
		bi.undec(p, x.Pos(), "call to %s has %d paths (only single-path helpers are inlined)", fi.Key, len(outs))
		return &bvVal{Opaque: "multi-path call"}
	}
	o := outs[0]
	p.Undec = append(p.Undec, o.Undec...)
	p.Sites = append(p.Sites, o.Sites...)
	p.Reads = o.Reads
	p.Ctx.facts = o.Ctx.facts
	for k, v := range o.Ctx.srcBits {
		p.Ctx.srcBits[k] = v
	}
	for k, v := range o.Ctx.srcTerm {
		p.Ctx.srcTerm[k] = v
	}
	switch {
	case self:
		for k, v := range o.Recv {
			p.Recv[k] = v
		}
		for k, v := range o.RecvSub {
			p.RecvSub[k] = v
		}
		p.Stores = append(p.Stores, o.Stores...)
	case target != nil:
		for k, v := range o.Recv {
			target.Fields[k] = v
		}
		if len(o.RecvSub) > 0 && target.Sub == nil {
			target.Sub = map[string]*bvVal{}
		}
		for k, v := range o.RecvSub {
			target.Sub[k] = v
		}
	}
	bi.lastRets = o.Ret
	if len(o.Ret) >= 1 && o.Ret[0] != nil {
		return o.Ret[0]
	}
	return &bvVal{Opaque: "no result"}
}

func bvKeys(m map[string]BV) []string {
	var ks []string
	for k := range m {
		ks = append(ks, k)
	}
	sort.Strings(ks)
	return ks
}

// bigCall models the math/big operations the mask builder uses, on closed forms.
func (bi *bvInterp) bigCall(p *bvPath, x *ast.CallExpr, callee *types.Func, recvExpr ast.Expr) *bvVal {
	c := p.Ctx
	arg := func(i int) *bvVal {
		if i < len(x.Args) {
			return bi.expr(p, x.Args[i])
		}
		return &bvVal{Opaque: "missing"}
	}
	lin := func(v *bvVal) *Term {
		if v.isInt() {
			return c.linOf(v.BV)
		}
		return nil
	}
	if callee.Name() == "NewInt" && recvExpr == nil {
		if l := lin(arg(0)); l != nil {
			return &bvVal{Big: &bigV{Lin: l}}
		}
		return &bvVal{Big: &bigV{Why: "big.NewInt of a value that is not a linear term"}}
	}
	if recvExpr == nil {
		return nil
	}
	rv := bi.expr(p, recvExpr)
	if rv.Big == nil {
		return nil
	}
	set := func(n bigV) *bvVal {
		*rv.Big = n
		return rv
	}
	unknown := func(why string) *bvVal { return set(bigV{Why: why}) }
	switch callee.Name() {
	case "Lsh":
		a, k := arg(0), arg(1)
		if a.Big == nil {
			return unknown("Lsh of a non-big value")
		}
		src := *a.Big
		kl := lin(k)
		if kl == nil {
			why := "shift count is not a known linear value"
			if k.isInt() && k.BV.Why != "" {
				why += " (" + k.BV.Why + ")"
			}
			return unknown(why)
		}
		if !c.prove(Const(0), kl) {
			return unknown(fmt.Sprintf("shift count %v not provably >= 0", kl))
		}
		switch {
		case src.Why != "":
			return unknown(src.Why)
		case src.Lin != nil && src.Lin.IsConst() && src.Lin.C == 1:
			return set(bigV{Pow: kl})
		case src.Lin != nil && src.Lin.IsConst() && src.Lin.C == -1:
			return set(bigV{NegP: kl})
		case src.NegP != nil:
			return set(bigV{NegP: src.NegP.Add(kl)})
		case src.Lin != nil && src.Lin.IsZero():
			return set(bigV{Lin: Const(0)})
		case src.Pow != nil:
			return set(bigV{Pow: src.Pow.Add(kl)})
		case src.Mask != nil:
			return set(bigV{Mask: &MaskV{Lo: src.Mask.Lo.Add(kl), N: src.Mask.N}})
		}
		return unknown("left shift of a value without closed form")
	case "Sub":
		a, b := arg(0), arg(1)
		if a.Big != nil && b.Big != nil && a.Big.Pow != nil && b.Big.Lin != nil && b.Big.Lin.IsConst() && b.Big.Lin.C == 1 {
			return set(bigV{Mask: &MaskV{Lo: Const(0), N: a.Big.Pow}})
		}
		if a.Big != nil && b.Big != nil && a.Big.Lin != nil && b.Big.Lin != nil {
			return set(bigV{Lin: a.Big.Lin.Sub(b.Big.Lin)})
		}
		return unknown("big subtraction outside the closed forms (2^n - 1)")
	case "Not":
		// ^x = -x - 1: ^(-(2^n)) = 2^n - 1 (n ones), ^(2^n - 1) = -(2^n)
		if a := arg(0); a.Big != nil {
			switch {
			case a.Big.Why != "":
				return unknown(a.Big.Why)
			case a.Big.NegP != nil:
				return set(bigV{Mask: &MaskV{Lo: Const(0), N: a.Big.NegP}})
			case a.Big.Mask != nil && a.Big.Mask.Lo.IsZero():
				return set(bigV{NegP: a.Big.Mask.N})
			case a.Big.Lin != nil:
				return set(bigV{Lin: a.Big.Lin.Scale(-1).AddC(-1)})
			}
			return unknown("big Not outside the closed forms")
		}
	case "Set":
		if a := arg(0); a.Big != nil {
			return set(*a.Big)
		}
	case "SetUint64", "SetInt64":
		a := arg(0)
		if a.isInt() {
			switch {
			case a.BV.Mask != nil:
				return set(bigV{Mask: a.BV.Mask})
			case a.BV.Pow != nil:
				return set(bigV{Pow: a.BV.Pow})
			case c.linOf(a.BV) != nil:
				return set(bigV{Lin: c.linOf(a.BV)})
			}
			why := a.BV.Why
			if why == "" {
				why = "machine-word value without closed form"
			}
			return unknown(why)
		}
	case "Or", "Add":
		// two adjacent masks etc. are not needed today
		return unknown("big " + callee.Name() + " outside the closed forms")
	}
	return nil
}

// ---------------------------------------------------------------- tolerant mode

// havocBuf forgets the bytes at absolute offsets >= from.
func havocBuf(b *bvBuf, from int64) {
	if b == nil {
		return
	}
	if from < 0 {
		from = 0
	}
	for k := range b.Cells {
		var c int64
		if _, err := fmt.Sscan(k, &c); err != nil || fmt.Sprint(c) != k || c >= from {
			delete(b.Cells, k)
		}
	}
	if !b.Havoc || from < b.HavocFrom {
		b.Havoc, b.HavocFrom = true, from
	}
}

// havocView forgets what a callee or an unfollowed statement may write through the view.
func (bi *bvInterp) havocView(p *bvPath, v *bvView) {
	if v == nil {
		return
	}
	from := int64(0)
	if v.Base != nil {
		if lb, ok := p.Ctx.lowerBound(v.Base); ok {
			from = lb
		}
	}
	havocBuf(v.Buf, from)
}

func (bi *bvInterp) havocArg(p *bvPath, v *bvVal) {
	if !bi.tolerant || v == nil {
		return
	}
	if v.View != nil {
		bi.havocView(p, v.View)
	}
}

// havocCallEffects: a call that was not followed may write through any buffer it is handed.
func (bi *bvInterp) havocCallEffects(p *bvPath, x *ast.CallExpr, recvExpr ast.Expr) {
	for _, a := range x.Args {
		bi.havocArg(p, bi.expr(p, a))
	}
}

// copyInto models copy(dst, src) for byte views.
func (bi *bvInterp) copyInto(p *bvPath, dst, src *bvVal) {
	if dst == nil || dst.View == nil {
		return
	}
	if src != nil && src.View != nil {
		if l := src.View.length(); l != nil && l.IsConst() && l.C <= 64 && dst.View.Base.IsConst() {
			dl := dst.View.length()
			if dl == nil || (dl.IsConst() && dl.C >= l.C) || p.Ctx.prove(l, dl) {
				for k := int64(0); k < l.C; k++ {
					c, ok := bi.cell(p, src.View, Const(k))
					key := dst.View.Base.AddC(k).String()
					if ok {
						dst.View.Buf.Cells[key] = c
					} else {
						dst.View.Buf.Cells[key] = topBV(8, false, "copied from bytes the engine does not know")
					}
				}
				return
			}
		}
	}
	bi.havocView(p, dst.View)
}

// havocStmt forgets everything a statement outside the language (loops, switches, …) may assign.
func (bi *bvInterp) havocStmt(p *bvPath, s ast.Stmt) {
	// cursors that only grow inside the statement keep their current value as a lower bound
	grows := map[types.Object]bool{}
	shrinks := map[types.Object]bool{}
	nonneg := func(e ast.Expr) bool {
		e = unparen(e)
		if tv, ok := bi.info.Types[e]; ok && tv.Value != nil {
			if v, ok := constant.Int64Val(tv.Value); ok {
				return v >= 0
			}
		}
		t := bi.info.TypeOf(e)
		if c, ok := e.(*ast.CallExpr); ok {
			if id, ok := unparen(c.Fun).(*ast.Ident); ok && id.Name == "len" {
				return true
			}
			// conversion of an unsigned value
			if len(c.Args) == 1 {
				if tv, ok := bi.info.Types[c.Fun]; ok && tv.IsType() {
					if _, uns := intBits(bi.info.TypeOf(c.Args[0])); uns {
						return true
					}
				}
			}
		}
		if t != nil {
			if w, uns := intBits(t); w > 0 && uns {
				return true
			}
		}
		return false
	}
	ast.Inspect(s, func(n ast.Node) bool {
		switch x := n.(type) {
		case *ast.AssignStmt:
			for i, l := range x.Lhs {
				id, ok := unparen(l).(*ast.Ident)
				if !ok {
					continue
				}
				o := bi.obj(id)
				if o == nil {
					continue
				}
				if x.Tok == token.ADD_ASSIGN && i < len(x.Rhs) && nonneg(x.Rhs[i]) {
					grows[o] = true
				} else {
					shrinks[o] = true
				}
			}
		case *ast.IncDecStmt:
			if id, ok := unparen(x.X).(*ast.Ident); ok {
				if o := bi.obj(id); o != nil {
					if x.Tok == token.INC {
						grows[o] = true
					} else {
						shrinks[o] = true
					}
				}
			}
		case *ast.RangeStmt:
			for _, e := range []ast.Expr{x.Key, x.Value} {
				if id, ok := e.(*ast.Ident); ok && id.Name != "_" {
					if o := bi.obj(id); o != nil {
						shrinks[o] = true
					}
				}
			}
		}
		return true
	})
	// lower bound of an index/slice-low expression evaluated in the state before the statement
	lowOf := func(e ast.Expr) (int64, bool) {
		if e == nil {
			return 0, true
		}
		bad := false
		ast.Inspect(e, func(n ast.Node) bool {
			if id, ok := n.(*ast.Ident); ok {
				if o := bi.obj(id); o != nil && shrinks[o] {
					bad = true
				}
			}
			if _, ok := n.(*ast.CallExpr); ok {
				bad = true
			}
			return true
		})
		if bad {
			return 0, false
		}
		v := bi.expr(p, e)
		if !v.isInt() {
			return 0, false
		}
		l := p.Ctx.linOf(v.BV)
		if l == nil {
			return 0, false
		}
		return p.Ctx.lowerBound(l)
	}
	touch := func(bufExpr ast.Expr, low ast.Expr) {
		bv := bi.expr(p, bufExpr)
		if bv == nil || bv.View == nil {
			return
		}
		from := int64(0)
		if base, ok := p.Ctx.lowerBound(bv.View.Base); ok {
			from = base
		}
		if lb, ok := lowOf(low); ok {
			from += lb
		}
		havocBuf(bv.View.Buf, from)
	}
	var viewArg func(e ast.Expr)
	viewArg = func(e ast.Expr) {
		e = unparen(e)
		switch x := e.(type) {
		case *ast.SliceExpr:
			if !isByteSlice(bi.info.TypeOf(x.X)) {
				if _, ok := isByteArray(bi.info.TypeOf(x.X)); !ok {
					return
				}
			}
			touch(x.X, x.Low)
		case *ast.Ident, *ast.SelectorExpr:
			if t := bi.info.TypeOf(e); t != nil && isByteSlice(t) {
				touch(e, nil)
			}
		}
	}
	// 1. buffers
	ast.Inspect(s, func(n ast.Node) bool {
		switch x := n.(type) {
		case *ast.AssignStmt:
			for _, l := range x.Lhs {
				if ix, ok := unparen(l).(*ast.IndexExpr); ok {
					if t := bi.info.TypeOf(ix.X); t != nil && (isByteSlice(t) || func() bool { _, ok := isByteArray(t); return ok }()) {
						touch(ix.X, ix.Index)
					}
				}
			}
		case *ast.CallExpr:
			for _, a := range x.Args {
				viewArg(a)
			}
		}
		return true
	})
	// 2. locals and receiver fields
	ast.Inspect(s, func(n ast.Node) bool {
		forget := func(l ast.Expr) {
			l = unparen(l)
			if id, ok := l.(*ast.Ident); ok && id.Name != "_" {
				if o := bi.obj(id); o != nil {
					if w, sg, ok := typeBits(o.Type()); ok {
						p.Vars[o] = &bvVal{BV: topBV(w, sg, "assigned inside a statement the engine does not follow")}
					} else {
						p.Vars[o] = &bvVal{Opaque: "havoc"}
					}
				}
				return
			}
			// recv.f, recv.f.g, recv.f[i] …: forget the top-level field
			e := l
			for {
				switch x := e.(type) {
				case *ast.SelectorExpr:
					if f, ok := bi.recvField(x); ok {
						if old, ok := p.Recv[f]; ok {
							p.Recv[f] = topBV(old.W, old.Signed, "assigned inside a statement the engine does not follow")
						}
						delete(p.RecvSub, f)
						p.Stores = append(p.Stores, f)
						return
					}
					e = unparen(x.X)
					continue
				case *ast.IndexExpr:
					e = unparen(x.X)
					continue
				case *ast.StarExpr:
					e = unparen(x.X)
					continue
				}
				return
			}
		}
		switch x := n.(type) {
		case *ast.AssignStmt:
			for _, l := range x.Lhs {
				forget(l)
			}
		case *ast.IncDecStmt:
			forget(x.X)
		case *ast.RangeStmt:
			if x.Key != nil {
				forget(x.Key)
			}
			if x.Value != nil {
				forget(x.Value)
			}
		case *ast.CallExpr:
			// a method called on a field of the receiver may rewrite that field
			if se, ok := unparen(x.Fun).(*ast.SelectorExpr); ok {
				if _, isMethod := bi.info.Selections[se]; isMethod {
					forget(se.X)
				}
			}
		}
		return true
	})
}

// decide: a comparison of two linear values that the path's facts settle.
func (bi *bvInterp) decide(p *bvPath, cond ast.Expr) (known, val bool) {
	x, ok := unparen(cond).(*ast.BinaryExpr)
	if !ok {
		return false, false
	}
	switch x.Op {
	case token.LSS, token.LEQ, token.GTR, token.GEQ:
	default:
		return false, false
	}
	q := p.clone()
	q.Sites = nil
	av, bv := bi.expr(q, x.X), bi.expr(q, x.Y)
	if !av.isInt() || !bv.isInt() {
		return false, false
	}
	a, b := p.Ctx.linOf(av.BV), p.Ctx.linOf(bv.BV)
	if a == nil || b == nil {
		return false, false
	}
	// normalise to a <= b / a < b
	strict := x.Op == token.LSS || x.Op == token.GTR
	if x.Op == token.GTR || x.Op == token.GEQ {
		a, b = b, a
	}
	if strict {
		if p.Ctx.prove(a.AddC(1), b) {
			return true, true
		}
		if p.Ctx.prove(b, a) {
			return true, false
		}
		return false, false
	}
	if p.Ctx.prove(a, b) {
		return true, true
	}
	if p.Ctx.prove(b.AddC(1), a) {
		return true, false
	}
	return false, false
}

func isBoolResult(fi *FuncInfo) bool {
	if fi == nil || fi.Decl.Type.Results == nil {
		return false
	}
	l := fi.Decl.Type.Results.List
	if len(l) == 0 {
		return false
	}
	id, ok := l[len(l)-1].Type.(*ast.Ident)
	return ok && id.Name == "bool"
}

func isErrorResult(fi *FuncInfo) bool {
	if fi == nil || fi.Decl.Type.Results == nil {
		return false
	}
	l := fi.Decl.Type.Results.List
	if len(l) == 0 {
		return false
	}
	id, ok := l[len(l)-1].Type.(*ast.Ident)
	return ok && id.Name == "error"
}
