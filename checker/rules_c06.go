package main

import (
	"go/token"
	"sort"
)

func init() {
	register(&propCheck{
		ID:  "C06",
		Run: runC06,
		Level: "Static analysis (abstract interpretation of every Len / MarshalBinary over the typed AST, symbolic size terms). " +
			"Decides, for every encodable kind in every package: size/<kind> — the length of the slice the encoder returns and the extent it writes are the same term as the size function's result (for all field values and child counts at once, by induction over kinds), up to the grammar's zero padding, under constructor-established widths of fixed-size fields and the reviewed declared-length premises; " +
			"embed/<kind>/<child> — each child's complete encoding is placed, not a capped window of it; nooverlap/<kind> — no two writes provably overlap. " +
			"Not decided: the 16-bit wrap of a total above 65535 bytes; the bytes.Buffer/binary.Write kinds (DHCP, LLDP TLVs) beyond what is listed; values of fields (C03).",
		Assumptions: []string{
			"Go semantics as implemented by go/types (x/tools v0.29.0)",
			"induction hypothesis: len(child.MarshalBinary()) = child.Len() is the child kind's own size obligation (for interface-typed children: of every implementation in the module)",
			"fixed-width byte-slice fields keep the width their constructors give them (values built through the API)",
			"declared-length premises listed in checker/premises.go",
		},
	})
}

func runC06(w *World, r *Report) {
	r.Rule("declen", "stored length fields the size rules rely on are kept equal to the element size by every constructor and builder", 13)
	declenRule(w, r)
	r.Rule("size", "sizeM ≡ sizeL (and extentM ≡ sizeL up to round8) as symbolic terms, per kind", 100)
	r.Rule("embed", "child encodings are copied whole", 60)
	r.Rule("nooverlap", "no two write records provably overlap", 100)
	sizeRules(w, r, func(k *Kind) bool { return true })
}

// sizeRules runs size/embed/nooverlap over the selected kinds.
func sizeRules(w *World, r *Report, sel func(k *Kind) bool) {
	for _, k := range w.KindsL {
		if k.Len == nil || k.Marshal == nil || !sel(k) {
			continue
		}
		es := w.EncSummary(k)
		pos := "-"
		var tp token.Pos
		if fi := w.FuncOf(k.Marshal); fi != nil {
			tp = fi.Decl.Pos()
			pos = w.Pos(tp)
		}
		sv := w.compareSize(k)
		switch sv.Verdict {
		case VOK:
			r.OK("size", k.Name, "", pos, sv.Note, sv.Symbolic)
		default:
			r.Fail(sv.Verdict, "size", k.Name, "", pos, sv.Diag)
		}
		if es == nil || es.Size == nil {
			continue
		}
		if k.OwnMarshal {
			w.embedCheck(k, es, func(inst, verdict, diag, note string, p token.Pos) {
				if verdict == VOK {
					r.OK("embed", k.Name, inst, w.Pos(p), note, true)
				} else {
					r.Fail(verdict, "embed", k.Name, inst, w.Pos(p), diag)
				}
			})
		}
		if d, bad := overlapCheck(es.Recs); bad {
			r.Fail(VViolation, "nooverlap", k.Name, "", pos, d)
		} else {
			r.OK("nooverlap", k.Name, "", pos, "", len(es.Recs) > 1)
		}
	}
	var prem []string
	for _, p := range premiseTable {
		prem = append(prem, p.Kind+": "+p.Atom+" = "+p.To().String()+" — "+p.Reason)
	}
	sort.Strings(prem)
	r.Extra["declared_length_premises"] = prem
}
