package main

// A — alias / ownership analysis on go/ssa (DESIGN §2.6): forward taint of
// values derived from a source, inter-procedural with per-(function,
// parameter) summaries along the call graph. Only values whose type can hold
// a pointer are tainted. Events: a derived value is stored into memory that
// outlives the call ("retain"), sent, captured or returned; memory reached
// through a derived pointer is written ("mutate").

import (
	"fmt"
	"go/token"
	"go/types"
	"sort"
	"strings"

	"golang.org/x/tools/go/ssa"
)

type AliasEvent struct {
	Kind  string // retain | mutate | return | send | unmodelled
	Fn    *ssa.Function
	Pos   token.Pos
	What  string
	Instr ssa.Instruction
}

type aliasSummary struct {
	returns bool
	retIdx  map[int]bool // which results carry the derived value
	events  []*AliasEvent
	done    bool
}

type aliasKey struct {
	fn  *ssa.Function
	idx int // parameter index; -1 = explicit seed set
}

type Alias struct {
	w          *World
	sw         *ssaWorld
	memo       map[aliasKey]*aliasSummary
	inprog     map[aliasKey]bool
	Visited    map[*ssa.Function]bool
	Marked     int
	changed    bool
	Unmodelled map[string]token.Pos
	// per call value: the result positions that can carry a derived value (from the callees' summaries);
	// tupleAll: some callee was not summarised per position
	tupleIdx map[ssa.Value]map[int]bool
	tupleAll map[ssa.Value]bool
}

func NewAlias(w *World) *Alias {
	return &Alias{w: w, sw: w.SSA(), memo: map[aliasKey]*aliasSummary{}, inprog: map[aliasKey]bool{}, Visited: map[*ssa.Function]bool{}, Unmodelled: map[string]token.Pos{},
		tupleIdx: map[ssa.Value]map[int]bool{}, tupleAll: map[ssa.Value]bool{}}
}

// pointerBearing: values of this type can alias memory.
func pointerBearing(t types.Type) bool {
	return pointerBearingD(t, 0)
}

func pointerBearingD(t types.Type, d int) bool {
	if t == nil || d > 6 {
		return true
	}
	switch u := t.Underlying().(type) {
	case *types.Basic:
		return u.Kind() == types.UnsafePointer
	case *types.Slice, *types.Pointer, *types.Map, *types.Chan, *types.Signature, *types.Interface:
		return true
	case *types.Array:
		return pointerBearingD(u.Elem(), d+1)
	case *types.Struct:
		for i := 0; i < u.NumFields(); i++ {
			if pointerBearingD(u.Field(i).Type(), d+1) {
				return true
			}
		}
		return false
	case *types.Tuple:
		for i := 0; i < u.Len(); i++ {
			if pointerBearingD(u.At(i).Type(), d+1) {
				return true
			}
		}
		return false
	case *types.TypeParam:
		return true
	}
	return true
}

// AnalyzeParam runs the analysis with parameter idx of fn as the source and
// returns the summary (events are transitive over callees).
func (a *Alias) AnalyzeParam(fn *ssa.Function, idx int) *aliasSummary {
	// iterate to a fixpoint over recursion cycles
	var s *aliasSummary
	for i := 0; i < 4; i++ {
		a.changed = false
		a.inprog = map[aliasKey]bool{}
		for k, v := range a.memo {
			v.done = false
			_ = k
		}
		s = a.analyze(fn, idx, nil)
		if !a.changed {
			break
		}
	}
	return s
}

// AnalyzeSeeds runs the analysis inside fn with an explicit set of source values.
func (a *Alias) AnalyzeSeeds(fn *ssa.Function, seeds []ssa.Value) *aliasSummary {
	var s *aliasSummary
	for i := 0; i < 4; i++ {
		a.changed = false
		a.inprog = map[aliasKey]bool{}
		for _, v := range a.memo {
			v.done = false
		}
		delete(a.memo, aliasKey{fn, -1})
		s = a.analyze(fn, -1, seeds)
		if !a.changed {
			break
		}
	}
	return s
}

func (a *Alias) analyze(fn *ssa.Function, idx int, seeds []ssa.Value) *aliasSummary {
	key := aliasKey{fn, idx}
	if s, ok := a.memo[key]; ok && (s.done || a.inprog[key]) {
		return s
	}
	s := a.memo[key]
	if s == nil {
		s = &aliasSummary{}
		a.memo[key] = s
	}
	if len(fn.Blocks) == 0 {
		s.done = true
		return s
	}
	a.inprog[key] = true
	a.Visited[fn] = true
	before := fmt.Sprintf("%v/%d/%d", s.returns, len(s.events), len(s.retIdx))

	tainted := map[ssa.Value]bool{}
	carrier := map[ssa.Value]bool{} // allocations (or other roots) that hold a derived value
	if idx >= 0 && idx < len(fn.Params) {
		tainted[fn.Params[idx]] = true
	}
	for _, v := range seeds {
		tainted[v] = true
	}
	evSeen := map[string]bool{}
	for _, e := range s.events {
		evSeen[e.Kind+"|"+a.w.Pos(e.Pos)+"|"+e.What] = true
	}
	addEv := func(e *AliasEvent) {
		k := e.Kind + "|" + a.w.Pos(e.Pos) + "|" + e.What
		if !evSeen[k] {
			evSeen[k] = true
			s.events = append(s.events, e)
		}
	}
	isT := func(v ssa.Value) bool {
		if v == nil {
			return false
		}
		return tainted[v]
	}
	mark := func(v ssa.Value) bool {
		if v == nil || tainted[v] || !pointerBearing(v.Type()) {
			return false
		}
		tainted[v] = true
		a.Marked++
		return true
	}
	// root of an address expression
	var root func(v ssa.Value, depth int) ssa.Value
	root = func(v ssa.Value, depth int) ssa.Value {
		if depth > 20 {
			return v
		}
		switch x := v.(type) {
		case *ssa.FieldAddr:
			return root(x.X, depth+1)
		case *ssa.IndexAddr:
			return root(x.X, depth+1)
		case *ssa.Slice:
			return root(x.X, depth+1)
		case *ssa.ChangeType:
			return root(x.X, depth+1)
		case *ssa.Convert:
			return root(x.X, depth+1)
		}
		return v
	}
	localRoot := func(r ssa.Value) bool {
		switch x := r.(type) {
		case *ssa.Alloc:
			return true
		case *ssa.MakeSlice, *ssa.MakeMap, *ssa.MakeChan:
			return true
		case *ssa.Call:
			// the result of append/new-style builtins on local roots stays local
			if b, ok := x.Call.Value.(*ssa.Builtin); ok && b.Name() == "append" {
				return true
			}
		}
		return false
	}

	changed := true
	for iter := 0; changed && iter < 50; iter++ {
		changed = false
		for _, b := range fn.Blocks {
			for _, ins := range b.Instrs {
				switch x := ins.(type) {
				case *ssa.Slice:
					if isT(x.X) || carrier[root(x.X, 0)] && pointerBearingElem(x.X.Type()) {
						changed = mark(x) || changed
					}
				case *ssa.ChangeType:
					if isT(x.X) {
						changed = mark(x) || changed
					}
				case *ssa.Convert:
					// slice<->slice conversions alias; []byte<->string copy
					if isT(x.X) && !isStringType(x.Type()) && !isStringType(x.X.Type()) {
						changed = mark(x) || changed
					}
				case *ssa.ChangeInterface:
					if isT(x.X) {
						changed = mark(x) || changed
					}
				case *ssa.SliceToArrayPointer:
					// (*[N]T)(s) points at s's backing array: no copy is made
					if isT(x.X) {
						changed = mark(x) || changed
					}
				case *ssa.MakeInterface:
					if isT(x.X) {
						changed = mark(x) || changed
					}
				case *ssa.TypeAssert:
					if isT(x.X) {
						changed = mark(x) || changed
					}
				case *ssa.Extract:
					if isT(x.Tuple) {
						// a multi-result call: only the result positions its callees can return the value in
						if idxs, ok := a.tupleIdx[x.Tuple]; ok && !a.tupleAll[x.Tuple] && !idxs[x.Index] {
							break
						}
						changed = mark(x) || changed
					}
				case *ssa.Phi:
					for _, e := range x.Edges {
						if isT(e) {
							changed = mark(x) || changed
							break
						}
					}
				case *ssa.FieldAddr:
					if isT(x.X) {
						changed = mark(x) || changed
					}
				case *ssa.IndexAddr:
					if isT(x.X) {
						changed = mark(x) || changed
					}
				case *ssa.Field:
					if isT(x.X) {
						changed = mark(x) || changed
					}
				case *ssa.Index:
					if isT(x.X) {
						changed = mark(x) || changed
					}
				case *ssa.Lookup:
					if isT(x.X) || carrier[root(x.X, 0)] {
						changed = mark(x) || changed
					}
				case *ssa.UnOp:
					if x.Op == token.MUL {
						// load: from a tainted pointer whose pointee can hold pointers, or from a carrier
						r := root(x.X, 0)
						if (isT(x.X) || carrier[r]) && pointerBearing(x.Type()) {
							changed = mark(x) || changed
						}
					} else if x.Op == token.ARROW {
						if isT(x.X) {
							changed = mark(x) || changed
						}
					}
				case *ssa.MakeClosure:
					for _, bnd := range x.Bindings {
						if isT(bnd) || carrier[root(bnd, 0)] {
							changed = mark(x) || changed
							// analyse the closure body with the captured variable as source
							if cf, ok := x.Fn.(*ssa.Function); ok {
								for i, fv := range cf.FreeVars {
									if i < len(x.Bindings) && (isT(x.Bindings[i]) || carrier[root(x.Bindings[i], 0)]) {
										sub := a.analyze(cf, -1, []ssa.Value{fv})
										for _, e := range sub.events {
											addEv(e)
										}
									}
								}
							}
						}
					}
				case *ssa.Store:
					r := root(x.Addr, 0)
					// mutation through a derived pointer
					if isT(x.Addr) && !localRoot(r) {
						addEv(&AliasEvent{Kind: "mutate", Fn: fn, Pos: x.Pos(), What: "store through a pointer derived from the source", Instr: x})
					}
					if isT(x.Val) {
						if localRoot(r) {
							if !carrier[r] {
								carrier[r] = true
								changed = true
							}
							// the allocation itself now carries the source when used as a value
							if rv, ok := r.(ssa.Value); ok {
								changed = mark(rv) || changed
							}
						} else {
							addEv(&AliasEvent{Kind: "retain", Fn: fn, Pos: x.Pos(), What: "derived value stored into " + describeAddr(x.Addr), Instr: x})
						}
					}
				case *ssa.MapUpdate:
					if isT(x.Value) || isT(x.Key) {
						r := root(x.Map, 0)
						if localRoot(r) {
							if !carrier[r] {
								carrier[r] = true
								changed = true
							}
							changed = mark(r) || changed
						} else {
							addEv(&AliasEvent{Kind: "retain", Fn: fn, Pos: x.Pos(), What: "derived value stored into a map", Instr: x})
						}
					}
					if isT(x.Map) && !localRoot(root(x.Map, 0)) {
						addEv(&AliasEvent{Kind: "mutate", Fn: fn, Pos: x.Pos(), What: "map reached from the source is updated", Instr: x})
					}
				case *ssa.Send:
					if isT(x.X) {
						addEv(&AliasEvent{Kind: "send", Fn: fn, Pos: x.Pos(), What: "derived value sent on a channel", Instr: x})
					}
				case *ssa.Return:
					for ri, rv := range x.Results {
						if isT(rv) {
							if !s.returns {
								s.returns = true
								changed = true
							}
							if s.retIdx == nil {
								s.retIdx = map[int]bool{}
							}
							if !s.retIdx[ri] {
								s.retIdx[ri] = true
								changed = true
							}
						}
					}
				case *ssa.Go:
					if a.callFlow(fn, x, tainted, carrier, root, mark, addEv, s) {
						changed = true
					}
					for _, arg := range x.Call.Args {
						if isT(arg) {
							addEv(&AliasEvent{Kind: "send", Fn: fn, Pos: x.Pos(), What: "derived value handed to a goroutine", Instr: x})
						}
					}
				case *ssa.Defer:
					if a.callFlow(fn, x, tainted, carrier, root, mark, addEv, s) {
						changed = true
					}
				case *ssa.Call:
					if a.callFlow(fn, x, tainted, carrier, root, mark, addEv, s) {
						changed = true
					}
				}
			}
		}
	}
	delete(a.inprog, key)
	s.done = true
	if before != fmt.Sprintf("%v/%d/%d", s.returns, len(s.events), len(s.retIdx)) {
		a.changed = true
	}
	return s
}

func pointerBearingElem(t types.Type) bool {
	switch u := t.Underlying().(type) {
	case *types.Slice:
		return pointerBearing(u.Elem())
	case *types.Pointer:
		if arr, ok := u.Elem().Underlying().(*types.Array); ok {
			return pointerBearing(arr.Elem())
		}
	}
	return true
}

func isStringType(t types.Type) bool {
	b, ok := t.Underlying().(*types.Basic)
	return ok && b.Info()&types.IsString != 0
}

func describeAddr(v ssa.Value) string {
	switch x := v.(type) {
	case *ssa.FieldAddr:
		if pt, ok := x.X.Type().Underlying().(*types.Pointer); ok {
			if st, ok := pt.Elem().Underlying().(*types.Struct); ok {
				return "field " + st.Field(x.Field).Name() + " of " + describeAddr(x.X)
			}
		}
		return "a field"
	case *ssa.IndexAddr:
		return "an element of " + describeAddr(x.X)
	case *ssa.Parameter:
		return "parameter " + x.Name()
	case *ssa.Global:
		return "global " + x.Name()
	case *ssa.UnOp:
		return "memory loaded from " + describeAddr(x.X)
	case *ssa.FreeVar:
		return "captured variable " + x.Name()
	}
	return strings.TrimSpace(fmt.Sprintf("%T", v))
}

// stdModel describes how an out-of-module callee treats argument i.
// flows: "ret" (result aliases the argument), "none" (copies or reads only),
// "mut" (writes through the argument), "retain" (keeps it).
type stdModel struct {
	args map[int]string // index in the SSA argument list (receiver = 0 for methods)
	all  string         // default for every argument
}

var stdModels = map[string]stdModel{
	"bytes.NewBuffer":                             {all: "ret"},
	"bytes.NewReader":                             {all: "ret"},
	"(*bytes.Buffer).Bytes":                       {all: "ret"},
	"(*bytes.Buffer).Next":                        {all: "ret"},
	"(*bytes.Buffer).Write":                       {args: map[int]string{0: "none", 1: "none"}},
	"(*bytes.Buffer).WriteByte":                   {all: "none"},
	"(*bytes.Buffer).WriteString":                 {all: "none"},
	"(*bytes.Buffer).Read":                        {args: map[int]string{0: "none", 1: "none"}},
	"(*bytes.Buffer).ReadByte":                    {all: "none"},
	"(*bytes.Buffer).Len":                         {all: "none"},
	"(*bytes.Buffer).Reset":                       {all: "none"},
	"(*bytes.Buffer).String":                      {all: "none"},
	"bytes.Equal":                                 {all: "none"},
	"bytes.Repeat":                                {all: "none"},
	"bytes.NewBufferString":                       {all: "none"},
	"(encoding/binary.bigEndian).Uint16":          {all: "none"},
	"(encoding/binary.bigEndian).Uint32":          {all: "none"},
	"(encoding/binary.bigEndian).Uint64":          {all: "none"},
	"(encoding/binary.bigEndian).PutUint16":       {all: "none"},
	"(encoding/binary.bigEndian).PutUint32":       {all: "none"},
	"(encoding/binary.bigEndian).PutUint64":       {all: "none"},
	"(encoding/binary.littleEndian).Uint16":       {all: "none"},
	"(encoding/binary.littleEndian).Uint32":       {all: "none"},
	"(encoding/binary.littleEndian).Uint64":       {all: "none"},
	"(encoding/binary.littleEndian).PutUint16":    {all: "none"},
	"(encoding/binary.littleEndian).PutUint32":    {all: "none"},
	"(encoding/binary.littleEndian).PutUint64":    {all: "none"},
	"encoding/binary.Read":                        {all: "none"},
	"encoding/binary.Write":                       {all: "none"},
	"encoding/binary.Size":                        {all: "none"},
	"(net.IP).To4":                                {all: "ret"},
	"(net.IP).To16":                               {all: "ret"},
	"(net.IP).String":                             {all: "none"},
	"(net.IP).Equal":                              {all: "none"},
	"(net.HardwareAddr).String":                   {all: "none"},
	"net.IPv4":                                    {all: "none"},
	"net.ParseIP":                                 {all: "none"},
	"errors.New":                                  {all: "none"},
	"fmt.Errorf":                                  {all: "none"},
	"fmt.Sprintf":                                 {all: "none"},
	"fmt.Sprint":                                  {all: "none"},
	"fmt.Println":                                 {all: "none"},
	"fmt.Printf":                                  {all: "none"},
	"log.Printf":                                  {all: "none"},
	"log.Println":                                 {all: "none"},
	"log.Panicf":                                  {all: "none"},
	"log.Fatalf":                                  {all: "none"},
	"strings.ToUpper":                             {all: "none"},
	"strings.Contains":                            {all: "none"},
	"reflect.ValueOf":                             {all: "ret"},
	"(reflect.Value).Interface":                   {all: "ret"},
	"(reflect.Value).Bytes":                       {all: "ret"},
	"(reflect.Value).Kind":                        {all: "none"},
	"(reflect.Value).Int":                         {all: "none"},
	"(reflect.Value).Uint":                        {all: "none"},
	"(*math/big.Int).SetBytes":                    {args: map[int]string{0: "mut", 1: "none"}},
	"(*math/big.Int).SetInt64":                    {args: map[int]string{0: "mut"}},
	"(*math/big.Int).SetUint64":                   {args: map[int]string{0: "mut"}},
	"(*math/big.Int).Lsh":                         {args: map[int]string{0: "mutret", 1: "none"}},
	"(*math/big.Int).Rsh":                         {args: map[int]string{0: "mutret", 1: "none"}},
	"(*math/big.Int).Add":                         {args: map[int]string{0: "mutret", 1: "none", 2: "none"}},
	"(*math/big.Int).Sub":                         {args: map[int]string{0: "mutret", 1: "none", 2: "none"}},
	"(*math/big.Int).And":                         {args: map[int]string{0: "mutret", 1: "none", 2: "none"}},
	"(*math/big.Int).Or":                          {args: map[int]string{0: "mutret", 1: "none", 2: "none"}},
	"(*math/big.Int).Set":                         {args: map[int]string{0: "mutret", 1: "none"}},
	"(*math/big.Int).Bytes":                       {all: "none"},
	"(*math/big.Int).BitLen":                      {all: "none"},
	"(*math/big.Int).Cmp":                         {all: "none"},
	"(*math/big.Int).Sign":                        {all: "none"},
	"(*math/big.Int).String":                      {all: "none"},
	"(*math/big.Int).Int64":                       {all: "none"},
	"(*math/big.Int).Uint64":                      {all: "none"},
	"(*math/big.Int).FillBytes":                   {args: map[int]string{0: "none", 1: "mutret"}},
	"math/big.NewInt":                             {all: "none"},
	"sync/atomic.AddUint32":                       {all: "mut"},
	"sync/atomic.LoadUint32":                      {all: "none"},
	"sync/atomic.StoreUint32":                     {all: "mut"},
	"sync/atomic.CompareAndSwapUint32":            {all: "mut"},
	"golang.org/x/exp/maps.Values":                {all: "ret"},
	"(*github.com/sirupsen/logrus.Logger).Debugf": {all: "none"},
	"github.com/sirupsen/logrus.Debugf":           {all: "none"},
	"github.com/sirupsen/logrus.Infof":            {all: "none"},
	"github.com/sirupsen/logrus.Errorf":           {all: "none"},
	"github.com/sirupsen/logrus.Warnln":           {all: "none"},
	"github.com/sirupsen/logrus.Printf":           {all: "none"},
	"github.com/sirupsen/logrus.Fatalf":           {all: "none"},
	"time.Now":                                    {all: "none"},
	"(time.Time).Add":                             {all: "none"},
	"math/rand.Uint32":                            {all: "none"},
}

func fnName(f *ssa.Function) string {
	if f.Object() != nil {
		if fo, ok := f.Object().(*types.Func); ok {
			return strings.TrimPrefix(fo.FullName(), "")
		}
	}
	return f.String()
}

// callFlow propagates taint through one call; returns whether anything changed.
func (a *Alias) callFlow(fn *ssa.Function, site ssa.CallInstruction, tainted map[ssa.Value]bool, carrier map[ssa.Value]bool,
	root func(ssa.Value, int) ssa.Value, mark func(ssa.Value) bool, addEv func(*AliasEvent), s *aliasSummary) bool {
	c := site.Common()
	changed := false
	res, _ := site.(ssa.Value)
	isT := func(v ssa.Value) bool {
		return v != nil && (tainted[v] || carrier[root(v, 0)] && pointerBearing(v.Type()))
	}

	// builtins
	if b, ok := c.Value.(*ssa.Builtin); ok {
		switch b.Name() {
		case "append":
			// result aliases the first argument; elements are copied, so the
			// second matters only when the element type can hold a pointer
			if len(c.Args) >= 1 && isT(c.Args[0]) && res != nil {
				changed = mark(res) || changed
				a.tupleAll[res] = true
			}
			// appending to a slice derived from the source writes into the source's backing array whenever it
			// has spare capacity (a sub-slice, a spread variadic argument)
			if len(c.Args) >= 2 && tainted[c.Args[0]] {
				if _, isAlloc := root(c.Args[0], 0).(*ssa.Alloc); !isAlloc {
					if sl, ok := c.Args[0].(*ssa.Slice); !ok || sl.Max == nil {
						addEv(&AliasEvent{Kind: "mutate", Fn: fn, Pos: site.Pos(), What: "append to a slice derived from the source: with spare capacity the new elements are written into the source's backing array", Instr: site})
					}
				}
			}
			if len(c.Args) >= 2 && isT(c.Args[1]) && res != nil && pointerBearingElem(c.Args[1].Type()) {
				changed = mark(res) || changed
				a.tupleAll[res] = true
			}
		case "copy":
			// copy(dst, src): writes through dst; copies elements
			if len(c.Args) == 2 {
				if tainted[c.Args[0]] {
					if _, isAlloc := root(c.Args[0], 0).(*ssa.Alloc); !isAlloc {
						addEv(&AliasEvent{Kind: "mutate", Fn: fn, Pos: site.Pos(), What: "copy into memory derived from the source", Instr: site})
					}
				}
				if isT(c.Args[1]) && pointerBearingElem(c.Args[1].Type()) {
					r := root(c.Args[0], 0)
					if _, isAlloc := r.(*ssa.Alloc); isAlloc {
						carrier[r] = true
					} else {
						addEv(&AliasEvent{Kind: "retain", Fn: fn, Pos: site.Pos(), What: "pointer-bearing elements of a derived slice copied into longer-lived memory", Instr: site})
					}
				}
			}
		}
		return changed
	}

	// argument list with the receiver first for invoke-mode calls
	var args []ssa.Value
	if c.IsInvoke() {
		args = append(args, c.Value)
	}
	args = append(args, c.Args...)
	anyT := false
	for _, v := range args {
		if isT(v) {
			anyT = true
		}
	}
	// a call of a tainted closure value
	if !anyT {
		return false
	}
	callees := a.sw.callees(site)
	if len(callees) == 0 {
		if _, isClos := c.Value.(*ssa.MakeClosure); !isClos {
			name := "dynamic call " + c.String()
			a.Unmodelled[name] = site.Pos()
			addEv(&AliasEvent{Kind: "unmodelled", Fn: fn, Pos: site.Pos(), What: "derived value passed to an unresolved call", Instr: site})
		}
		return false
	}
	for _, cf := range callees {
		if a.w.inModule(cf) && len(cf.Blocks) > 0 {
			for i, v := range args {
				if !isT(v) {
					continue
				}
				// closures: free variables are handled at MakeClosure
				if i >= len(cf.Params) {
					continue
				}
				sub := a.analyze(cf, i, nil)
				for _, e := range sub.events {
					addEv(e)
				}
				if sub.returns && res != nil {
					changed = mark(res) || changed
					if a.tupleIdx[res] == nil {
						a.tupleIdx[res] = map[int]bool{}
					}
					for ri := range sub.retIdx {
						if !a.tupleIdx[res][ri] {
							a.tupleIdx[res][ri] = true
							changed = true
						}
					}
				}
			}
			continue
		}
		name := fnName(cf)
		m, ok := stdModels[name]
		if !ok {
			// generic instantiations of modelled functions
			if o := cf.Origin(); o != nil {
				m, ok = stdModels[fnName(o)]
			}
		}
		if !ok {
			a.Unmodelled[name] = site.Pos()
			addEv(&AliasEvent{Kind: "unmodelled", Fn: fn, Pos: site.Pos(), What: "derived value passed to " + name + ", which has no model", Instr: site})
			continue
		}
		for i, v := range args {
			if !isT(v) {
				continue
			}
			flow := m.all
			if f, ok := m.args[i]; ok {
				flow = f
			}
			switch flow {
			case "ret":
				if res != nil {
					changed = mark(res) || changed
					a.tupleAll[res] = true
				}
			case "mut", "mutret":
				if tainted[v] {
					addEv(&AliasEvent{Kind: "mutate", Fn: fn, Pos: site.Pos(), What: name + " modifies the value it is called on, which is derived from the source", Instr: site})
				}
				if flow == "mutret" && res != nil {
					changed = mark(res) || changed
					a.tupleAll[res] = true
				}
			case "retain":
				addEv(&AliasEvent{Kind: "retain", Fn: fn, Pos: site.Pos(), What: name + " keeps the derived value", Instr: site})
			}
		}
	}
	return changed
}

func sortEvents(evs []*AliasEvent, w *World) {
	sort.SliceStable(evs, func(i, j int) bool {
		pi, pj := w.Fset.Position(evs[i].Pos), w.Fset.Position(evs[j].Pos)
		if pi.Filename != pj.Filename {
			return pi.Filename < pj.Filename
		}
		if pi.Line != pj.Line {
			return pi.Line < pj.Line
		}
		return evs[i].What < evs[j].What
	})
}
