package main

// Declared-length premises (DESIGN §2.3 item 2): reviewed equalities between a
// count/length field that the encoder itself writes to the wire and the length
// of the part it describes ("length and count fields consistent with the parts
// present" in the statements of C06/C09), and the stored-length invariants
// that the kind's builders maintain (checked by the C02 `declen` rules).
// Each row names the kind, the atom it rewrites and the reason.

import "strings"

type premiseRow struct {
	Kind   string
	Atom   string       // printed key of the atom that is rewritten
	To     func() *Term // replacement
	Reason string
}

// present(p, n): n bytes when the optional part at p is set.
func present(p string, n int64) *Term { return Ite(p+"==nil", Const(0), Const(n)) }

func fixedWidth(kind, field string, n int64, what string) premiseRow {
	return premiseRow{kind, "len($." + field + ")", func() *Term { return Const(n) }, "fixed-width field: " + what}
}

var premiseTable = []premiseRow{
	fixedWidth("openflow13.EthDstField", "EthDst", 6, "an Ethernet address has 6 bytes"),
	fixedWidth("openflow13.EthSrcField", "EthSrc", 6, "an Ethernet address has 6 bytes"),
	fixedWidth("openflow13.ArpXHaField", "ArpHa", 6, "an Ethernet address has 6 bytes"),
	fixedWidth("openflow13.Ipv6SrcField", "Ipv6Src", 16, "an IPv6 address has 16 bytes"),
	fixedWidth("openflow13.Ipv6DstField", "Ipv6Dst", 16, "an IPv6 address has 16 bytes"),
	{"openflow13.ByteArrayField", "len($.Data)", func() *Term { return ValOf("$.Length") },
		"Length is the declared payload width; both constructors (big2byte, NewTunMetadataField) set Length = len(Data)"},
	{"openflow13.NXActionConnTrack", "val($.NXActionHeader.ActionHeader.Length)", func() *Term {
		return Const(24).Add(Sum("$.actions", LenCall("$.actions[*]", "util.Message")))
	}, "stored length: 24 after NewNXActionConnTrack, AddAction adds act.Len() per appended action (C02 declen/AddAction)"},
	{"openflow13.NXActionCTNAT", "val($.NXActionHeader.ActionHeader.Length)", func() *Term {
		return Const(16).Add(present("$.rangeIPv4Min", 4)).Add(present("$.rangeIPv4Max", 4)).Add(present("$.rangeIPv6Min", 16)).
			Add(present("$.rangeIPv6Max", 16)).Add(present("$.rangeProtoMin", 2)).Add(present("$.rangeProtoMax", 2))
	}, "stored length: 16 after NewNXActionCTNAT, each SetRange* adds the width of the part it sets (C02 declen/SetRange*)"},
	{"protocol.ARP", "val($.ProtoLength)", func() *Term { return Const(4) },
		"the protocol addresses are IPv4 (net.IP.To4): ProtoLength = 4, as NewARP sets it"},
	{"protocol.IPv4", "len($.Options.Buffer.Bytes())", func() *Term {
		return Ite("val($.IHL)<5", Const(5), ValOf("$.IHL")).Scale(4).AddC(-20)
	}, "IHL counts the 20-byte fixed header plus the options in 32-bit words"},
	{"protocol.HopByHopHeader", "Σ($.Options: 2 + val($.Options[*].Length))", func() *Term {
		return ValOf("$.HEL").AddC(1).Scale(8).AddC(-2)
	}, "HEL is the header length in 8-byte units minus one; the options fill it"},
	{"protocol.Option", "len($.Data)", func() *Term { return ValOf("$.Length") },
		"Length is the option payload length"},
	{"protocol.RoutingHeader", "len($.Data.Buffer.Bytes())", func() *Term {
		return ValOf("$.HEL").AddC(1).Scale(8).AddC(-4)
	}, "HEL is the header length in 8-byte units minus one; the type-specific data fills it"},
	{"protocol.DHCP", "ite(253<len($.Options[*].data) ? -2 : len($.Options[*].data))", func() *Term { return LenOf("$.Options[*].data") },
		"an option value longer than 253 octets makes DHCPMarshalOption return an error and the encoder fail: where an encoding exists, every option has at most 253 octets of data"},
	{"protocol.IGMPv3Query", "len($.SourceAddresses)", func() *Term { return ValOf("$.NumberOfSources") },
		"NumberOfSources counts SourceAddresses (NewIGMPv3Query sets it so)"},
	{"protocol.IGMPv3GroupRecord", "len($.SourceAddresses)", func() *Term { return ValOf("$.NumberOfSources") },
		"NumberOfSources counts SourceAddresses (NewGroupRecord sets it so)"},
	{"protocol.IGMPv3GroupRecord", "len($.AuxData)", func() *Term { return ValOf("$.AuxDataLen") },
		"AuxDataLen counts the 32-bit words of AuxData"},
}

func (w *World) applyPremises(k *Kind, t *Term, used map[string]bool) *Term {
	if t == nil {
		return nil
	}
	for _, pr := range premiseTable {
		if pr.Kind != k.Name {
			continue
		}
		pr := pr
		t = t.Map(func(a *Atom) *Term {
			if a.Key() == pr.Atom {
				used["premise "+pr.Atom+" = "+pr.To().String()] = true
				return pr.To()
			}
			return nil
		})
	}
	return t
}

func premisesOf(kind string) []premiseRow {
	var out []premiseRow
	for _, p := range premiseTable {
		if p.Kind == kind {
			out = append(out, p)
		}
	}
	return out
}

var _ = strings.TrimSpace

// reviewedFacts lists the constructor-established facts about EXPORTED fields
// that size agreement may rely on (DESIGN §2.3 item 1). A fact about an
// unexported field needs no row: only module code can store to it, and the
// builder-store scan covers that. A fact about an exported field is something
// the API does not enforce, so it is accepted only where the wire format fixes
// the width and the row was confirmed by reading; a size function or encoder
// that newly depends on such a fact fails the size rule.
var reviewedFacts = map[string]map[string]string{
	"openflow13.DescStats": {
		"len($.MfrDesc)=256": "ofp_desc.mfr_desc is DESC_STR_LEN = 256 bytes", "len($.HWDesc)=256": "ofp_desc.hw_desc 256 bytes",
		"len($.SWDesc)=256": "ofp_desc.sw_desc 256 bytes", "len($.SerialNum)=32": "ofp_desc.serial_num SERIAL_NUM_LEN = 32", "len($.DPDesc)=256": "ofp_desc.dp_desc 256 bytes"},
	"openflow13.PhyPort":        {"len($.HWAddr)=6": "ofp_port.hw_addr OFP_ETH_ALEN = 6", "len($.Name)=16": "ofp_port.name OFP_MAX_PORT_NAME_LEN = 16"},
	"openflow13.PortStatus":     {"len($.Desc.HWAddr)=6": "ofp_port.hw_addr", "len($.Desc.Name)=16": "ofp_port.name"},
	"openflow13.SwitchFeatures": {"len($.DPID)=8": "datapath_id is 64 bits", "len($.Ports[*].HWAddr)=6": "ofp_port.hw_addr", "len($.Ports[*].Name)=16": "ofp_port.name"},
	"openflow13.TableStats":     {"len($.Name)=32": "OFP_MAX_TABLE_NAME_LEN = 32"},
	"protocol.ARP":              {"val($.HWLength)=6": "Ethernet hardware addresses", "val($.ProtoLength)=4": "IPv4 protocol addresses"},
	"protocol.Ethernet":         {"len($.HWDst)=6": "Ethernet address", "len($.HWSrc)=6": "Ethernet address"},
	"protocol.DHCP": {"len($.ClientIP)=4": "ciaddr is a 4-octet field (RFC 2131 §2); NewDHCP allocates 4", "len($.YourIP)=4": "yiaddr, 4 octets", "len($.ServerIP)=4": "siaddr, 4 octets",
		"len($.GatewayIP)=4": "giaddr, 4 octets", "len($.ClientHWAddr)=16": "chaddr is a 16-octet field; NewDHCP allocates 16"},
	"protocol.IGMPv3Query":       {"val($.NumberOfSources)=len($.SourceAddresses)": "count field of the source list (declared-length premise)"},
	"protocol.IGMPv3GroupRecord": {"val($.NumberOfSources)=len($.SourceAddresses)": "count field of the source list (declared-length premise)"},
}

// factAllowed reports whether a used constructor fact may be relied upon for kind.
func factAllowed(kind, fact string) bool {
	if !strings.HasPrefix(fact, "len(") && !strings.HasPrefix(fact, "val(") {
		return true // premises and no-overflow notes have their own tables/rules
	}
	i := strings.Index(fact, ")")
	if i < 0 {
		return false
	}
	path := fact[4:i]
	// stored element lengths: decided by the C02 declen rules for every constructor and builder
	if strings.HasSuffix(path, ".ActionHeader.Length") {
		return true
	}
	last := path
	if j := strings.LastIndex(path, "."); j >= 0 {
		last = path[j+1:]
	}
	if last != "" && !(last[0] >= 'A' && last[0] <= 'Z') {
		return true // unexported field
	}
	_, ok := reviewedFacts[kind][fact]
	return ok
}
