package main

import (
	"fmt"
	"go/ast"
	"go/token"
	"go/types"
	"golang.org/x/tools/go/cfg"
	"strings"
)

// errFailRule: in the codecs (functions of the selected packages that can report an error), a failure of a
// step is the failure of the whole: the branch taken when an error value is not nil ends in a return that
// carries a non-nil error. A branch that logs and carries on (continue, break, falling out of the if, return
// nil) turns "this element could not be encoded / decoded" into a result that silently lacks the element,
// while sizes, counts and declared lengths still include it.
func errFailRule(w *World, r *Report, rule string, sel func(fi *FuncInfo) bool) {
	n := 0
	w.eachModuleFunc(func(fi *FuncInfo) {
		if fi.Decl.Body == nil || !sel(fi) {
			return
		}
		sig := fi.Obj.Type().(*types.Signature)
		errIdx := -1
		for i := 0; i < sig.Results().Len(); i++ {
			if isErrorType(sig.Results().At(i).Type()) {
				errIdx = i
			}
		}
		if errIdx < 0 {
			return
		}
		info := fi.Pkg.TypesInfo
		var namedErr types.Object
		if sig.Results().At(errIdx).Name() != "" {
			namedErr = sig.Results().At(errIdx)
		}
		inst := 0
		ast.Inspect(fi.Decl.Body, func(nd ast.Node) bool {
			if _, isLit := nd.(*ast.FuncLit); isLit {
				return false
			}
			is, ok := nd.(*ast.IfStmt)
			if !ok {
				return true
			}
			be, ok := unparen(is.Cond).(*ast.BinaryExpr)
			if !ok || be.Op != token.NEQ {
				return true
			}
			if id, ok := unparen(be.Y).(*ast.Ident); !ok || id.Name != "nil" {
				return true
			}
			eo := identObj(info, be.X)
			if eo == nil || !isErrorType(eo.Type()) {
				return true
			}
			inst++
			n++
			key := strings.TrimSpace(types.ExprString(be.X))
			instName := key + "#" + itoa(inst)
			pos := w.Pos(is.Pos())
			if len(is.Body.List) == 0 {
				r.Fail(VViolation, rule, fi.Key, instName, pos, "the branch for a failed step is empty: the failure is ignored")
				return true
			}
			last := is.Body.List[len(is.Body.List)-1]
			// the error is kept and handed out by a later return of the same variable (`break` out of the loop,
			// or falling out of the if, with `return err` / a named result at the end)
			keptForLater := func() bool {
				if b, ok := last.(*ast.BranchStmt); ok && b.Tok != token.BREAK {
					return false
				}
				if _, ok := last.(*ast.ReturnStmt); ok {
					return false
				}
				found := false
				ast.Inspect(fi.Decl.Body, func(m ast.Node) bool {
					if _, isLit := m.(*ast.FuncLit); isLit {
						return false
					}
					rs, ok := m.(*ast.ReturnStmt)
					if !ok || rs.Pos() < is.End() {
						return true
					}
					if len(rs.Results) == 0 {
						if namedErr != nil && eo == namedErr {
							found = true
						}
					} else if errIdx < len(rs.Results) && identObj(info, rs.Results[errIdx]) == eo {
						found = true
					}
					return true
				})
				return found
			}
			if keptForLater() {
				r.OK(rule, fi.Key, instName, pos, "the error variable is kept and returned by a later return statement", false)
				return true
			}
			switch x := last.(type) {
			case *ast.ReturnStmt:
				if len(x.Results) == 0 {
					// bare return: the named error result must be the tested variable (or be assigned in the branch)
					if namedErr != nil && (eo == namedErr || assignsObj(info, is.Body, namedErr)) {
						r.OK(rule, fi.Key, instName, pos, "returns the error (named result)", false)
					} else {
						r.Fail(VViolation, rule, fi.Key, instName, pos, "the branch for a failed step returns without handing the error to the caller (the named error result is another variable, not assigned here)")
					}
					return true
				}
				if errIdx < len(x.Results) {
					if id, ok := unparen(x.Results[errIdx]).(*ast.Ident); ok && id.Name == "nil" && info.Uses[id] == types.Universe.Lookup("nil") {
						r.Fail(VViolation, rule, fi.Key, instName, pos, "the branch for a failed step returns a nil error: the caller gets a result that silently lacks what failed")
						return true
					}
				}
				r.OK(rule, fi.Key, instName, pos, "returns a non-nil error", false)
			case *ast.ExprStmt:
				// panic(...) / log.Fatal(...)
				if c, ok := x.X.(*ast.CallExpr); ok {
					if id, ok := unparen(c.Fun).(*ast.Ident); ok && id.Name == "panic" {
						r.OK(rule, fi.Key, instName, pos, "panics", false)
						return true
					}
				}
				r.Fail(VViolation, rule, fi.Key, instName, pos, "the branch for a failed step does not return: the function carries on without the element that failed (sizes, counts and declared lengths still include it)")
			default:
				what := "does not return"
				if b, ok := last.(*ast.BranchStmt); ok {
					what = "ends in " + b.Tok.String()
				}
				r.Fail(VViolation, rule, fi.Key, instName, pos, "the branch for a failed step "+what+": the function carries on (or stops early and reports success) without the element that failed, while sizes, counts and declared lengths still include it")
			}
			return true
		})
	})
	r.Stats["errfail_branches"] = n
}

func assignsObj(info *types.Info, body *ast.BlockStmt, o types.Object) bool {
	found := false
	ast.Inspect(body, func(n ast.Node) bool {
		if as, ok := n.(*ast.AssignStmt); ok {
			for _, l := range as.Lhs {
				if identObj(info, l) == o {
					found = true
				}
			}
		}
		return true
	})
	return found
}

func itoa(i int) string {
	return strings.TrimSpace(strings.Replace(" "+strings.Repeat("", 0)+fmtInt(i), " ", "", 1))
}

func fmtInt(i int) string {
	if i == 0 {
		return "0"
	}
	s := ""
	for i > 0 {
		s = string(rune('0'+i%10)) + s
		i /= 10
	}
	return s
}

// errNoEffectRule: a builder or setter that reports an error has not changed the value it was called on — a
// caller that handles the error by carrying on (trying the other variant, skipping the option) must not find the
// rejected setting in the message. On the control-flow graph: no store into the receiver reaches a return that
// can carry a non-nil error.
func errNoEffectRule(w *World, r *Report, rule string, sel func(fi *FuncInfo) bool) {
	n := 0
	w.eachModuleFunc(func(fi *FuncInfo) {
		if fi.Decl.Body == nil || fi.Recv == nil || !sel(fi) || isCodecMethod(fi.Decl.Name.Name) {
			return
		}
		sig := fi.Obj.Type().(*types.Signature)
		if sig.Results().Len() != 1 || !isErrorType(sig.Results().At(0).Type()) {
			return
		}
		if _, isPtr := sig.Recv().Type().(*types.Pointer); !isPtr {
			return
		}
		for i := 0; i < sig.Params().Len(); i++ {
			if isByteSlice(sig.Params().At(i).Type()) {
				return // a decoder step: what it filled before it failed is discarded with the value
			}
		}
		if fi.Decl.Recv == nil || len(fi.Decl.Recv.List) == 0 || len(fi.Decl.Recv.List[0].Names) == 0 {
			return
		}
		info := fi.Pkg.TypesInfo
		recv := info.Defs[fi.Decl.Recv.List[0].Names[0]]
		if recv == nil {
			return
		}
		n++
		g := w.funcCFG(info, fi.Decl.Body)
		rootedAtRecv := func(e ast.Expr) bool {
			for {
				switch x := unparen(e).(type) {
				case *ast.SelectorExpr:
					e = x.X
				case *ast.IndexExpr:
					e = x.X
				case *ast.StarExpr:
					e = x.X
				case *ast.Ident:
					return info.Uses[x] == recv
				default:
					return false
				}
			}
		}
		type at struct {
			b *cfg.Block
			i int
		}
		var stores []at
		var storePos []token.Pos
		var rets []at
		for _, b := range g.Blocks {
			for i, nd := range b.Nodes {
				switch x := nd.(type) {
				case *ast.AssignStmt:
					for _, l := range x.Lhs {
						if _, isID := unparen(l).(*ast.Ident); !isID && rootedAtRecv(l) {
							stores = append(stores, at{b, i})
							storePos = append(storePos, x.Pos())
						}
					}
				case *ast.IncDecStmt:
					if _, isID := unparen(x.X).(*ast.Ident); !isID && rootedAtRecv(x.X) {
						stores = append(stores, at{b, i})
						storePos = append(storePos, x.Pos())
					}
				case *ast.ReturnStmt:
					if len(x.Results) == 1 {
						if id, ok := unparen(x.Results[0]).(*ast.Ident); ok && id.Name == "nil" {
							continue
						}
						rets = append(rets, at{b, i})
					}
				}
			}
		}
		bad := token.NoPos
		for si, s := range stores {
			// blocks reachable from the store
			seen := map[*cfg.Block]bool{}
			var stack []*cfg.Block
			stack = append(stack, s.b.Succs...)
			for len(stack) > 0 {
				b := stack[len(stack)-1]
				stack = stack[:len(stack)-1]
				if seen[b] {
					continue
				}
				seen[b] = true
				stack = append(stack, b.Succs...)
			}
			for _, rt := range rets {
				if (rt.b == s.b && rt.i > s.i) || seen[rt.b] {
					bad = storePos[si]
				}
			}
		}
		pos := w.Pos(fi.Decl.Pos())
		switch {
		case len(stores) == 0 || len(rets) == 0:
			r.OK(rule, fi.Key, "", pos, "no store into the receiver, or no error return", false)
		case bad != token.NoPos:
			r.Fail(VViolation, rule, fi.Key, "", w.Pos(bad), "the receiver is written here and the method can still return an error afterwards: a call that is refused leaves its setting in the value, and it is encoded")
		default:
			r.OK(rule, fi.Key, "", pos, "every store into the receiver lies behind the last return that can carry an error", true)
		}
	})
	r.Stats["errnoeffect_methods"] = n
}

// encRejectRule: an encoder has no error exit of its own. Whatever the constructors and builders can build is a
// message the encoder must produce; the only error an encoder may hand out is one a child encoder returned. A
// fresh error constructed inside an encoder ("too large", "unsupported combination") refuses messages by
// value — typically exactly at a limit (a total of 65535 bytes, the last command code).
func encRejectRule(w *World, r *Report, rule string, sel func(k *Kind) bool) {
	n := 0
	for _, k := range w.KindsL {
		if k.Marshal == nil || !k.OwnMarshal || !sel(k) {
			continue
		}
		fi := w.FuncOf(k.Marshal)
		if fi == nil || fi.Decl.Body == nil {
			continue
		}
		n++
		info := fi.Pkg.TypesInfo
		bad := token.NoPos
		what := ""
		// branches taken when a child step failed: an error built there re-words the child's failure
		var failBranches []*ast.BlockStmt
		ast.Inspect(fi.Decl.Body, func(nd ast.Node) bool {
			if is, ok := nd.(*ast.IfStmt); ok {
				if be, ok := unparen(is.Cond).(*ast.BinaryExpr); ok && be.Op == token.NEQ {
					if id, ok := unparen(be.Y).(*ast.Ident); ok && id.Name == "nil" {
						if eo := identObj(info, be.X); eo != nil && isErrorType(eo.Type()) {
							failBranches = append(failBranches, is.Body)
						}
					}
				}
			}
			return true
		})
		inFail := func(p token.Pos) bool {
			for _, b := range failBranches {
				if b.Pos() <= p && p <= b.End() {
					return true
				}
			}
			return false
		}
		ast.Inspect(fi.Decl.Body, func(nd ast.Node) bool {
			if nd != nil && inFail(nd.Pos()) {
				return false
			}
			switch x := nd.(type) {
			case *ast.CallExpr:
				if fn := w.calleeOf(info, x); fn != nil && fn.Pkg() != nil {
					p, nm := fn.Pkg().Path(), fn.Name()
					if (p == "errors" && nm == "New") || (p == "fmt" && nm == "Errorf") {
						bad, what = x.Pos(), p+"."+nm
					}
				}
			case *ast.CompositeLit:
				if t := info.TypeOf(x); t != nil && implementsError(t) {
					bad, what = x.Pos(), "a value of "+t.String()
				}
			}
			return true
		})
		pos := w.Pos(fi.Decl.Pos())
		if bad != token.NoPos {
			r.Fail(VViolation, rule, k.Name, "", w.Pos(bad), "the encoder constructs an error of its own ("+what+"): it refuses, by value, a message the constructors and builders can build — every error an encoder returns must be one a child encoder returned")
		} else {
			r.OK(rule, k.Name, "", pos, "no error is constructed in the encoder", false)
		}
	}
	r.Stats["encoders_without_own_error"] = n
}

func implementsError(t types.Type) bool {
	et := types.Universe.Lookup("error").Type().Underlying().(*types.Interface)
	return types.Implements(t, et) || types.Implements(types.NewPointer(t), et)
}

// reparseRule: the parser is re-entered (a message embedded in a message) at most once per decoder. A decoder
// that calls the entry point twice — a retry on a trimmed window after the first attempt failed — doubles the
// work at every nesting level: a frame of n nested bundle-add messages costs 2^n.
func reparseRule(w *World, r *Report, rule string) {
	entry := w.Funcs["openflow13.Parse"]
	if entry == nil {
		r.Fail(VViolation, rule, "openflow13.Parse", "", "-", "parser entry point not found")
		return
	}
	n := 0
	w.eachModuleFunc(func(fi *FuncInfo) {
		if fi.Decl.Body == nil || fi.Pkg.Types.Name() != "openflow13" || fi == entry {
			return
		}
		info := fi.Pkg.TypesInfo
		var sites []token.Pos
		inLoop := false
		var walk func(nd ast.Node, loop bool)
		walk = func(nd ast.Node, loop bool) {
			ast.Inspect(nd, func(m ast.Node) bool {
				switch x := m.(type) {
				case *ast.ForStmt:
					if x != nd {
						walk(x.Body, true)
						return false
					}
				case *ast.RangeStmt:
					if x != nd {
						walk(x.Body, true)
						return false
					}
				case *ast.CallExpr:
					if fn := w.calleeOf(info, x); fn != nil && fn == entry.Obj {
						sites = append(sites, x.Pos())
						if loop {
							inLoop = true
						}
					}
				}
				return true
			})
		}
		walk(fi.Decl.Body, false)
		if len(sites) == 0 {
			return
		}
		n++
		pos := w.Pos(sites[0])
		switch {
		case len(sites) > 1:
			r.Fail(VViolation, rule, fi.Key, "", w.Pos(sites[1]), fmt.Sprintf("%d calls of the parser entry point in one decoder: a second attempt on the same bytes doubles the cost at every nesting level (exponential in the depth of embedded messages)", len(sites)))
		case inLoop:
			r.Fail(VViolation, rule, fi.Key, "", pos, "the parser entry point is called inside a loop of a decoder: the cost of nested messages is no longer linear in the frame")
		default:
			r.OK(rule, fi.Key, "", pos, "one call of the parser entry point, outside any loop", true)
		}
	})
	if n == 0 {
		r.OK(rule, "openflow13", "", "-", "no decoder re-enters the parser", false)
	}
}
