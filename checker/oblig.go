package main

// Obligations, verdicts, known findings, evidence (DESIGN §2.10).

import (
	"bufio"
	"encoding/json"
	"fmt"
	"os"
	"path/filepath"
	"sort"
	"strings"
	"time"
)

const (
	VOK        = "ok"
	VViolation = "violation"
	VUndecided = "undecided"
	VUnmapped  = "unmapped"
)

type Oblig struct {
	Prop     string `json:"property"`
	Rule     string `json:"rule"`
	Subject  string `json:"subject"`            // function or kind
	Instance string `json:"instance,omitempty"` // normalised construct
	Verdict  string `json:"verdict"`
	Diag     string `json:"diagnosis,omitempty"` // normal-form diagnosis
	Pos      string `json:"pos,omitempty"`
	Note     string `json:"note,omitempty"` // how it was decided (terms, facts)
	// Nontrivial: the decision used at least one symbolic atom, guard fact,
	// alias step or table row.
	Nontrivial bool `json:"nontrivial"`
	// Known is set when the failing obligation matches a known finding.
	Known bool `json:"known_finding,omitempty"`
	// Assumed is set when a reviewed row of assumed_safe.json discharges it.
	Assumed string `json:"assumed,omitempty"`
}

func (o *Oblig) Key() string {
	k := o.Prop + "/" + o.Rule + "/" + o.Subject
	if o.Instance != "" {
		k += "/" + o.Instance
	}
	return k
}

type Finding struct {
	Status    string `json:"status"` // open | fixed
	Property  string `json:"property"`
	Key       string `json:"key"`
	Diagnosis string `json:"diagnosis"`
	What      string `json:"what"`
	Witness   string `json:"witness,omitempty"`
	Commit    string `json:"commit,omitempty"`
	Line      string `json:"line,omitempty"` // the "fixed: property=.." record line
}

type AssumedRow struct {
	Key       string `json:"key"`
	Diagnosis string `json:"diagnosis"`
	// Contains: when set, the row also covers a diagnosis of the same obligation that contains this
	// fragment (the same reviewed cause, worded by another stage of the interpreter)
	Contains string `json:"diagnosis_contains,omitempty"`
	Reason   string `json:"reason"`
}

type Report struct {
	Prop   string
	Tier   string
	Start  time.Time
	Obs    []*Oblig
	Notes  []string          // informational lines for the evidence
	Stats  map[string]int    // what was analysed
	Extra  map[string]any    // extra evidence keys
	floors map[string]int    // rule -> minimum number of instances
	counts map[string]int    // rule -> instances seen
	rules  map[string]string // rule -> one-line description
}

func NewReport(prop, tier string) *Report {
	return &Report{Prop: prop, Tier: tier, Start: time.Now(), Stats: map[string]int{}, Extra: map[string]any{},
		floors: map[string]int{}, counts: map[string]int{}, rules: map[string]string{}}
}

func (r *Report) Rule(rule, desc string, floor int) {
	r.rules[rule] = desc
	r.floors[rule] = floor
}

func (r *Report) Add(o *Oblig) *Oblig {
	o.Prop = r.Prop
	r.Obs = append(r.Obs, o)
	r.counts[o.Rule]++
	return o
}

func (r *Report) OK(rule, subject, instance, pos, note string, nontrivial bool) *Oblig {
	return r.Add(&Oblig{Rule: rule, Subject: subject, Instance: instance, Verdict: VOK, Pos: pos, Note: note, Nontrivial: nontrivial})
}

func (r *Report) Fail(verdict, rule, subject, instance, pos, diag string) *Oblig {
	return r.Add(&Oblig{Rule: rule, Subject: subject, Instance: instance, Verdict: verdict, Pos: pos, Diag: diag, Nontrivial: true})
}

func (r *Report) Notef(f string, a ...any) { r.Notes = append(r.Notes, fmt.Sprintf(f, a...)) }

func verifRoot() string {
	if v := os.Getenv("VERIF_ROOT"); v != "" {
		return v
	}
	if exe, err := os.Executable(); err == nil {
		d := filepath.Dir(filepath.Dir(exe))
		if _, err := os.Stat(filepath.Join(d, "properties.jsonl")); err == nil {
			return d
		}
	}
	wd, _ := os.Getwd()
	return wd
}

func loadFindings() ([]Finding, error) {
	var out []Finding
	f, err := os.Open(filepath.Join(verifRoot(), "known_findings.jsonl"))
	if err != nil {
		if os.IsNotExist(err) {
			return nil, nil
		}
		return nil, err
	}
	defer f.Close()
	sc := bufio.NewScanner(f)
	sc.Buffer(make([]byte, 1<<20), 1<<20)
	ln := 0
	for sc.Scan() {
		ln++
		line := strings.TrimSpace(sc.Text())
		if line == "" || strings.HasPrefix(line, "#") {
			continue
		}
		var fd Finding
		if err := json.Unmarshal([]byte(line), &fd); err != nil {
			return nil, fmt.Errorf("known_findings.jsonl:%d: %v", ln, err)
		}
		out = append(out, fd)
	}
	return out, sc.Err()
}

func loadAssumed() ([]AssumedRow, error) {
	b, err := os.ReadFile(filepath.Join(verifRoot(), "assumed_safe.json"))
	if err != nil {
		if os.IsNotExist(err) {
			return nil, nil
		}
		return nil, err
	}
	var rows []AssumedRow
	if err := json.Unmarshal(b, &rows); err != nil {
		return nil, fmt.Errorf("assumed_safe.json: %v", err)
	}
	return rows, nil
}

// Finish applies floors, known findings and assumed rows, writes evidence and
// replay files, prints the verdict lines and returns the exit code.
func (r *Report) Finish(levelText string, assumptions []string) int {
	root := verifRoot()
	findings, err := loadFindings()
	if err != nil {
		fmt.Fprintln(os.Stderr, "error:", err)
		return 2
	}
	assumed, err := loadAssumed()
	if err != nil {
		fmt.Fprintln(os.Stderr, "error:", err)
		return 2
	}
	// instance floors: a rule that matches fewer instances than confirmed by hand fails
	var rules []string
	for rule := range r.floors {
		rules = append(rules, rule)
	}
	sort.Strings(rules)
	for _, rule := range rules {
		if r.counts[rule] < r.floors[rule] {
			r.Fail(VViolation, "floor", rule, "", "-", fmt.Sprintf("rule %s matched %d instances, fewer than the %d confirmed on the reference tree (vacuous pass refused)", rule, r.counts[rule], r.floors[rule]))
		}
	}
	sort.SliceStable(r.Obs, func(i, j int) bool { return r.Obs[i].Key() < r.Obs[j].Key() })

	fidx := map[string]*Finding{}
	for i := range findings {
		f := &findings[i]
		if f.Status == "open" && f.Property == r.Prop {
			fidx[f.Key+"\x00"+f.Diagnosis] = f
		}
	}
	aidx := map[string]*AssumedRow{}
	for i := range assumed {
		a := &assumed[i]
		aidx[a.Key+"\x00"+a.Diagnosis] = a
	}
	var viol []*Oblig
	nOK, nKnown, nAssumed, nNontriv := 0, 0, 0, 0
	seenKnown := map[string]bool{}
	distinct := map[string]bool{}
	for _, o := range r.Obs {
		if o.Nontrivial && !distinct[o.Key()] {
			distinct[o.Key()] = true
			nNontriv++
		}
		if o.Verdict == VOK {
			nOK++
			continue
		}
		if a, ok := aidx[o.Key()+"\x00"+o.Diag]; ok {
			o.Assumed = a.Reason
			nAssumed++
			continue
		}
		matched := false
		for i := range assumed {
			a := &assumed[i]
			if a.Key == o.Key() && a.Contains != "" && strings.Contains(o.Diag, a.Contains) {
				o.Assumed = a.Reason
				nAssumed++
				matched = true
				break
			}
		}
		if matched {
			continue
		}
		if f, ok := fidx[o.Key()+"\x00"+o.Diag]; ok {
			o.Known = true
			nKnown++
			if !seenKnown[o.Key()] {
				seenKnown[o.Key()] = true
				fmt.Printf("KNOWN-FINDING: property=%s %s — %s [%s]\n", r.Prop, o.Key(), f.What, o.Diag)
			}
			continue
		}
		viol = append(viol, o)
	}
	// stale findings are reported (information only): the defect is gone or changed shape
	for _, f := range findings {
		if f.Status == "open" && f.Property == r.Prop {
			found := false
			for _, o := range r.Obs {
				if o.Known && o.Key() == f.Key && o.Diag == f.Diagnosis {
					found = true
					break
				}
			}
			if !found {
				r.Notef("known finding no longer reproduced (stale row, suppresses nothing): %s [%s]", f.Key, f.Diagnosis)
			}
		}
	}

	if os.Getenv("OFV_LIST") != "" {
		for _, o := range r.Obs {
			fmt.Printf("  %s %s at %s: %s%s\n", o.Verdict, o.Key(), o.Pos, o.Note, o.Diag)
		}
	}
	evDir := filepath.Join(root, "evidence")
	if d := os.Getenv("OFV_EVIDENCE_DIR"); d != "" {
		evDir = d // scratch runs against variants must not touch the committed evidence
	}
	os.MkdirAll(filepath.Join(evDir, "replay"), 0o755)
	// remove stale replay files of this property
	if old, _ := filepath.Glob(filepath.Join(evDir, "replay", r.Prop+"-*.json")); old != nil {
		for _, f := range old {
			os.Remove(f)
		}
	}
	for i, o := range viol {
		path := filepath.Join(evDir, "replay", fmt.Sprintf("%s-%d.json", r.Prop, i+1))
		b, _ := json.MarshalIndent(map[string]any{"property": r.Prop, "key": o.Key(), "rule": o.Rule, "subject": o.Subject,
			"instance": o.Instance, "verdict": o.Verdict, "diagnosis": o.Diag, "pos": o.Pos, "tier": r.Tier}, "", " ")
		os.WriteFile(path, append(b, '\n'), 0o644)
		fmt.Printf("%s %s at %s: %s\n", strings.ToUpper(o.Verdict), o.Key(), o.Pos, o.Diag)
		fmt.Printf("VIOLATION property=%s replay=%s\n", r.Prop, path)
	}

	// evidence
	var samples []any
	addSample := func(o *Oblig) {
		if len(samples) < 40 {
			samples = append(samples, o)
		}
	}
	for _, o := range viol {
		addSample(o)
	}
	for _, o := range r.Obs {
		if o.Known || o.Assumed != "" {
			addSample(o)
		}
	}
	perRule := map[string]int{}
	for _, o := range r.Obs {
		if o.Verdict == VOK && o.Nontrivial && perRule[o.Rule] < 3 {
			perRule[o.Rule]++
			addSample(o)
		}
	}
	for _, o := range r.Obs {
		if len(samples) >= 12 {
			break
		}
		if o.Verdict == VOK && !o.Nontrivial {
			addSample(o)
		}
	}
	ruleDesc := []string{}
	for _, rule := range rules {
		ruleDesc = append(ruleDesc, fmt.Sprintf("%s: %s [instances=%d, floor=%d]", rule, r.rules[rule], r.counts[rule], r.floors[rule]))
	}
	cov := map[string]any{
		"explanation":         levelText,
		"evaluations":         len(r.Obs),
		"distinct_nontrivial": nNontriv,
		"rule":                "one evaluation = one obligation (rule instance on one construct of /repo's current source); non-trivial = its decision used a symbolic term, a guard fact, an alias/effect step or a specification-table row; distinct by obligation key",
		"samples":             samples,
		"obligations":         len(r.Obs),
		"discharged":          nOK,
		"known_findings":      nKnown,
		"assumed_safe":        nAssumed,
		"violations":          len(viol),
		"rules":               ruleDesc,
		"analysed":            r.Stats,
		"notes":               r.Notes,
		"exhaustive":          true,
	}
	// the claim as registered in MANIFEST.json (tools/claims.json), which lists every rule including those
	// added after the rule set's first description above
	if b, err := os.ReadFile(filepath.Join(root, "tools", "claims.json")); err == nil {
		var cl map[string]struct {
			Text string `json:"text"`
		}
		if json.Unmarshal(b, &cl) == nil && cl[r.Prop].Text != "" {
			cov["claim"] = cl[r.Prop].Text
		}
	}
	for k, v := range r.Extra {
		cov[k] = v
	}
	seed := 0
	fmt.Sscan(os.Getenv("VERIF_SEED"), &seed)
	ev := map[string]any{
		"property_id": r.Prop,
		"tier":        r.Tier,
		"seed":        seed,
		"level":       "other",
		"coverage":    cov,
		"assumptions": assumptions,
		"wall_s":      time.Since(r.Start).Seconds(),
		"violations":  len(viol),
	}
	b, _ := json.MarshalIndent(ev, "", " ")
	if err := os.WriteFile(filepath.Join(evDir, r.Prop+".json"), append(b, '\n'), 0o644); err != nil {
		fmt.Fprintln(os.Stderr, "error writing evidence:", err)
		return 2
	}
	fmt.Printf("%s tier=%s obligations=%d ok=%d known-findings=%d assumed=%d violations=%d nontrivial=%d wall=%.1fs\n",
		r.Prop, r.Tier, len(r.Obs), nOK, nKnown, nAssumed, len(viol), nNontriv, time.Since(r.Start).Seconds())
	if len(viol) > 0 {
		return 1
	}
	return 0
}
