package main

import (
	"fmt"
	"go/types"
	"regexp"
	"sort"
	"strings"
)

// ---- decoders reject input only for structural reasons ------------------------------------------
//
// rejectRule looks at every error exit of every function that takes input bytes and can return an error
// (decoders, dispatchers and the helpers they call). The conditions under which the exit is reached —
// the interpreter's guard, a conjunction — must contain at least one conjunct that is a structural
// reason to give up:
//   - the input is too short for what is to be read (a comparison with the input's length),
//   - a child decoder (or helper) failed,
//   - the type code selects no kind (the default of a dispatch, an allocation that stayed nil).
// An exit reached purely by a test on *values* found in the input (a length smaller than some other
// field, a repeated field number, an option type) refuses inputs that an encoder of the library can
// produce or a conforming peer can send, unless it is one of the rows of spec/rejections.json, each
// reviewed against the specification with the reason why no legal input meets it.

type rejectRow struct {
	Func   string `json:"func"`
	Atom   string `json:"atom"`
	Reason string `json:"reason"`
}

var symNumRE = regexp.MustCompile(`(new|loop:[A-Za-z_0-9.]+|after:[A-Za-z_0-9.]+|loopfield:[^ )#]+|hyp)#\d+`)

var elemLenRE = regexp.MustCompile(`Len\((ONEOF|\?:[A-Za-z0-9_.]+)\)`)

func normRejectAtom(a string) string {
	a = symNumRE.ReplaceAllStringFunc(a, func(m string) string { return m[:strings.Index(m, "#")+1] })
	// one-of lists of local objects differ in numbering only
	for {
		i := strings.Index(a, "oneof(")
		if i < 0 {
			break
		}
		depth, j := 0, i+len("oneof")
		for ; j < len(a); j++ {
			if a[j] == '(' {
				depth++
			} else if a[j] == ')' {
				depth--
				if depth == 0 {
					break
				}
			}
		}
		if j >= len(a) {
			break
		}
		a = a[:i] + "ONEOF" + a[j+1:]
	}
	if i := strings.Index(a, "?:oneof:"); i >= 0 {
		// the kind list that follows a one-of size: cut up to the closing parenthesis of Len(
		if j := strings.Index(a[i:], ")"); j >= 0 {
			a = a[:i] + a[i+j:]
		}
	}
	return elemLenRE.ReplaceAllString(a, "Len(ELEM)")
}

func splitTopAnd(g string) []string {
	var out []string
	depth, start := 0, 0
	for i := 0; i < len(g); i++ {
		switch g[i] {
		case '(':
			depth++
		case ')':
			depth--
		case ' ':
			if depth == 0 && strings.HasPrefix(g[i:], " && ") {
				out = append(out, g[start:i])
				start = i + 4
				i += 3
			}
		}
	}
	if start < len(g) {
		out = append(out, g[start:])
	}
	return out
}

// conjunctsOf flattens a guard into conjuncts, expanding !(A || B) into !A and !B.
func conjunctsOf(g string) []string {
	var out []string
	for _, c := range splitTopAnd(g) {
		if strings.HasPrefix(c, "!(") && strings.HasSuffix(c, ")") {
			inner := c[2 : len(c)-1]
			if parts := splitOr(inner); len(parts) > 1 {
				for _, p := range parts {
					out = append(out, negCond(p))
				}
				continue
			}
		}
		out = append(out, c)
	}
	return out
}

func structuralAtom(a string) bool {
	switch {
	case strings.HasPrefix(a, "loop(") || a == "loop":
		return false // the loop's own condition is context, not a reason
	case strings.HasPrefix(a, "!(") && strings.HasSuffix(a, "==nil)") && strings.Contains(a, "call:"):
		return true // a reader or helper outside the module reported an error
	case strings.Contains(a, "len(P)") || strings.Contains(a, "len(arg:"):
		return shortInputAtom(a) // the input is shorter than something (a length test that PASSED is no reason)
	case strings.HasPrefix(a, "!(") && strings.Contains(a, "err") && strings.HasSuffix(a, "==nil)"):
		return true // a child decoder or helper failed
	case strings.HasPrefix(a, "default("):
		return true // no case of the dispatch applies
	case strings.HasPrefix(a, "!(haskey("):
		return true // the lookup table has no entry for the code
	case strings.HasSuffix(a, "==nil") && !strings.HasPrefix(a, "!(") && !strings.Contains(a, "err") && a != "nil==nil":
		return true // nothing was allocated for the code
	}
	return false
}

// structuralConjunct: an atom that is a structural reason, or a disjunction of such atoms only.
func structuralConjunct(c string) bool {
	parts := splitOr(c)
	nStruct := 0
	for _, p := range parts {
		switch {
		case structuralAtom(p):
			nStruct++
		case negArgRE.MatchString(p):
			// `n < 0 || n > len(data)`: the sign test on an offset argument belongs to the length test beside it
		default:
			return false
		}
	}
	return nStruct > 0
}

var negArgRE = regexp.MustCompile(`^val\(arg:[A-Za-z_][A-Za-z_0-9]*\)<0$`)

func rejectRule(w *World, r *Report, rule string, pkgSel func(pkg string) bool) {
	var table struct {
		Rows []rejectRow `json:"rows"`
	}
	if err := loadSpec("rejections.json", &table); err != nil {
		r.Fail(VUnmapped, rule, "spec/rejections.json", "", "-", err.Error())
		return
	}
	usedRow := map[int]bool{}
	for _, key := range w.sortedFuncKeys() {
		fi := w.Funcs[key]
		if fi.Decl.Body == nil || !pkgSel(fi.Pkg.Name) {
			continue
		}
		if rejectOnly != nil && !rejectOnly(fi) {
			continue
		}
		sig := fi.Obj.Type().(*types.Signature)
		n := sig.Results().Len()
		if n == 0 || !isErrorType(sig.Results().At(n-1).Type()) {
			continue
		}
		hasBytes := false
		for i := 0; i < sig.Params().Len(); i++ {
			if isByteSlice(sig.Params().At(i).Type()) {
				hasBytes = true
			}
		}
		if !hasBytes {
			continue
		}
		fs := w.Interpret(fi, "decode")
		if fs == nil {
			continue
		}
		seen := map[string]bool{}
		nExit := 0
		for _, rt := range fs.Rets {
			if !rt.IsErr {
				continue
			}
			nExit++
			conj := conjunctsOf(rt.Guard)
			justified := false
			for _, c := range conj {
				if c == "!(nil==nil)" || c == "false" {
					justified = true // unreachable
				}
			}
			for _, c := range conj {
				if structuralConjunct(c) {
					justified = true
				}
			}
			if justified {
				continue
			}
			// a rejection by value: every conjunct that is not mere path context must be a reviewed row
			var atoms []string
			for _, c := range conj {
				if strings.HasPrefix(c, "loop(") || c == "loop" || c == "nil==nil" || c == "true" {
					continue
				}
				atoms = append(atoms, normRejectAtom(c))
			}
			sort.Strings(atoms)
			inst := strings.Join(atoms, " && ")
			if inst == "" {
				inst = "unconditional"
			}
			if seen[inst] {
				continue
			}
			seen[inst] = true
			row := -1
			for i, tr := range table.Rows {
				// a row holds for the package it was reviewed in: the test may move into a helper
				if samePkg(tr.Func, fi.Key) && strings.Contains(inst, tr.Atom) {
					row = i
				}
			}
			if row >= 0 {
				usedRow[row] = true
				r.OK(rule, fi.Key, inst, w.Pos(rt.Pos), "reviewed rejection by value: "+table.Rows[row].Reason, true)
			} else {
				r.Fail(VViolation, rule, fi.Key, inst, w.Pos(rt.Pos), fmt.Sprintf("an error exit is reached on the condition [%s] alone — a test on values found in the input, with no short input, failed child or unknown code behind it, and not among the reviewed rejections of spec/rejections.json: input that an encoder of the library produces, or a conforming peer sends, is refused", inst))
			}
		}
		if nExit > 0 && len(seen) == 0 {
			r.OK(rule, fi.Key, "", w.Pos(fi.Decl.Pos()), fmt.Sprintf("%d error exits, each behind a short input, a failed child or an unknown code", nExit), true)
		}
	}
	for i, tr := range table.Rows {
		if !usedRow[i] && w.Funcs[tr.Func] != nil && pkgSel(w.Funcs[tr.Func].Pkg.Name) {
			r.OK(rule, tr.Func, "row:"+tr.Atom, "-", "reviewed row no longer matches an exit (the rejection was removed or rewritten structurally)", false)
		}
	}
}

func init() {
	extraDumps["rejects"] = func(w *World, args []string) {
		r := NewReport("C05", "quick")
		rejectRule(w, r, "reject", func(string) bool { return true })
		for _, o := range r.Obs {
			if o.Verdict != VOK {
				fmt.Printf("%s | %s | %s\n", o.Subject, o.Instance, o.Pos)
			}
		}
	}
}

func samePkg(a, b string) bool {
	i, j := strings.Index(a, "."), strings.Index(b, ".")
	return i > 0 && j > 0 && a[:i] == b[:j]
}

// shortInputAtom: the atom says that the input's length is BELOW something (`len(P)<T`, `!(T<len(P))`). The
// same comparison with the other polarity (`!(len(P)<4)`: at least four bytes are there) is a test that passed
// on the way to the exit; it does not justify the rejection.
func shortInputAtom(a string) bool {
	neg := false
	if strings.HasPrefix(a, "!(") && strings.HasSuffix(a, ")") {
		neg = true
		a = a[2 : len(a)-1]
	}
	// split at the top-level '<'
	depth, at := 0, -1
	for i := 0; i < len(a); i++ {
		switch a[i] {
		case '(', '[':
			depth++
		case ')', ']':
			depth--
		case '<':
			if depth == 0 && at < 0 {
				at = i
			}
		}
	}
	if at < 0 {
		return true // equality with a length: kept as before
	}
	hasLen := func(s string) bool { return strings.Contains(s, "len(P)") || strings.Contains(s, "len(arg:") }
	l, rr := hasLen(a[:at]), hasLen(a[at+1:])
	if l && rr {
		return true
	}
	if !neg {
		return l
	}
	return rr
}

// rejectOnly narrows rejectRule to some functions (set around a call by a property that imports the rule for
// one codec only).
var rejectOnly func(fi *FuncInfo) bool
