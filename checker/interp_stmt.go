package main

import (
	"fmt"
	"go/ast"
	"go/constant"
	"go/token"
	"go/types"
	"sort"
	"strings"
)

type AllocSite struct {
	Size  *Term
	Pos   token.Pos
	Text  string
	Guard string
	Fn    string
	Facts []Fact
	Loop  bool
}

// LoopRec describes one loop for the progress rule P.
type LoopRec struct {
	Kind    string // range | for
	Pos     token.Pos
	Fn      string
	Cond    string
	CondE   ast.Expr
	Cursors []*CursorStep
	Notes   []string
	Bounded string // reason the loop is bounded without a cursor (range, counted)
	HasExit bool
	Prog    []*CursorProgress
	NBack   int
	Entry   map[string]*Term // value of each loop-carried integer at loop entry, by the symbol that stands for it in the body
}

// CursorProgress is the termination argument one cursor variable offers.
type CursorProgress struct {
	Var    string
	Strict bool   // grows by at least 1 on every path back to the loop head
	Bound  string // why it cannot grow forever (loop condition / verified invariant); empty: unbounded
	MinWhy string // the path on which growth could not be shown
}

type CursorStep struct {
	Var     string
	Type    types.Type
	Step    *Term // per-iteration advance on the continuing paths (joined)
	MinStep int64
	HasMin  bool
	Paths   []*Term
}

func (in *Interp) execBlock(st *State, list []ast.Stmt) (*State, bool) {
	pushed := 0
	defer func() { in.guards = in.guards[:len(in.guards)-pushed] }()
	for _, s := range list {
		var term bool
		in.contGuard = ""
		st, term = in.exec(st, s)
		if term {
			return st, true
		}
		if in.contGuard != "" {
			// one arm of the if returned successfully: the rest of the block runs only on the other arm
			in.guards = append(in.guards, in.contGuard)
			pushed++
			in.contGuard = ""
		}
	}
	return st, false
}

func (in *Interp) ret(st *State, results []ast.Expr, pos token.Pos) {
	r := &RetRec{Guard: in.guard(), Pos: pos}
	if len(results) == 0 {
		for _, o := range in.results {
			r.Vals = append(r.Vals, st.vars[o])
		}
	} else if len(results) == 1 && len(in.resultTypes()) > 1 {
		v := in.eval(st, results[0])
		if tv, ok := v.(TupleV); ok {
			r.Vals = tv.Vs
		} else {
			r.Vals = []Val{v}
		}
	} else {
		for _, e := range results {
			r.Vals = append(r.Vals, in.eval(st, e))
		}
	}
	// error return?
	rts := in.resultTypes()
	for i, v := range r.Vals {
		if i < len(rts) && isErrorType(rts[i]) {
			switch vv := v.(type) {
			case NilV:
			case ObjV:
				if vv.Path == "error" {
					r.IsErr = true
				} else if isLocalObj(vv.Path) && !strings.Contains(vv.Path, ".") {
					r.IsErr = true // an error value of the module's own type, allocated here (&rangeError{…})
				} else if in.guardImpliesNonNil(vv.Path) {
					r.IsErr = true
				}
			default:
				// any other abstract error value (the joined result of an inlined helper): an error exit
				// when the path condition says it is not nil
				if len(results) == len(rts) && i < len(results) {
					if in.guardImpliesNonNil(in.operandVal(st, results[i], v)) {
						r.IsErr = true
					}
				} else if len(results) == 0 && i < len(in.results) {
					if in.guardImpliesNonNil(in.results[i].Name()) || in.guardImpliesNonNil(v.valString()) {
						r.IsErr = true
					}
				}
			}
		}
	}
	// the comma-ok convention: (nil, false) is the failure exit of a lookup that reports "not found" through a
	// boolean instead of an error
	if !r.IsErr && len(rts) >= 2 && len(r.Vals) == len(rts) {
		if b, ok := rts[len(rts)-1].Underlying().(*types.Basic); ok && b.Kind() == types.Bool {
			if bv, ok := r.Vals[len(r.Vals)-1].(BoolV); ok && bv.Cond == "false" {
				if _, isNil := r.Vals[0].(NilV); isNil {
					r.IsErr = true
				}
			}
		}
	}
	in.syncCursors(st)
	r.St = st.clone()
	in.Rets = append(in.Rets, r)
	// an error variable that was set under a condition and is returned at the end (`if bad { err = … }; return
	// err`): the return is an error exit under that condition, as if the function had returned there
	if !r.IsErr {
		for i, v := range r.Vals {
			if i < len(rts) && isErrorType(rts[i]) {
				if mv, ok := v.(MaybeV); ok && mv.Cond != "" && mv.Cond != "false" {
					g := andGuard(r.Guard, mv.Cond)
					if mv.V.Path != "error" {
						// the result of a child step, which may itself be nil: an error exit when that step failed
						g = andGuard(g, "!("+mv.V.Path+"==nil)")
					}
					er := &RetRec{Guard: g, Vals: r.Vals, St: r.St, Pos: r.Pos, IsErr: true}
					in.Rets = append(in.Rets, er)
				}
			}
		}
	}
}

// guardImpliesNonNil: the current guard contains "<err>!=nil".
func (in *Interp) guardImpliesNonNil(path string) bool {
	for _, g := range in.guards {
		if strings.Contains(g, "!("+path+"==nil)") {
			return true
		}
	}
	return false
}

func isErrorType(t types.Type) bool {
	return t != nil && types.Identical(t, types.Universe.Lookup("error").Type())
}

func (in *Interp) resultTypes() []types.Type {
	var out []types.Type
	var ft *ast.FuncType
	if in.curLit != nil {
		ft = in.curLit
	} else {
		ft = in.fi.Decl.Type
	}
	if ft.Results == nil {
		return nil
	}
	for _, f := range ft.Results.List {
		t := in.info.TypeOf(f.Type)
		n := len(f.Names)
		if n == 0 {
			n = 1
		}
		for i := 0; i < n; i++ {
			out = append(out, t)
		}
	}
	return out
}

// syncCursors raises a buffer's extent to its cursor position: skipped pad
// bytes of a pre-sized buffer count as written zeros.
// noteCursorPath: the offset expression is an integer field of a local object (w.n).
func (in *Interp) noteCursorPath(st *State, bufID int, e ast.Expr) {
	se, ok := unparen(e).(*ast.SelectorExpr)
	if !ok || st.bufs[bufID] == nil {
		return
	}
	if p, t, ok := in.selPath(st, se); ok && t != nil && isIntType(t) && isLocalObj(strings.SplitN(p, ".", 2)[0]) {
		st.bufs[bufID].CursorPath = p
	}
}

func (in *Interp) syncCursors(st *State) {
	for _, b := range st.bufs {
		if (b.Cursor == nil && b.CursorPath == "") || b.Origin != "make" {
			continue
		}
		var cv IntV
		var ok bool
		if b.Cursor != nil {
			cv, ok = st.vars[b.Cursor].(IntV)
		}
		if !ok && b.CursorPath != "" {
			cv, ok = st.fields[b.CursorPath].(IntV)
		}
		if !ok {
			continue
		}
		if cv.T.Sub(b.Extent).NonPos() {
			continue
		}
		if b.Extent.Sub(cv.T).NonPos() {
			b.Extent = cv.T
		}
	}
}

func (in *Interp) assign(st *State, lhs ast.Expr, v Val, tok token.Token, rhs ast.Expr) {
	lhs = unparen(lhs)
	rhsText := ""
	if rhs != nil {
		rhsText = in.operandVal(st, rhs, v)
	}
	switch l := lhs.(type) {
	case *ast.Ident:
		if l.Name == "_" {
			return
		}
		o := in.obj(l)
		if o == nil {
			return
		}
		if vr, ok := o.(*types.Var); ok && o.Pkg() != nil && o.Parent() == o.Pkg().Scope() {
			name := "global:" + vr.Pkg().Name() + "." + vr.Name()
			st.fields[name] = v
			in.recordStore(st, name, tok.String(), rhsText, v, l.Pos())
			return
		}
		if tok == token.ASSIGN || tok == token.DEFINE {
			// an array is a value: `a := x.field` copies the bytes, later writes into a[:] do not reach the field
			if n, isArr := isByteArray(o.Type()); isArr {
				if bv, ok := v.(BufV); ok {
					if sb := st.bufs[bv.ID]; sb != nil && (sb.Origin == "field" || sb.Origin == "arg") {
						nb := &BufObj{Origin: "make", Len: Const(n), Extent: Const(n), Pos: l.Pos()}
						nb.Recs = append(nb.Recs, &Rec{Off: Const(0), W: Const(n), Kind: "bytes", Src: sb.Src, Pos: l.Pos(), Guard: in.guard(), Fn: in.fi.Key})
						st.vars[o] = in.newBuf(st, nb)
						return
					}
				}
			}
			st.vars[o] = v
			return
		}
		cur, _ := st.vars[o].(IntV)
		if cur.T == nil {
			cur.T = ValOf("var:" + l.Name)
		}
		iv, ok := v.(IntV)
		if !ok {
			st.vars[o] = UnkV{l.Name}
			return
		}
		in.curFacts = st.facts
		st.vars[o] = IntV{in.applyOp(cur.T, iv.T, tok, o.Type())}
	case *ast.SelectorExpr:
		p, t, ok := in.selPath(st, l)
		if !ok {
			in.note(l.Pos(), "store to unresolved selector %s", in.render(st, l))
			return
		}
		if tok != token.ASSIGN && tok != token.DEFINE {
			cur := in.readPath(st, p, t)
			if ci, ok := cur.(IntV); ok {
				if iv, ok := v.(IntV); ok {
					in.curFacts = st.facts
					nv := IntV{in.applyOp(ci.T, iv.T, tok, t)}
					st.fields[p] = nv
					in.recordStore(st, p, tok.String(), rhsText, nv, l.Pos())
					return
				}
			}
			st.fields[p] = UnkV{p}
			in.recordStore(st, p, tok.String(), rhsText, UnkV{}, l.Pos())
			return
		}
		in.storePath(st, p, t, v, l.Pos(), "=", rhsText)
	case *ast.IndexExpr:
		bv := in.eval(st, l.X)
		if b, ok := bv.(BufV); ok {
			idx := in.evalInt(st, l.Index)
			if id, ok := unparen(l.Index).(*ast.Ident); ok {
				if o, ok := in.obj(id).(*types.Var); ok && isIntType(o.Type()) && st.bufs[b.ID] != nil {
					st.bufs[b.ID].Cursor = o
				}
			}
			in.noteCursorPath(st, b.ID, l.Index)
			in.site(st, b, "index", b.Off.Add(idx), Const(1), l)
			bo := st.bufs[b.ID]
			if bo != nil && (bo.Origin == "field" || bo.Origin == "arg") {
				in.recordStore(st, bo.Src+"[]", tok.String(), rhsText, v, l.Pos())
				return
			}
			src := rhsText
			in.write(st, BufV{ID: b.ID, Off: b.Off.Add(idx)}, Const(1), &Rec{Kind: "byte", Src: src, Expr: rhs, Pos: l.Pos()})
			return
		}
		if sv, ok := bv.(SliceV); ok && sv.Path != "" {
			in.recordStore(st, sv.Path+"[]", tok.String(), rhsText, v, l.Pos())
			return
		}
		// map update or unknown
		if _, isMap := in.info.TypeOf(l.X).Underlying().(*types.Map); isMap {
			in.recordStore(st, in.operand(st, l.X)+"[]", tok.String(), rhsText, v, l.Pos())
		}
	case *ast.StarExpr:
		pv := in.eval(st, l.X)
		if ov, ok := pv.(ObjV); ok {
			t := derefType(ov.Type)
			if t != nil {
				in.storePath(st, ov.Path, t, v, l.Pos(), tok.String(), rhsText)
				return
			}
		}
		if pp, ok := pv.(PtrV); ok {
			if pp.Var == nil {
				in.storePath(st, pp.Path, pp.Elem, v, l.Pos(), tok.String(), rhsText)
				return
			}
			if tok == token.ASSIGN {
				st.vars[pp.Var] = v
				return
			}
			if cur, ok := st.vars[pp.Var].(IntV); ok {
				if iv, ok := v.(IntV); ok {
					st.vars[pp.Var] = IntV{in.applyOp(cur.T, iv.T, tok, pp.Elem)}
					return
				}
			}
		}
		in.note(l.Pos(), "store through unresolved pointer %s", in.render(st, l))
	}
}

func (in *Interp) applyOp(cur, v *Term, tok token.Token, t types.Type) *Term {
	var r *Term
	switch tok {
	case token.ADD_ASSIGN:
		r = cur.Add(v)
	case token.SUB_ASSIGN:
		r = cur.Sub(v)
	case token.MUL_ASSIGN:
		r = Mul(cur, v)
	case token.QUO_ASSIGN:
		r = Div(cur, v)
	case token.SHL_ASSIGN:
		if v.IsConst() && v.C >= 0 && v.C < 62 {
			r = cur.Scale(1 << uint(v.C))
		} else {
			return Opq("(" + cur.String() + ")<<(" + v.String() + ")")
		}
	default:
		return Opq("(" + cur.String() + ")" + strings.TrimSuffix(tok.String(), "=") + "(" + v.String() + ")")
	}
	if bits, uns := intBits(t); uns && bits <= 8 && !in.fitsUnsigned(r, bits) {
		// a counter below a bound of the same type cannot wrap when incremented
		if ok1, _ := Prove(Const(0), r, in.curFacts); ok1 {
			if ok2, _ := Prove(r, Const(int64(1)<<uint(bits)-1), in.curFacts); ok2 {
				return r
			}
		}
		return Wrap(fmt.Sprintf("uint%d", bits), r)
	}
	return r
}

func (in *Interp) exec(st *State, s ast.Stmt) (*State, bool) {
	switch x := s.(type) {
	case *ast.AssignStmt:
		in.pendingRead = nil
		if len(x.Rhs) == 1 && len(x.Lhs) > 1 {
			v := in.eval(st, x.Rhs[0])
			if tv, ok := v.(TupleV); ok {
				for i, l := range x.Lhs {
					if i < len(tv.Vs) {
						in.assign(st, l, tv.Vs[i], x.Tok, nil)
					}
				}
			} else {
				// comma-ok forms and unknown tuples
				for i, l := range x.Lhs {
					if i == 0 {
						in.assign(st, l, v, x.Tok, x.Rhs[0])
					} else {
						t := in.info.TypeOf(l)
						if t != nil && isErrorType(t) {
							in.assign(st, l, ObjV{Path: "err:" + in.render(st, x.Rhs[0]), Type: t}, x.Tok, nil)
						} else if ix, isIx := unparen(x.Rhs[0]).(*ast.IndexExpr); isIx && isMapType(in.info.TypeOf(ix.X)) && t != nil && isBoolType(t) {
							// v, ok := table[code]: ok says whether the table has an entry for the code
							in.assign(st, l, BoolV{"haskey(" + in.render(st, ix.X) + "," + in.operand(st, ix.Index) + ")"}, x.Tok, nil)
						} else {
							in.assign(st, l, UnkV{"ok"}, x.Tok, nil)
						}
					}
				}
			}
			return st, false
		}
		// evaluate all RHS first (parallel assignment)
		vals := make([]Val, len(x.Rhs))
		reads := make([]*Rec, len(x.Rhs))
		for i, r := range x.Rhs {
			in.pendingRead = nil
			vals[i] = in.eval(st, r)
			reads[i] = in.pendingRead
		}
		in.pendingRead = nil
		for i, l := range x.Lhs {
			if i >= len(vals) {
				break
			}
			if reads[i] != nil {
				r := reads[i]
				r.Src = in.destName(st, l)
				_, joined := unparen(x.Rhs[i]).(*ast.BinaryExpr)
				if !in.isPlainRead(x.Rhs[i]) || (joined && r.Kind != "int") {
					r.Kind = "packed"
					r.Expr = x.Rhs[i]
				}
				in.addRead(r)
			} else {
				in.packedReads(st, x.Rhs[i], in.operand(st, l))
				if x.Tok == token.ASSIGN || x.Tok == token.DEFINE {
					in.relabelRead(st, l, vals[i])
				}
			}
			in.assign(st, l, vals[i], x.Tok, x.Rhs[i])
		}
	case *ast.IncDecStmt:
		one := IntV{Const(1)}
		tok := token.ADD_ASSIGN
		if x.Tok == token.DEC {
			tok = token.SUB_ASSIGN
		}
		in.assign(st, x.X, one, tok, nil)
	case *ast.DeclStmt:
		gd, ok := x.Decl.(*ast.GenDecl)
		if !ok {
			break
		}
		for _, sp := range gd.Specs {
			vs, ok := sp.(*ast.ValueSpec)
			if !ok {
				continue
			}
			for i, nm := range vs.Names {
				o := in.info.Defs[nm]
				if o == nil {
					continue
				}
				if i < len(vs.Values) {
					in.pendingRead = nil
					v := in.eval(st, vs.Values[i])
					if in.pendingRead != nil {
						r := in.pendingRead
						r.Src = nm.Name
						in.pendingRead = nil
						in.addRead(r)
					}
					st.vars[o] = v
				} else {
					st.vars[o] = in.zeroOf(st, o.Type())
				}
			}
		}
	case *ast.ExprStmt:
		in.pendingRead = nil
		in.eval(st, x.X)
		in.pendingRead = nil
	case *ast.ReturnStmt:
		in.ret(st, x.Results, x.Pos())
		return st, true
	case *ast.BlockStmt:
		return in.execBlock(st, x.List)
	case *ast.IfStmt:
		return in.execIf(st, x)
	case *ast.RangeStmt:
		return in.execRange(st, x)
	case *ast.ForStmt:
		return in.execFor(st, x, "")
	case *ast.SwitchStmt:
		return in.execSwitch(st, x)
	case *ast.TypeSwitchStmt:
		in.note(x.Pos(), "type switch not summarised")
		return st, false
	case *ast.LabeledStmt:
		if fs, ok := x.Stmt.(*ast.ForStmt); ok {
			return in.execFor(st, fs, x.Label.Name)
		}
		return in.exec(st, x.Stmt)
	case *ast.BranchStmt:
		switch x.Tok {
		case token.BREAK:
			lbl := ""
			if x.Label != nil {
				lbl = x.Label.Name
			}
			in.breaks = append(in.breaks, &brk{label: lbl, st: st.clone(), guard: in.guard(), conds: append([]string(nil), in.guards...)})
			return st, true
		case token.CONTINUE:
			in.continues = append(in.continues, &brk{st: st.clone(), guard: in.guard(), conds: append([]string(nil), in.guards...)})
			return st, true
		case token.GOTO:
			in.note(x.Pos(), "goto not summarised")
			return st, true
		case token.FALLTHROUGH:
			in.fellThrough = true
			return st, false
		}
	case *ast.DeferStmt:
		in.Defers = append(in.Defers, x)
	case *ast.GoStmt:
		in.Gos = append(in.Gos, x)
		in.note(x.Pos(), "go statement")
	case *ast.EmptyStmt:
	case *ast.SendStmt, *ast.SelectStmt:
		in.note(s.Pos(), "channel operation not summarised")
	default:
		in.note(s.Pos(), "unhandled statement %T", s)
	}
	return st, false
}

type brk struct {
	label string
	st    *State
	guard string
	conds []string // the guard stack at the statement
}

// isPlainRead: the RHS is exactly one read (possibly converted).
func (in *Interp) isPlainRead(e ast.Expr) bool {
	e = unparen(e)
	switch x := e.(type) {
	case *ast.IndexExpr:
		return true
	case *ast.BinaryExpr:
		return in.byteLanes(x) != nil
	case *ast.CallExpr:
		if tv, ok := in.info.Types[x.Fun]; ok && tv.IsType() && len(x.Args) == 1 {
			return in.isPlainRead(x.Args[0])
		}
		f := in.callee(x)
		if _, ok := isBinaryOrder(f); ok {
			return true
		}
		if f != nil && f.Pkg() != nil && f.Pkg().Path() == "net" && f.Name() == "IPv4" {
			return true
		}
	}
	return false
}

// packedReads is a hook for reads buried in larger expressions; single reads
// are caught through pendingRead, so only index reads on P inside packed
// expressions are added here.
func (in *Interp) packedReads(st *State, e ast.Expr, dest string) {}

func (in *Interp) addRead(r *Rec) {
	r.Guard = in.guard()
	r.Fn = in.fi.Key
	if len(in.loops) > 0 {
		r.Loop = in.loops[len(in.loops)-1]
	}
	for i := in; i != nil; i = i.parent {
		if i.parent == nil {
			i.Reads = append(i.Reads, r)
		}
	}
}

func (in *Interp) execIf(st *State, x *ast.IfStmt) (*State, bool) {
	if x.Init != nil {
		st, _ = in.exec(st, x.Init)
	}
	in.pendingRead = nil
	c := in.cond(st, x.Cond)
	in.evalCondSites(st, x.Cond)
	switch c {
	case "true":
		return in.execBlock(st, x.Body.List)
	case "false":
		if x.Else != nil {
			return in.exec(st, x.Else)
		}
		return st, false
	}
	sa := st.clone()
	in.assume(sa, x.Cond, true)
	in.guards = append(in.guards, c)
	r0 := len(in.Rets)
	j0 := len(in.continues) + len(in.breaks)
	sa, ta := in.execBlock(sa, x.Body.List)
	in.guards = in.guards[:len(in.guards)-1]
	r1 := len(in.Rets)
	j1 := len(in.continues) + len(in.breaks)
	sb := st.clone()
	in.assume(sb, x.Cond, false)
	tb := false
	if x.Else != nil {
		in.guards = append(in.guards, negCond(c))
		sb, tb = in.exec(sb, x.Else)
		in.guards = in.guards[:len(in.guards)-1]
	}
	r2 := len(in.Rets)
	j2 := len(in.continues) + len(in.breaks)
	// an arm that ends in a successful return (not an error exit, not a break/continue) splits the
	// successful executions: what follows belongs to the other arm only
	okReturn := func(lo, hi int) bool {
		if hi <= lo {
			return false
		}
		for _, r := range in.Rets[lo:hi] {
			if r.IsErr {
				return false
			}
		}
		return true
	}
	in.contGuard = ""
	switch {
	case ta && tb:
		return sa, true
	case ta:
		// … and so does an arm that ends the iteration (continue / break) without returning
		if okReturn(r0, r1) || (r1 == r0 && j1 > j0) {
			in.contGuard = negCond(c)
		}
		return sb, false
	case tb:
		if okReturn(r1, r2) || (r2 == r1 && j2 > j1) {
			in.contGuard = c
		}
		return sa, false
	}
	return in.join(c, sa, sb), false
}

func (in *Interp) evalCondSites(st *State, e ast.Expr) {
	if be, ok := unparen(e).(*ast.BinaryExpr); ok && (be.Op == token.LAND || be.Op == token.LOR) {
		in.evalCondSites(st, be.X)
		in.underShortCircuit(st, be.X, be.Op == token.LAND, func() string { in.evalCondSites(st, be.Y); return "" })
		return
	}
	// evaluating the condition visits the index/slice sites inside it
	ast.Inspect(e, func(n ast.Node) bool {
		switch n.(type) {
		case *ast.IndexExpr, *ast.SliceExpr, *ast.CallExpr:
			if ex, ok := n.(ast.Expr); ok {
				in.eval(st, ex)
			}
			return false
		}
		return true
	})
}

// join merges two states after a two-armed branch on cond.
func (in *Interp) join(cond string, a, b *State) *State {
	n := newState()
	type pend struct {
		k    types.Object
		a, b BufV
	}
	var pending []pend
	for k, va := range a.vars {
		vb, ok := b.vars[k]
		if !ok {
			continue
		}
		if ba, ok := va.(BufV); ok {
			if bb, ok := vb.(BufV); ok && ba.ID != bb.ID {
				pending = append(pending, pend{k, ba, bb})
				continue
			}
		}
		n.vars[k] = joinVal(cond, va, vb)
	}
	for k, va := range a.fields {
		if vb, ok := b.fields[k]; ok {
			n.fields[k] = joinVal(cond, va, vb)
		} else {
			n.fields[k] = joinVal(cond, va, in.defaultField(b, k, va))
		}
	}
	for k, vb := range b.fields {
		if _, ok := a.fields[k]; !ok {
			n.fields[k] = joinVal(cond, in.defaultField(a, k, vb), vb)
		}
	}
	for id, ba := range a.bufs {
		bb, ok := b.bufs[id]
		if !ok {
			n.bufs[id] = ba
			continue
		}
		j := *ba
		j.Len = Ite(cond, ba.Len, bb.Len)
		j.Extent = Ite(cond, ba.Extent, bb.Extent)
		// records: common prefix, then the rest of each arm (guards are already on them)
		common := 0
		for common < len(ba.Recs) && common < len(bb.Recs) && ba.Recs[common] == bb.Recs[common] {
			common++
		}
		j.Recs = append([]*Rec(nil), ba.Recs[:common]...)
		j.Recs = append(j.Recs, ba.Recs[common:]...)
		j.Recs = append(j.Recs, bb.Recs[common:]...)
		if ba.Cursor == nil {
			j.Cursor = bb.Cursor
			j.CursorPath = bb.CursorPath
		}
		n.bufs[id] = &j
	}
	for id, bb := range b.bufs {
		if _, ok := a.bufs[id]; !ok {
			n.bufs[id] = bb
		}
	}
	// a variable bound to different buffers on the two arms gets a joined buffer
	for _, p := range pending {
		oa, ob := a.bufs[p.a.ID], b.bufs[p.b.ID]
		if oa == nil || ob == nil {
			n.vars[p.k] = UnkV{"joinbuf"}
			continue
		}
		la, lb := oa.Len.Sub(p.a.Off), ob.Len.Sub(p.b.Off)
		if p.a.Hi != nil {
			la = p.a.Hi.Sub(p.a.Off)
		}
		if p.b.Hi != nil {
			lb = p.b.Hi.Sub(p.b.Off)
		}
		j := &BufObj{Origin: oa.Origin, Src: oa.Src, SrcType: oa.SrcType, Len: Ite(cond, la, lb), Extent: Ite(cond, oa.Extent.Sub(p.a.Off), ob.Extent.Sub(p.b.Off)), Pos: oa.Pos}
		if oa.Origin != ob.Origin || oa.Src != ob.Src {
			j.Origin = "join"
			j.Src = ""
			if oa.Origin == "nil" {
				j.Origin, j.Src, j.SrcType = ob.Origin, ob.Src, ob.SrcType
			} else if ob.Origin == "nil" {
				j.Origin, j.Src, j.SrcType = oa.Origin, oa.Src, oa.SrcType
			}
		}
		common := 0
		for common < len(oa.Recs) && common < len(ob.Recs) && oa.Recs[common] == ob.Recs[common] {
			common++
		}
		for i, r := range oa.Recs {
			nr := *r
			nr.Off = r.Off.Sub(p.a.Off)
			if i >= common {
				nr.Guard = andGuard(nr.Guard, "")
			}
			j.Recs = append(j.Recs, &nr)
		}
		for _, r := range ob.Recs[common:] {
			nr := *r
			nr.Off = r.Off.Sub(p.b.Off)
			j.Recs = append(j.Recs, &nr)
		}
		if oa.Origin == "enc" && len(oa.Recs) == 0 {
			j.Recs = append(j.Recs, &Rec{Off: Const(0), W: la, Kind: "child", Src: "enc(" + oa.Src + ")", Guard: cond, Pos: oa.Pos})
		}
		if ob.Origin == "enc" && len(ob.Recs) == 0 {
			j.Recs = append(j.Recs, &Rec{Off: Const(0), W: lb, Kind: "child", Src: "enc(" + ob.Src + ")", Guard: negCond(cond), Pos: ob.Pos})
		}
		in.shared.nextBuf++
		id := in.shared.nextBuf
		n.bufs[id] = j
		n.vars[p.k] = BufV{ID: id, Off: Const(0)}
	}
	// paths filled by a child decoder on either arm stay unknown (never zero)
	seenD := map[string]bool{}
	for _, d := range append(append([]string(nil), a.decoded...), b.decoded...) {
		if !seenD[d] {
			seenD[d] = true
			n.decoded = append(n.decoded, d)
		}
	}
	if a.ensures != nil && b.ensures != nil {
		for k, v := range a.ensures {
			if _, ok := b.ensures[k]; ok {
				if n.ensures == nil {
					n.ensures = map[string][]Fact{}
				}
				n.ensures[k] = v
			}
		}
	}
	// facts: those present on both arms stay; those of one arm become conditional
	// on the branch (used by the prover's case split on ite(cond ? … : …) values)
	inList := func(f Fact, l []Fact) bool {
		for _, g := range l {
			if f.equal(g) {
				return true
			}
		}
		return false
	}
	for _, f := range a.facts {
		if inList(f, b.facts) {
			n.facts = append(n.facts, f)
		} else if f.Cond == "" && cond != "" {
			f.Cond = cond
			n.facts = append(n.facts, f)
		}
	}
	for _, g := range b.facts {
		if !inList(g, a.facts) && g.Cond == "" && cond != "" {
			g.Cond = negCond(cond)
			n.facts = append(n.facts, g)
		}
	}
	return n
}

// defaultField gives the value a path has in a state that never stored to it.
func (in *Interp) defaultField(st *State, path string, like Val) Val {
	switch like.(type) {
	case IntV:
		if in.isZeroPath(st, path) {
			return IntV{Const(0)}
		}
		if strings.HasPrefix(path, "global:") {
			return IntV{ValOf(path)}
		}
		return IntV{ValOf(path)}
	case BoolV:
		if in.isZeroPath(st, path) {
			return BoolV{"false"}
		}
		return BoolV{path}
	}
	if in.isZeroPath(st, path) {
		return NilV{}
	}
	return UnkV{path}
}

func joinVal(cond string, a, b Val) Val {
	switch av := a.(type) {
	case ClosV:
		if bv, ok := b.(ClosV); ok && av.Lit == bv.Lit {
			return av
		}
	case IntV:
		if bv, ok := b.(IntV); ok {
			return IntV{Ite(cond, av.T, bv.T)}
		}
	case BoolV:
		if bv, ok := b.(BoolV); ok {
			if av.Cond == bv.Cond {
				return av
			}
			// the common idiom  if c {x = true} else {x = false}
			if av.Cond == "true" && bv.Cond == "false" {
				return BoolV{cond}
			}
			if av.Cond == "false" && bv.Cond == "true" {
				return BoolV{negCond(cond)}
			}
			and := func(x, y string) string { return negCond(orCond(negCond(x), negCond(y))) }
			switch {
			case av.Cond == "false":
				return BoolV{and(negCond(cond), bv.Cond)}
			case av.Cond == "true":
				return BoolV{orCond(cond, bv.Cond)}
			case bv.Cond == "false":
				return BoolV{and(cond, av.Cond)}
			case bv.Cond == "true":
				return BoolV{orCond(negCond(cond), av.Cond)}
			}
			return BoolV{"ite(" + cond + "," + av.Cond + "," + bv.Cond + ")"}
		}
	case BufV:
		if bv, ok := b.(BufV); ok && av.ID == bv.ID {
			return BufV{ID: av.ID, Off: Ite(cond, av.Off, bv.Off), Hi: av.Hi}
		}
		if bv, ok := b.(BufV); ok {
			return JoinBufV{cond, av, bv}
		}
	case ObjV:
		if bv, ok := b.(ObjV); ok && av.Path == bv.Path {
			return av
		}
		if _, ok := b.(NilV); ok {
			return MaybeV{cond, av}
		}
		if bv, ok := b.(ObjV); ok && av.Type != nil && bv.Type != nil {
			return AltV{Alts: []ObjV{av, bv}}
		}
		if bv, ok := b.(AltV); ok {
			return bv.with(av)
		}
		if bv, ok := b.(MaybeV); ok {
			return AltV{Alts: []ObjV{av, bv.V}, MayNil: true}
		}
	case AltV:
		switch bv := b.(type) {
		case ObjV:
			return av.with(bv)
		case NilV:
			return AltV{Alts: av.Alts, MayNil: true}
		case MaybeV:
			r := av.with(bv.V)
			r.MayNil = true
			return r
		case AltV:
			r := av
			for _, o := range bv.Alts {
				r = r.with(o)
			}
			r.MayNil = av.MayNil || bv.MayNil
			return r
		}
	case MaybeV:
		switch bv := b.(type) {
		case ObjV:
			return AltV{Alts: []ObjV{av.V, bv}, MayNil: true}
		case AltV:
			r := bv.with(av.V)
			r.MayNil = true
			return r
		case NilV:
			return av
		case MaybeV:
			if av.V.Path == bv.V.Path {
				return av
			}
			return AltV{Alts: []ObjV{av.V, bv.V}, MayNil: true}
		}
	case NilV:
		if _, ok := b.(NilV); ok {
			return av
		}
		if bv, ok := b.(ObjV); ok {
			return MaybeV{negCond(cond), bv}
		}
		if bv, ok := b.(AltV); ok {
			return AltV{Alts: bv.Alts, MayNil: true}
		}
		if bv, ok := b.(MaybeV); ok {
			return bv
		}
	case SliceV:
		if bv, ok := b.(SliceV); ok && av.Path == bv.Path && len(av.Elems) == len(bv.Elems) {
			return av
		}
	case UnkV:
		return av
	}
	return UnkV{"join(" + a.valString() + "," + b.valString() + ")"}
}

// MaybeV is an object that is non-nil exactly under Cond.
type MaybeV struct {
	Cond string
	V    ObjV
}

func (m MaybeV) valString() string { return "maybe(" + m.Cond + ":" + m.V.Path + ")" }

// AltV is one of several objects (a dispatcher's result after the join of its
// cases), possibly nil.
type AltV struct {
	Alts   []ObjV
	MayNil bool
}

func (a AltV) valString() string {
	var ps []string
	for _, o := range a.Alts {
		ps = append(ps, o.Path)
	}
	s := "oneof(" + strings.Join(ps, "|") + ")"
	if a.MayNil {
		s += "?"
	}
	return s
}

func (a AltV) with(o ObjV) AltV {
	for _, x := range a.Alts {
		if x.Path == o.Path {
			return a
		}
	}
	return AltV{Alts: append(append([]ObjV(nil), a.Alts...), o), MayNil: a.MayNil}
}

// kinds lists the concrete kinds of the alternatives ("" when one is unknown).
func (a AltV) kinds(w *World) []string {
	var ks []string
	for _, o := range a.Alts {
		k := w.KindOfType(o.Type)
		if k == nil {
			return nil
		}
		ks = append(ks, k.Name)
	}
	sort.Strings(ks)
	return ks
}

// JoinBufV is one of two buffers depending on a branch.
type JoinBufV struct {
	Cond string
	A, B BufV
}

func (JoinBufV) valString() string { return "joinbuf" }

func (in *Interp) execSwitch(st *State, x *ast.SwitchStmt) (*State, bool) {
	if x.Init != nil {
		st, _ = in.exec(st, x.Init)
	}
	tag := ""
	if x.Tag != nil {
		in.pendingRead = nil
		in.eval(st, x.Tag)
		tag = in.operand(st, x.Tag)
	}
	in.Switches = append(in.Switches, &SwitchRec{Stmt: x, Tag: tag, Pos: x.Pos(), Guard: in.guard()})
	var outs []*State
	var outConds []string
	allTerm := true
	hasDefault := false
	var prior []string
	var priorExprs []ast.Expr // case expressions of the clauses above (none of them matched)
	saveBreaks := in.breaks
	in.breaks = nil
	for ci, cc0 := range x.Body.List {
		cc := cc0.(*ast.CaseClause)
		var c string
		if cc.List == nil {
			hasDefault = true
			c = "default(" + strings.Join(prior, "|") + ")"
		} else {
			var alts []string
			for _, e := range cc.List {
				if x.Tag != nil {
					alts = append(alts, eqCond(tag, in.operand(st, e)))
				} else {
					alts = append(alts, in.cond(st, e))
				}
			}
			c = alts[0]
			for _, a := range alts[1:] {
				c = orCond(c, a)
			}
			prior = append(prior, alts...)
		}
		sc := st.clone()
		// what taking this clause says about the tag: it equals the (single) case value, and none of the
		// values of the clauses above; for a tag-less switch the clause's condition holds and those above do not
		small := len(x.Body.List) <= 8 // (a dispatcher with a hundred cases says nothing useful about lengths)
		for _, pe := range priorExprs {
			if !small {
				break
			}
			if x.Tag != nil {
				in.assume(sc, &ast.BinaryExpr{X: x.Tag, Op: token.NEQ, Y: pe}, true)
			} else {
				in.assume(sc, pe, false)
			}
		}
		if len(cc.List) == 1 && small {
			if x.Tag != nil {
				in.assume(sc, &ast.BinaryExpr{X: x.Tag, Op: token.EQL, Y: cc.List[0]}, true)
			} else {
				in.assume(sc, cc.List[0], true)
			}
		}
		priorExprs = append(priorExprs, cc.List...)
		in.guards = append(in.guards, c)
		in.fellThrough = false
		body := cc.Body
		// fallthrough chains: append the following clause bodies
		for j := ci; len(body) > 0; j++ {
			last, ok := body[len(body)-1].(*ast.BranchStmt)
			if !ok || last.Tok != token.FALLTHROUGH || j+1 >= len(x.Body.List) {
				break
			}
			next := x.Body.List[j+1].(*ast.CaseClause)
			body = append(append([]ast.Stmt(nil), body[:len(body)-1]...), next.Body...)
		}
		sc, term := in.execBlock(sc, body)
		in.guards = in.guards[:len(in.guards)-1]
		if !term {
			allTerm = false
			outs = append(outs, sc)
			outConds = append(outConds, c)
		}
	}
	// unlabeled breaks inside the switch leave the switch
	var keepBreaks []*brk
	for _, b := range in.breaks {
		if b.label == "" {
			allTerm = false
			outs = append(outs, b.st)
			outConds = append(outConds, b.guard)
		} else {
			keepBreaks = append(keepBreaks, b)
		}
	}
	in.breaks = append(saveBreaks, keepBreaks...)
	if !hasDefault {
		allTerm = false
		outs = append(outs, st)
		outConds = append(outConds, "nocase("+strings.Join(prior, "|")+")")
	}
	if allTerm || len(outs) == 0 {
		return st, true
	}
	res := outs[len(outs)-1]
	for i := len(outs) - 2; i >= 0; i-- {
		res = in.join(outConds[i], outs[i], res)
	}
	return res, false
}

type SwitchRec struct {
	Stmt  *ast.SwitchStmt
	Tag   string
	Pos   token.Pos
	Guard string
}

// intVarsAssigned lists local integer variables and buffers assigned in n.
func (in *Interp) assignedIn(n ast.Node) (ints map[types.Object]bool, others map[types.Object]bool) {
	ints, others = map[types.Object]bool{}, map[types.Object]bool{}
	mark := func(e ast.Expr) {
		if id, ok := unparen(e).(*ast.Ident); ok {
			if o := in.obj(id); o != nil {
				if isIntType(o.Type()) {
					ints[o] = true
				} else {
					others[o] = true
				}
			}
		}
	}
	seenLit := map[*ast.FuncLit]bool{}
	var walk func(n ast.Node)
	walk = func(n ast.Node) {
		ast.Inspect(n, func(nd ast.Node) bool {
			switch x := nd.(type) {
			case *ast.FuncLit:
				return false
			case *ast.AssignStmt:
				for _, l := range x.Lhs {
					mark(l)
				}
			case *ast.IncDecStmt:
				mark(x.X)
			case *ast.RangeStmt:
				if x.Key != nil {
					mark(x.Key)
				}
				if x.Value != nil {
					mark(x.Value)
				}
			case *ast.UnaryExpr:
				if x.Op == token.AND {
					mark(x.X) // &v handed to a helper: it may assign v
				}
			case *ast.CallExpr:
				// a call of a local closure assigns what the closure's body assigns
				if id, ok := unparen(x.Fun).(*ast.Ident); ok {
					if lit := in.closureLit(in.obj(id)); lit != nil && !seenLit[lit] {
						seenLit[lit] = true
						walk(lit.Body)
					}
				}
			}
			return true
		})
	}
	walk(n)
	return
}

// closureLit: the function literal a local variable of the current function is defined as, if it is
// defined exactly once by `v := func…` or `var v = func…`.
func (in *Interp) closureLit(o types.Object) *ast.FuncLit {
	if o == nil || in.fi == nil || in.fi.Decl == nil || in.fi.Decl.Body == nil {
		return nil
	}
	if in.closLits == nil {
		in.closLits = map[types.Object]*ast.FuncLit{}
		count := map[types.Object]int{}
		ast.Inspect(in.fi.Decl.Body, func(nd ast.Node) bool {
			switch x := nd.(type) {
			case *ast.AssignStmt:
				if len(x.Lhs) == len(x.Rhs) {
					for i, l := range x.Lhs {
						if id, ok := unparen(l).(*ast.Ident); ok {
							if lo := in.info.ObjectOf(id); lo != nil {
								count[lo]++
								if fl, ok := unparen(x.Rhs[i]).(*ast.FuncLit); ok {
									in.closLits[lo] = fl
								}
							}
						}
					}
				}
			case *ast.ValueSpec:
				for i, nm := range x.Names {
					if lo := in.info.ObjectOf(nm); lo != nil && i < len(x.Values) {
						count[lo]++
						if fl, ok := unparen(x.Values[i]).(*ast.FuncLit); ok {
							in.closLits[lo] = fl
						}
					}
				}
			}
			return true
		})
		for lo, c := range count {
			if c != 1 {
				delete(in.closLits, lo)
			}
		}
	}
	return in.closLits[o]
}

// fieldsAssignedIn lists receiver field selector expressions assigned in n.
func (in *Interp) fieldStoresIn(st *State, n ast.Node) []string {
	var out []string
	ast.Inspect(n, func(nd ast.Node) bool {
		if as, ok := nd.(*ast.AssignStmt); ok {
			for _, l := range as.Lhs {
				if se, ok := unparen(l).(*ast.SelectorExpr); ok {
					if p, _, ok := in.selPath(st, se); ok {
						out = append(out, p)
					}
				}
			}
		}
		return true
	})
	return out
}

func (in *Interp) execRange(st *State, x *ast.RangeStmt) (*State, bool) {
	in.pendingRead = nil
	lv := in.eval(st, x.X)
	// a short literal table of pointers (the fields of the receiver in wire order): run the body once per
	// entry, as the unrolled statements would
	if sv, ok := lv.(SliceV); ok && sv.Path == "" && sv.Base == "" && len(sv.Elems) > 0 && len(sv.Elems) <= 64 {
		allPtr := true
		for _, e := range sv.Elems {
			switch e.(type) {
			case PtrV, IntV:
				// pointers to fields, or the fields' values themselves ([8]uint32{p.Config, p.State, …})
			default:
				allPtr = false
			}
		}
		if allPtr {
			saveB, saveC := in.breaks, in.continues
			in.breaks, in.continues = nil, nil
			cur := st
			for i, e := range sv.Elems {
				if id, ok := x.Value.(*ast.Ident); ok && id.Name != "_" {
					cur.vars[in.obj(id)] = e
				}
				if x.Key != nil {
					if id, ok := x.Key.(*ast.Ident); ok && id.Name != "_" {
						cur.vars[in.obj(id)] = IntV{Const(int64(i))}
					}
				}
				var term bool
				cur, term = in.execBlock(cur, x.Body.List)
				if term || len(in.breaks) > 0 || len(in.continues) > 0 {
					in.note(x.Pos(), "range over a pointer table left early: not summarised")
					break
				}
			}
			in.breaks, in.continues = saveB, saveC
			return cur, false
		}
	}
	listPath := ""
	var listLen *Term
	var elems []Val
	switch l := lv.(type) {
	case SliceV:
		listPath, listLen, elems = l.Path, l.Len, l.Elems
		if l.Base != "" {
			listPath = ""
		}
	case BufV:
		if b := st.bufs[l.ID]; b != nil && (b.Origin == "field" || b.Origin == "arg") {
			listPath = b.Src
		}
		listLen = in.viewLen(st, l)
	case ObjV:
		listPath = l.Path
	case NilV:
		return st, false
	}
	if listPath == "" && len(elems) == 0 {
		listPath = "range:" + in.render(st, x.X)
	}
	if listLen == nil {
		listLen = LenOf(listPath)
	}
	in.shared.nextLoop++
	lc := &LoopCtx{List: listPath, ID: in.shared.nextLoop}
	lr := &LoopRec{Kind: "range", Pos: x.Pos(), Fn: in.fi.Key, Bounded: "range over " + listPath}
	in.addLoop(lr)

	ints, others := in.assignedIn(x.Body)
	before := st.clone()
	body := st.clone()
	// loop-carried integer state becomes symbolic at the loop head
	syms := map[types.Object]*Term{}
	for o := range ints {
		if cv, ok := body.vars[o].(IntV); ok {
			_ = cv
			s := in.freshSym("loop:" + o.Name())
			syms[o] = s
			body.vars[o] = IntV{s}
		}
	}
	// integer fields of local objects the body mentions (a cursor struct: w.n) are loop-carried too
	fsyms := map[string]*Term{}
	for _, path := range in.localObjIntFields(body, x.Body) {
		s := in.freshSym("loop:" + path)
		fsyms[path] = s
		body.fields[path] = IntV{s}
	}
	bufSyms := map[int]*Term{}
	bufExt := map[int]*Term{}
	for id, b := range body.bufs {
		if b.Origin == "append" || b.Origin == "nil" || b.Origin == "make" || b.Origin == "enc" {
			_ = id
		}
	}
	// buffers referenced by reassigned byte-slice locals grow in the loop
	for o := range others {
		if bv, ok := body.vars[o].(BufV); ok {
			if b := body.bufs[bv.ID]; b != nil && (b.Origin == "append" || b.Origin == "nil" || b.Origin == "make" && b.Cursor == nil) {
				s := in.freshSym("looplen:" + o.Name())
				bufSyms[bv.ID] = s
				bufExt[bv.ID] = b.Extent
				nb := b.clone()
				nb.Len = s
				nb.Extent = s
				body.bufs[bv.ID] = nb
			}
		}
	}
	// write streams (a local bytes.Buffer) are updated in place: their length is loop-carried as well
	streamSyms := map[int]*Term{}
	for id, b := range body.bufs {
		if b.Origin == "stream" {
			s := in.freshSym(fmt.Sprintf("looplen:stream#%d", id))
			streamSyms[id] = s
			bufSyms[id] = s
			nb := b.clone()
			nb.Len = s
			nb.Extent = s
			body.bufs[id] = nb
		}
	}
	// element binding
	elemPath := listPath + "[*]"
	if x.Value != nil {
		if id, ok := x.Value.(*ast.Ident); ok && id.Name != "_" {
			o := in.obj(id)
			et := o.Type()
			if isIntType(et) {
				body.vars[o] = IntV{ValOf(elemPath)}
			} else {
				body.vars[o] = in.readPath(body, elemPath, et)
			}
		}
	}
	if x.Key != nil {
		if id, ok := x.Key.(*ast.Ident); ok && id.Name != "_" {
			o := in.obj(id)
			if isIntType(o.Type()) {
				body.vars[o] = IntV{Opq("idx:" + listPath)}
			} else {
				body.vars[o] = UnkV{"key"}
			}
		}
	}
	in.loops = append(in.loops, lc)
	saveB, saveC := in.breaks, in.continues
	in.breaks, in.continues = nil, nil
	nrets := len(in.Rets)
	nstores := len(in.Stores)
	nGuardsAtEntry := len(in.guards)
	after, term := in.execBlock(body, x.Body.List)
	hadBreak := len(in.breaks) > 0
	// an iteration that ends early by `continue` leaves the state it had there: the state at the end of an
	// iteration is the join of the fall-through state and the states at the continue statements
	for _, c := range in.continues {
		rel := "true"
		if len(c.conds) > nGuardsAtEntry {
			rel = strings.Join(c.conds[nGuardsAtEntry:], " && ")
		}
		if term {
			after, term = c.st, false
		} else {
			after = in.join(rel, c.st, after)
		}
	}
	in.breaks, in.continues = saveB, saveC
	in.loops = in.loops[:len(in.loops)-1]
	// returns inside a range loop must be error exits
	for _, r := range in.Rets[nrets:] {
		if !r.IsErr {
			in.note(r.Pos, "non-error return inside range loop")
		}
	}
	for _, s := range in.Stores[nstores:] {
		s.Loop = true
	}
	if hadBreak {
		in.note(x.Pos(), "break inside range loop: summary assumes full iteration")
	}
	res := before
	if term {
		// body always leaves the loop: at most one iteration; treat as undecided
		in.note(x.Pos(), "range loop body always terminates")
		return res, false
	}
	// concrete element list (constructors): unroll symbolically over Elems
	for o, s := range syms {
		av, ok := after.vars[o].(IntV)
		if !ok {
			res.vars[o] = UnkV{o.Name()}
			continue
		}
		d := av.T.Sub(s)
		if d.HasAtom(func(a *Atom) bool { return a.Kind == "opq" && strings.HasPrefix(a.Path, "loop:") }) {
			in.note(x.Pos(), "loop-carried variable %s changes non-additively", o.Name())
			res.vars[o] = IntV{Opq("after-loop:" + o.Name())}
			continue
		}
		bv := before.vars[o].(IntV)
		res.vars[o] = IntV{bv.T.Add(in.sumOver(listPath, listLen, elems, d, elemPath))}
		if lc.Step == nil && !d.IsZero() {
			lc.Step = d
		}
	}
	for path, s := range fsyms {
		bv := before.fields[path].(IntV)
		av, ok := after.fields[path].(IntV)
		if !ok {
			res.fields[path] = UnkV{"after-loop:" + path}
			continue
		}
		d := av.T.Sub(s)
		if d.HasAtom(func(a *Atom) bool { return a.Kind == "opq" && strings.HasPrefix(a.Path, "loop:") }) {
			in.note(x.Pos(), "loop-carried field %s changes non-additively", path)
			res.fields[path] = IntV{Opq("after-loop:" + path)}
			continue
		}
		res.fields[path] = IntV{bv.T.Add(in.sumOver(listPath, listLen, elems, d, elemPath))}
		if lc.Step == nil && !d.IsZero() {
			lc.Step = d
		}
	}
	for id, s := range bufSyms {
		ab := after.bufs[id]
		if ab == nil {
			continue
		}
		// the variable may now point to a different (appended) buffer
		for o := range others {
			if nv, ok := after.vars[o].(BufV); ok {
				if ov, ok := before.vars[o].(BufV); ok && ov.ID == id && nv.ID != id {
					ab = after.bufs[nv.ID]
					d := ab.Len.Sub(s)
					bb := before.bufs[id]
					total := in.sumOver(listPath, listLen, elems, d, elemPath)
					nb := ab.clone()
					nb.Len = bb.Len.Add(total)
					nb.Extent = nb.Len
					// records created in the loop: re-base offsets from the symbol to the pre-loop length
					nb.Recs = nil
					for _, r := range ab.Recs {
						nr := *r
						nr.Off = substSym(r.Off, s, bb.Len)
						if nr.Loop == lc {
							nr.Loop = &LoopCtx{List: listPath, Step: d, ID: lc.ID}
						}
						nb.Recs = append(nb.Recs, &nr)
					}
					res.bufs[nv.ID] = nb
					res.vars[o] = BufV{ID: nv.ID, Off: Const(0)}
				}
			}
		}
	}
	for id, s := range streamSyms {
		ab, bb := after.bufs[id], before.bufs[id]
		if ab == nil || bb == nil {
			continue
		}
		d := ab.Len.Sub(s)
		if d.IsZero() && len(ab.Recs) == len(bb.Recs) {
			continue
		}
		if d.HasAtom(func(a *Atom) bool { return a.Kind == "opq" && strings.HasPrefix(a.Path, "looplen:") }) {
			in.note(x.Pos(), "stream grows non-additively in the loop")
		}
		total := in.sumOver(listPath, listLen, elems, d, elemPath)
		nb := bb.clone()
		nb.Len = bb.Len.Add(total)
		nb.Extent = nb.Len
		for _, r := range ab.Recs[len(bb.Recs):] {
			nr := *r
			nr.Off = substSym(r.Off, s, bb.Len)
			if nr.Loop == lc || nr.Loop == nil {
				nr.Loop = &LoopCtx{List: listPath, Step: d, ID: lc.ID}
			}
			nb.Recs = append(nb.Recs, &nr)
		}
		res.bufs[id] = nb
	}
	// cursor-based buffers: records written in the loop carry the loop context
	for id, ab := range after.bufs {
		if _, ok := bufSyms[id]; ok {
			continue
		}
		rb := res.bufs[id]
		if rb == nil {
			continue
		}
		if len(ab.Recs) > len(rb.Recs) {
			idxKey := Opq("idx:" + listPath).SingleAtom().Key()
			for _, r := range ab.Recs[len(rb.Recs):] {
				nr := *r
				for o, s := range syms {
					if bv, ok := before.vars[o].(IntV); ok {
						nr.Off = substSym(nr.Off, s, bv.T)
					}
				}
				for path, s := range fsyms {
					if bv, ok := before.fields[path].(IntV); ok {
						nr.Off = substSym(nr.Off, s, bv.T)
					}
				}
				step := lc.Step
				// an offset that is linear in the loop index (data[n+2*i:]) is a cursor that starts at the
				// index-free part and advances by the coefficient
				if k, ok := nr.Off.K[idxKey]; ok && k > 0 && nr.Loop == lc {
					nr.Off = nr.Off.AddScaled(FromAtom(nr.Off.Atoms[idxKey]), -k)
					if step == nil {
						step = Const(k)
					}
					// canonical form of a list record's offset (as for cursor loops): start plus the elements of the list
					nr.Off = nr.Off.Add(in.sumOver(listPath, listLen, elems, Const(k), elemPath))
				}
				if nr.Loop == lc && step != nil {
					nr.Loop = &LoopCtx{List: listPath, Step: step, ID: lc.ID}
				}
				rb.Recs = append(rb.Recs, &nr)
			}
			rb.Cursor = ab.Cursor
			if ab.CursorPath != "" {
				rb.CursorPath = ab.CursorPath
			}
			// the extent reached by index-addressed writes: the last index is len(list)-1
			if ab.Extent != nil {
				if k, ok := ab.Extent.K[idxKey]; ok && k > 0 && listLen != nil {
					e := ab.Extent.AddScaled(FromAtom(ab.Extent.Atoms[idxKey]), -k).Add(listLen.AddC(-1).Scale(k))
					if rb.Extent == nil || !e.Sub(rb.Extent).NonPos() {
						rb.Extent = e
					}
				}
			}
		}
	}
	// other locals assigned in the body (flags, objects) are unknown after the loop
	for o := range others {
		if _, isBuf := res.vars[o].(BufV); isBuf {
			continue
		}
		if _, ok := res.vars[o]; ok {
			if isBoolType(o.Type()) {
				res.vars[o] = BoolV{"loopvar:" + o.Name()}
			} else {
				res.vars[o] = UnkV{"after-loop:" + o.Name()}
			}
		}
	}
	// fields strongly updated in the loop body
	for k, v := range after.fields {
		if _, done := fsyms[k]; done {
			continue
		}
		if bv, ok := before.fields[k]; !ok || bv.valString() != v.valString() {
			res.fields[k] = in.loopField(before, k, v, syms, listPath, listLen, elems, elemPath)
		}
	}
	in.syncCursors(res)
	return res, false
}

// localObjIntFields: the integer-valued fields, currently known in st, of the local objects (new#k) that
// the variables mentioned in node n hold.
func (in *Interp) localObjIntFields(st *State, n ast.Node) []string {
	objs := map[string]bool{}
	ast.Inspect(n, func(nd ast.Node) bool {
		if id, ok := nd.(*ast.Ident); ok {
			if ov, ok := st.vars[in.obj(id)].(ObjV); ok && isLocalObj(ov.Path) {
				objs[ov.Path] = true
			}
		}
		return true
	})
	var out []string
	for p, v := range st.fields {
		if _, isInt := v.(IntV); !isInt {
			continue
		}
		i := strings.Index(p, ".")
		if i < 0 || !objs[p[:i]] || strings.Contains(p[i+1:], ".") {
			continue
		}
		out = append(out, p)
	}
	sort.Strings(out)
	return out
}

// loopField summarises a field updated in a range loop: additive integer
// updates become sums; list appends become concatenations.
func (in *Interp) loopField(before *State, path string, after Val, syms map[types.Object]*Term, listPath string, listLen *Term, elems []Val, elemPath string) Val {
	switch av := after.(type) {
	case IntV:
		var base *Term
		if bv, ok := before.fields[path].(IntV); ok {
			base = bv.T
		} else if in.isZeroPath(before, path) {
			base = Const(0)
		} else {
			base = ValOf(path)
		}
		d := av.T.Sub(base)
		if d.HasAtom(func(a *Atom) bool { return (a.Kind == "val" || a.Kind == "len") && a.Path == path }) {
			return UnkV{"loop-carried " + path}
		}
		return IntV{base.Add(in.sumOver(listPath, listLen, elems, d, elemPath))}
	case SliceV:
		// p = append(p, elem) per iteration  ==>  p ++ list
		n := len(av.Elems)
		var bs SliceV
		if b, ok := before.fields[path].(SliceV); ok {
			bs = b
		} else if in.isZeroPath(before, path) {
			bs = SliceV{Len: Const(0)}
		} else {
			bs = SliceV{Path: path, Len: LenOf(path)}
		}
		if n == len(bs.Elems)+1 {
			if ov, ok := av.Elems[n-1].(ObjV); ok && ov.Path == elemPath {
				out := SliceV{Path: bs.Path, Base: bs.Base, Len: nil}
				if bs.Path != "" && bs.Base == "" {
					out.Base = bs.Path
				}
				out.Elems = append(out.Elems, bs.Elems...)
				out.Elems = append(out.Elems, SpreadV{SliceV{Path: listPath, Len: listLen, Elems: elems}})
				if bs.Len != nil && listLen != nil {
					out.Len = bs.Len.Add(listLen)
				}
				return out
			}
		}
	}
	return UnkV{"loop-updated " + path}
}

// sumOver builds Σ over the ranged list of the per-iteration delta d.
func (in *Interp) sumOver(listPath string, listLen *Term, elems []Val, d *Term, elemPath string) *Term {
	if len(elems) > 0 && listPath == "" {
		// a literal/variadic list of known elements: instantiate per element
		total := Const(0)
		for _, e := range elems {
			switch ev := e.(type) {
			case ObjV:
				total = total.Add(d.Reroot2(elemPath, ev.Path))
			case SpreadV:
				total = total.Add(Sum(ev.S.Path, d.Reroot2(elemPath, ev.S.Path+"[*]")))
			default:
				total = total.Add(Opq("Σ?"))
			}
		}
		return total
	}
	if d.IsConst() && listLen != nil {
		return listLen.Scale(d.C)
	}
	return Sum(listPath, d)
}

// Reroot2 replaces path prefix from by to in all atoms.
func (t *Term) Reroot2(from, to string) *Term {
	if from == to {
		return t
	}
	var rr func(t *Term) *Term
	rr = func(t *Term) *Term {
		n := Const(t.C)
		for _, k := range t.keys() {
			a := t.Atoms[k]
			na := &Atom{Kind: a.Kind, Path: strings.ReplaceAll(a.Path, from, to), Typ: a.Typ, Cond: strings.ReplaceAll(a.Cond, from, to)}
			for _, s := range a.Sub {
				na.Sub = append(na.Sub, rr(s))
			}
			n = n.AddScaled(FromAtom(na), t.K[k])
		}
		return n
	}
	return rr(t)
}

// substSym replaces a symbolic loop-head atom by a term.
func substSym(t, sym, by *Term) *Term {
	sa := sym.SingleAtom()
	if sa == nil || t == nil {
		return t
	}
	return t.Map(func(a *Atom) *Term {
		if a.Kind == sa.Kind && a.Path == sa.Path {
			return by
		}
		return nil
	})
}

func (in *Interp) addLoop(lr *LoopRec) {
	for i := in; i != nil; i = i.parent {
		if i.parent == nil {
			i.LoopsSeen = append(i.LoopsSeen, lr)
			return
		}
	}
}

// execFor handles general for loops. For the size/record summaries they are
// outside the language (noted); for the bounds and progress rules the body is
// interpreted once from a havocked state.
func (in *Interp) execFor(st *State, x *ast.ForStmt, label string) (*State, bool) {
	if rs := in.countedRange(x); rs != nil {
		return in.execRange(st, rs)
	}
	if x.Init != nil {
		st, _ = in.exec(st, x.Init)
	}
	lr := &LoopRec{Kind: "for", Pos: x.Pos(), Fn: in.fi.Key}
	if x.Cond != nil {
		lr.Cond = in.cond(st, x.Cond)
		lr.CondE = x.Cond
	}
	in.addLoop(lr)
	in.shared.nextLoop++
	lc := &LoopCtx{List: "for@" + in.w.Pos(x.Pos()), ID: in.shared.nextLoop}

	ints, others := in.assignedIn(x)
	// integer fields of local objects the loop mentions (a cursor struct's offset, r.n) take part as
	// loop-carried variables: each is lifted into a synthetic variable for the duration of the loop
	lifted := map[types.Object]string{}
	for _, path := range in.localObjIntFields(st, x) {
		fv := in.synthFieldVar(path, st.fields[path])
		lifted[fv] = path
		st.vars[fv] = st.fields[path]
		ints[fv] = true
	}
	// a byte-slice variable that the loop re-slices (rest = rest[n:]) walks the input by its view offset:
	// the offset takes part as a loop-carried variable too
	liftedBuf := map[types.Object]types.Object{} // synthetic offset variable → the slice variable
	for o := range others {
		if bv, ok := st.vars[o].(BufV); ok && bv.Off != nil {
			if b := st.bufs[bv.ID]; b != nil && b.Origin == "param" {
				fv := in.synthFieldVar("view:"+o.Name()+fmt.Sprint(o.Pos()), nil)
				liftedBuf[fv] = o
				st.vars[fv] = IntV{bv.Off}
				ints[fv] = true
			}
		}
	}
	savedLift := in.liftedPaths
	in.liftedPaths = map[string]types.Object{}
	for fv, p := range lifted {
		in.liftedPaths[p] = fv
	}
	defer func() { in.liftedPaths = savedLift }()
	lift := func(s *State) {
		if s == nil {
			return
		}
		for fv, p := range lifted {
			if v, ok := s.fields[p]; ok {
				s.vars[fv] = v
			}
		}
		for fv, o := range liftedBuf {
			if bv, ok := s.vars[o].(BufV); ok && bv.Off != nil {
				s.vars[fv] = IntV{bv.Off}
			} else {
				delete(s.vars, fv)
			}
		}
	}
	body := st.clone()
	syms := map[types.Object]*Term{}
	for o := range ints {
		if _, ok := body.vars[o].(IntV); ok {
			s := in.freshSym("loop:" + o.Name())
			syms[o] = s
			body.vars[o] = IntV{s}
			if p, isField := lifted[o]; isField {
				body.fields[p] = IntV{s}
			}
			if bo, isView := liftedBuf[o]; isView {
				if bv, ok := body.vars[bo].(BufV); ok {
					body.vars[bo] = BufV{ID: bv.ID, Off: s, Hi: bv.Hi}
				}
			}
			// a loop-carried cursor keeps the lower bound it had on entry if it only grows;
			// recorded as a fact after the body is known (see below)
		}
	}
	for o := range others {
		switch v := body.vars[o].(type) {
		case BufV:
			if b := body.bufs[v.ID]; b != nil && b.Origin != "param" {
				nb := b.clone()
				nb.Len = in.freshSym("looplen:" + o.Name())
				nb.Extent = nb.Len
				body.bufs[v.ID] = nb
			}
		case BoolV:
			body.vars[o] = BoolV{"loopvar:" + o.Name()}
		case IntV:
		default:
			_ = v
		}
	}
	// receiver fields stored in the loop are havocked at the head
	for _, p := range in.fieldStoresIn(st, x.Body) {
		if v, ok := body.fields[p]; ok {
			switch v.(type) {
			case IntV:
				body.fields[p] = IntV{in.freshSym("loopfield:" + p)}
			default:
				delete(body.fields, p)
			}
		}
	}
	// loop-head hypotheses about the cursors (simultaneous induction): each is
	// assumed at the head, must hold on entry, and must be re-established on every
	// back edge; a hypothesis that fails is put on the bad list and ignored by the
	// prover wherever a copy of it travelled.
	type hyp struct {
		o    types.Object
		kind string // mono: entry <= cursor   le: cursor <= len(P)
		tag  string
		fact Fact
	}
	var hyps []*hyp
	for o, sym := range syms {
		ev, ok := st.vars[o].(IntV)
		if !ok {
			continue
		}
		hypCounter++
		h := &hyp{o: o, kind: "mono", tag: fmt.Sprintf("hyp#%d:%s grows from its entry value", hypCounter, o.Name())}
		h.fact = Fact{L: ev.T, R: sym, Src: h.tag}
		hyps = append(hyps, h)
		if in.param != nil || in.paramOf() != nil {
			lenP := LenOf("P")
			if okp, _ := Prove(ev.T, lenP, st.facts); okp {
				hypCounter++
				h2 := &hyp{o: o, kind: "le", tag: fmt.Sprintf("hyp#%d:%s stays within the input", hypCounter, o.Name())}
				h2.fact = Fact{L: sym, R: lenP, Src: h2.tag}
				hyps = append(hyps, h2)
			}
		}
	}
	// counted loops: `for j := j0; j < B; j++ { …; n += K; … }`
	var counter types.Object
	if id, ok := x.Post.(*ast.IncDecStmt); ok && id.Tok == token.INC {
		if o := identObjOf(in, id.X); o != nil && syms[o] != nil && countAssigns(in, x.Body, o) == 0 {
			counter = o
		}
	}
	type hyp2 struct {
		tag   string
		facts []Fact
		check func(bs *State) bool
		after func(res *State)
	}
	var hyps2 []*hyp2
	if counter != nil {
		jSym := syms[counter]
		jEntry, _ := st.vars[counter].(IntV)
		// j <= B for a condition j < B with B not changed by the loop
		if be, ok := unparen(x.Cond).(*ast.BinaryExpr); ok && be.Op == token.LSS && identObjOf(in, be.X) == counter && jEntry.T != nil {
			save := in.noSites
			in.noSites = true
			B := in.evalInt(body, be.Y)
			in.noSites = save
			if !B.HasAtom(func(a *Atom) bool { return a.Kind == "opq" && strings.HasPrefix(a.Path, "loop") }) {
				if okE, _ := Prove(jEntry.T, B, st.facts); okE {
					hypCounter++
					tag := fmt.Sprintf("hyp#%d:counter %s stays at most its bound", hypCounter, counter.Name())
					h := &hyp2{tag: tag, facts: []Fact{{L: jSym, R: B, Src: tag}}}
					h.check = func(bs *State) bool {
						nv, ok := bs.vars[counter].(IntV)
						if !ok {
							return false
						}
						okc, _ := Prove(nv.T, B, bs.facts)
						return okc
					}
					h.after = func(res *State) {
						if av, ok := res.vars[counter].(IntV); ok {
							res.facts = append(res.facts, Fact{L: av.T, R: B, Src: tag})
						}
					}
					hyps2 = append(hyps2, h)
				}
			}
		}
		// n - K*j is constant for a cursor advanced by the constant K once per iteration
		if jEntry.T != nil {
			for o, nSym := range syms {
				if o == counter {
					continue
				}
				K, ok := constStepOf(in, x.Body, o)
				nEntry, ok2 := st.vars[o].(IntV)
				if !ok || !ok2 || K <= 0 {
					continue
				}
				o, nSym, K := o, nSym, K
				base := nEntry.T.AddScaled(jEntry.T, -K)
				hypCounter++
				tag := fmt.Sprintf("hyp#%d:%s advances by %d per step of %s", hypCounter, o.Name(), K, counter.Name())
				rel := nSym.AddScaled(jSym, -K)
				h := &hyp2{tag: tag, facts: []Fact{{L: rel, R: base, Src: tag}, {L: base, R: rel, Src: tag}}}
				h.check = func(bs *State) bool {
					nv, ok1 := bs.vars[o].(IntV)
					jv, ok2 := bs.vars[counter].(IntV)
					if !ok1 || !ok2 {
						return false
					}
					nr := nv.T.AddScaled(jv.T, -K)
					a, _ := Prove(nr, base, bs.facts)
					b, _ := Prove(base, nr, bs.facts)
					return a && b
				}
				h.after = func(res *State) {
					av, ok1 := res.vars[o].(IntV)
					jv, ok2 := res.vars[counter].(IntV)
					if ok1 && ok2 {
						ar := av.T.AddScaled(jv.T, -K)
						res.facts = append(res.facts, Fact{L: ar, R: base, Src: tag}, Fact{L: base, R: ar, Src: tag})
					}
				}
				hyps2 = append(hyps2, h)
			}
		}
	}
	lr.Entry = map[string]*Term{}
	for o, sym := range syms {
		if ev, ok := st.vars[o].(IntV); ok {
			lr.Entry[sym.String()] = ev.T
		}
	}
	for _, h := range hyps {
		body.facts = append(body.facts, h.fact)
	}
	for _, h := range hyps2 {
		body.facts = append(body.facts, h.facts...)
	}
	condSt := body
	if x.Cond != nil {
		in.evalCondSites(condSt, x.Cond)
		in.assume(condSt, x.Cond, true)
	}
	in.loops = append(in.loops, lc)
	saveB, saveC := in.breaks, in.continues
	in.breaks, in.continues = nil, nil
	if x.Cond != nil {
		in.guards = append(in.guards, "loop("+lr.Cond+")")
	} else {
		in.guards = append(in.guards, "loop")
	}
	nrets := len(in.Rets)
	after, term := in.execBlock(condSt, x.Body.List)
	if !term && x.Post != nil {
		after, _ = in.exec(after, x.Post)
	}
	in.guards = in.guards[:len(in.guards)-1]
	breaks, conts := in.breaks, in.continues
	in.breaks, in.continues = saveB, saveC
	in.loops = in.loops[:len(in.loops)-1]
	lr.HasExit = len(in.Rets) > nrets || len(breaks) > 0 || x.Cond != nil
	lift(after)
	for _, b := range breaks {
		lift(b.st)
	}

	// progress: per cursor variable, the advance on every path that reaches the back edge
	var backStates []*State
	if !term {
		backStates = append(backStates, after)
	}
	for _, c := range conts {
		s := c.st
		if x.Post != nil {
			s, _ = in.exec(s, x.Post)
		}
		lift(s)
		backStates = append(backStates, s)
	}
	// verify the hypotheses on every back edge (to a fixpoint: a proof that used a
	// hypothesis found bad is redone without it)
	for round := 0; round < 4; round++ {
		changed := false
		for _, h := range hyps {
			if badHyps[h.tag] {
				continue
			}
			for _, bs := range backStates {
				nv, ok := bs.vars[h.o].(IntV)
				holds := ok
				if ok {
					if h.kind == "mono" {
						holds, _ = Prove(syms[h.o], nv.T, bs.facts)
					} else {
						holds, _ = Prove(nv.T, LenOf("P"), bs.facts)
					}
				}
				if !holds {
					badHyps[h.tag] = true
					changed = true
					break
				}
			}
		}
		for _, h := range hyps2 {
			if badHyps[h.tag] {
				continue
			}
			for _, bs := range backStates {
				if !h.check(bs) {
					badHyps[h.tag] = true
					changed = true
					break
				}
			}
		}
		if !changed {
			break
		}
	}
	lr.NBack = len(backStates)
	for o, sym := range syms {
		cp := &CursorProgress{Var: o.Name(), Strict: len(backStates) > 0}
		for _, bs := range backStates {
			nv, ok := bs.vars[o].(IntV)
			grows := false
			if ok {
				grows = in.w.ProveX(sym.AddC(1), nv.T, bs.facts)
				// a cursor of a narrow unsigned type must not wrap when advanced
				if bits, uns := intBits(o.Type()); grows && uns && bits < 64 {
					if !in.w.ProveX(nv.T, Const(int64(1)<<uint(bits)-1), bs.facts) {
						grows = false
						cp.Strict = false
						cp.MinWhy = fmt.Sprintf("the cursor is a uint%d and its new value %v is not provably <= %d: the addition can wrap and the loop never reaches its bound", bits, nv.T, int64(1)<<uint(bits)-1)
						break
					}
				}
			}
			if !grows {
				cp.Strict = false
				if ok {
					cp.MinWhy = "advance " + nv.T.Sub(sym).String() + " is not provably >= 1"
				} else {
					cp.MinWhy = "value at the back edge unknown"
				}
				break
			}
		}
		// bounded by the loop condition `o < X` with X unchanged by the loop
		if x.Cond != nil {
			var scan func(e ast.Expr)
			scan = func(e ast.Expr) {
				be, ok := unparen(e).(*ast.BinaryExpr)
				if !ok {
					return
				}
				if be.Op == token.LAND {
					scan(be.X)
					scan(be.Y)
					return
				}
				// o < X, o <= X, o + c < X, X > o, X >= o + c … with c a non-negative constant
				small, big := be.X, be.Y
				switch be.Op {
				case token.LSS, token.LEQ:
				case token.GTR, token.GEQ:
					small, big = be.Y, be.X
				default:
					return
				}
				isCursor := in.cursorObjOf(body, small) == o
				// `len(rest) > 0`, `k <= len(rest)`: the view's offset is bounded by the end of the input
				if bo, isView := liftedBuf[o]; isView && !isCursor {
					if c, ok := unparen(big).(*ast.CallExpr); ok && len(c.Args) == 1 {
						if id, ok := unparen(c.Fun).(*ast.Ident); ok && id.Name == "len" && identObjOf(in, c.Args[0]) == bo {
							if _, isC := constIntOf(in.info, small); isC {
								cp.Bound = "loop condition " + in.render(nil, be)
							}
						}
					}
				}
				if !isCursor {
					if ad, ok := unparen(small).(*ast.BinaryExpr); ok && ad.Op == token.ADD {
						if c, isC := constIntOf(in.info, ad.Y); isC && c >= 0 && in.cursorObjOf(body, ad.X) == o {
							isCursor = true
						} else if c, isC := constIntOf(in.info, ad.X); isC && c >= 0 && in.cursorObjOf(body, ad.Y) == o {
							isCursor = true
						}
					}
				}
				if isCursor {
					save := in.noSites
					in.noSites = true
					X := in.evalInt(body, big)
					in.noSites = save
					if !X.HasAtom(func(a *Atom) bool { return a.Kind == "opq" && strings.HasPrefix(a.Path, "loop") }) && !loopGrowsBound(x.Body, big) {
						cp.Bound = "loop condition " + in.render(nil, be)
					}
				}
			}
			scan(x.Cond)
		}
		if cp.Bound == "" {
			for _, h := range hyps {
				if h.o == o && h.kind == "le" && !badHyps[h.tag] {
					cp.Bound = "verified invariant: " + o.Name() + " stays within the input"
				}
			}
		}
		if cp.Bound == "" && len(backStates) > 0 && in.paramOf() != nil {
			// every iteration that reaches the back edge passed a guard cursor <= len(input)
			all := true
			for _, bs := range backStates {
				if ok, _ := Prove(sym, LenOf("P"), bs.facts); !ok {
					all = false
					break
				}
			}
			if all {
				cp.Bound = "every completed iteration passed a guard " + o.Name() + " <= len(input)"
			}
		}
		lr.Prog = append(lr.Prog, cp)
	}
	sort.Slice(lr.Prog, func(i, j int) bool { return lr.Prog[i].Var < lr.Prog[j].Var })
	for o, s := range syms {
		cs := &CursorStep{Var: o.Name(), Type: o.Type()}
		for _, bs := range backStates {
			av, ok := bs.vars[o].(IntV)
			if !ok {
				cs.Paths = append(cs.Paths, nil)
				continue
			}
			cs.Paths = append(cs.Paths, av.T.Sub(s))
		}
		lr.Cursors = append(lr.Cursors, cs)
	}
	sortCursors(lr.Cursors)
	if len(backStates) == 0 {
		lr.Bounded = "body never reaches the back edge"
	}

	// state after the loop: everything assigned in the loop is unknown
	res := st.clone()
	for o := range ints {
		if _, ok := res.vars[o]; ok {
			res.vars[o] = IntV{in.freshSym("after:" + o.Name())}
		}
	}
	// what the verified hypotheses give for the value after the loop: the loop is
	// left at the head (value = head value) or by a break (value at the break)
	for _, h := range hyps {
		if badHyps[h.tag] {
			continue
		}
		av, ok := res.vars[h.o].(IntV)
		if !ok {
			continue
		}
		holds := true
		for _, b := range breaks {
			if b.label != "" && b.label != label {
				continue
			}
			bv, ok := b.st.vars[h.o].(IntV)
			if !ok {
				holds = false
				break
			}
			var okb bool
			if h.kind == "mono" {
				okb, _ = Prove(h.fact.L, bv.T, b.st.facts)
			} else {
				okb, _ = Prove(bv.T, LenOf("P"), b.st.facts)
			}
			if !okb {
				holds = false
				break
			}
		}
		if holds {
			if h.kind == "mono" {
				res.facts = append(res.facts, Fact{L: h.fact.L, R: av.T, Src: h.tag})
			} else {
				res.facts = append(res.facts, Fact{L: av.T, R: LenOf("P"), Src: h.tag})
			}
		}
	}
	ownBreak := false
	for _, b := range breaks {
		if b.label == "" || b.label == label {
			ownBreak = true
		}
	}
	if !ownBreak {
		for _, h := range hyps2 {
			if !badHyps[h.tag] {
				h.after(res)
			}
		}
	}
	for o := range others {
		switch v := res.vars[o].(type) {
		case BufV:
			if b := res.bufs[v.ID]; b != nil && b.Origin != "param" {
				nb := b.clone()
				nb.Len = in.freshSym("afterlen:" + o.Name())
				nb.Extent = nb.Len
				res.bufs[v.ID] = nb
			}
		case IntV:
		default:
			if after != nil {
				if av, ok := after.vars[o]; ok {
					res.vars[o] = av
				}
			}
		}
	}
	for _, p := range in.fieldStoresIn(st, x.Body) {
		delete(res.fields, p)
	}
	// labelled / unlabelled breaks carry their state out; keep object-valued vars from them
	headExit := x.Cond != nil && !in.constTrueFlag(x.Cond)
	for _, b := range breaks {
		if b.label != "" && b.label != label {
			in.breaks = append(in.breaks, b)
			continue
		}
		for o, v := range b.st.vars {
			if _, isObj := v.(ObjV); isObj {
				if _, have := res.vars[o]; have {
					if rv, ok := res.vars[o].(ObjV); !ok || rv.Path != v.(ObjV).Path {
						res.vars[o] = UnkV{"after-loop:" + o.Name()}
					}
				}
			}
		}
		for k, v := range b.st.fields {
			if _, ok := res.fields[k]; !ok {
				lv := loosen(v)
				// the loop can also end at its head (condition false) without having taken this break: a field
				// only the breaking paths assign may still be as it was on entry
				if headExit {
					switch ov := lv.(type) {
					case ObjV:
						lv = MaybeV{V: ov}
					case AltV:
						ov.MayNil = true
						lv = ov
					}
				}
				res.fields[k] = lv
			}
		}
	}
	for fv, p := range lifted {
		if v, ok := res.vars[fv]; ok {
			res.fields[p] = v
		}
		delete(res.vars, fv)
		delete(st.vars, fv)
	}
	for fv, o := range liftedBuf {
		if iv, ok := res.vars[fv].(IntV); ok {
			if bv, ok := res.vars[o].(BufV); ok {
				res.vars[o] = BufV{ID: bv.ID, Off: iv.T, Hi: bv.Hi}
			}
		}
		delete(res.vars, fv)
		delete(st.vars, fv)
	}
	if x.Cond != nil {
		in.assume(res, x.Cond, false)
	}
	in.note(x.Pos(), "general for loop: not summarised for size/record rules")
	return res, false
}

// synthFieldVar: the synthetic variable standing for the integer field at path inside for loops.
func (in *Interp) synthFieldVar(path string, v Val) *types.Var {
	if in.shared.fieldVars == nil {
		in.shared.fieldVars = map[string]*types.Var{}
	}
	if fv := in.shared.fieldVars[path]; fv != nil {
		return fv
	}
	name := path
	if i := strings.Index(path, "."); i >= 0 {
		name = "cursor" + path[i:]
	}
	fv := types.NewVar(token.NoPos, nil, name, types.Typ[types.Int])
	in.shared.fieldVars[path] = fv
	return fv
}

// cursorObjOf: the variable an offset expression names — a local, or the synthetic variable of a lifted
// field of a local object (r.n).
func (in *Interp) cursorObjOf(st *State, e ast.Expr) types.Object {
	if o := identObjOf(in, e); o != nil {
		return o
	}
	if se, ok := unparen(e).(*ast.SelectorExpr); ok && in.liftedPaths != nil {
		if p, _, ok := in.selPath(st, se); ok {
			return in.liftedPaths[p]
		}
	}
	return nil
}

// expandFacts expands Len atoms of concrete kinds in every fact.
func expandFacts(w *World, fs []Fact) []Fact {
	out := make([]Fact, 0, len(fs))
	for _, f := range fs {
		out = append(out, Fact{L: w.ExpandLens(f.L, 0), R: w.ExpandLens(f.R, 0), Src: f.Src, Cond: f.Cond})
	}
	return out
}

// ProveX proves A <= B, retrying with Len atoms of concrete kinds expanded.
func (w *World) ProveX(a, b *Term, facts []Fact) bool {
	if ok, _ := Prove(a, b, facts); ok {
		return true
	}
	// min(x, y) is at most x and at most y
	if mf := minFacts(a, b); len(mf) > 0 {
		facts = append(append([]Fact(nil), facts...), mf...)
		if ok, _ := Prove(a, b, facts); ok {
			return true
		}
	}
	ea, eb, ef := w.ExpandLens(a, 0), w.ExpandLens(b, 0), expandFacts(w, facts)
	if ok, _ := Prove(ea, eb, ef); ok {
		return true
	}
	// sizes of interface-typed values: at least the smallest size any implementation can report
	extra := w.lenFloorFacts(ea, eb)
	if len(extra) == 0 {
		return false
	}
	ok, _ := Prove(ea, eb, append(ef, extra...))
	return ok
}

// lenFloorFacts returns, for every Len atom of an interface type (or of a
// one-of value) in the terms, the fact floor <= Len where floor is the
// smallest lower bound over the kinds it can be (closed world).
func (w *World) lenFloorFacts(ts ...*Term) []Fact {
	var out []Fact
	seen := map[string]bool{}
	for _, t := range ts {
		t.HasAtom(func(a *Atom) bool {
			if a.Kind != "Len" || seen[a.Key()] {
				return false
			}
			seen[a.Key()] = true
			if fl, why, ok := w.lenFloor(a.Typ); ok && fl > 0 {
				out = append(out, Fact{L: Const(fl), R: FromAtom(a), Src: why})
			}
			return false
		})
	}
	return out
}

func (w *World) lenFloor(typ string) (int64, string, bool) {
	if w.floorCache == nil {
		w.floorCache = map[string][2]any{}
	}
	if c, ok := w.floorCache[typ]; ok {
		return c[0].(int64), c[1].(string), true
	}
	var kinds []*Kind
	switch {
	case strings.HasPrefix(typ, "oneof:"):
		for _, n := range strings.Split(strings.TrimPrefix(typ, "oneof:"), "|") {
			k := w.Kinds[n]
			if k == nil {
				return 0, "", false
			}
			kinds = append(kinds, k)
		}
	default:
		i := strings.LastIndex(typ, ".")
		if i < 0 {
			return 0, "", false
		}
		p := w.ByName[typ[:i]]
		if p == nil {
			return 0, "", false
		}
		tn, _ := p.Types.Scope().Lookup(typ[i+1:]).(*types.TypeName)
		if tn == nil {
			return 0, "", false
		}
		iface, ok := tn.Type().Underlying().(*types.Interface)
		if !ok {
			return 0, "", false
		}
		kinds = w.Implementations(iface)
	}
	if len(kinds) == 0 {
		return 0, "", false
	}
	min := int64(-1)
	minK := ""
	for _, k := range kinds {
		ls := w.LenSummary(k)
		if ls == nil || ls.Term == nil {
			return 0, "", false
		}
		et := w.ExpandLens(ls.Term, 0)
		lb, ok := et.LowerBound()
		if !ok {
			lb = 0
		}
		// size functions return uint16: a size that ADDS to a stored (declared, possibly wire-given) 16-bit
		// value can exceed 65535 and wrap to anything, including 0, however small the element really is. Sizes
		// made of the element's actual contents are bounded by the input and are outside this concern.
		if lb > 0 && declaredSizeCanWrap(et) {
			lb = 0
		}
		if min < 0 || lb < min {
			min, minK = lb, k.Name
		}
	}
	why := fmt.Sprintf("smallest size among the %d kinds a %s can be (%s)", len(kinds), typ, minK)
	w.floorCache[typ] = [2]any{min, why}
	return min, why, true
}

// destName names the destination of a read: the canonical path of a receiver
// (or local object) field, not its current value.
func (in *Interp) destName(st *State, l ast.Expr) string {
	if se, ok := unparen(l).(*ast.SelectorExpr); ok {
		if p, t, ok := in.selPath(st, se); ok {
			if t != nil && isIntType(t) {
				return "val(" + p + ")"
			}
			if b, isB := t.Underlying().(*types.Basic); isB && b.Info()&types.IsBoolean != 0 {
				return "val(" + p + ")"
			}
			return p
		}
	}
	return in.operand(st, l)
}

// relabelRead: a value that was read from the input into a local (inside a helper closure, or a
// temporary) and is now stored unchanged into a receiver field is a read of that field.
func (in *Interp) relabelRead(st *State, l ast.Expr, v Val) {
	se, ok := unparen(l).(*ast.SelectorExpr)
	if !ok {
		return
	}
	p, _, ok := in.selPath(st, se)
	if !ok || !(strings.HasPrefix(p, "$") || strings.HasPrefix(p, "new#")) {
		return
	}
	root := in
	for root.parent != nil {
		root = root.parent
	}
	local := func(r *Rec) bool {
		return !strings.HasPrefix(r.Src, "val($") && !strings.HasPrefix(r.Src, "$") && !strings.HasPrefix(r.Src, "dec(") &&
			!strings.HasPrefix(r.Src, "val(new#") && !strings.HasPrefix(r.Src, "new#")
	}
	switch vv := v.(type) {
	case IntV:
		at := vv.T.SingleAtom()
		if at == nil || at.Kind != "val" || !strings.HasPrefix(at.Path, "P[") || vv.T.C != 0 {
			return
		}
		for i := len(root.Reads) - 1; i >= 0; i-- {
			r := root.Reads[i]
			if (r.Kind != "int" && r.Kind != "byte") || !local(r) {
				continue
			}
			key := "P[" + r.Off.String() + "]"
			if r.Kind == "int" {
				key = "P[" + r.Off.String() + ":" + r.W.String() + "]"
			}
			if key == at.Path {
				r.Src = in.destName(st, l)
				return
			}
		}
	case BufV:
		if b := st.bufs[vv.ID]; b != nil && b.FromRead != nil && local(b.FromRead) {
			for _, r := range root.Reads {
				if r == b.FromRead {
					r.Src = in.destName(st, l)
					return
				}
			}
		}
	}
}

func identObjOf(in *Interp, e ast.Expr) types.Object {
	if id, ok := unparen(e).(*ast.Ident); ok {
		return in.obj(id)
	}
	return nil
}

// countAssigns counts the statements of body that assign to o.
func countAssigns(in *Interp, body ast.Node, o types.Object) int {
	n := 0
	ast.Inspect(body, func(nd ast.Node) bool {
		switch x := nd.(type) {
		case *ast.AssignStmt:
			for _, l := range x.Lhs {
				if identObjOf(in, l) == o {
					n++
				}
			}
		case *ast.IncDecStmt:
			if identObjOf(in, x.X) == o {
				n++
			}
		}
		return true
	})
	return n
}

// constStepOf: o is assigned exactly once in body, by `o += K` (or o++) with constant K.
func constStepOf(in *Interp, body ast.Node, o types.Object) (int64, bool) {
	if countAssigns(in, body, o) != 1 {
		return 0, false
	}
	var K int64
	found := false
	ast.Inspect(body, func(nd ast.Node) bool {
		switch x := nd.(type) {
		case *ast.AssignStmt:
			if x.Tok == token.ADD_ASSIGN && len(x.Lhs) == 1 && identObjOf(in, x.Lhs[0]) == o {
				if c, ok := in.constInt(x.Rhs[0]); ok {
					K, found = c.C, true
				}
			}
		case *ast.IncDecStmt:
			if x.Tok == token.INC && identObjOf(in, x.X) == o {
				K, found = 1, true
			}
		}
		return true
	})
	return K, found
}

// hypCounter numbers loop hypotheses; badHyps lists the ones that failed.
var hypCounter int
var badHyps = map[string]bool{}

// paramOf returns the decoder input parameter of the outermost activation.
func (in *Interp) paramOf() types.Object {
	for i := in; i != nil; i = i.parent {
		if i.param != nil {
			return i.param
		}
	}
	return nil
}

func loosen(v Val) Val {
	switch v.(type) {
	case IntV:
		return UnkV{"loop"}
	}
	return v
}

func sortCursors(cs []*CursorStep) {
	for i := 1; i < len(cs); i++ {
		for j := i; j > 0 && cs[j].Var < cs[j-1].Var; j-- {
			cs[j], cs[j-1] = cs[j-1], cs[j]
		}
	}
}

func isBoolType(t types.Type) bool {
	b, ok := t.Underlying().(*types.Basic)
	return ok && b.Info()&types.IsBoolean != 0
}

// declaredSizeCanWrap: with the content-derived parts of the size at their minimum, the stored integer
// fields it adds (val atoms, at the maximum of a 16-bit field unless a smaller range is declared) can push a
// uint16 result past 65535.
func declaredSizeCanWrap(t *Term) bool {
	has := false
	var maxOf func(t *Term) int64
	maxOf = func(t *Term) int64 {
		total := t.C
		for k, c := range t.K {
			a := t.Atoms[k]
			if c <= 0 {
				continue
			}
			switch a.Kind {
			case "val":
				has = true
				m := int64(65535)
				if d, ok := atomMax[k]; ok && d < m {
					m = d
				}
				total += c * m
			case "round8":
				total += c * ((maxOf(a.Sub[0]) + 7) / 8 * 8)
			case "wrap":
				total += c * maxOf(a.Sub[0])
			case "ite":
				m0, m1 := maxOf(a.Sub[0]), maxOf(a.Sub[1])
				if m1 > m0 {
					m0 = m1
				}
				total += c * m0
			case "mul":
				if len(a.Sub) == 2 {
					total += c * maxOf(a.Sub[0]) * maxOf(a.Sub[1])
				}
			}
		}
		return total
	}
	m := maxOf(t)
	return has && m > 65535
}

// countedRange recognises `for i := 0; i < len(S); i++ { … S[i] … }` with i and S not assigned in the body
// and returns the equivalent `for i := range S` (same body; S[i] evaluates to the element either way).
func (in *Interp) countedRange(x *ast.ForStmt) *ast.RangeStmt {
	as, ok := x.Init.(*ast.AssignStmt)
	if !ok || as.Tok != token.DEFINE || len(as.Lhs) != 1 || len(as.Rhs) != 1 {
		return nil
	}
	iv, ok := as.Lhs[0].(*ast.Ident)
	if !ok {
		return nil
	}
	if c, isC := constIntOf(in.info, as.Rhs[0]); !isC || c != 0 {
		return nil
	}
	io := in.info.Defs[iv]
	be, ok := unparen(x.Cond).(*ast.BinaryExpr)
	if !ok || be.Op != token.LSS || identObj(in.info, be.X) != io || io == nil {
		return nil
	}
	boundE := unparen(be.Y)
	hoistedAt := token.NoPos
	// the bound hoisted into a local: `count := len(S)` bound once, S untouched from there to the end of the loop
	if bid, ok := boundE.(*ast.Ident); ok {
		if bo, isVar := in.info.Uses[bid].(*types.Var); isVar && in.fi.Decl.Body != nil {
			var def ast.Expr
			binds := 0
			ast.Inspect(in.fi.Decl.Body, func(n ast.Node) bool {
				switch y := n.(type) {
				case *ast.AssignStmt:
					for i, l := range y.Lhs {
						if identObj(in.info, l) == bo {
							binds++
							if y.Tok == token.DEFINE && len(y.Lhs) == len(y.Rhs) {
								def, hoistedAt = y.Rhs[i], y.Pos()
							}
						}
					}
				case *ast.IncDecStmt:
					if identObj(in.info, y.X) == bo {
						binds += 2
					}
				case *ast.UnaryExpr:
					if y.Op == token.AND && identObj(in.info, y.X) == bo {
						binds += 2
					}
				}
				return true
			})
			if binds == 1 && def != nil {
				boundE = unparen(def)
			}
		}
	}
	lc, ok := boundE.(*ast.CallExpr)
	if !ok || len(lc.Args) != 1 {
		return nil
	}
	if id, ok := unparen(lc.Fun).(*ast.Ident); !ok || id.Name != "len" {
		return nil
	}
	S := unparen(lc.Args[0])
	switch S.(type) {
	case *ast.Ident, *ast.SelectorExpr:
	default:
		return nil
	}
	if _, isSlice := in.info.TypeOf(S).Underlying().(*types.Slice); !isSlice {
		return nil
	}
	switch p := x.Post.(type) {
	case *ast.IncDecStmt:
		if p.Tok != token.INC || identObj(in.info, p.X) != io {
			return nil
		}
	default:
		return nil
	}
	sText := types.ExprString(S)
	bad := false
	if hoistedAt != token.NoPos {
		// between the hoisted bound and the loop the list keeps its length
		ast.Inspect(in.fi.Decl.Body, func(n ast.Node) bool {
			if y, ok := n.(*ast.AssignStmt); ok && y.Pos() > hoistedAt && y.Pos() < x.Pos() {
				for _, l := range y.Lhs {
					if ls := types.ExprString(unparen(l)); ls == sText || strings.HasPrefix(sText, ls+".") {
						bad = true
					}
				}
			}
			return true
		})
	}
	ast.Inspect(x.Body, func(n ast.Node) bool {
		switch y := n.(type) {
		case *ast.AssignStmt:
			for _, l := range y.Lhs {
				if identObj(in.info, l) == io || types.ExprString(unparen(l)) == sText {
					bad = true
				}
			}
		case *ast.IncDecStmt:
			if identObj(in.info, y.X) == io {
				bad = true
			}
		case *ast.BranchStmt:
			// break/continue keep range semantics; goto does not
			if y.Tok == token.GOTO {
				bad = true
			}
		}
		return true
	})
	if bad {
		return nil
	}
	return &ast.RangeStmt{For: x.For, Key: iv, Tok: token.DEFINE, X: S, Body: x.Body}
}

// constTrueFlag: the condition is a boolean variable that is only ever assigned the constant true in this
// function (a loop "flag" that is never cleared): the loop never ends at its head.
func (in *Interp) constTrueFlag(cond ast.Expr) bool {
	id, ok := unparen(cond).(*ast.Ident)
	if !ok {
		return false
	}
	o := in.obj(id)
	if o == nil || !isBoolType(o.Type()) {
		return false
	}
	isTrue := func(e ast.Expr) bool {
		tv, ok := in.info.Types[e]
		return ok && tv.Value != nil && tv.Value.Kind() == constant.Bool && constant.BoolVal(tv.Value)
	}
	n, ok2 := 0, true
	ast.Inspect(in.fi.Decl, func(nd ast.Node) bool {
		switch y := nd.(type) {
		case *ast.AssignStmt:
			for i, l := range y.Lhs {
				if identObj(in.info, l) == o {
					n++
					if i >= len(y.Rhs) || !isTrue(y.Rhs[i]) {
						ok2 = false
					}
				}
			}
		case *ast.ValueSpec:
			for i, nm := range y.Names {
				if in.info.Defs[nm] == o {
					n++
					if i >= len(y.Values) || !isTrue(y.Values[i]) {
						ok2 = false
					}
				}
			}
		case *ast.UnaryExpr:
			if y.Op == token.AND && identObj(in.info, y.X) == o {
				ok2 = false // address taken
			}
		}
		return true
	})
	return ok2 && n > 0
}

func isMapType(t types.Type) bool {
	if t == nil {
		return false
	}
	_, ok := t.Underlying().(*types.Map)
	return ok
}

// minFacts: for every min atom in the terms (also nested in another min's arguments), the two facts
// min(x, y) <= x and min(x, y) <= y.
func minFacts(ts ...*Term) []Fact {
	var out []Fact
	seen := map[string]bool{}
	var walk func(t *Term)
	walk = func(t *Term) {
		if t == nil {
			return
		}
		t.HasAtom(func(a *Atom) bool {
			if a.Kind == "min" && len(a.Sub) == 2 && !seen[a.Key()] {
				seen[a.Key()] = true
				m := FromAtom(a)
				out = append(out, Fact{L: m, R: a.Sub[0], Src: "min"}, Fact{L: m, R: a.Sub[1], Src: "min"})
				walk(a.Sub[0])
				walk(a.Sub[1])
			}
			return false
		})
	}
	for _, t := range ts {
		walk(t)
	}
	return out
}

// loopGrowsBound: the loop bound mentions len(E) and the body assigns E (typically E = append(E, …)): the bound
// moves with the loop — `for i := 0; i < len(list); i++ { list = append(list, more...) }` need not end.
func loopGrowsBound(body *ast.BlockStmt, bound ast.Expr) bool {
	var lists []string
	ast.Inspect(bound, func(n ast.Node) bool {
		if c, ok := n.(*ast.CallExpr); ok && len(c.Args) == 1 {
			if id, ok := unparen(c.Fun).(*ast.Ident); ok && (id.Name == "len" || id.Name == "cap") {
				lists = append(lists, types.ExprString(unparen(c.Args[0])))
			}
		}
		return true
	})
	if len(lists) == 0 || body == nil {
		return false
	}
	grows := false
	ast.Inspect(body, func(n ast.Node) bool {
		as, ok := n.(*ast.AssignStmt)
		if !ok {
			return true
		}
		for _, l := range as.Lhs {
			ls := types.ExprString(unparen(l))
			for _, e := range lists {
				if ls == e || strings.HasPrefix(e, ls+".") {
					grows = true
				}
			}
		}
		return true
	})
	return grows
}
