package main

// Loader and inventory (DESIGN §2.1).

import (
	"fmt"
	"go/ast"
	"go/token"
	"go/types"
	"os"
	"path/filepath"
	"sort"
	"strings"

	"golang.org/x/tools/go/packages"
)

type FuncInfo struct {
	Key  string // pkg.Recv.Name or pkg.Name
	Pkg  *packages.Package
	Decl *ast.FuncDecl
	Obj  *types.Func
	Recv *types.Named // nil for plain functions
}

type Kind struct {
	Name  string // pkg.Type
	Pkg   *packages.Package
	Named *types.Named
	// method objects selected through the pointer method set (may be promoted)
	Len, Marshal, Unmarshal, Read, Write *types.Func
	OwnLen, OwnMarshal, OwnUnmarshal     bool
	// StreamCodec: Marshal/Unmarshal are the io-style Read/Write pair
	StreamCodec bool
}

type World struct {
	RepoDir string
	ModPath string
	Fset    *token.FileSet
	All     []*packages.Package
	Mod     []*packages.Package // module packages, sorted by path
	ByName  map[string]*packages.Package
	Funcs   map[string]*FuncInfo
	ByObj   map[*types.Func]*FuncInfo
	// implCache: interface method -> its single implementation in the module (uniqueImpl)
	implCache map[*types.Func]*FuncInfo
	Kinds     map[string]*Kind
	KindsL    []*Kind

	ssaw        *ssaWorld // lazily built
	sc          *summaryCache
	factCache   map[string]*KindFacts
	floorCache  map[string][2]any
	fail        *failInfo
	tflow       *typeFlow
	callerCache map[*types.Func]bool
}

func goEnv() []string {
	env := []string{}
	for _, e := range os.Environ() {
		if strings.HasPrefix(e, "GOWORK=") || strings.HasPrefix(e, "GOFLAGS=") || strings.HasPrefix(e, "GOPROXY=") ||
			strings.HasPrefix(e, "GOSUMDB=") || strings.HasPrefix(e, "GOTOOLCHAIN=") || strings.HasPrefix(e, "GOARCH=") {
			continue
		}
		env = append(env, e)
	}
	env = append(env, "GOFLAGS=-mod=mod", "GOPROXY=off", "GOSUMDB=off", "GOTOOLCHAIN=local", "GOWORK=off")
	if a := os.Getenv("OFV_GOARCH"); a != "" {
		env = append(env, "GOARCH="+a)
	}
	return env
}

func pkgShort(p *types.Package) string {
	if p == nil {
		return ""
	}
	return p.Name()
}

func LoadWorld(repo string, tests bool) (*World, error) {
	abs, err := filepath.Abs(repo)
	if err != nil {
		return nil, err
	}
	fset := token.NewFileSet()
	cfg := &packages.Config{
		Mode:  packages.LoadAllSyntax | packages.NeedModule,
		Dir:   abs,
		Fset:  fset,
		Tests: tests,
		Env:   goEnv(),
	}
	pkgs, err := packages.Load(cfg, "./...")
	if err != nil {
		return nil, fmt.Errorf("packages.Load: %v", err)
	}
	w := &World{RepoDir: abs, Fset: fset, ByName: map[string]*packages.Package{}, Funcs: map[string]*FuncInfo{},
		ByObj: map[*types.Func]*FuncInfo{}, Kinds: map[string]*Kind{}}
	var errs []string
	packages.Visit(pkgs, nil, func(p *packages.Package) {
		w.All = append(w.All, p)
		for _, e := range p.Errors {
			errs = append(errs, p.PkgPath+": "+e.Error())
		}
	})
	if len(errs) > 0 {
		sort.Strings(errs)
		if len(errs) > 10 {
			errs = errs[:10]
		}
		return nil, fmt.Errorf("the tree does not type-check:\n  %s", strings.Join(errs, "\n  "))
	}
	for _, p := range pkgs {
		if p.Module == nil || !p.Module.Main {
			continue
		}
		if strings.HasSuffix(p.ID, ".test") || strings.Contains(p.ID, "[") && !tests {
			continue
		}
		if tests && (strings.HasSuffix(p.PkgPath, ".test") || strings.HasSuffix(p.PkgPath, "_test")) {
			continue
		}
		if tests && !strings.Contains(p.ID, "[") {
			// prefer the test variant when one exists
			has := false
			for _, q := range pkgs {
				if q.PkgPath == p.PkgPath && strings.Contains(q.ID, "[") {
					has = true
				}
			}
			if has {
				continue
			}
		}
		w.ModPath = p.Module.Path
		w.Mod = append(w.Mod, p)
	}
	sort.Slice(w.Mod, func(i, j int) bool { return w.Mod[i].PkgPath < w.Mod[j].PkgPath })
	if len(w.Mod) < 6 {
		return nil, fmt.Errorf("only %d module packages loaded from %s (need >= 6)", len(w.Mod), abs)
	}
	for _, p := range w.Mod {
		w.ByName[p.Name] = p
		for _, f := range p.Syntax {
			fn := fset.Position(f.Pos()).Filename
			if strings.HasSuffix(fn, "_test.go") {
				continue
			}
			for _, d := range f.Decls {
				fd, ok := d.(*ast.FuncDecl)
				if !ok || fd.Body == nil {
					continue
				}
				obj, ok := p.TypesInfo.Defs[fd.Name].(*types.Func)
				if !ok {
					continue
				}
				fi := &FuncInfo{Pkg: p, Decl: fd, Obj: obj}
				sig := obj.Type().(*types.Signature)
				if r := sig.Recv(); r != nil {
					t := r.Type()
					if pt, ok := t.(*types.Pointer); ok {
						t = pt.Elem()
					}
					if n, ok := t.(*types.Named); ok {
						fi.Recv = n
						fi.Key = p.Name + "." + n.Obj().Name() + "." + fd.Name.Name
					}
				} else {
					fi.Key = p.Name + "." + fd.Name.Name
				}
				if fi.Key == "" {
					continue
				}
				w.Funcs[fi.Key] = fi
				w.ByObj[obj] = fi
			}
		}
	}
	w.buildKinds()
	theWorld = w
	return w, nil
}

func (w *World) buildKinds() {
	for _, p := range w.Mod {
		sc := p.Types.Scope()
		for _, nm := range sc.Names() {
			tn, ok := sc.Lookup(nm).(*types.TypeName)
			if !ok || tn.IsAlias() {
				continue
			}
			named, ok := tn.Type().(*types.Named)
			if !ok {
				continue
			}
			if _, isIface := named.Underlying().(*types.Interface); isIface {
				continue
			}
			ms := types.NewMethodSet(types.NewPointer(named))
			k := &Kind{Name: p.Name + "." + nm, Pkg: p, Named: named}
			look := func(name string) (*types.Func, bool) {
				sel := ms.Lookup(p.Types, name)
				if sel == nil {
					return nil, false
				}
				f, _ := sel.Obj().(*types.Func)
				return f, len(sel.Index()) == 1
			}
			k.Len, k.OwnLen = look("Len")
			k.Marshal, k.OwnMarshal = look("MarshalBinary")
			k.Unmarshal, k.OwnUnmarshal = look("UnmarshalBinary")
			if p.Name == "protocol" {
				// the io-style pair used by DHCP / LLDP (Read encodes, Write decodes)
				if f, _ := look("Read"); f != nil && w.isByteIO(f) {
					k.Read = f
				}
				if f, _ := look("Write"); f != nil && w.isByteIO(f) {
					k.Write = f
				}
			}
			// … stands in for the MarshalBinary / UnmarshalBinary pair of the kind: the interpreter models the
			// local bytes.Buffer these codecs build their bytes in (interp_stream.go)
			if k.Marshal == nil && k.Read != nil && os.Getenv("OFV_NO_STREAM_KINDS") == "" {
				k.Marshal = k.Read
				_, k.OwnMarshal = look("Read")
				k.StreamCodec = true
			}
			if k.Unmarshal == nil && k.Write != nil && os.Getenv("OFV_NO_STREAM_KINDS") == "" {
				k.Unmarshal = k.Write
				_, k.OwnUnmarshal = look("Write")
				k.StreamCodec = true
			}
			if !w.isLenSig(k.Len) {
				k.Len = nil
			}
			if k.Len == nil && k.Marshal == nil && k.Unmarshal == nil && k.Read == nil && k.Write == nil {
				continue
			}
			// a kind must be able to produce or consume bytes
			if k.Marshal == nil && k.Unmarshal == nil && k.Read == nil && k.Write == nil {
				continue
			}
			w.Kinds[k.Name] = k
			w.KindsL = append(w.KindsL, k)
		}
	}
	sort.Slice(w.KindsL, func(i, j int) bool { return w.KindsL[i].Name < w.KindsL[j].Name })
}

func (w *World) isLenSig(f *types.Func) bool {
	if f == nil {
		return false
	}
	sig := f.Type().(*types.Signature)
	if sig.Params().Len() != 0 || sig.Results().Len() != 1 {
		return false
	}
	b, ok := sig.Results().At(0).Type().Underlying().(*types.Basic)
	return ok && b.Info()&types.IsInteger != 0
}

func (w *World) isByteIO(f *types.Func) bool {
	sig := f.Type().(*types.Signature)
	if sig.Params().Len() != 1 || sig.Results().Len() != 2 {
		return false
	}
	return isByteSlice(sig.Params().At(0).Type())
}

func (w *World) Pos(p token.Pos) string {
	if !p.IsValid() {
		return "-"
	}
	pos := w.Fset.Position(p)
	rel, err := filepath.Rel(w.RepoDir, pos.Filename)
	if err != nil {
		rel = pos.Filename
	}
	return fmt.Sprintf("%s:%d", rel, pos.Line)
}

// FuncOf returns the in-module declaration of a function object (following
// generic instantiation origins), or nil.
func (w *World) FuncOf(f *types.Func) *FuncInfo {
	if f == nil {
		return nil
	}
	if fi, ok := w.ByObj[f]; ok {
		return fi
	}
	if o := f.Origin(); o != nil {
		if fi, ok := w.ByObj[o]; ok {
			return fi
		}
	}
	return nil
}

// KindOfType returns the kind for a (possibly pointer) named type.
func (w *World) KindOfType(t types.Type) *Kind {
	if t == nil {
		return nil
	}
	if p, ok := t.(*types.Pointer); ok {
		t = p.Elem()
	}
	n, ok := t.(*types.Named)
	if !ok || n.Obj().Pkg() == nil {
		return nil
	}
	return w.Kinds[n.Obj().Pkg().Name()+"."+n.Obj().Name()]
}

// Implementations returns the module's concrete kinds whose pointer type
// implements iface, sorted by name.
func (w *World) Implementations(iface *types.Interface) []*Kind {
	var out []*Kind
	for _, k := range w.KindsL {
		if types.Implements(types.NewPointer(k.Named), iface) || types.Implements(k.Named, iface) {
			out = append(out, k)
		}
	}
	return out
}

// sortedFuncKeys returns all function keys sorted.
func (w *World) sortedFuncKeys() []string {
	keys := make([]string, 0, len(w.Funcs))
	for k := range w.Funcs {
		keys = append(keys, k)
	}
	sort.Strings(keys)
	return keys
}

func isByteSlice(t types.Type) bool {
	if t == nil {
		return false
	}
	s, ok := t.Underlying().(*types.Slice)
	if !ok {
		return false
	}
	b, ok := s.Elem().Underlying().(*types.Basic)
	return ok && b.Kind() == types.Uint8
}

func isByteArray(t types.Type) (int64, bool) {
	if t == nil {
		return 0, false
	}
	if p, ok := t.Underlying().(*types.Pointer); ok {
		t = p.Elem()
	}
	a, ok := t.Underlying().(*types.Array)
	if !ok {
		return 0, false
	}
	b, ok := a.Elem().Underlying().(*types.Basic)
	if !ok || b.Kind() != types.Uint8 {
		return 0, false
	}
	return a.Len(), true
}

func isIntType(t types.Type) bool {
	if t == nil {
		return false
	}
	b, ok := t.Underlying().(*types.Basic)
	return ok && b.Info()&types.IsInteger != 0
}

func intBits(t types.Type) (bits int, unsigned bool) {
	b, ok := t.Underlying().(*types.Basic)
	if !ok {
		return 0, false
	}
	switch b.Kind() {
	case types.Uint8:
		return 8, true
	case types.Uint16:
		return 16, true
	case types.Uint32:
		return 32, true
	case types.Uint64, types.Uint, types.Uintptr:
		return 64, true
	case types.Int8:
		return 8, false
	case types.Int16:
		return 16, false
	case types.Int32:
		return 32, false
	case types.Int64, types.Int, types.UntypedInt:
		return 64, false
	}
	return 0, false
}

// globalWriters lists positions of assignments to a package-level variable
// outside its declaration.
func (w *World) globalWriters(v *types.Var) []string {
	var out []string
	for _, p := range w.Mod {
		for _, f := range p.Syntax {
			if strings.HasSuffix(w.Fset.Position(f.Pos()).Filename, "_test.go") {
				continue
			}
			ast.Inspect(f, func(n ast.Node) bool {
				switch x := n.(type) {
				case *ast.AssignStmt:
					for _, l := range x.Lhs {
						if w.refersTo(p, l, v) {
							out = append(out, w.Pos(l.Pos()))
						}
					}
				case *ast.IncDecStmt:
					if w.refersTo(p, x.X, v) {
						out = append(out, w.Pos(x.Pos()))
					}
				case *ast.UnaryExpr:
					if x.Op == token.AND && w.refersTo(p, x.X, v) {
						out = append(out, w.Pos(x.Pos())+" (address taken)")
					}
				}
				return true
			})
		}
	}
	return out
}

func (w *World) refersTo(p *packages.Package, e ast.Expr, v *types.Var) bool {
	for {
		switch x := e.(type) {
		case *ast.ParenExpr:
			e = x.X
			continue
		case *ast.Ident:
			return p.TypesInfo.Uses[x] == v
		case *ast.SelectorExpr:
			if p.TypesInfo.Uses[x.Sel] == v {
				return true
			}
			return false
		}
		return false
	}
}

// isDecoderLike: a function or method taking a byte slice (decoders, Parse,
// Decode* dispatchers, Write of the io-style kinds).
func (w *World) isDecoderLike(fi *FuncInfo) bool {
	sig := fi.Obj.Type().(*types.Signature)
	for i := 0; i < sig.Params().Len(); i++ {
		if isByteSlice(sig.Params().At(i).Type()) {
			return true
		}
	}
	return false
}
