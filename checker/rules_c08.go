package main

// C08 — packet-header decoders are total (DESIGN §3 C08), and the shared
// machinery of the totality rules (also used by C07).

import (
	"fmt"
	"go/ast"
	"go/types"
	"sort"
	"strings"

	"golang.org/x/tools/go/types/typeutil"
)

func init() {
	register(&propCheck{
		ID:    "C08",
		Run:   runC08,
		Level: "Static analysis (abstract interpretation of every function of package protocol that takes a byte slice, each as an entry point of its own on an arbitrary input; guard prover over the dominating conditions; loop-head invariants by simultaneous induction; success post-conditions of child decoders). Decides: bounds/<func>/<site> — every index, slice, fixed-width read and copy window on the input (and on every local buffer of known length) is in range on every path, proved from the conditions that dominate it (length guards, loop conditions, verified loop invariants, the guards a successfully returned child decoder passed, declared ranges of wire fields); wrap/<func>/<expr> — no guard, slice bound, cursor step or allocation size of a decoder, and no size function a decoder calls, is computed from a wire field in 8- or 16-bit arithmetic whose operand ranges admit overflow; progress/<func>/<loop> — every loop either ranges over a slice, or has a cursor that grows by at least 1 on every path back to the loop head and is bounded (by the loop condition against a loop-invariant bound, by a verified invariant cursor <= len(input), or by a guard every completed iteration passed); alloc/<func>/<site> — every allocation size is bounded by a wire field of at most 16 bits or by the input length. A site the prover cannot discharge fails the check unless it is a reviewed row of assumed_safe.json (keyed by function, site and proof obligation). These give: no index/slice panic and no unbounded loop in any packet-header decoder for any input. Not decided: wall-clock time beyond loop progress; panics inside the standard library for arguments the rules do not model. The loop-condition bound of progress is not accepted when the bound mentions len(E) and the loop body assigns E (a list that grows with the loop).",
		Assumptions: []string{
			"Go semantics of indexing, slicing (len used as the bound, conservatively) and integer conversion; encoding/binary readers need exactly their width",
			"sizes are mathematical integers except where a narrow unsigned operation can overflow by the declared ranges of its operands (then the value is opaque)",
			"assumed_safe.json rows (reviewed prover incompleteness), each with its reason",
		},
	})
}

// totalityScope selects the functions a totality property covers.
type totalityScope struct {
	prop   string
	funcs  []*FuncInfo
	reason map[*FuncInfo]string
}

type siteKey struct {
	fn, inst string
}

// decideTotality applies the bounds / wrap / progress / alloc rules to funcs.
func decideTotality(w *World, r *Report, funcs []*FuncInfo, contained func(fi *FuncInfo) string) {
	nSites, nLoops, nAlloc := 0, 0, 0
	for _, fi := range funcs {
		fs := w.Interpret(fi, "decode")
		cont := ""
		if contained != nil {
			cont = contained(fi)
		}
		// ---- shapes outside the language
		for _, n := range fs.Notes {
			if strings.Contains(n.Text, "unhandled") || strings.Contains(n.Text, "goto") {
				r.Fail(VUndecided, "bounds", fi.Key, "shape:"+normNote(n.Text), w.Pos(n.Pos), "statement outside the interpreter's language: "+normNote(n.Text))
			}
		}
		// ---- bounds
		seen := map[string]int{}
		dedup := map[string]bool{}
		for _, s := range fs.Sites {
			dk := fmt.Sprintf("%d|%s|%s", s.Pos, s.Kind, s.Text)
			if dedup[dk] {
				continue
			}
			dedup[dk] = true
			base := s.Kind + ":" + normSite(s.Text)
			seen[base]++
			inst := base
			if seen[base] > 1 {
				inst = fmt.Sprintf("%s#%d", base, seen[base])
			}
			nSites++
			var failed *Need
			for i := range s.Needs {
				if !w.ProveX(s.Needs[i].A, s.Needs[i].B, s.Facts) {
					failed = &s.Needs[i]
					break
				}
			}
			if failed == nil {
				r.OK("bounds", fi.Key, inst, w.Pos(s.Pos), fmt.Sprintf("%d obligations proved from %d dominating facts", len(s.Needs), len(s.Facts)), len(s.Facts) > 0)
				continue
			}
			diag := fmt.Sprintf("%s: %s needs %v <= %v, which the dominating conditions do not give", s.Text, failed.What, failed.A, failed.B)
			if cont != "" {
				r.OK("bounds", fi.Key, inst, w.Pos(s.Pos), "not proved in range, but contained: "+cont, true)
				continue
			}
			r.Fail(VViolation, "bounds", fi.Key, inst, w.Pos(s.Pos), diag)
		}
		// ---- wrap: narrow arithmetic in what steers the decoder
		wraps := map[string]string{}
		note := func(t *Term, where string) {
			if t == nil {
				return
			}
			t.HasAtom(func(a *Atom) bool {
				if a.Kind == "wrap" {
					if _, ok := wraps[a.Key()]; !ok {
						wraps[a.Key()] = where
					}
				}
				return false
			})
		}
		for _, s := range fs.Sites {
			for _, nd := range s.Needs {
				note(nd.A, "bound of "+s.Text)
				note(nd.B, "bound of "+s.Text)
			}
			for _, f := range s.Facts {
				note(f.L, "guard "+f.Src)
				note(f.R, "guard "+f.Src)
			}
		}
		for _, l := range fs.Loops {
			for _, c := range l.Cursors {
				for _, p := range c.Paths {
					note(p, "step of cursor "+c.Var)
				}
			}
		}
		for _, a := range fs.Allocs {
			note(a.Size, "size of "+a.Text)
		}
		var wk []string
		for k := range wraps {
			wk = append(wk, k)
		}
		sort.Strings(wk)
		for _, k := range wk {
			r.Fail(VViolation, "wrap", fi.Key, k, w.Pos(fi.Decl.Pos()), fmt.Sprintf("%s is computed as %s: narrow unsigned arithmetic on a wire field whose range admits overflow, so the value the decoder acts on can be far smaller than the real one", wraps[k], k))
		}
		// size functions called by the decoder must be wrap-free
		lenSeen := map[*types.Func]bool{}
		ast.Inspect(fi.Decl.Body, func(n ast.Node) bool {
			c, ok := n.(*ast.CallExpr)
			if !ok {
				return true
			}
			fn, _ := typeutil.Callee(fi.Pkg.TypesInfo, c).(*types.Func)
			if fn == nil || fn.Name() != "Len" || lenSeen[fn] {
				return true
			}
			lf := w.FuncOf(fn)
			if lf == nil || !w.isLenSig(fn) {
				return true
			}
			lenSeen[fn] = true
			ls := w.LenSummaryOf(fn)
			if ls == nil || ls.Term == nil {
				r.Fail(VUndecided, "wrap", fi.Key, "calls:"+lf.Key, w.Pos(c.Pos()), "no summary of the size function "+lf.Key)
				return true
			}
			bad := ""
			ls.Term.HasAtom(func(a *Atom) bool {
				if a.Kind == "wrap" && bad == "" {
					bad = a.Key()
				}
				return false
			})
			if bad != "" {
				r.Fail(VViolation, "wrap", fi.Key, "calls:"+lf.Key, w.Pos(c.Pos()), fmt.Sprintf("the decoder relies on %s, which computes %s: the size wraps for large wire values (a guard passes, or a loop stops advancing)", lf.Key, bad))
			} else {
				r.OK("wrap", fi.Key, "calls:"+lf.Key, w.Pos(c.Pos()), "size function "+lf.Key+" = "+ls.Term.String()+" (no narrow overflow)", true)
			}
			return true
		})
		if len(wk) == 0 {
			r.OK("wrap", fi.Key, "", w.Pos(fi.Decl.Pos()), "no narrow-arithmetic value in any guard, bound, step or allocation size", false)
		}
		// ---- progress
		for li, l := range fs.Loops {
			nLoops++
			inst := fmt.Sprintf("%s-loop#%d", l.Kind, li+1)
			pos := w.Pos(l.Pos)
			switch {
			case l.Bounded != "":
				r.OK("progress", fi.Key, inst, pos, "bounded: "+l.Bounded, false)
			case l.NBack == 0 && l.Kind == "for":
				r.OK("progress", fi.Key, inst, pos, "no path returns to the loop head", false)
			default:
				okc := ""
				var why []string
				for _, cp := range l.Prog {
					if cp.Strict && cp.Bound != "" {
						okc = fmt.Sprintf("cursor %s grows by >= 1 on each of the %d paths back to the head; %s", cp.Var, l.NBack, cp.Bound)
						break
					}
					switch {
					case !cp.Strict:
						why = append(why, cp.Var+": "+cp.MinWhy)
					default:
						why = append(why, cp.Var+": grows, but nothing bounds it")
					}
				}
				if okc != "" {
					r.OK("progress", fi.Key, inst, pos, okc, true)
				} else {
					if len(why) == 0 {
						why = []string{"no integer cursor is advanced in the loop"}
					}
					r.Fail(VViolation, "progress", fi.Key, inst, pos, "no termination argument: "+strings.Join(why, "; ")+" — a crafted length field can keep the loop from advancing")
				}
			}
		}
		// ---- alloc
		for ai, a := range fs.Allocs {
			nAlloc++
			inst := fmt.Sprintf("alloc#%d:%s", ai+1, normSite(a.Text))
			pos := w.Pos(a.Pos)
			if a.Size == nil {
				continue
			}
			if a.Size.IsConst() {
				r.OK("alloc", fi.Key, inst, pos, "constant size", false)
				continue
			}
			if ub, ok := a.Size.UpperBound(); ok && a.Size.NonNeg() && ub <= 4096 {
				r.OK("alloc", fi.Key, inst, pos, fmt.Sprintf("size %v <= %d by the declared ranges of the wire fields (a small constant bound)", a.Size, ub), true)
				continue
			}
			if w.ProveX(a.Size, LenOf("P"), a.Facts) && w.ProveX(Const(0), a.Size, a.Facts) {
				r.OK("alloc", fi.Key, inst, pos, fmt.Sprintf("size %v <= len(input)", a.Size), true)
				continue
			}
			// a quotient A/B with A >= 0 and B >= 1 (B = 0 is a division panic, not an allocation) is at most A
			if rel, num, ok := relaxQuotients(a.Size); ok && w.ProveX(rel, LenOf("P"), a.Facts) {
				nonneg := true
				for _, n := range num {
					if !w.ProveX(Const(0), n, a.Facts) {
						nonneg = false
					}
				}
				if nonneg {
					r.OK("alloc", fi.Key, inst, pos, fmt.Sprintf("size %v <= %v <= len(input) (a quotient of a non-negative amount by a positive size)", a.Size, rel), true)
					continue
				}
			}
			if !a.Size.HasAtom(func(at *Atom) bool { return strings.Contains(at.Path, "P[") || strings.HasPrefix(at.Path, "P") }) && !strings.Contains(a.Size.String(), "P[") {
				r.OK("alloc", fi.Key, inst, pos, fmt.Sprintf("size %v does not depend on the input", a.Size), false)
				continue
			}
			r.Fail(VViolation, "alloc", fi.Key, inst, pos, fmt.Sprintf("allocation of %v elements is steered by a wire field and not bounded by the input length (or a small constant): a few bytes of input can demand a large allocation", a.Size))
		}
	}
	r.Stats["decoder_functions"] = len(funcs)
	r.Stats["bounds_sites"] = nSites
	r.Stats["loops"] = nLoops
	r.Stats["allocation_sites"] = nAlloc
}

func runC08(w *World, r *Report) {
	r.Rule("bounds", "every index/slice/read site is in range on every path", 200)
	r.Rule("wrap", "no narrow-arithmetic overflow in guards, bounds, steps, sizes or called size functions", 20)
	r.Rule("progress", "every loop has a growing, bounded cursor (or ranges over a slice)", 8)
	r.Rule("alloc", "allocation sizes are bounded by 16-bit fields or the input length", 10)
	var funcs []*FuncInfo
	for _, key := range w.sortedFuncKeys() {
		fi := w.Funcs[key]
		if fi.Pkg.Name == "protocol" && w.isDecoderLike(fi) {
			// an unexported step of a decoder is reached only through its callers, with what they checked:
			// its sites are decided inside each caller (the interpreter inlines it there), not on arbitrary input
			if !ast.IsExported(fi.Decl.Name.Name) && w.calledFromModule(fi) && fi.Decl.Name.Name != "init" {
				continue
			}
			funcs = append(funcs, fi)
		}
	}
	if len(funcs) < 20 {
		r.Fail(VViolation, "bounds", "protocol", "inventory", "-", fmt.Sprintf("only %d byte-slice consuming functions found in package protocol (reference tree: 45)", len(funcs)))
	}
	decideTotality(w, r, funcs, nil)
	r.Rule("nilrecv", "decoders call methods on their receiver's interface/pointer fields only after assigning them on every path", 10)
	nilRecvRule(w, r, funcs)
}

// relaxQuotients replaces every quotient A/B that occurs with a positive coefficient and a divisor that
// cannot be negative by its numerator A (an upper bound when A >= 0); returns the numerators used.
func relaxQuotients(t *Term) (*Term, []*Term, bool) {
	out := Const(t.C)
	var nums []*Term
	found := false
	for _, k := range t.keys() {
		a, c := t.Atoms[k], t.K[k]
		if a.Kind == "div" && c > 0 && len(a.Sub) == 2 {
			b := a.Sub[1]
			if (b.IsConst() && b.C >= 1) || (!b.IsConst() && b.NonNeg()) {
				out = out.AddScaled(a.Sub[0], c)
				nums = append(nums, a.Sub[0])
				found = true
				continue
			}
		}
		out = out.AddScaled(FromAtom(a), c)
	}
	return out, nums, found
}

// nilRecvRule: a decoder calls a method on an interface- or pointer-typed field of its receiver only after it
// has assigned that field a value on every path to the call (or under a nil test). Decoders are handed fresh
// receivers (new(T)): a field that some path leaves as it was is nil there, and the call panics.
func nilRecvRule(w *World, r *Report, funcs []*FuncInfo) {
	for _, fi := range funcs {
		if fi.Recv == nil || fi.Decl.Name.Name != "UnmarshalBinary" {
			continue
		}
		fs := w.Interpret(fi, "decode")
		seen := map[string]bool{}
		for _, c := range fs.Calls {
			var path string
			var t types.Type
			mayNil := false
			switch v := c.Recv.(type) {
			case ObjV:
				path, t = v.Path, v.Type
				if !strings.HasPrefix(path, "$.") {
					continue // an object this activation created
				}
				mayNil = true // the receiver's field as it was on entry
			case MaybeV:
				path, t, mayNil = v.V.Path, v.V.Type, true
			case AltV:
				if !v.MayNil || len(v.Alts) == 0 {
					continue
				}
				path, t, mayNil = v.Alts[0].Path, v.Alts[0].Type, true
			case NilV:
				path, mayNil = c.Text, true
			default:
				continue
			}
			if !mayNil || strings.Contains(path, "[*]") {
				continue
			}
			if fi.Recv != nil {
				if ft := declaredTypeAt(fi.Recv, path); ft != nil {
					t = ft
				}
			}
			if t != nil {
				switch t.Underlying().(type) {
				case *types.Interface, *types.Pointer:
				default:
					continue
				}
			}
			if strings.Contains(c.Guard, "!("+path+"==nil)") {
				continue
			}
			inst := path + "." + calleeName(c)
			if seen[inst] {
				continue
			}
			seen[inst] = true
			r.Fail(VViolation, "nilrecv", fi.Key, inst, w.Pos(c.Pos), fmt.Sprintf("%s is called on %s, which this decoder has not assigned on every path to the call: on a fresh receiver it is nil there and the call panics", calleeName(c), path))
		}
		if len(seen) == 0 {
			r.OK("nilrecv", fi.Key, "", w.Pos(fi.Decl.Pos()), "every method call on a receiver field follows an assignment of that field on all paths", len(fs.Calls) > 0)
		}
	}
}

func calleeName(c *CallRec) string {
	if c.Callee != nil {
		return c.Callee.Name()
	}
	return "method"
}
