#!/bin/bash
# usage: recheck_seed.sh <seed-id>
# Re-confirms a stored seeded change against /repo's current HEAD (after fix: commits the base moves):
# prints "<id> LIVE" when the patch applies, the suite passes with it and the demonstration fails with it
# and passes without; "<id> STALE <why>" otherwise. Changes nothing under /verif.
set -u
export GOFLAGS=-mod=mod GOPROXY=off GOSUMDB=off GOTOOLCHAIN=local
unset GOWORK
ID=$1; SRC=/verif/seeded/$ID
WT=/tmp/seedrecheck/$ID
rm -rf $WT; mkdir -p /tmp/seedrecheck
git -C /repo worktree add -q --detach $WT HEAD || { echo "$ID worktree-failed"; exit 2; }
cleanup() { git -C /repo worktree remove --force $WT 2>/dev/null; rm -rf $WT /tmp/seedrecheck/$ID-demo; }
trap cleanup EXIT
cd $WT
if ! git apply $SRC/patch.diff 2>/dev/null; then
  if ! git apply -3 $SRC/patch.diff 2>/dev/null; then echo "$ID STALE patch no longer applies"; exit 1; fi
fi
if ! go build ./... 2>/dev/null; then echo "$ID STALE does not build"; exit 1; fi
suite=$(go test -vet=off -count=1 ./openflow13/ ./protocol/ ./common/ ./util/ ./ofbase/ 2>&1)
if echo "$suite" | grep -q "^FAIL\|^--- FAIL"; then echo "$ID STALE suite fails with the patch"; exit 1; fi
if [ -f $SRC/demo_test.go ]; then
  pkg=$(grep -m1 '^package ' $SRC/demo_test.go | awk '{print $2}'); pkg=${pkg%_test}
  case $pkg in libOpenflow) dir=. ;; *) dir=$pkg ;; esac
  cp $SRC/demo_test.go $dir/zz_seed_demo_test.go
  tests=$(grep -oE '^func (Test[A-Za-z0-9_]+)' $SRC/demo_test.go | awk '{print $2}' | paste -sd'|')
  runit() { (cd $WT && timeout 600 go test -vet=off -count=1 $1 -run "^($tests)\$" ./$dir/ 2>&1); }
elif [ -f $SRC/demo/main.go ]; then
  mkdir -p /tmp/seedrecheck/$ID-demo; cp -r $SRC/demo/. /tmp/seedrecheck/$ID-demo/
  (cd /tmp/seedrecheck/$ID-demo && sed -i "s|=> .*|=> $WT|" go.mod && cp $WT/go.sum . 2>/dev/null)
  runit() { (cd /tmp/seedrecheck/$ID-demo && timeout 600 go run $1 . 2>&1); }
else echo "$ID STALE no demonstration"; exit 1; fi
flag=""
grep -q -- "-race" $SRC/meta.json 2>/dev/null && flag="-race"
out1=$(runit "$flag"); rc1=$?
if [ $rc1 -eq 0 ]; then echo "$ID STALE demonstration passes with the patch on the current base (the change no longer breaks the property)"; exit 1; fi
git checkout -q -- . 2>/dev/null; git apply -R $SRC/patch.diff 2>/dev/null
git stash -q 2>/dev/null; git checkout -q -- .
[ -f $SRC/demo_test.go ] && cp $SRC/demo_test.go $dir/zz_seed_demo_test.go
out2=$(runit "$flag"); rc2=$?
if [ $rc2 -ne 0 ]; then echo "$ID STALE demonstration fails on the current base without the patch: $(echo "$out2" | grep -m2 -E 'FAIL|panic|rror' | tr '\n' ' ' | cut -c1-200)"; exit 1; fi
echo "$ID LIVE"
