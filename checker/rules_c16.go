package main

// C16 — bit-range helpers (DESIGN §3 C16). Every helper is a loop-free integer
// function; it is interpreted path by path over lane vectors / linear terms
// with the statement's domain as facts, and the closed form it produces is
// compared with the specified one. Nothing is sampled.

import (
	"fmt"
	"go/ast"
	"go/token"
	"go/types"
	"sort"
	"strings"

	"golang.org/x/tools/go/ssa"
)

func init() {
	register(&propCheck{
		ID:      "C16",
		Run:     runC16,
		NeedSSA: true,
		Level:   "Static analysis (bit-lane / closed-form abstract interpretation of each range helper, every control-flow path separately, with the statement's domain as linear facts). Decides the statement: mask — on every path feasible inside 0 <= first <= last <= 31 the mask helper's result has the closed form 'last-first+1 ones starting at bit first' (shift counts proved within the word, no negative count converted to unsigned); word — both encoders of the offset/width word put the offset in bits 6..15 and width-1 in bits 0..5 with no lane overlap for offset < 1024, 1 <= width <= 64; inverse — the two decoders applied to the encoders' lanes give back offset and width exactly; range — the accessors of a range return first and last-first+1, the two constructors describe the same range (last = offset+width-1), and the range's own word encoder composes to the same lanes. A result that cannot be brought to the specified closed form is reported (violation when a side condition fails, undecided when the shape is outside the engine's language); no value is ever executed or enumerated.",
		Assumptions: []string{
			"Go shift semantics: a shift count >= the operand width yields 0; conversion of a negative int to an unsigned type wraps",
			"domain of the statement: ranges inside a 32-bit register (0 <= first <= last <= 31) for the mask; offset < 1024 and 1 <= width <= 64 for the word",
		},
	})
}

type c16Out struct {
	paths []*bvPath
	fi    *FuncInfo
}

func runC16(w *World, r *Report) {
	r.Rule("shiftwidth", "no shift by a constant count that is as large as its operand's type (the value would always be 0: bits lost before widening)", 1)
	shiftWidthRule(w, r, "shiftwidth", func(fi *FuncInfo) bool { return fi.Pkg.Types.Name() == "openflow13" })
	r.Rule("observers", "methods that formatting calls implicitly (String, Error, …) leave the value unchanged", 1)
	observerRule(w, r, "observers", "openflow13")
	r.Rule("stateless", "the range helpers depend on no package-level state that a call can change and hand out no shared object", 8)
	importStateless(w, r, "stateless")
	r.Rule("mask", "the mask helper yields exactly the bits of the range on every feasible path", 1)
	r.Rule("word", "offset in bits 6..15, width-1 in bits 0..5 of the offset/width word", 2)
	r.Rule("inverse", "the word decoders invert the word encoders", 2)
	r.Rule("range", "range accessors and constructors agree (first/last vs offset/width)", 5)
	r.Rule("nosentinel", "no code treats the zero range as 'no range': [0..0] is a legitimate one-bit range", 1)
	noSentinelRule(w, r)
	r.Rule("immutable", "a range object is written only by the function that allocates it", 2)
	immutableRangeRule(w, r)
	r.Rule("payload-immutable", "value and mask objects of match fields (what a register match got from its range) are never written after they were built", 1)
	payloadImmutableRule(w, r)

	get := func(key string, rule string) *FuncInfo {
		fi := w.Funcs[key]
		if fi == nil {
			r.Fail(VViolation, rule, key, "", "-", "the helper "+key+" no longer exists (anchor of the rule cannot be resolved)")
		}
		return fi
	}
	// feasible returns the paths that are inside the domain; a path outside the
	// engine's language is reported. inst names a path when there are several.
	feasible := func(rule, key string, paths []*bvPath, pos string) []*bvPath {
		var live []*bvPath
		for _, p := range paths {
			if len(p.Undec) > 0 {
				r.Fail(VUndecided, rule, key, "", pos, "outside the bit-level language: "+strings.Join(p.Undec, "; "))
				return nil
			}
			if infeasible(p.Ctx) {
				continue
			}
			live = append(live, p)
		}
		if len(live) == 0 {
			r.Fail(VUndecided, rule, key, "", pos, "no feasible control-flow path inside the domain")
		}
		return live
	}
	inst := func(p *bvPath) string {
		if len(p.Conds) == 0 {
			return ""
		}
		return "path:" + strings.Join(p.Conds, "&&")
	}
	retBV := func(p *bvPath) (BV, bool) {
		if len(p.Ret) < 1 || p.Ret[0] == nil || p.Ret[0].Opaque != "" || p.Ret[0].Fields != nil {
			return BV{}, false
		}
		return p.Ret[0].BV, true
	}

	// ---------------------------------------------------------------- mask
	if fi := get("openflow13.NXRange.ToUint32Mask", "mask"); fi != nil {
		pos := w.Pos(fi.Decl.Pos())
		ctx := newBvCtx()
		start := ctx.declare("start", 64, true, 0, 31)
		end := ctx.declare("end", 64, true, 0, 31)
		ctx.facts = append(ctx.facts, Fact{L: ValOf("start"), R: ValOf("end"), Src: "first <= last"})
		paths := w.RunBV(fi, ctx, map[string]BV{"start": start, "end": end}, nil)
		wantLo, wantN := ValOf("start"), ValOf("end").Sub(ValOf("start")).AddC(1)
		if len(paths) == 0 {
			r.Fail(VUndecided, "mask", fi.Key, "", pos, "no path")
		}
		for i, p := range paths {
			inst := "path:" + strings.Join(p.Conds, "&&")
			if inst == "path:" {
				inst = ""
			}
			_ = i
			if len(p.Undec) > 0 {
				r.Fail(VUndecided, "mask", fi.Key, inst, pos, "outside the bit-level language: "+strings.Join(p.Undec, "; "))
				continue
			}
			// a path whose condition contradicts the domain is infeasible: 1 <= 0 provable from its facts
			if ok, _ := Prove(Const(1), Const(0), p.Ctx.facts); ok {
				continue
			}
			if infeasible(p.Ctx) {
				r.OK("mask", fi.Key, inst, pos, "path infeasible inside the domain", true)
				continue
			}
			v, ok := retBV(p)
			if !ok {
				r.Fail(VUndecided, "mask", fi.Key, inst, pos, "result is not an integer value of the engine")
				continue
			}
			dom := "0 <= first <= last <= 31"
			if len(p.Conds) > 0 {
				dom += " and " + strings.Join(p.Conds, " and ")
			}
			switch {
			case v.Mask != nil && p.Ctx.equal(v.Mask.Lo, wantLo) && p.Ctx.equal(v.Mask.N, wantN):
				r.OK("mask", fi.Key, inst, pos, fmt.Sprintf("result = %v ones starting at bit %v on {%s}", v.Mask.N, v.Mask.Lo, dom), true)
			case v.Mask != nil:
				r.Fail(VViolation, "mask", fi.Key, inst, pos, fmt.Sprintf("on {%s} the result is %v ones starting at bit %v; specified: %v ones starting at bit %v", dom, v.Mask.N, v.Mask.Lo, wantN, wantLo))
			default:
				why := v.Why
				if why == "" {
					why = "result " + v.String() + " is not of the form 'n ones << lo'"
				}
				r.Fail(VViolation, "mask", fi.Key, inst, pos, fmt.Sprintf("on {%s}: %s", dom, why))
			}
		}
	}

	// ---------------------------------------------------------------- word
	wantWord := func(ctx *bvCtx, v BV, ofsName string, nm1 *Term) string {
		// bits 0..5 = (width-1)[0..5], bits 6..15 = ofs[0..9]
		var bad []string
		nmName := nm1.String()
		if a := nm1.SingleAtom(); a != nil && a.Kind == "val" {
			nmName = a.Path
		}
		for i := 0; i < v.W; i++ {
			b := v.Bits[i]
			switch {
			case i < 6:
				if !(b.K == 's' && b.I == i && ctx.srcTerm[b.Src] != nil && ctx.srcTerm[b.Src].Equal(nm1)) && !(b.K == 's' && b.Src == nmName && b.I == i) {
					bad = append(bad, fmt.Sprintf("bit %d is %s, specified (width-1)[%d]", i, b.String(), i))
				}
			case i < 16:
				if !(b.K == 's' && b.Src == ofsName && b.I == i-6) {
					bad = append(bad, fmt.Sprintf("bit %d is %s, specified offset[%d]", i, b.String(), i-6))
				}
			default:
				if b.K != '0' {
					bad = append(bad, fmt.Sprintf("bit %d is %s, specified 0", i, b.String()))
				}
			}
		}
		if len(bad) > 3 {
			bad = append(bad[:3], fmt.Sprintf("… %d more", len(bad)-3))
		}
		s := strings.Join(bad, "; ")
		if s != "" && v.Why != "" {
			s += " (" + v.Why + ")"
		}
		return s
	}
	var encWord BV // lanes of encodeOfsNbits(ofs, nBits), reused for the inverse rule
	var encCtx *bvCtx
	if fi := get("openflow13.encodeOfsNbits", "word"); fi != nil {
		pos := w.Pos(fi.Decl.Pos())
		ctx := newBvCtx()
		ofs := ctx.declare("ofs", 16, false, 0, 1023)
		nb := ctx.declare("nBits", 16, false, 1, 64)
		for _, p := range feasible("word", fi.Key, w.RunBV(fi, ctx, nil, []*bvVal{{BV: ofs}, {BV: nb}}), pos) {
			if v, ok := retBV(p); !ok {
				r.Fail(VUndecided, "word", fi.Key, "", pos, "result is not an integer value of the engine")
			} else if d := wantWord(p.Ctx, v, "ofs", ValOf("nBits").AddC(-1)); d != "" {
				r.Fail(VViolation, "word", fi.Key, "", pos, "for offset < 1024, 1 <= width <= 64: "+d)
			} else {
				r.OK("word", fi.Key, "", pos, "lanes: "+v.String(), true)
				encWord, encCtx = v, p.Ctx
			}
		}
	}
	if fi := get("openflow13.encodeOfsNbitsStartEnd", "word"); fi != nil {
		pos := w.Pos(fi.Decl.Pos())
		ctx := newBvCtx()
		st := ctx.declare("start", 16, false, 0, 1023)
		en := ctx.declare("end", 16, false, 0, 1086)
		ctx.facts = append(ctx.facts, Fact{L: ValOf("start"), R: ValOf("end"), Src: "first <= last"},
			Fact{L: ValOf("end"), R: ValOf("start").AddC(63), Src: "width <= 64"})
		for _, p := range feasible("word", fi.Key, w.RunBV(fi, ctx, nil, []*bvVal{{BV: st}, {BV: en}}), pos) {
			if v, ok := retBV(p); !ok {
				r.Fail(VUndecided, "word", fi.Key, "", pos, "result is not an integer value of the engine")
			} else if d := wantWord(p.Ctx, v, "start", ValOf("end").Sub(ValOf("start"))); d != "" {
				r.Fail(VViolation, "word", fi.Key, "", pos, "for first < 1024, first <= last <= first+63: "+d)
			} else {
				r.OK("word", fi.Key, "", pos, "lanes: "+v.String(), true)
			}
		}
	}

	// ---------------------------------------------------------------- inverse
	if encCtx != nil {
		for _, d := range []struct {
			key  string
			want *Term
			what string
		}{{"openflow13.decodeOfs", ValOf("ofs"), "offset"}, {"openflow13.decodeNbits", ValOf("nBits"), "width"}} {
			fi := get(d.key, "inverse")
			if fi == nil {
				continue
			}
			pos := w.Pos(fi.Decl.Pos())
			for _, p := range feasible("inverse", fi.Key, w.RunBV(fi, encCtx.clone(), nil, []*bvVal{{BV: encWord}}), pos) {
				v, ok := retBV(p)
				if !ok {
					r.Fail(VUndecided, "inverse", fi.Key, "", pos, "result is not an integer value of the engine")
					continue
				}
				if l := p.Ctx.linOf(v); l != nil && p.Ctx.equal(l, d.want) {
					r.OK("inverse", fi.Key, "", pos, fmt.Sprintf("%s(encodeOfsNbits(ofs, nBits)) = %v for all ofs < 1024, 1 <= nBits <= 64", fi.Decl.Name.Name, l), true)
				} else {
					got := v.String()
					if v.Why != "" {
						got += " (" + v.Why + ")"
					}
					r.Fail(VViolation, "inverse", fi.Key, inst(p), pos, fmt.Sprintf("applied to the encoded word the result is %s, not the %s %v", got, d.what, d.want))
				}
			}
		}
	} else {
		for _, k := range []string{"openflow13.decodeOfs", "openflow13.decodeNbits"} {
			r.Fail(VUndecided, "inverse", k, "", "-", "the word encoder has no lane summary to compose with")
		}
	}

	// ---------------------------------------------------------------- range
	rangeCtx := func() (*bvCtx, map[string]BV) {
		ctx := newBvCtx()
		st := ctx.declare("start", 64, true, 0, 1023)
		en := ctx.declare("end", 64, true, 0, 1086)
		ctx.facts = append(ctx.facts, Fact{L: ValOf("start"), R: ValOf("end"), Src: "first <= last"},
			Fact{L: ValOf("end"), R: ValOf("start").AddC(63), Src: "width <= 64"})
		return ctx, map[string]BV{"start": st, "end": en}
	}
	for _, d := range []struct {
		key  string
		want *Term
		what string
	}{{"openflow13.NXRange.GetOfs", ValOf("start"), "first bit"}, {"openflow13.NXRange.GetNbits", ValOf("end").Sub(ValOf("start")).AddC(1), "last-first+1"}} {
		fi := get(d.key, "range")
		if fi == nil {
			continue
		}
		pos := w.Pos(fi.Decl.Pos())
		ctx, recv := rangeCtx()
		for _, p := range feasible("range", fi.Key, w.RunBV(fi, ctx, recv, nil), pos) {
			v, ok := retBV(p)
			if l := p.Ctx.linOf(v); ok && l != nil && p.Ctx.equal(l, d.want) {
				r.OK("range", fi.Key, "", pos, fmt.Sprintf("returns %v", l), true)
			} else {
				got := "<not an integer>"
				if ok {
					got = v.String()
					if v.Why != "" {
						got += " (" + v.Why + ")"
					}
				}
				r.Fail(VViolation, "range", fi.Key, inst(p), pos, fmt.Sprintf("returns %s, specified %s = %v", got, d.what, d.want))
			}
		}
	}
	if fi := get("openflow13.NXRange.ToOfsBits", "range"); fi != nil {
		pos := w.Pos(fi.Decl.Pos())
		ctx, recv := rangeCtx()
		for _, p := range feasible("range", fi.Key, w.RunBV(fi, ctx, recv, nil), pos) {
			if v, ok := retBV(p); !ok {
				r.Fail(VUndecided, "range", fi.Key, "", pos, "result is not an integer value of the engine")
			} else if d := wantWord(p.Ctx, v, "start", ValOf("end").Sub(ValOf("start"))); d != "" {
				r.Fail(VViolation, "range", fi.Key, "", pos, "for first < 1024, first <= last <= first+63: "+d)
			} else {
				r.OK("range", fi.Key, "", pos, "lanes: "+v.String(), true)
			}
		}
	}
	ctorCheck := func(key string, args []string, wantStart, wantEnd *Term) {
		fi := get(key, "range")
		if fi == nil {
			return
		}
		pos := w.Pos(fi.Decl.Pos())
		ctx := newBvCtx()
		var av []*bvVal
		for _, a := range args {
			hi := int64(1023)
			lo := int64(0)
			if a == "nBits" {
				lo, hi = 1, 64
			}
			if a == "end" {
				hi = 1086
			}
			av = append(av, &bvVal{BV: ctx.declare(a, 64, true, lo, hi)})
		}
		for _, p := range feasible("range", fi.Key, w.RunBV(fi, ctx, nil, av), pos) {
			if len(p.Ret) != 1 || p.Ret[0] == nil || p.Ret[0].Fields == nil {
				r.Fail(VUndecided, "range", fi.Key, inst(p), pos, "the constructor does not return a range literal")
				continue
			}
			f := p.Ret[0].Fields
			ls, le := p.Ctx.linOf(f["start"]), p.Ctx.linOf(f["end"])
			if ls != nil && le != nil && p.Ctx.equal(ls, wantStart) && p.Ctx.equal(le, wantEnd) {
				r.OK("range", fi.Key, "", pos, fmt.Sprintf("first = %v, last = %v", ls, le), true)
			} else {
				r.Fail(VViolation, "range", fi.Key, inst(p), pos, fmt.Sprintf("on {%s} builds first = %v, last = %v; specified first = %v, last = %v", strings.Join(p.Conds, " and "), f["start"].String(), f["end"].String(), wantStart, wantEnd))
			}
		}
	}
	ctorCheck("openflow13.NewNXRange", []string{"start", "end"}, ValOf("start"), ValOf("end"))
	ctorCheck("openflow13.NewNXRangeByOfsNBits", []string{"ofs", "nBits"}, ValOf("ofs"), ValOf("ofs").Add(ValOf("nBits")).AddC(-1))
}

// infeasible: the path's facts contradict each other (some atom is forced
// both >= a+1 and <= a through at most two facts).
func infeasible(c *bvCtx) bool {
	for _, f := range c.facts {
		// f: L <= R. Contradiction if R+1 <= L is provable.
		if ok, _ := Prove(f.R.AddC(1), f.L, c.facts); ok {
			return true
		}
	}
	return false
}

// noSentinelRule: a range value is never compared with another range value (in particular with the zero
// value NXRange{}) to decide whether a range was given: the zero value is the one-bit range at bit 0, so
// such a test silently treats it as absent (no mask is emitted, offset/width 0 is encoded).
func noSentinelRule(w *World, r *Report) {
	of := w.ByName["openflow13"]
	if of == nil {
		return
	}
	tn, _ := of.Types.Scope().Lookup("NXRange").(*types.TypeName)
	if tn == nil {
		r.Fail(VViolation, "nosentinel", "openflow13.NXRange", "", "-", "the range type no longer exists (anchor of the rule cannot be resolved)")
		return
	}
	isRange := func(t types.Type) bool { return t != nil && types.Identical(t, tn.Type()) }
	n, uses := 0, 0
	for _, key := range w.sortedFuncKeys() {
		fi := w.Funcs[key]
		if fi.Decl.Body == nil {
			continue
		}
		info := fi.Pkg.TypesInfo
		touches := false
		ast.Inspect(fi.Decl, func(nd ast.Node) bool {
			if e, ok := nd.(ast.Expr); ok {
				if t := info.TypeOf(e); t != nil {
					if p, ok := t.Underlying().(*types.Pointer); ok {
						t = p.Elem()
					}
					if isRange(t) {
						touches = true
					}
				}
			}
			be, ok := nd.(*ast.BinaryExpr)
			if !ok || (be.Op != token.EQL && be.Op != token.NEQ) {
				return true
			}
			if isRange(info.TypeOf(be.X)) || isRange(info.TypeOf(be.Y)) {
				n++
				r.Fail(VViolation, "nosentinel", fi.Key, types.ExprString(be), w.Pos(be.Pos()), "a range value is compared as a whole ("+types.ExprString(be)+"): the zero value it is compared with is the legitimate range [0..0], which is then treated as 'no range'")
			}
			return true
		})
		if touches {
			uses++
		}
	}
	if n == 0 {
		r.OK("nosentinel", "openflow13.NXRange", "", w.Pos(tn.Pos()), fmt.Sprintf("%d functions handle range values; none compares one as a whole (presence is decided by a nil pointer)", uses), true)
	}
}

// immutableRangeRule: a range object is handed to several helpers in turn (a register match, the mask, the
// offset/width word, a conntrack zone). The agreement the statement asks for between these views holds only
// while the object they are derived from stays what its constructor made it: every store into a field of
// NXRange must hit an object allocated in the storing function itself (the constructors), never one that
// came in through a parameter, a field or a call.
func immutableRangeRule(w *World, r *Report) {
	of := w.ByName["openflow13"]
	var named *types.Named
	if of != nil {
		if tn, _ := of.Types.Scope().Lookup("NXRange").(*types.TypeName); tn != nil {
			named, _ = tn.Type().(*types.Named)
		}
	}
	if named == nil {
		r.Fail(VViolation, "immutable", "openflow13.NXRange", "", "-", "the range type no longer exists (anchor cannot be resolved)")
		return
	}
	sw := w.SSA()
	var fns []*ssa.Function
	for fn := range sw.All {
		if w.inModule(fn) && len(fn.Blocks) > 0 && !isTestFunc(w, fn) {
			fns = append(fns, fn)
		}
	}
	sort.Slice(fns, func(i, j int) bool { return fns[i].String() < fns[j].String() })
	nStores, nBad := 0, 0
	for _, fn := range fns {
		perFn := 0
		for _, b := range fn.Blocks {
			for _, ins := range b.Instrs {
				st, ok := ins.(*ssa.Store)
				if !ok {
					continue
				}
				// whole-object store (*p = NXRange{…}) or field store (p.end = …)
				var base ssa.Value
				switch a := st.Addr.(type) {
				case *ssa.FieldAddr:
					if pt, ok := a.X.Type().Underlying().(*types.Pointer); ok && types.Identical(pt.Elem(), named) {
						base = a.X
					}
				default:
					if pt, ok := st.Addr.Type().Underlying().(*types.Pointer); ok && types.Identical(pt.Elem(), named) {
						base = st.Addr
					}
				}
				if base == nil {
					continue
				}
				nStores++
				perFn++
				if _, fresh := base.(*ssa.Alloc); fresh {
					r.OK("immutable", ssaFuncKey(w, fn), fmt.Sprintf("store#%d", perFn), w.Pos(st.Pos()), "store into a range object allocated in this function (a constructor)", true)
					continue
				}
				nBad++
				r.Fail(VViolation, "immutable", ssaFuncKey(w, fn), describeAddr(st.Addr), w.Pos(st.Pos()), "a field of a range object that was not allocated here is overwritten: the caller's range changes under it, and the mask, the offset/width word and the matches derived from it before and after no longer describe the same bits")
			}
		}
	}
	r.Stats["range_field_stores"] = nStores
}

// payloadImmutableRule: a match field is copied by value all over the API (Match.AddField(*f), struct
// assignment); the copy shares the Value and Mask objects of the original. The mask bytes a register match
// got from its range stay what the range said only while those payload objects are never written after
// they were built: every store into a field of a match-field payload type (the types DecodeMatchField
// allocates) happens in a method of that type (its decoder fills the receiver) or hits an object allocated
// in the storing function.
func payloadImmutableRule(w *World, r *Report) {
	df := w.Funcs["openflow13.DecodeMatchField"]
	if df == nil {
		r.Fail(VViolation, "payload-immutable", "openflow13.DecodeMatchField", "", "-", "the match-field dispatcher no longer exists (anchor cannot be resolved)")
		return
	}
	payload := map[*types.Named]bool{}
	ast.Inspect(df.Decl.Body, func(n ast.Node) bool {
		c, ok := n.(*ast.CallExpr)
		if !ok || len(c.Args) != 1 {
			return true
		}
		if id, ok := unparen(c.Fun).(*ast.Ident); ok && id.Name == "new" {
			if nt, ok := df.Pkg.TypesInfo.TypeOf(c.Args[0]).(*types.Named); ok {
				payload[nt] = true
			}
		}
		return true
	})
	if len(payload) < 10 {
		r.Fail(VUndecided, "payload-immutable", "openflow13.DecodeMatchField", "", w.Pos(df.Decl.Pos()), fmt.Sprintf("only %d payload types found in the dispatcher", len(payload)))
		return
	}
	sw := w.SSA()
	var fns []*ssa.Function
	for fn := range sw.All {
		if w.inModule(fn) && len(fn.Blocks) > 0 && !isTestFunc(w, fn) {
			fns = append(fns, fn)
		}
	}
	sort.Slice(fns, func(i, j int) bool { return fns[i].String() < fns[j].String() })
	nStores := 0
	for _, fn := range fns {
		// methods of the payload type itself build or decode their receiver
		var own *types.Named
		if fn.Signature.Recv() != nil {
			t := fn.Signature.Recv().Type()
			if p, ok := t.Underlying().(*types.Pointer); ok {
				t = p.Elem()
			}
			own, _ = t.(*types.Named)
		}
		per := 0
		for _, b := range fn.Blocks {
			for _, ins := range b.Instrs {
				st, ok := ins.(*ssa.Store)
				if !ok {
					continue
				}
				fa, ok := st.Addr.(*ssa.FieldAddr)
				if !ok {
					continue
				}
				pt, ok := fa.X.Type().Underlying().(*types.Pointer)
				if !ok {
					continue
				}
				nt, _ := pt.Elem().(*types.Named)
				if nt == nil || !payload[nt] || nt == own {
					continue
				}
				nStores++
				per++
				if _, fresh := fa.X.(*ssa.Alloc); fresh {
					continue
				}
				r.Fail(VViolation, "payload-immutable", ssaFuncKey(w, fn), fmt.Sprintf("%s#%d", nt.Obj().Name(), per), w.Pos(st.Pos()), "a field of an existing "+nt.Obj().Name()+" (a match-field value or mask object) is overwritten in place: every copy of the match field made by value shares that object, so masks and values already handed out change under their holders")
			}
		}
	}
	r.OK("payload-immutable", "inventory", "", "-", fmt.Sprintf("%d payload types; %d stores into their fields outside their own methods, all into objects allocated in the storing function", len(payload), nStores), true)
}
