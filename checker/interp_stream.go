package main

// Streams: the io.Reader / io.Writer style codecs (DHCP, the LLDP TLVs) build their encoding in a local
// bytes.Buffer with binary.Write and hand it out with buf.Read(b); their decoders wrap the input in
// bytes.NewBuffer(b) and take it apart with binary.Read. A local bytes.Buffer is interpreted as a byte
// buffer that is updated in place:
//   write stream  — Origin "stream": Len is the number of bytes written so far; every binary.Write /
//                   Write / WriteByte appends a record at offset Len (as append does for a slice);
//                   buf.Read(b) publishes the buffer as the function's encoding (StreamOut);
//   read stream   — Origin "rstream": a cursor over the decoder's input; Len is the absolute offset of the
//                   next unread byte, Extent the end of the window; every binary.Read is a read record at
//                   the cursor, of the size of what the pointer argument points to, stored through it.
// Sizes follow encoding/binary: fixed-size basic types, arrays and structs of them by their static type,
// byte slices by their current length.

import (
	"go/ast"
	"go/token"
	"go/types"
	"strings"
)

func isBytesBuffer(t types.Type) bool {
	if t == nil {
		return false
	}
	if p, ok := t.Underlying().(*types.Pointer); ok {
		t = p.Elem()
	}
	n, ok := t.(*types.Named)
	return ok && n.Obj().Pkg() != nil && n.Obj().Pkg().Path() == "bytes" && n.Obj().Name() == "Buffer"
}

func (in *Interp) newStream(st *State, pos token.Pos) BufV {
	return in.newBuf(st, &BufObj{Origin: "stream", Len: Const(0), Extent: Const(0), Pos: pos})
}

// streamOf: the stream buffer a value denotes, if it is one.
func (in *Interp) streamOf(st *State, v Val) (BufV, *BufObj, bool) {
	bv, ok := v.(BufV)
	if !ok {
		return BufV{}, nil, false
	}
	b := st.bufs[bv.ID]
	if b == nil || b.Origin != "stream" && b.Origin != "rstream" {
		return BufV{}, nil, false
	}
	return bv, b, true
}

// binaryFixedSize: the encoded size of a value of fixed-size type t (encoding/binary.Size).
func binaryFixedSize(t types.Type) (int64, bool) {
	switch u := t.Underlying().(type) {
	case *types.Basic:
		switch u.Kind() {
		case types.Bool, types.Int8, types.Uint8:
			return 1, true
		case types.Int16, types.Uint16:
			return 2, true
		case types.Int32, types.Uint32, types.Float32:
			return 4, true
		case types.Int64, types.Uint64, types.Float64:
			return 8, true
		}
	case *types.Array:
		if n, ok := binaryFixedSize(u.Elem()); ok {
			return n * u.Len(), true
		}
	case *types.Struct:
		total := int64(0)
		for i := 0; i < u.NumFields(); i++ {
			n, ok := binaryFixedSize(u.Field(i).Type())
			if !ok {
				return 0, false
			}
			total += n
		}
		return total, true
	}
	return 0, false
}

func (in *Interp) streamLoop() *LoopCtx {
	if len(in.loops) > 0 {
		return in.loops[len(in.loops)-1]
	}
	return nil
}

// streamAppendBytes appends the bytes of a buffer value to a write stream (the work of append(b, s...)).
func (in *Interp) streamAppendBytes(st *State, b *BufObj, s BufV, expr ast.Expr, pos token.Pos) {
	sb := st.bufs[s.ID]
	sl := in.viewLen(st, s)
	sl = convResultLen(sb, s, sl)
	base := b.Len
	loop := in.streamLoop()
	switch {
	case sb != nil && (sb.Origin == "make" || sb.Origin == "append" || sb.Origin == "lit" || sb.Origin == "stream" || sb.Origin == "join" && len(sb.Recs) > 0):
		for _, r := range sb.Recs {
			nr := *r
			nr.Off = base.Add(r.Off.Sub(s.Off))
			nr.Guard = andGuard(in.guard(), r.Guard)
			if nr.Loop == nil {
				nr.Loop = loop
			}
			b.Recs = append(b.Recs, &nr)
		}
		if len(sb.Recs) == 0 && sb.Origin == "make" {
			b.Recs = append(b.Recs, &Rec{Off: base, W: sl, Kind: "zero", Src: "zero", Pos: pos, Guard: in.guard(), Loop: loop, Fn: in.fi.Key})
		}
	case sb != nil:
		kind, src := "bytes", sb.Src
		if sb.Origin == "enc" {
			kind, src = "child", "enc("+sb.Src+")"
		}
		if sb.Origin == "param" {
			src = "P"
		}
		b.Recs = append(b.Recs, &Rec{Off: base, W: sl, Kind: kind, Src: src, Pos: pos, Guard: in.guard(), Loop: loop, Fn: in.fi.Key, Expr: expr, Snap: sb.Snap})
	default:
		b.Recs = append(b.Recs, &Rec{Off: base, W: sl, Kind: "unknown", Src: in.render(st, expr), Pos: pos, Guard: in.guard(), Loop: loop, Fn: in.fi.Key})
	}
	b.Len = base.Add(sl)
	b.Extent = b.Len
}

// streamWriteValue models binary.Write(stream, order, v).
func (in *Interp) streamWriteValue(st *State, id int, order string, arg ast.Expr, pos token.Pos) {
	// the argument first: evaluating it (an inlined helper) may replace the state's buffer objects
	v := in.eval(st, arg)
	srcText, rendered := in.operand(st, arg), in.render(st, arg)
	b := st.bufs[id]
	if b == nil {
		return
	}
	t := in.info.TypeOf(arg)
	loop := in.streamLoop()
	if bv, ok := v.(BufV); ok {
		in.streamAppendBytes(st, b, bv, arg, pos)
		return
	}
	if t != nil {
		if pt, ok := t.Underlying().(*types.Pointer); ok {
			t = pt.Elem()
		}
		if n, ok := binaryFixedSize(t); ok {
			rec := &Rec{Off: b.Len, W: Const(n), Kind: "bytes", Src: srcText, Pos: pos, Guard: in.guard(), Loop: loop, Fn: in.fi.Key, Expr: arg}
			if isIntType(t) {
				rec.Kind, rec.Order = "int", order
				if n == 1 {
					rec.Kind, rec.Order = "byte", ""
				}
				if iv, ok := v.(IntV); ok {
					rec.Val = iv.T
				}
			} else if ov, ok := v.(ObjV); ok {
				rec.Src = ov.Path
			}
			b.Recs = append(b.Recs, rec)
			b.Len = b.Len.AddC(n)
			b.Extent = b.Len
			return
		}
		// a slice of fixed-size elements: length × element size
		if sl, ok := t.Underlying().(*types.Slice); ok {
			if n, ok := binaryFixedSize(sl.Elem()); ok {
				ln := Opq("len(" + rendered + ")")
				if sv, ok := v.(SliceV); ok && sv.Len != nil {
					ln = sv.Len
				}
				w := ln.Scale(n)
				b.Recs = append(b.Recs, &Rec{Off: b.Len, W: w, Kind: "bytes", Src: srcText, Pos: pos, Guard: in.guard(), Loop: loop, Fn: in.fi.Key, Expr: arg})
				b.Len = b.Len.Add(w)
				b.Extent = b.Len
				return
			}
		}
	}
	in.note(pos, "binary.Write of a value whose size is not known statically: %s", rendered)
	w := Opq("size(" + rendered + ")")
	b.Recs = append(b.Recs, &Rec{Off: b.Len, W: w, Kind: "unknown", Src: rendered, Pos: pos, Guard: in.guard(), Loop: loop, Fn: in.fi.Key})
	b.Len = b.Len.Add(w)
	b.Extent = b.Len
}

func orderOfExpr(info *types.Info, e ast.Expr) string {
	s := types.ExprString(e)
	switch {
	case strings.HasSuffix(s, "BigEndian"):
		return "be"
	case strings.HasSuffix(s, "LittleEndian"):
		return "le"
	}
	return ""
}

// streamReadValue models binary.Read(rstream, order, ptr): a read record at the cursor of the size of *ptr,
// stored through ptr.
func (in *Interp) streamReadValue(st *State, id int, order string, arg ast.Expr, pos token.Pos) {
	pv := in.eval(st, arg)
	b := st.bufs[id]
	if b == nil {
		return
	}
	t := in.info.TypeOf(arg)
	var elem types.Type
	if t != nil {
		if pt, ok := t.Underlying().(*types.Pointer); ok {
			elem = pt.Elem()
		}
	}
	off := b.Len
	advance := func(w *Term) {
		b.Len = off.Add(w)
	}
	// where the value goes
	path, varObj := "", types.Object(nil)
	switch p := pv.(type) {
	case PtrV:
		path, varObj = p.Path, p.Var
		if elem == nil {
			elem = p.Elem
		}
	case ObjV:
		path = p.Path
		if elem == nil {
			elem = derefType(p.Type)
		}
	}
	if elem == nil {
		in.note(pos, "binary.Read into an unresolved destination %s", in.render(st, arg))
		advance(Opq("size(" + in.render(st, arg) + ")"))
		return
	}
	label := func(kind string) string {
		switch {
		case path != "" && kind == "int":
			return "val(" + path + ")"
		case path != "":
			return path
		}
		return ""
	}
	if isIntType(elem) {
		n, _ := binaryFixedSize(elem)
		rec := &Rec{Off: off, W: Const(n), Kind: "int", Order: order, Src: label("int"), Pos: pos}
		var val *Term
		if n == 1 {
			rec.Kind, rec.Order = "byte", ""
			val = setAtomMax(FromAtom(&Atom{Kind: "val", Path: "P[" + off.String() + "]"}), 255)
		} else {
			max := int64(1)<<uint(8*n) - 1
			if n >= 8 {
				max = 0
			}
			a := FromAtom(&Atom{Kind: "val", Path: "P[" + off.String() + ":" + Const(n).String() + "]"})
			if max > 0 {
				a = setAtomMax(a, max)
			}
			val = a
		}
		in.addRead(rec)
		switch {
		case varObj != nil:
			st.vars[varObj] = IntV{val}
		case path != "":
			in.storePath(st, path, elem, IntV{val}, pos, "=", "binary.Read")
		}
		advance(Const(n))
		return
	}
	if isByteSlice(elem) {
		// the slice's current length decides how much is read
		var cur Val
		switch {
		case varObj != nil:
			cur = st.vars[varObj]
		case path != "":
			cur = st.fields[path]
		}
		w := Opq("len(" + in.render(st, arg) + ")")
		if bv, ok := cur.(BufV); ok {
			w = in.viewLen(st, bv)
			rec := &Rec{Off: off, W: w, Kind: "bytes", Src: label("bytes"), Pos: pos}
			in.addRead(rec)
			if db := st.bufs[bv.ID]; db != nil {
				if path == "" {
					db.FromRead = rec
				}
				db.Recs = append(db.Recs, &Rec{Off: bv.Off, W: w, Kind: "bytes", Src: "P", Pos: pos, Guard: in.guard(), Fn: in.fi.Key})
			}
		} else {
			in.addRead(&Rec{Off: off, W: w, Kind: "bytes", Src: label("bytes"), Pos: pos})
		}
		advance(w)
		return
	}
	if n, ok := binaryFixedSize(elem); ok {
		in.addRead(&Rec{Off: off, W: Const(n), Kind: "bytes", Src: label("bytes"), Pos: pos})
		advance(Const(n))
		return
	}
	in.note(pos, "binary.Read into a value whose size is not known statically: %s", in.render(st, arg))
	advance(Opq("size(" + in.render(st, arg) + ")"))
}

// streamMethod models a method of bytes.Buffer called on a stream; ok reports whether it was handled.
func (in *Interp) streamMethod(st *State, bv BufV, b *BufObj, name string, call *ast.CallExpr) (Val, bool) {
	// arguments first (see streamWriteValue); their values are cached for the cases below
	var argv []Val
	var argText []string
	switch name {
	case "Write", "WriteByte", "Read", "Next", "ReadByte":
		for _, a := range call.Args {
			argv = append(argv, in.eval(st, a))
			argText = append(argText, in.operand(st, a))
		}
		if nb := st.bufs[bv.ID]; nb != nil {
			b = nb
		}
	}
	arg := func(i int) Val {
		if i < len(argv) {
			return argv[i]
		}
		return UnkV{}
	}
	switch name {
	case "Len":
		if b.Origin == "rstream" {
			return IntV{b.Extent.Sub(b.Len)}, true
		}
		return IntV{b.Len}, true
	case "Bytes":
		if b.Origin == "rstream" {
			// the unread part of the input
			return BufV{ID: in.paramID, Off: b.Len, Hi: b.Extent}, true
		}
		return BufV{ID: bv.ID, Off: Const(0)}, true
	case "Write":
		if b.Origin == "stream" && len(call.Args) == 1 {
			if sv, ok := arg(0).(BufV); ok {
				in.streamAppendBytes(st, b, sv, call.Args[0], call.Pos())
				return TupleV{Vs: []Val{IntV{in.viewLen(st, sv)}, NilV{}}}, true
			}
		}
	case "WriteByte":
		if b.Origin == "stream" && len(call.Args) == 1 {
			v := arg(0)
			rec := &Rec{Off: b.Len, W: Const(1), Kind: "byte", Src: argText[0], Pos: call.Pos(), Guard: in.guard(), Loop: in.streamLoop(), Fn: in.fi.Key, Expr: call.Args[0]}
			if iv, ok := v.(IntV); ok {
				rec.Val = iv.T
			}
			b.Recs = append(b.Recs, rec)
			b.Len = b.Len.AddC(1)
			b.Extent = b.Len
			return NilV{}, true
		}
	case "Read":
		// buf.Read(b): the bytes written so far are handed out (an encoder of the Read(b []byte) style)
		if b.Origin == "stream" && len(call.Args) == 1 {
			dst := arg(0)
			root := in
			for root.parent != nil {
				root = root.parent
			}
			// the bytes are copied to the front of the destination (as much as fits)
			if dv, ok := dst.(BufV); ok {
				if db := st.bufs[dv.ID]; db != nil {
					for _, r := range b.Recs {
						nr := *r
						nr.Off = dv.Off.Add(r.Off)
						nr.Guard = andGuard(in.guard(), r.Guard)
						db.Recs = append(db.Recs, &nr)
					}
					end := dv.Off.Add(b.Len)
					if db.Extent == nil || !end.Sub(db.Extent).NonPos() {
						db.Extent = end
					}
					if in.parent == nil || db.Origin == "arg" {
						root.StreamOuts = append(root.StreamOuts, &StreamOut{Buf: b.clone(), Dst: dv.ID, Guard: in.guard(), Pos: call.Pos()})
					}
				}
			}
			// the count copied: everything when the summary is about the encoding (the caller provides room),
			// no more than the destination holds when the question is whether an index can go out of range
			n := b.Len
			if root.mode != "encode" {
				if dv, ok := dst.(BufV); ok {
					n = Min(in.viewLen(st, dv), b.Len)
				}
			}
			return TupleV{Vs: []Val{IntV{n}, UnkV{"call:" + in.render(st, call) + ".1"}}}, true
		}
	case "ReadByte":
		// one byte at the cursor; io.EOF when there is none: a nil error keeps the cursor inside the window
		if b.Origin == "rstream" && len(call.Args) == 0 {
			off := b.Len
			in.addRead(&Rec{Off: off, W: Const(1), Kind: "byte", Pos: call.Pos()})
			b.Len = off.AddC(1)
			key := "err:ReadByte@" + in.w.Pos(call.Pos())
			if st.ensures == nil {
				st.ensures = map[string][]Fact{}
			}
			st.ensures[key] = []Fact{{L: b.Len, R: b.Extent, Src: "success of ReadByte at " + in.w.Pos(call.Pos())}}
			val := setAtomMax(FromAtom(&Atom{Kind: "val", Path: "P[" + off.String() + "]"}), 255)
			return TupleV{Vs: []Val{IntV{val}, ObjV{Path: key, Type: types.Universe.Lookup("error").Type()}}}, true
		}
	case "Next":
		if b.Origin == "rstream" && len(call.Args) == 1 {
			n := Opq("count")
			if iv, ok := arg(0).(IntV); ok && iv.T != nil {
				n = iv.T
			}
			// (*bytes.Buffer).Next panics on a negative count
			if !in.noSites {
				facts := append([]Fact(nil), st.facts...)
				in.addSite(&Site{Kind: "count", Buf: "bytes.Buffer", Origin: "lib", Pos: call.Pos(), Text: in.render(st, call), Fn: in.fi.Key, Guard: in.guard(), Expr: call,
					Needs: []Need{{A: Const(0), B: n, What: "count not negative"}}, Facts: facts})
			}
			off := b.Len
			b.Len = off.Add(n)
			return BufV{ID: in.paramID, Off: off, Hi: off.Add(n)}, true
		}
	case "Reset":
		if b.Origin == "stream" {
			b.Len, b.Extent, b.Recs = Const(0), Const(0), nil
			return UnkV{}, true
		}
	}
	return nil, false
}

// StreamOut: a write stream handed out by buf.Read(b).
type StreamOut struct {
	Dst   int // buffer the stream was copied into
	Buf   *BufObj
	Guard string
	Pos   token.Pos
}

func init() {
	extraDumps["stream"] = func(w *World, args []string) {
		for _, key := range w.sortedFuncKeys() {
			fi := w.Funcs[key]
			if len(args) > 1 && !strings.Contains(key, args[1]) {
				continue
			}
			if fi.Recv == nil || fi.Decl.Body == nil {
				continue
			}
			switch fi.Decl.Name.Name {
			case "Read":
				es := w.EncSummaryOf(fi.Obj)
				if es == nil || es.Origin != "stream" {
					continue
				}
				println("== enc", key, "size =", es.Size.String())
				for _, r := range es.Recs {
					println("   rec off="+r.Off.String(), "w="+r.W.String(), r.Kind, r.Order, r.Src, "guard["+r.Guard+"]")
				}
				for _, n := range es.Notes {
					println("   note", w.Pos(n.Pos), n.Text)
				}
			case "Write":
				fs := w.Interpret(fi, "decode")
				println("== dec", key)
				for _, r := range fs.Reads {
					println("   read off="+r.Off.String(), "w="+r.W.String(), r.Kind, r.Order, "->", r.Src, "guard["+r.Guard+"]")
				}
				for _, n := range fs.Notes {
					println("   note", w.Pos(n.Pos), n.Text)
				}
			}
		}
	}
}
