#!/usr/bin/env python3
# Regenerates MANIFEST.json checks / not_applicable from tools/claims.json
import json, os
root = os.path.dirname(os.path.dirname(os.path.abspath(__file__)))
m = json.load(open(os.path.join(root,'MANIFEST.json')))
claims = json.load(open(os.path.join(root,'tools','claims.json')))
props = [json.loads(l)['id'] for l in open(os.path.join(root,'properties.jsonl'))]
checks, na, served = [], [], []
for pid in props:
    c = claims.get(pid)
    if c and c.get('claimed'):
        served.append(pid)
        checks.append({
          "property_id": pid,
          "quick_cmd": f"./run.sh check {pid} --tier quick",
          "thorough_cmd": f"./run.sh check {pid} --tier thorough",
          "evidence_file": f"evidence/{pid}.json",
          "replay_cmd_template": "./run.sh explain {path}",
          "engine": "ofverify",
          "level_claimed": {"category": "other", "text": c['text'], "design_ref": c.get('design_ref', f"DESIGN.md §3 {pid}")},
          "level_note": c['note'],
          "technique": c['technique'],
        })
    else:
        na.append({"property_id": pid, "reason": (c or {}).get('reason', "check not built yet (static rules for this property are under construction; see DESIGN.md §3)")})
m['checks'] = checks
m['not_applicable'] = na
m['engines'][0]['serves_properties'] = served
json.dump(m, open(os.path.join(root,'MANIFEST.json'),'w'), indent=1, ensure_ascii=False)
print("claimed:", served)
