#!/usr/bin/env python3
# Regenerates the generated part of DESIGN.md §8 (between the BEGIN/END GENERATED markers) from the
# evidence files, known_findings.jsonl, assumed_safe.json, seeded/*/meta.json and seeded/MATRIX.tsv.
import json, glob, os, re, subprocess, collections
root = os.path.dirname(os.path.dirname(os.path.abspath(__file__)))
out = []
P = out.append
props = [json.loads(l) for l in open(f'{root}/properties.jsonl')]
# ---- rules per property
P("### 8.2 Rules as built (from the evidence files of the last run)\n")
P("| property | obligations | known findings | assumed | rules [instances, floor] |")
P("|---|---|---|---|---|")
for p in props:
    f = f"{root}/evidence/{p['id']}.json"
    if not os.path.exists(f):
        P(f"| {p['id']} | — | | | not claimed |"); continue
    c = json.load(open(f))['coverage']
    rules = []
    for r in c['rules']:
        m = re.match(r'([^:]+): .* \[instances=(\d+), floor=(\d+)\]$', r)
        if m: rules.append(f"{m.group(1)} [{m.group(2)}, {m.group(3)}]")
    P(f"| {p['id']} | {c['obligations']} | {c['known_findings']} | {c['assumed_safe']} | {'; '.join(rules)} |")
P("")
# ---- fixes
fixes = [json.loads(l) for l in open(f'{root}/known_findings.jsonl') if l.strip() and not l.startswith('#')]
fx = [f for f in fixes if f['status'] == 'fixed']
op = [f for f in fixes if f['status'] == 'open']
log = subprocess.check_output(['git','-C','/repo','log','--format=%h %s']).decode().splitlines()
fixlog = [l for l in log if l.split(' ',1)[1].startswith('fix:')]
P(f"### 8.3 Genuine defects repaired ({len(fixlog)} `fix:` commits in /repo, oldest first)\n")
P("Each was first reported by the rule named in its `fixed:` record(s) in `known_findings.jsonl`, confirmed with a concrete input against the real code in a scratch module, repaired minimally, and the 33-test suite passes unedited with it. A fixed record suppresses nothing.\n")
bycommit = collections.defaultdict(list)
for f in fx: bycommit[f['commit']].append(f)
P("| commit | what failed | reported by | witness |")
P("|---|---|---|---|")
for l in reversed(fixlog):
    h, s = l.split(' ',1)
    recs = bycommit.get(h, [])
    rules = sorted({'/'.join(r['key'].split('/')[:2]) for r in recs})
    wit = recs[0].get('witness','') if recs else ''
    s = s[5:]
    if len(s) > 150: s = s[:150] + '…'
    P(f"| {h} | {s.replace('|','/')} | {', '.join(rules) or '(see DESIGN §4)'} | {wit.replace('|','/')[:120]} |")
P("")
P(f"### 8.4 Known findings (open: {len(op)} obligations)\n")
P("Genuine defects whose repair is not a small patch. The checks print one `KNOWN-FINDING:` line per row and exit 0; a row matches on obligation key **and** diagnosis, so a different defect in the same construct is still reported.\n")
groups = collections.OrderedDict()
for f in op:
    groups.setdefault((f['property'], f['what']), []).append(f)
P("| property | obligations | what | witness |")
P("|---|---|---|---|")
for (pid, what), fs in groups.items():
    keys = ', '.join(sorted('/'.join(x['key'].split('/')[1:]) for x in fs))
    if len(keys) > 160: keys = keys[:160] + '…'
    P(f"| {pid} | {len(fs)}: {keys} | {what.replace('|','/')} | {fs[0].get('witness','').replace('|','/')} |")
P("")
asf = json.load(open(f'{root}/assumed_safe.json'))
P(f"### 8.5 Reviewed assumptions (`assumed_safe.json`, {len(asf)} rows)\n")
for a in asf:
    P(f"- `{a['key']}` — {a['reason']}")
P("")
# ---- seeds
P("### 8.6 Seeded changes and which checks catch them\n")
P("Each change was written by a fresh sub-agent that saw only the property text and a scratch worktree; it was kept only after the patch applied, the pinned suite passed with it, and its demonstration failed with it and passed without it (`tools/verify_seed.sh`). `tools/recheck_seed.sh` re-confirms them after the base moves; `obsolete` = a later `fix:` commit made the change harmless, and the checks are expected to stay silent on it. The *caught by* column is from `tools/seedmatrix.sh`: every property's quick check on every variant for the changes of rounds 1–5 (cells other than a change's own property date from that full run); for the later rounds, and for every change after each rework of the interpreter, only the cell of the change's own property is re-run (`MATRIX_PROPS=own MATRIX_MERGE=1`, minutes instead of the many hours of the full 19-column pass over ~475 changes) — `not run` marks the others.\n")
mx = collections.defaultdict(dict)
mp = f'{root}/seeded/MATRIX.tsv'
if os.path.exists(mp):
    for l in open(mp):
        a = l.rstrip('\n').split('\t')
        if len(a) >= 3: mx[a[0]][a[1]] = (a[2], a[3] if len(a) > 3 else '')
P("| seed | change | needs | own property | also caught by |")
P("|---|---|---|---|---|")
def key(d):
    b = os.path.basename(d); m = re.match(r'C(\d+)-(.*)', b); return (int(m.group(1)), m.group(2))
for d in sorted(glob.glob(f'{root}/seeded/C*-*'), key=key):
    sid = os.path.basename(d)
    m = json.load(open(f'{d}/meta.json'))
    own = m.get('property', sid.split('-')[0])
    if m.get('status') == 'obsolete':
        res = 'obsolete (harmless since ' + m['obsolete_since']['repo_commit'] + ')'; also = ''
    else:
        r = mx.get(sid, {})
        o = r.get(own)
        res = (o[0] + (': `' + '/'.join(o[1].split('/')[1:3]) + '`' if o and o[1] else '')) if o else 'not run'
        also = ', '.join(sorted(p for p,(v,_) in r.items() if v == 'caught' and p != own))
    summ = m.get('summary','').replace('|','/')
    if len(summ) > 170: summ = summ[:170] + '…'
    need = m.get('needs_to_manifest','').replace('|','/')
    if len(need) > 110: need = need[:110] + '…'
    P(f"| {sid} | {summ} | {need} | {res} | {also} |")
P("")
print('\n'.join(out))
