package main

type ssaWorld struct{}
