package main

// C19 — ofbase encoder/decoder primitives (DESIGN §3 C19).

import (
	"fmt"
	"go/ast"
	"go/types"
	"strings"
)

func init() {
	register(&propCheck{
		ID:    "C19",
		Run:   runC19,
		Level: "Static analysis (lane-vector / byte-buffer abstract interpretation of every primitive of the base encoder and decoder, at a symbolic offset over a symbolic buffer). Decides the statement: put/<width>, read/<width> — for 8/16/32/64/128 bits the encoder appends exactly width/8 bytes carrying the value's bits in big-endian order and the matching reader returns exactly the bits of the width/8 bytes at the current offset in the same order and advances the offset by width/8 (both sides are compared with the same specified layout, so read(put(x)) = x and order is kept); raw — Write appends its argument unchanged, Read(n) returns the n bytes at the offset and advances by n, Skip(n) advances by n; align/Decoder, align/Encoder — the skip equals round8(base+offset) - (base+offset) (hence 0..7, never backwards), with base the absolute offset; align/SliceDecoder — the sliced decoder views [offset, offset+length-rewind), its base is offset+base of the parent *before* the parent advances, and the parent advances by the sliced length; hdrguard — in the header decoder every buffer access is either proved in range from the dominating length guard or happens after the deferred recover was installed, the guard's reject path performs no buffer access, and the recover handler assigns the error result. Symbolic offset, buffer and values: all sequences of operations are covered by the per-operation summaries (each operation's effect depends only on offset/base and is composed by the caller).",
		Assumptions: []string{
			"encoding/binary BigEndian/LittleEndian Put*/Uint* and (*bytes.Buffer).Write/WriteByte/Bytes behave as documented (modelled in checker/bitv_interp.go)",
			"Go int arithmetic on offsets does not overflow 64 bits",
		},
	})
}

func runC19(w *World, r *Report) {
	r.Rule("shiftwidth", "no shift by a constant count that is as large as its operand's type (the value would always be 0: bits lost before widening)", 1)
	shiftWidthRule(w, r, "shiftwidth", func(fi *FuncInfo) bool { return fi.Pkg.Types.Name() == "ofbase" })
	r.Rule("shadow", "no := in an inner scope re-declares a same-typed variable of the function that is read afterwards (or a named result): the value computed there would be lost", 1)
	shadowRule(w, r, "shadow", func(fi *FuncInfo) bool { return fi.Pkg.Types.Name() == "ofbase" })
	r.Rule("observers", "methods that formatting calls implicitly (String, Error, …) leave the value unchanged", 1)
	observerRule(w, r, "observers", "ofbase")
	r.Rule("noconsume", "the read accessors of the encoder and decoder (Bytes, Length, Offset, BaseOffset) hand their state to nothing that could change it: looking at what was written does not drain it", 1)
	noConsumeRule(w, r, "noconsume", func(fi *FuncInfo) bool {
		if fi.Pkg.Name != "ofbase" {
			return false
		}
		switch fi.Decl.Name.Name {
		case "Bytes", "Length", "Len", "Offset", "BaseOffset":
			return true
		}
		return false
	})
	theWorld = w
	r.Rule("put", "the encoder appends exactly width/8 bytes, big-endian", 6)
	r.Rule("read", "the reader returns the bytes at the offset big-endian and advances by width/8", 6)
	r.Rule("raw", "raw write/read/skip move exactly the bytes and offsets given", 3)
	r.Rule("align", "alignment skips to the next multiple of 8 counted from the message start", 3)
	r.Rule("hdrguard", "the header decoder cannot panic on short input", 3)

	get := func(key, rule string) *FuncInfo {
		fi := w.Funcs[key]
		if fi == nil {
			r.Fail(VViolation, rule, key, "", "-", "the primitive "+key+" no longer exists (anchor of the rule cannot be resolved)")
		}
		return fi
	}
	onePath := func(rule string, fi *FuncInfo, paths []*bvPath) *bvPath {
		pos := w.Pos(fi.Decl.Pos())
		for _, p := range paths {
			if len(p.Undec) > 0 {
				r.Fail(VUndecided, rule, fi.Key, "", pos, "outside the bit-level language: "+strings.Join(p.Undec, "; "))
				return nil
			}
		}
		if len(paths) != 1 {
			r.Fail(VUndecided, rule, fi.Key, "", pos, fmt.Sprintf("%d control-flow paths; a primitive is expected to be unconditional", len(paths)))
			return nil
		}
		return paths[0]
	}

	// ---------------------------------------------------------------- encoder
	encRecv := func() (map[string]*bvVal, *bvOut) {
		out := &bvOut{Len0: ValOf("outlen")}
		return map[string]*bvVal{"buffer": {Out: out}}, out
	}
	// outBytes flattens the appended items into single bytes (nil when a view of unknown length was appended)
	outBytes := func(p *bvPath, out *bvOut, bi *bvInterp) ([]BV, bool) {
		var bs []BV
		for _, it := range out.Items {
			if it.Byte != nil {
				bs = append(bs, *it.Byte)
				continue
			}
			l := it.View.length()
			if l == nil || !l.IsConst() {
				return nil, false
			}
			for k := int64(0); k < l.C; k++ {
				c, ok := bi.cell(p, it.View, Const(k))
				if !ok {
					return nil, false
				}
				bs = append(bs, c)
			}
		}
		return bs, true
	}
	wantBE := func(bs []BV, names []string, widths []int) string {
		// names[i] with widths[i] bits, most significant first
		total := 0
		for _, wd := range widths {
			total += wd
		}
		if len(bs)*8 != total {
			return fmt.Sprintf("%d bytes appended, specified %d", len(bs), total/8)
		}
		k := 0
		var bad []string
		for i, nm := range names {
			for b := widths[i]/8 - 1; b >= 0; b-- {
				for bit := 0; bit < 8; bit++ {
					got := bs[k].Bits[bit]
					want := Bit{K: 's', Src: nm, I: b*8 + bit}
					if got != want {
						bad = append(bad, fmt.Sprintf("byte %d bit %d carries %s, specified %s", k, bit, got.String(), want.String()))
					}
				}
				k++
			}
		}
		if len(bad) > 3 {
			bad = append(bad[:3], fmt.Sprintf("… %d more", len(bad)-3))
		}
		return strings.Join(bad, "; ")
	}
	type putCase struct {
		key    string
		names  []string
		widths []int
	}
	for _, pc := range []putCase{
		{"ofbase.Encoder.PutChar", []string{"v"}, []int{8}}, {"ofbase.Encoder.PutUint8", []string{"v"}, []int{8}},
		{"ofbase.Encoder.PutUint16", []string{"v"}, []int{16}}, {"ofbase.Encoder.PutUint32", []string{"v"}, []int{32}},
		{"ofbase.Encoder.PutUint64", []string{"v"}, []int{64}}, {"ofbase.Encoder.PutUint128", []string{"Hi", "Lo"}, []int{64, 64}},
	} {
		fi := get(pc.key, "put")
		if fi == nil {
			continue
		}
		pos := w.Pos(fi.Decl.Pos())
		sub, out := encRecv()
		var arg *bvVal
		if len(pc.names) == 1 {
			arg = &bvVal{BV: func() BV { v := srcBV("v", pc.widths[0], pc.widths[0], false); v.Lin = nil; return v }()}
		} else {
			hi, lo := srcBV("Hi", 64, 64, false), srcBV("Lo", 64, 64, false)
			hi.Lin, lo.Lin = nil, nil
			arg = &bvVal{Fields: map[string]BV{"Hi": hi, "Lo": lo}, Sub: map[string]*bvVal{}}
		}
		bi := &bvInterp{w: w, fi: fi, info: fi.Pkg.TypesInfo}
		paths := bi.run(newBvCtx(), nil, sub, []*bvVal{arg}, 0, nil)
		p := onePath("put", fi, paths)
		if p == nil {
			continue
		}
		// the output stream object may have been cloned: take it from the path
		if ov, ok := p.RecvSub["buffer"]; ok && ov.Out != nil {
			out = ov.Out
		}
		bs, ok := outBytes(p, out, bi)
		if !ok {
			r.Fail(VUndecided, "put", fi.Key, "", pos, "appends a slice whose length or contents the engine cannot follow")
			continue
		}
		if d := wantBE(bs, pc.names, pc.widths); d != "" {
			r.Fail(VViolation, "put", fi.Key, "", pos, d)
		} else {
			r.OK("put", fi.Key, "", pos, fmt.Sprintf("appends %d bytes, most significant first", len(bs)), true)
		}
	}

	// ---------------------------------------------------------------- decoder
	decRecv := func() (map[string]BV, map[string]*bvVal, *bvCtx) {
		ctx := newBvCtx()
		off := ctx.declare("off", 64, true, 0, 1<<40)
		base := ctx.declare("base", 64, true, 0, 1<<40)
		buf := symView("B", ValOf("buflen"))
		ctx.facts = append(ctx.facts, Fact{L: Const(0), R: ValOf("buflen"), Src: "len >= 0"})
		return map[string]BV{"offset": off, "baseOffset": base}, map[string]*bvVal{"buffer": buf}, ctx
	}
	offsetIs := func(p *bvPath, want *Term) string {
		got := p.Ctx.linOf(p.Recv["offset"])
		if got == nil || !p.Ctx.equal(got, want) {
			gs := p.Recv["offset"].String()
			return fmt.Sprintf("offset becomes %s, specified %v", gs, want)
		}
		return ""
	}
	readBE := func(v BV, n int, at int) string {
		// value bits must be B[off+at+k] big-endian
		var bad []string
		if v.W != n*8 {
			return fmt.Sprintf("result has %d bits, specified %d", v.W, n*8)
		}
		for k := 0; k < n; k++ {
			name := "B[" + ValOf("off").AddC(int64(at+k)).String() + "]"
			for bit := 0; bit < 8; bit++ {
				got := v.Bits[(n-1-k)*8+bit]
				want := Bit{K: 's', Src: name, I: bit}
				if got != want {
					bad = append(bad, fmt.Sprintf("result bit %d is %s, specified %s", (n-1-k)*8+bit, got.String(), want.String()))
				}
			}
		}
		if len(bad) > 3 {
			bad = append(bad[:3], fmt.Sprintf("… %d more", len(bad)-3))
		}
		return strings.Join(bad, "; ")
	}
	for _, rc := range []struct {
		key string
		n   int
	}{{"ofbase.Decoder.ReadByte", 1}, {"ofbase.Decoder.ReadUint8", 1}, {"ofbase.Decoder.ReadUint16", 2}, {"ofbase.Decoder.ReadUint32", 4}, {"ofbase.Decoder.ReadUint64", 8}, {"ofbase.Decoder.ReadUint128", 16}} {
		fi := get(rc.key, "read")
		if fi == nil {
			continue
		}
		pos := w.Pos(fi.Decl.Pos())
		recv, sub, ctx := decRecv()
		p := onePath("read", fi, w.RunBV2(fi, ctx, recv, sub, nil))
		if p == nil {
			continue
		}
		var ds []string
		if len(p.Ret) != 1 || p.Ret[0] == nil {
			ds = append(ds, "no result")
		} else if rc.n == 16 {
			f := p.Ret[0].Fields
			if f == nil {
				ds = append(ds, "result is not a 128-bit value")
			} else {
				if d := readBE(f["Hi"], 8, 0); d != "" {
					ds = append(ds, "Hi: "+d)
				}
				if d := readBE(f["Lo"], 8, 8); d != "" {
					ds = append(ds, "Lo: "+d)
				}
			}
		} else if !p.Ret[0].isInt() {
			ds = append(ds, "result is not an integer the engine can follow")
		} else if d := readBE(p.Ret[0].BV, rc.n, 0); d != "" {
			ds = append(ds, d)
		}
		if d := offsetIs(p, ValOf("off").AddC(int64(rc.n))); d != "" {
			ds = append(ds, d)
		}
		if len(ds) > 0 {
			r.Fail(VViolation, "read", fi.Key, "", pos, strings.Join(ds, "; "))
		} else {
			r.OK("read", fi.Key, "", pos, fmt.Sprintf("returns bytes [off, off+%d) big-endian; offset' = off + %d", rc.n, rc.n), true)
		}
	}

	// ---------------------------------------------------------------- raw
	if fi := get("ofbase.Encoder.Write", "raw"); fi != nil {
		pos := w.Pos(fi.Decl.Pos())
		sub, _ := encRecv()
		arg := symView("A", ValOf("alen"))
		p := onePath("raw", fi, w.RunBV2(fi, newBvCtx(), nil, sub, []*bvVal{arg}))
		if p != nil {
			out := p.RecvSub["buffer"].Out
			if out != nil && len(out.Items) == 1 && out.Items[0].View != nil && out.Items[0].View.Buf.Name == "A" && out.Items[0].View.Base.IsZero() &&
				out.Items[0].View.length() != nil && out.Items[0].View.length().Equal(ValOf("alen")) {
				r.OK("raw", fi.Key, "", pos, "appends its argument, whole and unchanged", true)
			} else {
				r.Fail(VViolation, "raw", fi.Key, "", pos, "does not append exactly its argument")
			}
		}
	}
	if fi := get("ofbase.Decoder.Read", "raw"); fi != nil {
		pos := w.Pos(fi.Decl.Pos())
		recv, sub, ctx := decRecv()
		n := ctx.declare("n", 64, true, 0, 1<<40)
		p := onePath("raw", fi, w.RunBV2(fi, ctx, recv, sub, []*bvVal{{BV: n}}))
		if p != nil {
			var ds []string
			if len(p.Ret) != 1 || p.Ret[0] == nil || p.Ret[0].View == nil {
				ds = append(ds, "does not return a view of the buffer")
			} else {
				v := p.Ret[0].View
				if v.Buf.Name != "B" || !p.Ctx.equal(v.Base, ValOf("off")) || v.length() == nil || !p.Ctx.equal(v.length(), ValOf("n")) {
					ds = append(ds, fmt.Sprintf("returns the view [%v, +%v) of %s, specified [off, off+n) of the buffer", v.Base, v.length(), v.Buf.Name))
				}
			}
			if d := offsetIs(p, ValOf("off").Add(ValOf("n"))); d != "" {
				ds = append(ds, d)
			}
			if len(ds) > 0 {
				r.Fail(VViolation, "raw", fi.Key, "", pos, strings.Join(ds, "; "))
			} else {
				r.OK("raw", fi.Key, "", pos, "returns [off, off+n); offset' = off + n", true)
			}
		}
	}
	if fi := get("ofbase.Decoder.Skip", "raw"); fi != nil {
		pos := w.Pos(fi.Decl.Pos())
		recv, sub, ctx := decRecv()
		n := ctx.declare("n", 64, true, 0, 1<<40)
		p := onePath("raw", fi, w.RunBV2(fi, ctx, recv, sub, []*bvVal{{BV: n}}))
		if p != nil {
			if d := offsetIs(p, ValOf("off").Add(ValOf("n"))); d != "" {
				r.Fail(VViolation, "raw", fi.Key, "", pos, d)
			} else {
				r.OK("raw", fi.Key, "", pos, "offset' = off + n", true)
			}
		}
	}

	// ---------------------------------------------------------------- align
	if fi := get("ofbase.Decoder.SkipAlign", "align"); fi != nil {
		pos := w.Pos(fi.Decl.Pos())
		recv, sub, ctx := decRecv()
		p := onePath("align", fi, w.RunBV2(fi, ctx, recv, sub, nil))
		if p != nil {
			abs := ValOf("base").Add(ValOf("off"))
			want := ValOf("off").Add(Round8(abs)).Sub(abs)
			if d := offsetIs(p, want); d != "" {
				r.Fail(VViolation, "align", fi.Key, "", pos, d+" (= offset + round8(base+offset) - (base+offset))")
			} else {
				r.OK("align", fi.Key, "", pos, "offset' = offset + round8(base+offset) - (base+offset): skip in 0..7, never backwards, counted from the message start", true)
			}
		}
	}
	if fi := get("ofbase.Encoder.SkipAlign", "align"); fi != nil {
		pos := w.Pos(fi.Decl.Pos())
		sub, _ := encRecv()
		p := onePath("align", fi, w.RunBV2(fi, newBvCtx(), nil, sub, nil))
		if p != nil {
			out := p.RecvSub["buffer"].Out
			L := ValOf("outlen")
			want := Round8(L).Sub(L)
			ok := out != nil && len(out.Items) == 1 && out.Items[0].View != nil && out.Items[0].View.Buf.Zero && out.Items[0].View.length() != nil && out.Items[0].View.length().Equal(want)
			if ok {
				r.OK("align", fi.Key, "", pos, "appends round8(len) - len zero bytes", true)
			} else {
				got := "<nothing>"
				if out != nil && len(out.Items) > 0 && out.Items[0].View != nil && out.Items[0].View.length() != nil {
					got = fmt.Sprintf("%v bytes (zero=%v)", out.Items[0].View.length(), out.Items[0].View.Buf.Zero)
				}
				r.Fail(VViolation, "align", fi.Key, "", pos, "appends "+got+", specified round8(len) - len zero bytes")
			}
		}
	}
	if fi := get("ofbase.Decoder.SliceDecoder", "align"); fi != nil {
		pos := w.Pos(fi.Decl.Pos())
		recv, sub, ctx := decRecv()
		ln := ctx.declare("length", 64, true, 0, 1<<40)
		rw := ctx.declare("rewind", 64, true, 0, 1<<40)
		ctx.facts = append(ctx.facts, Fact{L: ValOf("rewind"), R: ValOf("length"), Src: "rewind <= length"})
		p := onePath("align", fi, w.RunBV2(fi, ctx, recv, sub, []*bvVal{{BV: ln}, {BV: rw}}))
		if p != nil {
			var ds []string
			n := ValOf("length").Sub(ValOf("rewind"))
			if len(p.Ret) != 1 || p.Ret[0] == nil || p.Ret[0].Fields == nil {
				ds = append(ds, "does not return a decoder value")
			} else {
				nd := p.Ret[0]
				bv := nd.Sub["buffer"]
				if bv == nil || bv.View == nil || bv.View.Buf.Name != "B" || !p.Ctx.equal(bv.View.Base, ValOf("off")) || bv.View.length() == nil || !p.Ctx.equal(bv.View.length(), n) {
					ds = append(ds, "the sliced decoder does not view [offset, offset+length-rewind) of the parent's buffer")
				}
				if got := p.Ctx.linOf(nd.Fields["baseOffset"]); got == nil || !p.Ctx.equal(got, ValOf("off").Add(ValOf("base"))) {
					ds = append(ds, fmt.Sprintf("the sliced decoder's base is %s, specified offset + base of the parent at the start of the slice", nd.Fields["baseOffset"].String()))
				}
				if got := p.Ctx.linOf(nd.Fields["offset"]); got == nil || !got.IsZero() {
					ds = append(ds, "the sliced decoder does not start at offset 0")
				}
			}
			if d := offsetIs(p, ValOf("off").Add(n)); d != "" {
				ds = append(ds, "parent "+d)
			}
			if len(ds) > 0 {
				r.Fail(VViolation, "align", fi.Key, "", pos, strings.Join(ds, "; "))
			} else {
				r.OK("align", fi.Key, "", pos, "child views [off, off+length-rewind), child base = off + base, parent offset' = off + length - rewind", true)
			}
		}
	}

	// ---------------------------------------------------------------- hdrguard
	if fi := get("ofbase.Header.Decode", "hdrguard"); fi != nil {
		pos := w.Pos(fi.Decl.Pos())
		_, dsub, ctx := decRecv()
		// a decoder in a valid state: 0 <= offset <= len(buffer)
		ctx.facts = append(ctx.facts, Fact{L: ValOf("off"), R: ValOf("buflen"), Src: "offset <= len(buffer)"})
		doff := ctx.srcTerm["off"]
		_ = doff
		dec := &bvVal{Fields: map[string]BV{"offset": srcBV("off", 64, 40, true), "baseOffset": srcBV("base", 64, 40, true)}, Sub: dsub}
		hrecv := map[string]BV{"Version": srcBV("old.Version", 8, 8, false), "Type": srcBV("old.Type", 8, 8, false), "Length": srcBV("old.Length", 16, 16, false), "Xid": srcBV("old.Xid", 32, 32, false)}
		paths := w.RunBV2(fi, ctx, hrecv, nil, []*bvVal{dec})
		nAccess, nProved, nCovered := 0, 0, 0
		bad := false
		for _, p := range paths {
			if len(p.Undec) > 0 {
				r.Fail(VUndecided, "hdrguard", fi.Key, "", pos, "outside the bit-level language: "+strings.Join(p.Undec, "; "))
				bad = true
				break
			}
			for _, s := range p.Sites {
				nAccess++
				if s.OK {
					nProved++
					continue
				}
				// a slice expression is checked against the capacity of the buffer, not its length: behind a
				// short input with spare capacity (recv[:n] of a receive buffer, a sliced decoder) it succeeds and
				// the header is read from stale bytes — the recover never sees a panic
				if s.Slice {
					bad = true
					r.Fail(VViolation, "hdrguard", fi.Key, "site:"+normSite(s.Text), w.Pos(s.Pos), fmt.Sprintf("the slice %s needs %v <= %v, which the dominating conditions {%s} do not give; a slice bound is checked against the capacity, not the length, so on a short input with spare capacity behind it the read returns stale bytes and no error is reported (the deferred recover only helps when the access panics)", s.Text, s.A, s.B, strings.Join(p.Conds, " && ")))
					continue
				}
				// containment: a deferred recover was installed before this access
				if coveredByRecover(fi, p, s) {
					nCovered++
					continue
				}
				bad = true
				r.Fail(VViolation, "hdrguard", fi.Key, "site:"+normSite(s.Text), w.Pos(s.Pos), fmt.Sprintf("buffer access %s needs %v <= %v, which the dominating conditions {%s} do not give, and no deferred recover is installed before it: a short input panics", s.Text, s.A, s.B, strings.Join(p.Conds, " && ")))
			}
		}
		if !bad {
			r.OK("hdrguard", fi.Key, "accesses", pos, fmt.Sprintf("%d buffer accesses on %d paths: %d proved in range from the length guard, %d after the deferred recover", nAccess, len(paths), nProved, nCovered), true)
		}
		// the guard: every access is proved, i.e. the reads total what the guard demands
		if !bad {
			if nProved == nAccess && nAccess > 0 {
				r.OK("hdrguard", fi.Key, "guard", pos, "the length guard alone covers every read of the header", true)
			} else {
				r.OK("hdrguard", fi.Key, "guard", pos, "reads not covered by the guard are contained by the deferred recover", true)
			}
		}
		// the recover handler assigns the named error result
		okRec := false
		var named types.Object
		if fi.Decl.Type.Results != nil && len(fi.Decl.Type.Results.List) == 1 && len(fi.Decl.Type.Results.List[0].Names) == 1 {
			named = fi.Pkg.TypesInfo.Defs[fi.Decl.Type.Results.List[0].Names[0]]
		}
		ast.Inspect(fi.Decl.Body, func(n ast.Node) bool {
			if ds, ok := n.(*ast.DeferStmt); ok {
				if ok2, _ := recoverDefer(w, fi, ds, named); ok2 {
					okRec = true
				}
			}
			return true
		})
		if okRec {
			r.OK("hdrguard", fi.Key, "recover", pos, "a deferred function recovers and assigns the named error result", true)
		} else {
			r.Fail(VViolation, "hdrguard", fi.Key, "recover", pos, "no deferred recover that turns a decoding panic into the error result")
		}
	}
}

// coveredByRecover: a defer with a recover handler was registered on this path
// before the access was performed.
func coveredByRecover(fi *FuncInfo, p *bvPath, s *bvSite) bool {
	for i, d := range p.Defers {
		has := false
		var body ast.Node
		if fl, ok := d.Call.Fun.(*ast.FuncLit); ok {
			body = fl.Body
		} else if hf := theWorld.FuncOf(theWorld.calleeOf(fi.Pkg.TypesInfo, d.Call)); hf != nil && hf.Decl.Body != nil {
			body = hf.Decl.Body
		}
		if body == nil {
			continue
		}
		ast.Inspect(body, func(m ast.Node) bool {
			if _, isLit := m.(*ast.FuncLit); isLit && m != body {
				return false
			}
			if c, ok := m.(*ast.CallExpr); ok {
				if id, ok := c.Fun.(*ast.Ident); ok && id.Name == "recover" {
					has = true
				}
			}
			return true
		})
		if !has {
			continue
		}
		if i < len(p.DeferAt) && p.DeferAt[i] < s.Seq {
			return true // registered before this access was performed
		}
	}
	return false
}

func normSite(s string) string {
	return strings.Join(strings.Fields(s), "")
}

// theWorld: the world of the running check, for helpers that are handed only syntax.
var theWorld *World
