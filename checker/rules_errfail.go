package main

import (
	"go/ast"
	"go/token"
	"go/types"
	"strings"
)

// errFailRule: in the codecs (functions of the selected packages that can report an error), a failure of a
// step is the failure of the whole: the branch taken when an error value is not nil ends in a return that
// carries a non-nil error. A branch that logs and carries on (continue, break, falling out of the if, return
// nil) turns "this element could not be encoded / decoded" into a result that silently lacks the element,
// while sizes, counts and declared lengths still include it.
func errFailRule(w *World, r *Report, rule string, sel func(fi *FuncInfo) bool) {
	n := 0
	w.eachModuleFunc(func(fi *FuncInfo) {
		if fi.Decl.Body == nil || !sel(fi) {
			return
		}
		sig := fi.Obj.Type().(*types.Signature)
		errIdx := -1
		for i := 0; i < sig.Results().Len(); i++ {
			if isErrorType(sig.Results().At(i).Type()) {
				errIdx = i
			}
		}
		if errIdx < 0 {
			return
		}
		info := fi.Pkg.TypesInfo
		var namedErr types.Object
		if sig.Results().At(errIdx).Name() != "" {
			namedErr = sig.Results().At(errIdx)
		}
		inst := 0
		ast.Inspect(fi.Decl.Body, func(nd ast.Node) bool {
			if _, isLit := nd.(*ast.FuncLit); isLit {
				return false
			}
			is, ok := nd.(*ast.IfStmt)
			if !ok {
				return true
			}
			be, ok := unparen(is.Cond).(*ast.BinaryExpr)
			if !ok || be.Op != token.NEQ {
				return true
			}
			if id, ok := unparen(be.Y).(*ast.Ident); !ok || id.Name != "nil" {
				return true
			}
			eo := identObj(info, be.X)
			if eo == nil || !isErrorType(eo.Type()) {
				return true
			}
			inst++
			n++
			key := strings.TrimSpace(types.ExprString(be.X))
			instName := key + "#" + itoa(inst)
			pos := w.Pos(is.Pos())
			if len(is.Body.List) == 0 {
				r.Fail(VViolation, rule, fi.Key, instName, pos, "the branch for a failed step is empty: the failure is ignored")
				return true
			}
			last := is.Body.List[len(is.Body.List)-1]
			// the error is kept and handed out by a later return of the same variable (`break` out of the loop,
			// or falling out of the if, with `return err` / a named result at the end)
			keptForLater := func() bool {
				if b, ok := last.(*ast.BranchStmt); ok && b.Tok != token.BREAK {
					return false
				}
				if _, ok := last.(*ast.ReturnStmt); ok {
					return false
				}
				found := false
				ast.Inspect(fi.Decl.Body, func(m ast.Node) bool {
					if _, isLit := m.(*ast.FuncLit); isLit {
						return false
					}
					rs, ok := m.(*ast.ReturnStmt)
					if !ok || rs.Pos() < is.End() {
						return true
					}
					if len(rs.Results) == 0 {
						if namedErr != nil && eo == namedErr {
							found = true
						}
					} else if errIdx < len(rs.Results) && identObj(info, rs.Results[errIdx]) == eo {
						found = true
					}
					return true
				})
				return found
			}
			if keptForLater() {
				r.OK(rule, fi.Key, instName, pos, "the error variable is kept and returned by a later return statement", false)
				return true
			}
			switch x := last.(type) {
			case *ast.ReturnStmt:
				if len(x.Results) == 0 {
					// bare return: the named error result must be the tested variable (or be assigned in the branch)
					if namedErr != nil && (eo == namedErr || assignsObj(info, is.Body, namedErr)) {
						r.OK(rule, fi.Key, instName, pos, "returns the error (named result)", false)
					} else {
						r.Fail(VViolation, rule, fi.Key, instName, pos, "the branch for a failed step returns without handing the error to the caller (the named error result is another variable, not assigned here)")
					}
					return true
				}
				if errIdx < len(x.Results) {
					if id, ok := unparen(x.Results[errIdx]).(*ast.Ident); ok && id.Name == "nil" && info.Uses[id] == types.Universe.Lookup("nil") {
						r.Fail(VViolation, rule, fi.Key, instName, pos, "the branch for a failed step returns a nil error: the caller gets a result that silently lacks what failed")
						return true
					}
				}
				r.OK(rule, fi.Key, instName, pos, "returns a non-nil error", false)
			case *ast.ExprStmt:
				// panic(...) / log.Fatal(...)
				if c, ok := x.X.(*ast.CallExpr); ok {
					if id, ok := unparen(c.Fun).(*ast.Ident); ok && id.Name == "panic" {
						r.OK(rule, fi.Key, instName, pos, "panics", false)
						return true
					}
				}
				r.Fail(VViolation, rule, fi.Key, instName, pos, "the branch for a failed step does not return: the function carries on without the element that failed (sizes, counts and declared lengths still include it)")
			default:
				what := "does not return"
				if b, ok := last.(*ast.BranchStmt); ok {
					what = "ends in " + b.Tok.String()
				}
				r.Fail(VViolation, rule, fi.Key, instName, pos, "the branch for a failed step "+what+": the function carries on (or stops early and reports success) without the element that failed, while sizes, counts and declared lengths still include it")
			}
			return true
		})
	})
	r.Stats["errfail_branches"] = n
}

func assignsObj(info *types.Info, body *ast.BlockStmt, o types.Object) bool {
	found := false
	ast.Inspect(body, func(n ast.Node) bool {
		if as, ok := n.(*ast.AssignStmt); ok {
			for _, l := range as.Lhs {
				if identObj(info, l) == o {
					found = true
				}
			}
		}
		return true
	})
	return found
}

func itoa(i int) string {
	return strings.TrimSpace(strings.Replace(" "+strings.Repeat("", 0)+fmtInt(i), " ", "", 1))
}

func fmtInt(i int) string {
	if i == 0 {
		return "0"
	}
	s := ""
	for i > 0 {
		s = string(rune('0'+i%10)) + s
		i /= 10
	}
	return s
}
