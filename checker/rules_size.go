package main

// Size rules shared by C01, C02, C06, C09 (DESIGN §2.3, §3 C06).

import (
	"fmt"
	"go/ast"
	"go/token"
	"go/types"
	"sort"
	"strings"
)

// KindFacts are equalities every constructor of the kind establishes.
type KindFacts struct {
	Lens  map[string]int64 // len(path) = c  (fixed-width byte fields, c > 0)
	Vals  map[string]*Term // val(path) = term over "$" paths
	Ctors []string
	Notes []string
}

// methodsOf lists the declared methods of the kind (own, not promoted).
func (w *World) methodsOf(k *Kind) []*FuncInfo {
	var out []*FuncInfo
	for _, key := range w.sortedFuncKeys() {
		fi := w.Funcs[key]
		if fi.Recv != nil && fi.Recv.Obj() == k.Named.Obj() {
			out = append(out, fi)
		}
	}
	return out
}

func isCodecMethod(name string) bool {
	switch name {
	case "Len", "MarshalBinary", "UnmarshalBinary", "Read", "Write":
		return true
	}
	return false
}

// builderStores returns, per canonical path, the builder methods of k that
// store to it.
func (w *World) builderStores(k *Kind) map[string][]string {
	out := map[string][]string{}
	for _, m := range w.methodsOf(k) {
		if isCodecMethod(m.Decl.Name.Name) {
			continue
		}
		fs := w.Interpret(m, "builder")
		for _, s := range fs.Stores {
			if strings.HasPrefix(s.Path, "$") {
				out[s.Path] = append(out[s.Path], m.Key)
			}
		}
	}
	return out
}

// canonTerm rewrites a constructor-local term to canonical "$" paths: the
// root object becomes "$", and an argument that was stored into a field is
// named by that field.
func (cs *CtorSum) canonTerm(t *Term) (*Term, bool) {
	if t == nil {
		return nil, false
	}
	t = t.Reroot2(cs.Root, "$")
	for p, v := range cs.Fields {
		var src string
		switch vv := v.(type) {
		case ObjV:
			src = vv.Path
		case SliceV:
			if len(vv.Elems) == 0 {
				src = vv.Path
			}
		case BufV:
			if cs.State != nil && cs.State.bufs[vv.ID] != nil && cs.State.bufs[vv.ID].Origin == "arg" && vv.Off.IsZero() {
				src = cs.State.bufs[vv.ID].Src
			}
		}
		if strings.HasPrefix(src, "arg:") {
			t = t.Reroot2(src, p)
		}
	}
	clean := !t.HasAtom(func(a *Atom) bool {
		return strings.Contains(a.Path, "arg:") || strings.Contains(a.Path, "new#") || strings.Contains(a.Cond, "arg:") || strings.Contains(a.Cond, "new#") || a.Kind == "opq"
	})
	return t, clean
}

func (w *World) Facts(k *Kind) *KindFacts {
	if kf, ok := w.factCache[k.Name]; ok {
		return kf
	}
	kf := &KindFacts{Lens: map[string]int64{}, Vals: map[string]*Term{}}
	if w.factCache == nil {
		w.factCache = map[string]*KindFacts{}
	}
	w.factCache[k.Name] = kf
	ctors := w.Constructors(k)
	type lcand struct {
		n   int
		val int64
		bad bool
	}
	type vcand struct {
		n   int
		val *Term
		bad bool
	}
	lens, vals := map[string]*lcand{}, map[string]*vcand{}
	nct := 0
	for _, fi := range ctors {
		cs := w.CtorSummary(fi)
		if cs.State == nil {
			kf.Notes = append(kf.Notes, fi.Key+": not summarised")
			continue
		}
		nct++
		kf.Ctors = append(kf.Ctors, fi.Key)
		for p, v := range cs.Fields {
			switch vv := v.(type) {
			case BufV:
				b := cs.State.bufs[vv.ID]
				if b == nil {
					continue
				}
				l := b.Len.Sub(vv.Off)
				c := lens[p]
				if c == nil {
					c = &lcand{}
					lens[p] = c
				}
				if l.IsConst() && l.C > 0 && b.Origin == "make" && (c.n == 0 || c.val == l.C) {
					c.n++
					c.val = l.C
				} else {
					c.bad = true
				}
			case IntV:
				c := vals[p]
				if c == nil {
					c = &vcand{}
					vals[p] = c
				}
				ct, clean := cs.canonTerm(vv.T)
				if clean && (c.n == 0 || c.val.Equal(ct)) {
					c.n++
					c.val = ct
				} else {
					c.bad = true
				}
			}
		}
	}
	if nct == 0 {
		return kf
	}
	bs := w.builderStores(k)
	for p, c := range lens {
		if !c.bad && c.n == nct && len(bs[p]) == 0 {
			kf.Lens[p] = c.val
		}
	}
	for p, c := range vals {
		if !c.bad && c.n == nct && len(bs[p]) == 0 {
			kf.Vals[p] = c.val
		}
	}
	return kf
}

// applyFacts substitutes constructor facts (rooted at "$" = the kind itself).
func applyFacts(t *Term, kf *KindFacts, used map[string]bool) *Term {
	if t == nil || kf == nil {
		return t
	}
	return t.Map(func(a *Atom) *Term {
		switch a.Kind {
		case "len":
			if c, ok := kf.Lens[a.Path]; ok {
				used[fmt.Sprintf("len(%s)=%d", a.Path, c)] = true
				return Const(c)
			}
		case "val":
			if c, ok := kf.Vals[a.Path]; ok {
				used[fmt.Sprintf("val(%s)=%s", a.Path, c)] = true
				return c
			}
		}
		return nil
	})
}

// stripWraps removes wrapN markers under the premise that the narrow
// arithmetic stays in range (the wrap itself is the C08 `wrap` rule's business).
func stripWraps(t *Term, used map[string]bool) *Term {
	if t == nil {
		return nil
	}
	for i := 0; i < 4; i++ {
		changed := false
		t = t.Map(func(a *Atom) *Term {
			if a.Kind == "wrap" {
				changed = true
				used["no "+a.Path+" overflow in "+a.Sub[0].String()] = true
				return a.Sub[0]
			}
			return nil
		})
		if !changed {
			break
		}
	}
	return t
}

// Premise is a reviewed declared-length premise of one kind (DESIGN §2.3 item 2):
// the atom keyed Key is replaced by To before comparing.
type Premise struct {
	Kind   string
	Key    string // atom key as printed
	To     func() *Term
	Reason string
}

func nestedFactsOf(w *World, k *Kind) *KindFacts {
	// facts of child kinds reachable through struct fields by value: e.g. a
	// PortStatus embeds a PhyPort whose slices its constructor sizes.
	return nil
}

type SizeVerdict struct {
	Verdict  string
	Diag     string
	Note     string
	Symbolic bool
	L, S, E  *Term
	Used     []string // constructor facts and premises the agreement relies on
	// UsedBySize: facts the number of bytes PRODUCED depends on (beyond those the size function itself uses):
	// a value that lacks them encodes to a different number of bytes
	UsedBySize []string
}

// compareSize decides size/<kind>: sizeM ≡ sizeL and, for pre-sized buffers,
// extentM ≡ sizeL up to round8.
func (w *World) compareSize(k *Kind) *SizeVerdict {
	ls := w.LenSummary(k)
	es := w.EncSummary(k)
	v := &SizeVerdict{}
	if ls == nil || ls.Term == nil {
		v.Verdict, v.Diag = VUndecided, "no summary of the size function"
		if ls != nil && len(ls.Notes) > 0 {
			v.Diag += ": " + ls.Notes[0].Text
		}
		return v
	}
	if es == nil || es.Size == nil {
		v.Verdict, v.Diag = VUndecided, "no summary of the encoder"
		if es != nil && len(es.Notes) > 0 {
			v.Diag += ": " + normNote(es.Notes[0].Text)
		}
		return v
	}
	for _, n := range append(append([]Note(nil), ls.Notes...), es.Notes...) {
		if strings.Contains(n.Text, "not summarised") || strings.Contains(n.Text, "unhandled") || strings.Contains(n.Text, "unknown") || strings.Contains(n.Text, "unresolved") || strings.Contains(n.Text, "non-additively") {
			v.Verdict, v.Diag = VUndecided, "shape outside the summary language: "+normNote(n.Text)
			return v
		}
	}
	used := map[string]bool{}
	kf := w.Facts(k)
	norm := func(t *Term) *Term {
		t = w.ExpandLens(t, 0)
		t = stripWraps(t, used)
		t = applyFacts(t, kf, used)
		t = w.applyPremises(k, t, used)
		t = w.applyNestedFacts(k, t, used)
		t = dropNilGuards(t)
		return t
	}
	self := LenCall("$", k.Name)
	L := norm(ls.Term)
	S := es.Size
	preSized := false
	if S.Equal(self) || S.Equal(ls.Term) {
		preSized = true
	}
	usedBefore := map[string]bool{}
	for u := range used {
		usedBefore[u] = true
	}
	S = norm(S)
	for u := range used {
		if !usedBefore[u] {
			v.UsedBySize = append(v.UsedBySize, u)
		}
	}
	sort.Strings(v.UsedBySize)
	E := norm(es.Extent)
	v.L, v.S, v.E = L, S, E
	v.Symbolic = L.Symbolic() || S.Symbolic() || E.Symbolic()
	var usedL []string
	for u := range used {
		usedL = append(usedL, u)
	}
	sort.Strings(usedL)
	v.Used = usedL
	how := ""
	if len(usedL) > 0 {
		how = " under {" + strings.Join(usedL, "; ") + "}"
	}
	if !S.Equal(L) {
		v.Verdict = VViolation
		v.Diag = "sizeM − sizeL = " + S.Sub(L).String()
		return v
	}
	for _, u := range usedL {
		if !factAllowed(k.Name, u) {
			v.Verdict = VViolation
			v.Diag = "size function and encoder agree only under " + u + ", which only the constructors establish: the field is exported, the API does not enforce its width, and it is not a reviewed fixed-width field (checker/premises.go)"
			return v
		}
	}
	if es.Origin == "make" || es.Origin == "join" || preSized {
		switch {
		case E.Equal(L):
			v.Verdict, v.Note = VOK, "sizeM ≡ extentM ≡ sizeL = "+ls.Term.String()+how
		case Round8(E).Equal(L):
			v.Verdict, v.Note = VOK, "sizeM ≡ sizeL = round8(extentM); tail is zero padding; sizeL = "+ls.Term.String()+how
		case E.IsConst() && L.IsConst() && E.C < L.C && L.C-E.C < 8:
			v.Verdict, v.Note = VOK, fmt.Sprintf("sizeM ≡ sizeL = %d; extentM = %d, the tail of %d bytes is zero padding%s", L.C, E.C, L.C-E.C, how)
		default:
			v.Verdict = VViolation
			v.Diag = "extentM − sizeL = " + E.Sub(L).String()
		}
		return v
	}
	v.Verdict, v.Note = VOK, "sizeM ≡ sizeL = "+ls.Term.String()+how
	return v
}

// applyNestedFacts applies constructor facts of struct-valued (by value or
// embedded) children: "$.Desc.HWAddr" uses PhyPort's facts re-rooted at $.Desc.
func (w *World) applyNestedFacts(k *Kind, t *Term, used map[string]bool) *Term {
	s := structOf(k.Named)
	if s == nil || t == nil {
		return t
	}
	var walk func(prefix string, st *types.Struct, depth int)
	walk = func(prefix string, st *types.Struct, depth int) {
		if depth > 3 {
			return
		}
		for i := 0; i < st.NumFields(); i++ {
			f := st.Field(i)
			ft := f.Type()
			if _, isPtr := ft.Underlying().(*types.Pointer); isPtr {
				continue
			}
			ck := w.KindOfType(ft)
			sub := structOf(ft)
			if sub == nil {
				continue
			}
			p := prefix + "." + f.Name()
			if ck != nil {
				kf := w.Facts(ck)
				t = t.Map(func(a *Atom) *Term {
					if a.Kind == "len" && strings.HasPrefix(a.Path, p+".") {
						if c, ok := kf.Lens["$"+a.Path[len(p):]]; ok && w.parentBuildsChild(k, a.Path, c) {
							used[fmt.Sprintf("len(%s)=%d", a.Path, c)] = true
							return Const(c)
						}
					}
					return nil
				})
			}
			walk(p, sub, depth+1)
		}
	}
	walk("$", s, 0)
	// elements of lists of concrete kinds: "$.Ports[*].HWAddr"
	t = t.Map(func(a *Atom) *Term {
		if a.Kind != "len" {
			return nil
		}
		i := strings.LastIndex(a.Path, "[*].")
		if i < 0 {
			return nil
		}
		listPath := a.Path[:i]
		// find the element kind from the struct type
		ek := w.elemKind(k, listPath)
		if ek == nil {
			return nil
		}
		if c, ok := w.Facts(ek).Lens["$"+a.Path[i+3:]]; ok {
			used[fmt.Sprintf("len(%s)=%d", a.Path, c)] = true
			return Const(c)
		}
		return nil
	})
	return t
}

// elemKind resolves the element kind of the list at canonical path p of kind k.
func (w *World) elemKind(k *Kind, p string) *Kind {
	parts := strings.Split(strings.TrimPrefix(p, "$."), ".")
	var t types.Type = k.Named
	for _, part := range parts {
		part = strings.TrimSuffix(part, "[*]")
		s := structOf(t)
		if s == nil {
			return nil
		}
		found := false
		for i := 0; i < s.NumFields(); i++ {
			if s.Field(i).Name() == part {
				t = s.Field(i).Type()
				found = true
				break
			}
		}
		if !found {
			return nil
		}
	}
	if sl, ok := t.Underlying().(*types.Slice); ok {
		return w.KindOfType(sl.Elem())
	}
	return nil
}

func normNote(s string) string {
	// notes may carry positions or generated symbol numbers; strip the numbers
	var b strings.Builder
	for i := 0; i < len(s); i++ {
		if s[i] == '#' {
			b.WriteByte('#')
			for i+1 < len(s) && s[i+1] >= '0' && s[i+1] <= '9' {
				i++
			}
			continue
		}
		b.WriteByte(s[i])
	}
	return b.String()
}

// embedViolations checks that each child encoding is placed whole.
func (w *World) embedCheck(k *Kind, es *EncSum, add func(inst, verdict, diag, note string, pos token.Pos)) {
	for _, r := range es.Recs {
		if r.Kind != "child" {
			continue
		}
		inst := strings.TrimSuffix(strings.TrimPrefix(r.Src, "enc("), ")")
		if r.W.HasAtom(func(a *Atom) bool { return a.Kind == "min" }) {
			add(inst, VViolation, "child encoding copied into a window that may be shorter than it: width "+r.W.String(), "", r.Pos)
			continue
		}
		add(inst, VOK, "", "complete child encoding placed at offset "+r.Off.String()+" width "+r.W.String(), r.Pos)
	}
}

// overlapCheck reports provable overlaps between write records.
func overlapCheck(recs []*Rec) (string, bool) {
	for i := 0; i < len(recs); i++ {
		for j := i + 1; j < len(recs); j++ {
			a, b := recs[i], recs[j]
			if a.Loop != nil || b.Loop != nil {
				continue
			}
			if a.Guard != b.Guard && (a.Guard != "" && b.Guard != "") {
				continue
			}
			if a.W.IsZero() || b.W.IsZero() {
				continue
			}
			// provable overlap: a.Off < b.Off+b.W  and  b.Off < a.Off+a.W
			c1 := b.Off.Add(b.W).Sub(a.Off).AddC(-1)
			c2 := a.Off.Add(a.W).Sub(b.Off).AddC(-1)
			if c1.NonNeg() && c2.NonNeg() && !(a.Kind == "zero" || b.Kind == "zero") {
				if a.Src == b.Src && a.Off.Equal(b.Off) {
					continue
				}
				return fmt.Sprintf("write of %s at [%s,+%s) overlaps write of %s at [%s,+%s)", b.Src, b.Off, b.W, a.Src, a.Off, a.W), true
			}
		}
	}
	return "", false
}

// parentBuildsChild: every constructor of kind k leaves the byte slice at the
// nested path (a field of a struct held by value) allocated with c bytes. A
// child's own constructor facts say nothing about a parent that never calls it.
func (w *World) parentBuildsChild(k *Kind, path string, c int64) bool {
	ctors := w.Constructors(k)
	if len(ctors) == 0 {
		return false
	}
	for _, fi := range ctors {
		cs := w.CtorSummary(fi)
		if cs.State == nil || cs.In == nil {
			return false
		}
		local := strings.Replace(path, "$", cs.Root, 1)
		v, ok := cs.In.lookupPath(cs.State, local)
		if !ok {
			return false
		}
		bv, ok := v.(BufV)
		if !ok {
			return false
		}
		b := cs.State.bufs[bv.ID]
		if b == nil || !b.Len.Sub(bv.Off).IsConst() || b.Len.Sub(bv.Off).C != c {
			return false
		}
	}
	return true
}

// builtRule: when the number of bytes an encoder produces depends on a fact only the kind's constructors
// establish (a padding slice of 4 bytes that is appended as it stands), every value of the kind that the
// module itself creates must come from a constructor. A decoder or dispatcher that allocates the kind with
// new(T) hands out values that encode to a different size than they report.
func builtRule(w *World, r *Report, rule string, sel func(k *Kind) bool) {
	for _, k := range w.KindsL {
		if k.Len == nil || k.Marshal == nil || !sel(k) {
			continue
		}
		sv := w.compareSize(k)
		var facts []string
		for _, u := range sv.UsedBySize {
			if strings.HasPrefix(u, "len(") {
				facts = append(facts, u)
			}
		}
		if len(facts) == 0 {
			continue
		}
		ctors := map[*FuncInfo]bool{}
		for _, c := range w.Constructors(k) {
			ctors[c] = true
		}
		n := 0
		for _, key := range w.sortedFuncKeys() {
			fi := w.Funcs[key]
			if ctors[fi] || fi.Decl.Body == nil {
				continue
			}
			info := fi.Pkg.TypesInfo
			ast.Inspect(fi.Decl.Body, func(nd ast.Node) bool {
				var t types.Type
				switch x := nd.(type) {
				case *ast.CallExpr:
					if id, ok := unparen(x.Fun).(*ast.Ident); ok && id.Name == "new" && len(x.Args) == 1 {
						if _, isB := info.Uses[id].(*types.Builtin); isB {
							t = info.TypeOf(x.Args[0])
						}
					}
				case *ast.CompositeLit:
					t = info.TypeOf(x)
				}
				if t == nil {
					return true
				}
				if kk := w.KindOfType(t); kk != nil && kk.Name == k.Name {
					n++
					r.Fail(VViolation, rule, k.Name, fmt.Sprintf("alloc@%s#%d", fi.Key, n), w.Pos(nd.Pos()), fmt.Sprintf("%s creates a %s without its constructor, but the encoder produces a number of bytes that depends on %s, which only the constructor establishes: such a value (for instance a decoded one that is encoded again) encodes to a different size than it reports and declares", fi.Key, k.Name, strings.Join(facts, ", ")))
				}
				return true
			})
		}
		if n == 0 {
			pos := "-"
			if fi := w.FuncOf(k.Marshal); fi != nil {
				pos = w.Pos(fi.Decl.Pos())
			}
			r.OK(rule, k.Name, "built", pos, "the encoded size depends on "+strings.Join(facts, ", ")+"; every value of the kind created in the module comes from a constructor", true)
		}
	}
}

// dropNilGuards removes a nil test that does not change the value: ite(L==nil ? a : b) where b, with every
// sum over L and len(L) taken as 0 (a nil slice has no elements), equals a — ranging over a nil list and
// skipping the loop when the list is nil produce the same size.
func dropNilGuards(t *Term) *Term {
	if t == nil {
		return nil
	}
	emptyOf := func(d string) (string, bool) {
		switch {
		case strings.HasSuffix(d, "==nil"):
			return strings.TrimSuffix(d, "==nil"), true
		case strings.HasPrefix(d, "!(0<len(") && strings.HasSuffix(d, "))"):
			return d[len("!(0<len(") : len(d)-2], true
		case strings.HasPrefix(d, "len(") && strings.HasSuffix(d, ")==0"):
			return d[len("len(") : len(d)-len(")==0")], true
		}
		return "", false
	}
	return t.Map(func(a *Atom) *Term {
		if a.Kind != "ite" || len(a.Sub) != 2 {
			return nil
		}
		// the condition is a disjunction; a disjunct "L is empty" can go when the else-arm, with every
		// sum over L and len(L) taken as 0, equals the then-arm: both arms then agree whenever it holds
		parts := splitOr(a.Cond)
		var rest []string
		dropped := false
		for _, d := range parts {
			p, isEmpty := emptyOf(d)
			if isEmpty {
				zeroed := a.Sub[1].Map(func(b *Atom) *Term {
					if (b.Kind == "sum" || b.Kind == "len") && b.Path == p {
						return Const(0)
					}
					return nil
				})
				if zeroed.Equal(a.Sub[0]) {
					dropped = true
					continue
				}
			}
			rest = append(rest, d)
		}
		if !dropped {
			return nil
		}
		if len(rest) == 0 {
			return a.Sub[1]
		}
		c := rest[0]
		for _, d := range rest[1:] {
			c = orCond(c, d)
		}
		return Ite(c, a.Sub[0], a.Sub[1])
	})
}
