package main

import (
	"fmt"
	"go/ast"
	"go/token"
	"go/types"
	"strings"

	"golang.org/x/tools/go/types/typeutil"
)

const maxInline = 4

func (in *Interp) callee(call *ast.CallExpr) *types.Func {
	f, _ := typeutil.Callee(in.info, call).(*types.Func)
	return f
}

func putWidth(name string) (int64, bool) {
	switch name {
	case "PutUint16":
		return 2, true
	case "PutUint32":
		return 4, true
	case "PutUint64":
		return 8, true
	}
	return 0, false
}

func appendWidth(name string) (int64, bool) {
	switch name {
	case "AppendUint16":
		return 2, true
	case "AppendUint32":
		return 4, true
	case "AppendUint64":
		return 8, true
	}
	return 0, false
}

func getWidth(name string) (int64, bool) {
	switch name {
	case "Uint16":
		return 2, true
	case "Uint32":
		return 4, true
	case "Uint64":
		return 8, true
	}
	return 0, false
}

func isBinaryOrder(f *types.Func) (order string, ok bool) {
	if f == nil || f.Pkg() == nil || f.Pkg().Path() != "encoding/binary" {
		return "", false
	}
	sig := f.Type().(*types.Signature)
	if sig.Recv() == nil {
		return "", false
	}
	rt := sig.Recv().Type().String()
	switch {
	case strings.HasSuffix(rt, "bigEndian"):
		return "be", true
	case strings.HasSuffix(rt, "littleEndian"):
		return "le", true
	}
	return "", false
}

func (in *Interp) call(st *State, call *ast.CallExpr) Val {
	// conversions
	if tv, ok := in.info.Types[call.Fun]; ok && tv.IsType() && len(call.Args) == 1 {
		return in.convert(st, tv.Type, call.Args[0], call)
	}
	// builtins
	if id, ok := unparen(call.Fun).(*ast.Ident); ok {
		if _, isB := in.obj(id).(*types.Builtin); isB {
			return in.builtin(st, id.Name, call)
		}
	}
	f := in.callee(call)
	if f == nil {
		// call of a function value (closure, package-level func var)
		fv := in.eval(st, call.Fun)
		if cl, ok := fv.(ClosV); ok {
			return in.inlineClosure(st, cl, call)
		}
		for _, a := range call.Args {
			in.eval(st, a)
		}
		in.note(call.Pos(), "call through unresolved function value %s", in.render(st, call.Fun))
		return in.resultByType(st, call, "call:"+in.render(st, call))
	}
	pkg := ""
	if f.Pkg() != nil {
		pkg = f.Pkg().Path()
	}
	name := f.Name()
	sig := f.Type().(*types.Signature)

	// encoding/binary byte order methods
	if order, ok := isBinaryOrder(f); ok {
		if w, ok := putWidth(name); ok && len(call.Args) == 2 {
			dst := in.eval(st, call.Args[0])
			in.eval(st, call.Args[1])
			if bv, ok := dst.(BufV); ok {
				in.site(st, bv, "put", bv.Off, Const(w), call)
				if b := st.bufs[bv.ID]; b != nil && (b.Origin == "field" || b.Origin == "arg") {
					in.recordStore(st, b.Src+"[]", "put", in.operand(st, call.Args[1]), UnkV{}, call.Pos())
				}
				rec := &Rec{Kind: "int", Src: in.operand(st, call.Args[1]), Order: order, Expr: call.Args[1], Pos: call.Pos()}
				if iv, ok := in.eval(st, call.Args[1]).(IntV); ok {
					rec.Val = iv.T
				}
				in.write(st, bv, Const(w), rec)
			} else {
				in.note(call.Pos(), "%s into unknown buffer %s", name, in.render(st, call.Args[0]))
			}
			return UnkV{}
		}
		if w, ok := appendWidth(name); ok && len(call.Args) == 2 {
			// binary.BigEndian.AppendUintN(b, v): b extended by the N-byte value
			base := in.eval(st, call.Args[0])
			var bb *BufObj
			var bview BufV
			switch bvv := base.(type) {
			case BufV:
				bview = bvv
				bb = st.bufs[bvv.ID]
			case NilV:
				bb = &BufObj{Origin: "nil", Len: Const(0), Extent: Const(0)}
			}
			if bb == nil {
				in.eval(st, call.Args[1])
				in.note(call.Pos(), "%s onto unknown buffer %s", name, in.render(st, call.Args[0]))
				return in.opaqueOf(st, "append", in.info.TypeOf(call))
			}
			baseLen := bb.Len
			if bview.Hi != nil {
				baseLen = bview.Hi
			}
			nb := &BufObj{Origin: "append", Len: baseLen.AddC(w), Extent: baseLen.AddC(w), Pos: call.Pos(), Src: bb.Src}
			if bb.Origin == "enc" && len(bb.Recs) == 0 {
				nb.Recs = append(nb.Recs, &Rec{Off: Const(0), W: baseLen, Kind: "child", Src: "enc(" + bb.Src + ")", Pos: bb.Pos, Guard: in.guard(), Fn: in.fi.Key, Snap: bb.Snap})
				nb.Src = ""
			} else if bb.Origin == "field" || bb.Origin == "arg" {
				nb.Recs = append(nb.Recs, &Rec{Off: Const(0), W: baseLen, Kind: "bytes", Src: bb.Src, Pos: call.Pos(), Guard: in.guard()})
				nb.SrcType = "field-append"
			} else {
				nb.Recs = append(nb.Recs, bb.Recs...)
			}
			rec := &Rec{Off: baseLen, W: Const(w), Kind: "int", Src: in.operand(st, call.Args[1]), Order: order, Expr: call.Args[1], Pos: call.Pos(), Guard: in.guard(), Fn: in.fi.Key}
			if iv, ok := in.eval(st, call.Args[1]).(IntV); ok {
				rec.Val = iv.T
			}
			if len(in.loops) > 0 {
				rec.Loop = in.loops[len(in.loops)-1]
			}
			nb.Recs = append(nb.Recs, rec)
			return in.newBuf(st, nb)
		}
		if w, ok := getWidth(name); ok && len(call.Args) == 1 {
			src := in.eval(st, call.Args[0])
			if bv, ok := src.(BufV); ok {
				in.site(st, bv, "get", bv.Off, Const(w), call)
				if b := st.bufs[bv.ID]; b != nil && b.Origin == "param" {
					in.pendingRead = &Rec{Off: bv.Off, W: Const(w), Kind: "int", Order: order, Pos: call.Pos()}
					return IntV{setAtomMax(FromAtom(&Atom{Kind: "val", Path: fmt.Sprintf("P[%s:%d]", bv.Off, w)}), int64(1)<<uint(8*w)-1)}
				}
			}
			return IntV{Opq(in.render(st, call))}
		}
	}

	// methods on receivers
	var recvVal Val
	if sig.Recv() != nil {
		if sel, ok := unparen(call.Fun).(*ast.SelectorExpr); ok {
			recvVal = in.eval(st, sel.X)
			// promoted method: extend the receiver path through the embedded fields
			if s, ok := in.info.Selections[sel]; ok && len(s.Index()) > 1 {
				if ov, ok := recvVal.(ObjV); ok {
					t := s.Recv()
					cur := ov
					for _, idx := range s.Index()[:len(s.Index())-1] {
						so := structOf(t)
						if so == nil {
							break
						}
						fld := so.Field(idx)
						p := cur.Path + "." + fld.Name()
						t = fld.Type()
						if v, ok := st.fields[p]; ok {
							if o2, ok := v.(ObjV); ok {
								if _, isPtr := fld.Type().Underlying().(*types.Pointer); isPtr {
									cur = ObjV{Path: o2.Path, Type: t}
									continue
								}
							}
						}
						cur = ObjV{Path: p, Type: t}
					}
					recvVal = cur
				}
			}
		}
	}

	cr := &CallRec{Callee: f, Recv: recvVal, Pos: call.Pos(), Guard: in.guard(), Text: f.FullName()}
	for i := in; i != nil; i = i.parent {
		if i.parent == nil {
			i.Calls = append(i.Calls, cr)
		}
	}

	// a stream reached through an interface (io.Writer, io.Reader): the bytes.Buffer methods apply
	if sig.Recv() != nil && pkg != "bytes" {
		if bv, b, ok := in.streamOf(st, recvVal); ok {
			if v, handled := in.streamMethod(st, bv, b, name, call); handled {
				return v
			}
		}
	}
	// standard library models
	switch pkg {
	case "net":
		switch name {
		case "To4", "To16":
			n := int64(4)
			if name == "To16" {
				n = 16
			}
			src := "?"
			if bv, ok := recvVal.(BufV); ok && st.bufs[bv.ID] != nil {
				src = st.bufs[bv.ID].Src
			}
			v := in.newBuf(st, &BufObj{Origin: "field", Src: src + "." + name + "()", Len: Const(n), Pos: call.Pos()})
			st.bufs[v.ID].Extent = Const(n)
			return v
		case "IPv4":
			// four single-byte reads form one 4-byte record
			var first *Rec
			ok4 := len(call.Args) == 4
			for i, a := range call.Args {
				in.pendingRead = nil
				in.eval(st, a)
				if in.pendingRead == nil {
					ok4 = false
				} else if i == 0 {
					first = in.pendingRead
				} else if first != nil && !in.pendingRead.Off.Equal(first.Off.AddC(int64(i))) {
					ok4 = false
				}
			}
			in.pendingRead = nil
			if ok4 && first != nil {
				in.pendingRead = &Rec{Off: first.Off, W: Const(4), Kind: "bytes", Pos: call.Pos()}
			}
			v := in.newBuf(st, &BufObj{Origin: "fresh", Src: "net.IPv4", Len: Const(16), Pos: call.Pos(), FromRead: in.pendingRead})
			st.bufs[v.ID].Extent = Const(16)
			return v
		}
	case "encoding/binary":
		if sig.Recv() == nil && (name == "Write" || name == "Read") && len(call.Args) == 3 {
			if sbv, b, ok := in.streamOf(st, in.eval(st, call.Args[0])); ok {
				order := orderOfExpr(in.info, call.Args[1])
				if name == "Write" && b.Origin == "stream" {
					in.streamWriteValue(st, sbv.ID, order, call.Args[2], call.Pos())
					return NilV{}
				}
				if name == "Read" && b.Origin == "rstream" {
					in.streamReadValue(st, sbv.ID, order, call.Args[2], call.Pos())
					b = st.bufs[sbv.ID]
					// binary.Read fails (io.ErrUnexpectedEOF / io.EOF) unless the bytes were there: a nil error
					// means the cursor is still inside the window
					key := "err:binary.Read@" + in.w.Pos(call.Pos())
					if st.ensures == nil {
						st.ensures = map[string][]Fact{}
					}
					st.ensures[key] = []Fact{{L: b.Len, R: b.Extent, Src: "success of binary.Read at " + in.w.Pos(call.Pos())}}
					return ObjV{Path: key, Type: types.Universe.Lookup("error").Type()}
				}
			}
		}
	case "bytes":
		if sig.Recv() != nil {
			if bv, b, ok := in.streamOf(st, recvVal); ok {
				if v, handled := in.streamMethod(st, bv, b, name, call); handled {
					return v
				}
			}
		} else if (name == "NewBuffer" || name == "NewBufferString") && len(call.Args) == 1 {
			av := in.eval(st, call.Args[0])
			switch a := av.(type) {
			case NilV:
				return in.newStream(st, call.Pos())
			case BufV:
				ab := st.bufs[a.ID]
				switch {
				case ab != nil && ab.Origin == "param":
					hi := ab.Len
					if a.Hi != nil {
						hi = a.Hi
					}
					return in.newBuf(st, &BufObj{Origin: "rstream", Src: "P", Len: a.Off, Extent: hi, Pos: call.Pos()})
				case ab != nil && (ab.Origin == "make" || ab.Origin == "nil" || ab.Origin == "lit" || ab.Origin == "append"):
					// NewBuffer(make([]byte, 0, n)) and the like: the stream starts with the slice's contents
					sv := in.newStream(st, call.Pos())
					if !in.viewLen(st, a).IsZero() {
						in.streamAppendBytes(st, st.bufs[sv.ID], a, call.Args[0], call.Pos())
					}
					return sv
				}
			}
		}
		switch name {
		case "Len":
			if ov, ok := recvVal.(ObjV); ok {
				return IntV{LenOf(ov.Path + ".Bytes()")}
			}
		case "Bytes":
			if ov, ok := recvVal.(ObjV); ok {
				p := ov.Path + ".Bytes()"
				v := in.newBuf(st, &BufObj{Origin: "field", Src: p, Len: LenOf(p), Pos: call.Pos()})
				st.bufs[v.ID].Extent = LenOf(p)
				return v
			}
		case "Next", "Grow", "Truncate":
			// (*bytes.Buffer).Next / Grow / Truncate panic on a negative count
			if sig.Recv() != nil && len(call.Args) == 1 {
				n := in.evalInt(st, call.Args[0])
				facts := append([]Fact(nil), st.facts...)
				in.addSite(&Site{Kind: "count", Buf: "bytes.Buffer", Origin: "lib", Pos: call.Pos(), Text: in.render(st, call), Fn: in.fi.Key, Guard: in.guard(), Expr: call,
					Needs: []Need{{A: Const(0), B: n, What: "count not negative"}}, Facts: facts})
			}
		case "Reset":
			if ov, ok := recvVal.(ObjV); ok {
				in.recordStore(st, ov.Path+".Bytes()", "reset", "", UnkV{}, call.Pos())
			}
			return UnkV{}
		case "Write":
			if ov, ok := recvVal.(ObjV); ok && len(call.Args) == 1 {
				av := in.eval(st, call.Args[0])
				in.recordStore(st, ov.Path+".Bytes()", "write", in.render(st, call.Args[0]), av, call.Pos())
				if bv, ok := av.(BufV); ok {
					if b := st.bufs[bv.ID]; b != nil && b.Origin == "param" {
						w := in.viewLen(st, bv)
						in.addRead(&Rec{Off: bv.Off, W: w, Kind: "bytes", Src: ov.Path, Pos: call.Pos()})
					}
				}
			}
			return UnkV{}
		}
	case "errors", "fmt":
		for _, a := range call.Args {
			in.eval(st, a)
		}
		if name == "New" || name == "Errorf" {
			return ObjV{Path: "error", Type: types.Universe.Lookup("error").Type()}
		}
		return UnkV{}
	case "log", "github.com/sirupsen/logrus":
		for _, a := range call.Args {
			in.eval(st, a)
		}
		return UnkV{}
	case "unsafe":
		return UnkV{}
	}

	var args []Val
	for _, a := range call.Args {
		args = append(args, in.eval(st, a))
	}
	cr.Args = args

	// a method of a module interface that exactly one type of the module implements, where that type is not
	// a wire kind of its own (a value holder such as a DHCP option): the call is that type's method
	if sig.Recv() != nil && in.w.FuncOf(f) == nil {
		if _, isIface := sig.Recv().Type().Underlying().(*types.Interface); isIface {
			if impl := in.w.uniqueImpl(f); impl != nil && in.depth < maxInline && !in.recursing(impl) {
				rv := recvVal
				if ov, ok := recvVal.(ObjV); ok {
					rv = ObjV{Path: ov.Path, Type: impl.Obj.Type().(*types.Signature).Recv().Type()}
				}
				return in.inlineFunc(st, impl, rv, args, call)
			}
		}
	}
	// the wire interface: Len / MarshalBinary / UnmarshalBinary on some value
	if sig.Recv() != nil {
		switch {
		case name == "Len" && sig.Params().Len() == 0 && in.w.isLenSig(f):
			return IntV{in.lenCall(st, f, recvVal, call)}
		case name == "MarshalBinary" && sig.Params().Len() == 0:
			return in.marshalCall(st, f, recvVal, call)
		case name == "UnmarshalBinary" && sig.Params().Len() == 1:
			return in.unmarshalCall(st, f, recvVal, args, call)
		case name == "MarshalHeader" && sig.Params().Len() == 0:
			p := "?"
			if ov, ok := recvVal.(ObjV); ok {
				p = ov.Path
			}
			return IntV{FromAtom(&Atom{Kind: "val", Path: "oxmheader(" + p + ")"})}
		}
	}

	// (*big.Int).FillBytes(buf) panics when the magnitude does not fit: a bounds obligation
	// (BitLen+7)/8 <= len(buf), and the result is the buffer it was given
	if f.FullName() == "(*math/big.Int).FillBytes" && len(args) == 1 {
		if se, ok := unparen(call.Fun).(*ast.SelectorExpr); ok {
			if bv, ok := args[0].(BufV); ok && st.bufs[bv.ID] != nil {
				need := Div(Opq("call:"+in.render(st, se.X)+".BitLen()").AddC(7), Const(8))
				sInfo := &Site{Kind: "fill", Buf: in.bufName(st, bv), Origin: st.bufs[bv.ID].Origin, Pos: call.Pos(), Fn: in.fi.Key, Guard: in.guard(), Expr: call}
				sInfo.Text = in.render(nil, call)
				sInfo.Needs = append(sInfo.Needs, Need{A: need, B: in.limit(st, bv), What: "magnitude fits the buffer (FillBytes panics otherwise)"})
				sInfo.Facts = append([]Fact(nil), st.facts...)
				if !in.noSites {
					in.addSite(sInfo)
				}
				return bv
			}
		}
	}
	// in-module helpers: inline when shallow
	if fi := in.w.FuncOf(f); fi != nil && in.depth < maxInline && !in.recursing(fi) {
		return in.inlineFunc(st, fi, recvVal, args, call)
	}
	if fi := in.w.FuncOf(f); fi != nil {
		in.note(call.Pos(), "call to %s not inlined (depth)", fi.Key)
	}
	return in.resultByType(st, call, "call:"+in.render(st, call))
}

func (in *Interp) recursing(fi *FuncInfo) bool {
	for i := in; i != nil; i = i.parent {
		if i.fi == fi {
			return true
		}
	}
	return false
}

func (in *Interp) resultByType(st *State, call *ast.CallExpr, name string) Val {
	t := in.info.TypeOf(call)
	if t == nil {
		return UnkV{name}
	}
	if tup, ok := t.(*types.Tuple); ok {
		if tup.Len() == 0 {
			return UnkV{name}
		}
		var vs []Val
		for i := 0; i < tup.Len(); i++ {
			vs = append(vs, in.opaqueOf(st, fmt.Sprintf("%s.%d", name, i), tup.At(i).Type()))
		}
		return TupleV{vs}
	}
	return in.opaqueOf(st, name, t)
}

func (in *Interp) opaqueOf(st *State, name string, t types.Type) Val {
	switch {
	case isIntType(t):
		return IntV{Opq(name)}
	case isByteSlice(t):
		v := in.newBuf(st, &BufObj{Origin: "unknown", Src: name, Len: Opq("len(" + name + ")")})
		st.bufs[v.ID].Extent = st.bufs[v.ID].Len
		return v
	}
	switch t.Underlying().(type) {
	case *types.Pointer, *types.Struct, *types.Interface:
		return ObjV{Path: name, Type: t}
	}
	return UnkV{name}
}

type TupleV struct{ Vs []Val }

func (TupleV) valString() string { return "tuple" }

func (in *Interp) convert(st *State, to types.Type, arg ast.Expr, call *ast.CallExpr) Val {
	v := in.eval(st, arg)
	from := in.info.TypeOf(arg)
	switch vv := v.(type) {
	case IntV:
		if isIntType(to) && from != nil && isIntType(from) {
			tb, tu := intBits(to)
			fb, _ := intBits(from)
			if tb < fb && tb <= 16 && !in.fitsUnsigned(vv.T, tb) && tu {
				// narrowing conversion of a value that may not fit
				if at := vv.T.SingleAtom(); at != nil && (at.Kind == "len") {
					// uint16(len(x)) / uint8(len(x)): sizes above the type's range are
					// outside the statements (≤ 65535 bytes); keep the value.
					return vv
				}
				if tb <= 8 {
					return IntV{Wrap(fmt.Sprintf("uint%d", tb), vv.T)}
				}
			}
		}
		return vv
	case BufV:
		return vv
	case ObjV:
		return ObjV{Path: vv.Path, Type: to}
	}
	return v
}

func (in *Interp) builtin(st *State, name string, call *ast.CallExpr) Val {
	switch name {
	case "len":
		v := in.eval(st, call.Args[0])
		switch vv := v.(type) {
		case BufV:
			return IntV{in.viewLen(st, vv)}
		case SliceV:
			if vv.Len != nil {
				return IntV{vv.Len}
			}
		}
		if t := in.info.TypeOf(call.Args[0]); t != nil {
			if a, ok := derefType(t).Underlying().(*types.Array); ok {
				return IntV{Const(a.Len())}
			}
		}
		return IntV{LenOf(in.operand(st, call.Args[0]))}
	case "cap":
		return IntV{Opq("cap(" + in.render(st, call.Args[0]) + ")")}
	case "make":
		t := in.info.TypeOf(call)
		var n *Term = Const(0)
		if len(call.Args) > 1 {
			n = in.evalInt(st, call.Args[1])
		}
		size := n
		if len(call.Args) > 2 {
			size = in.evalInt(st, call.Args[2]) // the capacity is what is allocated
		}
		in.Allocs = append(in.Allocs, &AllocSite{Size: size, Pos: call.Pos(), Text: in.render(st, call), Guard: in.guard(), Fn: in.fi.Key, Facts: append([]Fact(nil), st.facts...)})
		if isByteSlice(t) {
			return in.newBuf(st, &BufObj{Origin: "make", Len: n, Pos: call.Pos()})
		}
		if _, ok := t.Underlying().(*types.Slice); ok {
			return SliceV{Len: n}
		}
		return UnkV{"make"}
	case "new":
		t := in.info.TypeOf(call)
		if isBytesBuffer(t) {
			return in.newStream(st, call.Pos())
		}
		return in.newObj(t)
	case "append":
		return in.appendCall(st, call)
	case "copy":
		return in.copyCall(st, call)
	case "panic":
		in.Calls = append(in.Calls, &CallRec{Pos: call.Pos(), Guard: in.guard(), Text: "panic"})
		return UnkV{}
	}
	for _, a := range call.Args {
		in.eval(st, a)
	}
	return UnkV{name}
}

func (in *Interp) viewLen(st *State, v BufV) *Term {
	if v.Hi != nil {
		return v.Hi.Sub(v.Off)
	}
	b := st.bufs[v.ID]
	if b == nil {
		return Opq("len(?)")
	}
	return b.Len.Sub(v.Off)
}

// write appends a write record at view v of width w.
func (in *Interp) write(st *State, v BufV, w *Term, r *Rec) {
	b := st.bufs[v.ID]
	if b == nil {
		return
	}
	r.Off = v.Off
	r.W = w
	r.Guard = in.guard()
	r.Fn = in.fi.Key
	if len(in.loops) > 0 {
		r.Loop = in.loops[len(in.loops)-1]
	}
	b.Recs = append(b.Recs, r)
	end := v.Off.Add(w)
	if !end.Sub(b.Extent).NonPos() {
		if b.Extent.Sub(end).NonPos() {
			b.Extent = end
		} else {
			// incomparable: keep the later one structurally
			b.Extent = end
		}
	}
}

func (in *Interp) copyCall(st *State, call *ast.CallExpr) Val {
	dst := in.eval(st, call.Args[0])
	src := in.eval(st, call.Args[1])
	dv, dok := dst.(BufV)
	sv, sok := src.(BufV)
	if !dok {
		in.note(call.Pos(), "copy into non-buffer %s", in.render(st, call.Args[0]))
		return UnkV{}
	}
	db := st.bufs[dv.ID]
	var slen *Term
	srcName := in.operand(st, call.Args[1])
	kind := "bytes"
	var sb *BufObj
	if sok {
		slen = in.viewLen(st, sv)
		sb = st.bufs[sv.ID]
		if sb != nil {
			switch sb.Origin {
			case "enc":
				kind = "child"
				srcName = "enc(" + sb.Src + ")"
			case "field", "arg":
				srcName = sb.Src
			case "nil":
				srcName = "nil"
			case "param":
				srcName = "P"
			case "make":
				srcName = "local"
			}
		}
	} else {
		slen = LenOf(srcName)
	}
	// decoder direction: copy(receiver field, P[a:b])
	if sb != nil && sb.Origin == "param" && db != nil && db.Origin != "param" {
		w := slen
		dl := in.viewLen(st, dv)
		in.addRead(&Rec{Off: sv.Off, W: Min(w, dl), Kind: "bytes", Src: in.bufName(st, dv), Pos: call.Pos()})
		in.Copies = append(in.Copies, &CopyRec{Dst: in.bufName(st, dv), DstLen: dl, SrcLen: w, DstOrigin: db.Origin, Pos: call.Pos(), Guard: in.guard()})
		return IntV{Min(w, dl)}
	}
	// a copy into a receiver (or argument) slice is a store into caller-visible memory
	if db != nil && (db.Origin == "field" || db.Origin == "arg") {
		in.recordStore(st, db.Src+"[]", "copy", srcName, UnkV{}, call.Pos())
	}
	// encoder direction
	w := slen
	capped := false
	if dv.Hi != nil {
		w = Min(slen, dv.Hi.Sub(dv.Off))
		capped = true
	}
	rec := &Rec{Kind: kind, Src: srcName, Pos: call.Pos(), Expr: call.Args[1]}
	if sb != nil {
		rec.Snap = sb.Snap
	}
	if sb != nil && (sb.Origin == "make" || sb.Origin == "append" || sb.Origin == "lit") && len(sb.Recs) > 0 {
		// a locally built block is copied: carry its records over
		for _, r := range sb.Recs {
			nr := *r
			nr.Off = dv.Off.Add(r.Off.Sub(sv.Off))
			nr.Guard = andGuard(in.guard(), r.Guard)
			db.Recs = append(db.Recs, &nr)
		}
		end := dv.Off.Add(w)
		if !end.Sub(db.Extent).NonPos() {
			db.Extent = end
		}
	} else {
		in.write(st, dv, w, rec)
	}
	in.Copies = append(in.Copies, &CopyRec{Dst: in.bufName(st, dv), DstLen: in.viewLen(st, dv), SrcLen: slen, Src: srcName, Kind: kind, Capped: capped, DstOrigin: db.Origin, Pos: call.Pos(), Guard: in.guard(), Off: dv.Off, BufLen: db.Len})
	return IntV{w}
}

func andGuard(a, b string) string {
	switch {
	case a == "":
		return b
	case b == "":
		return a
	}
	return a + " && " + b
}

func (in *Interp) bufName(st *State, v BufV) string {
	b := st.bufs[v.ID]
	if b == nil {
		return "?"
	}
	switch b.Origin {
	case "field", "arg":
		return b.Src
	case "param":
		return "P"
	}
	// a freshly made buffer already stored in a receiver field is named by that field
	best := ""
	for p, fv := range st.fields {
		if bv, ok := fv.(BufV); ok && bv.ID == v.ID && strings.HasPrefix(p, "$.") && (best == "" || p < best) {
			best = p
		}
	}
	if best != "" {
		return best
	}
	return fmt.Sprintf("%s#%d", b.Origin, v.ID)
}

type CopyRec struct {
	Dst, Src, Kind string
	DstLen, SrcLen *Term
	Off, BufLen    *Term
	Capped         bool
	DstOrigin      string
	Pos            token.Pos
	Guard          string
}

func (in *Interp) appendCall(st *State, call *ast.CallExpr) Val {
	base := in.eval(st, call.Args[0])
	t := in.info.TypeOf(call)
	if isByteSlice(t) {
		var bb *BufObj
		var bview BufV
		switch bvv := base.(type) {
		case BufV:
			bview = bvv
			bb = st.bufs[bvv.ID]
		case NilV:
			bb = &BufObj{Origin: "nil", Len: Const(0), Extent: Const(0)}
		}
		if bb == nil {
			in.note(call.Pos(), "append to unknown buffer %s", in.render(st, call.Args[0]))
			return in.opaqueOf(st, "append", t)
		}
		baseLen := bb.Len
		if bview.Hi != nil {
			baseLen = bview.Hi
		}
		nb := &BufObj{Origin: "append", Len: baseLen, Extent: baseLen, Pos: call.Pos(), Src: bb.Src}
		if bb.Origin == "enc" && len(bb.Recs) == 0 {
			nb.Recs = append(nb.Recs, &Rec{Off: Const(0), W: baseLen, Kind: "child", Src: "enc(" + bb.Src + ")", Pos: bb.Pos, Guard: in.guard(), Fn: in.fi.Key, Snap: bb.Snap})
			nb.Src = ""
		} else if bb.Origin == "field" || bb.Origin == "arg" {
			// appending to a receiver slice: the result aliases/extends the field
			nb.Recs = append(nb.Recs, &Rec{Off: Const(0), W: baseLen, Kind: "bytes", Src: bb.Src, Pos: call.Pos(), Guard: in.guard()})
			nb.Src = bb.Src
			nb.SrcType = "field-append"
			// … and, where the field's array has spare capacity, the appended bytes are written into it (not
			// through a full slice expression s[a:b:b], whose capacity is used up: append must reallocate)
			if len(call.Args) > 1 && !fullSliceNoSpare(call.Args[0]) {
				cr := &CallRec{Pos: call.Pos(), Guard: in.guard(), Text: "append-onto-field:" + bb.Src}
				for i := in; i != nil; i = i.parent {
					if i.parent == nil {
						i.Calls = append(i.Calls, cr)
					}
				}
			}
		} else {
			nb.Recs = append(nb.Recs, bb.Recs...)
		}
		if call.Ellipsis != token.NoPos && len(call.Args) == 2 {
			sv := in.eval(st, call.Args[1])
			if s, ok := sv.(BufV); ok {
				sb := st.bufs[s.ID]
				sl := in.viewLen(st, s)
				sl = convResultLen(sb, s, sl)
				loop := (*LoopCtx)(nil)
				if len(in.loops) > 0 {
					loop = in.loops[len(in.loops)-1]
				}
				if sb != nil && (sb.Origin == "make" || sb.Origin == "append" || sb.Origin == "lit") {
					for _, r := range sb.Recs {
						nr := *r
						nr.Off = baseLen.Add(r.Off.Sub(s.Off))
						nr.Guard = andGuard(in.guard(), r.Guard)
						if nr.Loop == nil {
							nr.Loop = loop
						}
						nb.Recs = append(nb.Recs, &nr)
					}
					if len(sb.Recs) == 0 && sb.Origin == "make" {
						nb.Recs = append(nb.Recs, &Rec{Off: baseLen, W: sl, Kind: "zero", Src: "zero", Pos: call.Pos(), Guard: in.guard(), Loop: loop, Fn: in.fi.Key})
					}
				} else if sb != nil {
					kind, src := "bytes", sb.Src
					if sb.Origin == "enc" {
						kind, src = "child", "enc("+sb.Src+")"
					}
					if sb.Origin == "param" {
						src = "P"
					}
					nb.Recs = append(nb.Recs, &Rec{Off: baseLen, W: sl, Kind: kind, Src: src, Pos: call.Pos(), Guard: in.guard(), Loop: loop, Fn: in.fi.Key, Expr: call.Args[1], Snap: sb.Snap})
					if sb.Origin == "param" && bb.Origin != "param" {
						in.addRead(&Rec{Off: s.Off, W: sl, Kind: "bytes", Src: in.operand(st, call.Args[0]), Pos: call.Pos()})
					}
				}
				nb.Len = baseLen.Add(sl)
				nb.Extent = nb.Len
			} else {
				in.note(call.Pos(), "append of unknown bytes %s", in.render(st, call.Args[1]))
				nb.Len = baseLen.Add(Opq("len(" + in.render(st, call.Args[1]) + ")"))
				nb.Extent = nb.Len
			}
		} else {
			for i, a := range call.Args[1:] {
				in.eval(st, a)
				nb.Recs = append(nb.Recs, &Rec{Off: baseLen.AddC(int64(i)), W: Const(1), Kind: "byte", Src: in.operand(st, a), Pos: a.Pos(), Guard: in.guard(), Expr: a, Fn: in.fi.Key})
			}
			nb.Len = baseLen.AddC(int64(len(call.Args) - 1))
			nb.Extent = nb.Len
		}
		return in.newBuf(st, nb)
	}
	// list append
	var sv SliceV
	switch b := base.(type) {
	case SliceV:
		sv = b
	case NilV:
		sv = SliceV{Len: Const(0)}
	default:
		sv = SliceV{Len: Opq("len(" + in.render(st, call.Args[0]) + ")")}
	}
	out := SliceV{Path: sv.Path, Base: sv.Base, Len: sv.Len}
	if sv.Path != "" && sv.Base == "" {
		out.Base = sv.Path
	}
	// appending onto a list of the receiver (or of an argument): where its array has spare capacity the
	// new element is written into memory the value shares with whoever else holds that array
	if root := sv.Path; root != "" && len(call.Args) > 1 && (strings.HasPrefix(root, "$.") || strings.HasPrefix(root, "arg:")) && !fullSliceNoSpare(call.Args[0]) {
		cr := &CallRec{Pos: call.Pos(), Guard: in.guard(), Text: "append-onto-field:" + root}
		for i := in; i != nil; i = i.parent {
			if i.parent == nil {
				i.Calls = append(i.Calls, cr)
			}
		}
	}
	out.Elems = append(out.Elems, sv.Elems...)
	if call.Ellipsis != token.NoPos && len(call.Args) == 2 {
		av := in.eval(st, call.Args[1])
		if as, ok := av.(SliceV); ok {
			out.Elems = append(out.Elems, SpreadV{as})
			if as.Len != nil && out.Len != nil {
				out.Len = out.Len.Add(as.Len)
			}
		} else {
			out.Elems = append(out.Elems, UnkV{in.render(st, call.Args[1])})
			out.Len = nil
		}
	} else {
		for _, a := range call.Args[1:] {
			out.Elems = append(out.Elems, in.eval(st, a))
		}
		if out.Len != nil {
			out.Len = out.Len.AddC(int64(len(call.Args) - 1))
		}
	}
	return out
}

// SpreadV marks "all elements of this slice" inside SliceV.Elems.
type SpreadV struct{ S SliceV }

func (SpreadV) valString() string { return "spread" }

// lenCall models x.Len(): the callee's own summary with the receiver
// substituted when the static callee is a concrete in-module method, an
// opaque Len atom for interface calls.
func (in *Interp) lenCall(st *State, f *types.Func, recv Val, call *ast.CallExpr) *Term {
	path := "?"
	var rt types.Type
	switch r := recv.(type) {
	case ObjV:
		path, rt = r.Path, r.Type
	case BufV:
		return in.viewLen(st, r)
	case AltV:
		// one of several concrete kinds: the size is that of one of them
		if ks := r.kinds(in.w); ks != nil {
			return FromAtom(&Atom{Kind: "Len", Path: r.valString(), Typ: "oneof:" + strings.Join(ks, "|")})
		}
	}
	sig := f.Type().(*types.Signature)
	recvT := sig.Recv().Type()
	// an interface-typed receiver the interpreter could not resolve: remember the
	// static type of the expression (a narrower interface than the method's own)
	if path == "?" {
		if se, ok := unparen(call.Fun).(*ast.SelectorExpr); ok {
			if t := in.info.TypeOf(se.X); t != nil {
				if _, isIface := t.Underlying().(*types.Interface); isIface {
					return LenCall(path, shortType(t))
				}
			}
		}
	}
	if _, isIface := recvT.Underlying().(*types.Interface); isIface {
		// interface call: may resolve if the object was stored with a concrete type
		if rt != nil {
			if k := in.w.KindOfType(rt); k != nil && k.Len != nil {
				return in.lenOfKind(st, k, path, call)
			}
		}
		return LenCall(path, shortType(recvT))
	}
	if k := in.w.KindOfType(recvT); k != nil && k.Len != nil {
		return in.lenOfKind(st, k, path, call)
	}
	if f.Pkg() != nil && f.Pkg().Path() == "bytes" {
		return LenOf(path + ".Bytes()")
	}
	return LenCall(path, shortType(recvT))
}

// applyCalleeStore makes an unconditional integer store of a summarised callee visible in the
// caller's state (the value of a length field when the header is encoded after x.Len()).
func (in *Interp) applyCalleeStore(st *State, s *Store, p, path string) {
	if s.Guard != "" || s.Loop || s.Op != "=" || strings.Contains(p, "[") {
		return
	}
	iv, ok := s.Val.(IntV)
	if !ok || iv.T == nil {
		return
	}
	t := iv.T
	if path != "$" {
		t = t.Reroot(path)
	}
	st.fields[p] = IntV{in.resolveLocal(st, t)}
}

func (in *Interp) lenOfKind(st *State, k *Kind, path string, call *ast.CallExpr) *Term {
	ls := in.w.LenSummary(k)
	if ls == nil || ls.Term == nil {
		return LenCall(path, k.Name)
	}
	// the callee's stores to its receiver happen here as well
	for _, s := range ls.Stores {
		p := strings.Replace(s.Path, "$", path, 1)
		ns := *s
		ns.Path = p
		ns.Guard = andGuard(in.guard(), s.Guard)
		ns.Pos = call.Pos()
		ns.Fn = s.Fn
		in.shared.seq++
		ns.Seq = in.shared.seq
		root := p
		if i := strings.IndexAny(p, ".["); i >= 0 {
			root = p[:i]
		}
		if root == "$" {
			for i := in; i != nil; i = i.parent {
				i.Stores = append(i.Stores, &ns)
			}
		}
		in.applyCalleeStore(st, s, p, path)
	}
	if ls.Term.IsConst() {
		return ls.Term
	}
	root := path
	if i := strings.IndexAny(path, ".["); i >= 0 {
		root = path[:i]
	}
	if isLocalObj(root) {
		// constructors: expand and resolve against the strong updates
		t := in.w.ExpandLens(ls.Term.Reroot(path), 0)
		for i := 0; i < 4; i++ {
			t = in.w.ExpandLens(in.resolveLocal(st, t), 0)
		}
		return in.resolveLocal(st, t)
	}
	// a size function that reads a field this activation has already overwritten returns the size of the
	// updated value, not of the value the function was entered with: expand it against the strong updates
	t := in.w.ExpandLens(ls.Term.Reroot(path), 0)
	dep := false
	t.HasAtom(func(a *Atom) bool {
		if a.Kind == "val" || a.Kind == "len" {
			if _, ok := st.fields[a.Path]; ok {
				dep = true
			}
		}
		return false
	})
	if dep {
		return in.resolveLocal(st, t)
	}
	return LenCall(path, k.Name)
}

// resolveLocal replaces val(p)/len(p) atoms whose path was strongly updated.
func (in *Interp) resolveLocal(st *State, t *Term) *Term {
	return t.Map(func(a *Atom) *Term {
		switch a.Kind {
		case "val":
			if v, ok := in.lookupPath(st, a.Path); ok {
				if iv, ok := v.(IntV); ok {
					return iv.T
				}
			} else if in.isZeroPath(st, a.Path) {
				return Const(0)
			}
		case "sum":
			if v, ok := in.lookupPath(st, a.Path); ok {
				if sv, ok := v.(SliceV); ok && sv.Path == "" && sv.Base == "" {
					total := Const(0)
					for _, e := range sv.Elems {
						switch ev := e.(type) {
						case ObjV:
							total = total.Add(a.Sub[0].Reroot2(a.Path+"[*]", ev.Path))
						case SpreadV:
							total = total.Add(Sum(ev.S.Path, a.Sub[0].Reroot2(a.Path+"[*]", ev.S.Path+"[*]")))
						default:
							return nil
						}
					}
					return total
				}
				if _, isNil := v.(NilV); isNil {
					return Const(0)
				}
			} else if in.isZeroPath(st, a.Path) {
				return Const(0)
			}
		case "len":
			if v, ok := in.lookupPath(st, a.Path); ok {
				switch vv := v.(type) {
				case BufV:
					return in.viewLen(st, vv)
				case SliceV:
					if vv.Len != nil {
						return vv.Len
					}
				case NilV:
					return Const(0)
				}
			} else if in.isZeroPath(st, a.Path) {
				return Const(0)
			}
		}
		return nil
	})
}

// lookupPath finds a strongly updated path, following stored pointers.
func (in *Interp) lookupPath(st *State, path string) (Val, bool) {
	if v, ok := st.fields[path]; ok {
		return v, true
	}
	if src, ok := copySource(st, path); ok {
		if v, ok := in.lookupPath(st, src); ok {
			return v, true
		}
		return nil, false
	}
	// follow pointer fields: longest stored prefix that holds an ObjV
	parts := strings.Split(path, ".")
	for i := len(parts) - 1; i >= 1; i-- {
		pre := strings.Join(parts[:i], ".")
		if v, ok := st.fields[pre]; ok {
			if ov, ok := v.(ObjV); ok && ov.Path != pre {
				return in.lookupPath(st, ov.Path+"."+strings.Join(parts[i:], "."))
			}
		}
	}
	return nil, false
}

func (in *Interp) isZeroPath(st *State, path string) bool {
	if src, ok := copySource(st, path); ok {
		return in.isZeroPath(st, src)
	}
	root := path
	if i := strings.Index(path, "."); i >= 0 {
		root = path[:i]
	}
	if !isLocalObj(root) || strings.Contains(path, "[*]") {
		return false
	}
	for _, d := range st.decoded {
		if path == d || strings.HasPrefix(path, d+".") {
			return false // filled by a child decoder
		}
	}
	// a path below a stored pointer to a non-local object is not zero
	parts := strings.Split(path, ".")
	for i := len(parts) - 1; i >= 1; i-- {
		pre := strings.Join(parts[:i], ".")
		if v, ok := st.fields[pre]; ok {
			if ov, ok := v.(ObjV); ok && ov.Path != pre {
				r2 := ov.Path
				if j := strings.Index(r2, "."); j >= 0 {
					r2 = r2[:j]
				}
				return isLocalObj(r2) && in.isZeroPath(st, ov.Path+"."+strings.Join(parts[i:], "."))
			}
			if _, isNil := v.(NilV); isNil {
				return false
			}
		}
	}
	return true
}

// marshalCall models b := x.MarshalBinary(): a buffer of length Len(x)
// (induction over kinds, DESIGN §2.3) holding the child's encoding.
func (in *Interp) marshalCall(st *State, f *types.Func, recv Val, call *ast.CallExpr) Val {
	path := "?"
	var rt types.Type
	if ov, ok := recv.(ObjV); ok {
		path, rt = ov.Path, ov.Type
	}
	sig := f.Type().(*types.Signature)
	recvT := sig.Recv().Type()
	typ := shortType(recvT)
	var l *Term
	if _, isIface := recvT.Underlying().(*types.Interface); isIface {
		l = LenCall(path, typ)
		if rt != nil {
			if k := in.w.KindOfType(rt); k != nil && k.Len != nil {
				l = in.lenOfKind(st, k, path, call)
				typ = k.Name
			}
		}
	} else if k := in.w.KindOfType(recvT); k != nil {
		typ = k.Name
		if k.Len != nil {
			l = in.lenOfKind(st, k, path, call)
		} else {
			l = FromAtom(&Atom{Kind: "Len", Path: path, Typ: "enc:" + k.Name})
		}
		// the callee's receiver stores happen in the caller too
		if es := in.w.EncSummary(k); es != nil {
			for _, s := range es.Stores {
				p := strings.Replace(s.Path, "$", path, 1)
				root := p
				if i := strings.IndexAny(p, ".["); i >= 0 {
					root = p[:i]
				}
				if root == "$" {
					ns := *s
					ns.Path = p
					ns.Guard = andGuard(in.guard(), s.Guard)
					ns.Pos = call.Pos()
					in.shared.seq++
					ns.Seq = in.shared.seq
					for i := in; i != nil; i = i.parent {
						i.Stores = append(i.Stores, &ns)
					}
				}
			}
		}
	} else {
		l = LenCall(path, typ)
	}
	b := &BufObj{Origin: "enc", Src: path, SrcType: typ, Len: l, Extent: l, Pos: call.Pos(), Snap: map[string]*Term{}}
	in.shared.seq++
	b.Snap["#seq"] = Const(int64(in.shared.seq))
	for k, v := range st.fields {
		if strings.HasPrefix(k, path+".") {
			if iv, ok := v.(IntV); ok {
				b.Snap[strings.TrimPrefix(k, path+".")] = iv.T
			}
		}
	}
	bv := in.newBuf(st, b)
	return TupleV{[]Val{bv, ObjV{Path: "err:" + path, Type: types.Universe.Lookup("error").Type()}}}
}

func (in *Interp) inlineFunc(st *State, fi *FuncInfo, recv Val, args []Val, call *ast.CallExpr) Val {
	sub := &Interp{w: in.w, fi: fi, info: fi.Pkg.TypesInfo, depth: in.depth + 1, parent: in, shared: in.shared, loops: in.loops}
	sub.guards = append(sub.guards, in.guards...)
	sub.loops = append(sub.loops, in.loops...)
	env := map[types.Object]Val{}
	if fi.Decl.Recv != nil && len(fi.Decl.Recv.List) > 0 && len(fi.Decl.Recv.List[0].Names) > 0 {
		ro := fi.Pkg.TypesInfo.Defs[fi.Decl.Recv.List[0].Names[0]]
		if recv != nil {
			env[ro] = recv
		}
	}
	i := 0
	variadic := fi.Obj.Type().(*types.Signature).Variadic()
	nparams := fi.Obj.Type().(*types.Signature).Params().Len()
	for _, fl := range fi.Decl.Type.Params.List {
		for _, nm := range fl.Names {
			o := fi.Pkg.TypesInfo.Defs[nm]
			if variadic && i == nparams-1 && call.Ellipsis == token.NoPos {
				sv := SliceV{Len: Const(int64(len(args) - i))}
				if i <= len(args) {
					sv.Elems = append(sv.Elems, args[i:]...)
				}
				env[o] = sv
			} else if i < len(args) {
				env[o] = args[i]
			}
			i++
		}
	}
	return sub.runBody(st, fi.Decl.Type, fi.Decl.Body, env, call.Pos())
}

func (in *Interp) inlineClosure(st *State, cl ClosV, call *ast.CallExpr) Val {
	if in.depth >= maxInline {
		in.note(call.Pos(), "closure call not inlined (depth)")
		return in.resultByType(st, call, "closure")
	}
	owner := cl.In
	sub := &Interp{w: in.w, fi: owner.fi, info: owner.info, depth: in.depth + 1, parent: in, shared: in.shared, loops: in.loops}
	sub.guards = append(sub.guards, in.guards...)
	env := map[types.Object]Val{}
	for k, v := range cl.Env {
		env[k] = v
	}
	i := 0
	for _, fl := range cl.Lit.Type.Params.List {
		for _, nm := range fl.Names {
			if i < len(call.Args) {
				env[owner.info.Defs[nm]] = in.eval(st, call.Args[i])
			}
			i++
		}
	}
	// captured variables are shared with the enclosing function: the body sees their current values
	// (where the caller's frame still holds them) and its assignments to them survive the call
	for k, v := range st.vars {
		if _, isParam := env[k]; isParam && paramOfLit(owner.info, cl.Lit, k) {
			continue
		}
		env[k] = v
	}
	sub.byRef = true
	return sub.runBody(st, cl.Lit.Type, cl.Lit.Body, env, call.Pos())
}

func paramOfLit(info *types.Info, lit *ast.FuncLit, o types.Object) bool {
	for _, fl := range lit.Type.Params.List {
		for _, nm := range fl.Names {
			if info.Defs[nm] == o {
				return true
			}
		}
	}
	return false
}

// runBody executes a function body in the caller's state (shared heap) and
// joins its return values.
func (sub *Interp) runBody(st *State, ft *ast.FuncType, body *ast.BlockStmt, env map[types.Object]Val, pos token.Pos) Val {
	saved := st.vars
	st.vars = map[types.Object]Val{}
	for k, v := range env {
		st.vars[k] = v
	}
	if ft.Results != nil {
		for _, f := range ft.Results.List {
			for _, nm := range f.Names {
				o := sub.info.Defs[nm]
				sub.results = append(sub.results, o)
				st.vars[o] = sub.zeroOf(st, o.Type())
			}
		}
	}
	end, term := sub.execBlock(st, body.List)
	if !term {
		sub.ret(end, nil, body.End())
	}
	// join returns: prefer the non-error return(s)
	var good []*RetRec
	for _, r := range sub.Rets {
		if !r.IsErr {
			good = append(good, r)
		}
	}
	if len(good) == 0 {
		good = sub.Rets
	}
	var out Val = UnkV{"void"}
	if len(good) > 0 {
		last := good[len(good)-1]
		// the caller continues in the state of the last (fall-through) return
		*st = *last.St
		if sub.byRef {
			for k, v := range last.St.vars {
				if _, captured := saved[k]; captured {
					saved[k] = v
				}
			}
		}
		switch len(last.Vals) {
		case 0:
		case 1:
			out = last.Vals[0]
		default:
			out = TupleV{last.Vals}
		}
		for i := len(good) - 2; i >= 0; i-- {
			prev := out
			out = joinVals(good[i].Guard, good[i].Vals, out)
			// a byte slice that is one buffer on this return and another on the later ones (a view of a field,
			// or a fresh zero buffer): the result is their join, not the last one
			if len(good[i].Vals) == 1 {
				if av, ok := good[i].Vals[0].(BufV); ok {
					if bv, ok := prev.(BufV); ok && av.ID != bv.ID {
						if jv, ok := sub.joinBufVals(st, good[i].St, good[i].Guard, av, bv); ok {
							out = jv
						}
					}
					// a buffer on this return, nil on the others ("not found"): what the caller indexes after its
					// nil test is the buffer, with whatever length it has
					if _, isNil := prev.(NilV); isNil && good[i].St != nil {
						if ob := good[i].St.bufs[av.ID]; ob != nil {
							if _, known := st.bufs[av.ID]; !known {
								st.bufs[av.ID] = ob.clone()
							}
							out = av
						}
					}
				} else if _, isNil := good[i].Vals[0].(NilV); isNil {
					if bv, ok := prev.(BufV); ok {
						out = bv
					}
				}
			}
		}
	}
	st.vars = saved
	sub.parent.Reads = append(sub.parent.Reads, sub.Reads...)
	sub.parent.Sites = append(sub.parent.Sites, sub.Sites...)
	sub.parent.Copies = append(sub.parent.Copies, sub.Copies...)
	sub.parent.Allocs = append(sub.parent.Allocs, sub.Allocs...)
	sub.parent.LoopsSeen = append(sub.parent.LoopsSeen, sub.LoopsSeen...)
	return out
}

func joinVals(guard string, a []Val, b Val) Val {
	var bs []Val
	if tv, ok := b.(TupleV); ok {
		bs = tv.Vs
	} else {
		bs = []Val{b}
	}
	if len(a) != len(bs) {
		return b
	}
	out := make([]Val, len(a))
	for i := range a {
		ai, aok := a[i].(IntV)
		bi, bok := bs[i].(IntV)
		_, aBool := a[i].(BoolV)
		_, bBool := bs[i].(BoolV)
		if aok && bok {
			out[i] = IntV{Ite(guard, ai.T, bi.T)}
		} else if aBool && bBool {
			out[i] = joinVal(guard, a[i], bs[i])
		} else if alt, ok := altOf(a[i], bs[i]); ok {
			// one of several objects (a dispatcher written as a helper that returns from each case)
			out[i] = alt
		} else {
			out[i] = bs[i]
		}
	}
	if len(out) == 1 {
		return out[0]
	}
	return TupleV{out}
}

func (in *Interp) zeroOf(st *State, t types.Type) Val {
	switch {
	case isIntType(t):
		return IntV{Const(0)}
	case isByteSlice(t):
		return in.newBuf(st, &BufObj{Origin: "nil", Len: Const(0)})
	}
	// var hdr [4]byte: a zeroed buffer of that length (sliced and filled like a make'd one)
	if n, ok := isByteArray(t); ok {
		v := in.newBuf(st, &BufObj{Origin: "make", Len: Const(n)})
		st.bufs[v.ID].Extent = Const(0)
		return v
	}
	if b, ok := t.Underlying().(*types.Basic); ok && b.Info()&types.IsBoolean != 0 {
		return BoolV{"false"}
	}
	switch t.Underlying().(type) {
	case *types.Pointer, *types.Interface:
		return NilV{}
	case *types.Slice:
		return SliceV{Len: Const(0)}
	case *types.Struct:
		if isBytesBuffer(t) {
			return in.newStream(st, token.NoPos)
		}
		return in.newObj(t)
	}
	return UnkV{"zero"}
}

// altOf joins two object-valued results into a one-of value.
func altOf(a, b Val) (Val, bool) {
	var alts []ObjV
	mayNil := false
	add := func(v Val) bool {
		switch x := v.(type) {
		case ObjV:
			for _, o := range alts {
				if o.Path == x.Path {
					return true
				}
			}
			alts = append(alts, x)
		case AltV:
			for _, o := range x.Alts {
				dup := false
				for _, p := range alts {
					if p.Path == o.Path {
						dup = true
					}
				}
				if !dup {
					alts = append(alts, o)
				}
			}
			mayNil = mayNil || x.MayNil
		case MaybeV:
			alts = append(alts, x.V)
			mayNil = true
		case NilV:
			mayNil = true
		default:
			return false
		}
		return true
	}
	if !add(a) || !add(b) || len(alts) == 0 {
		return nil, false
	}
	if len(alts) == 1 && !mayNil {
		return alts[0], true
	}
	return AltV{Alts: alts, MayNil: mayNil}, true
}

// uniqueImpl: the one method of the module that implements the interface method f, when the interface is
// declared in the module, exactly one named type of the module implements it, and that type is not a wire
// kind (kinds are summarised through their own size / encode / decode summaries).
func (w *World) uniqueImpl(f *types.Func) *FuncInfo {
	if w.implCache == nil {
		w.implCache = map[*types.Func]*FuncInfo{}
	}
	if fi, ok := w.implCache[f]; ok {
		return fi
	}
	w.implCache[f] = nil
	sig, _ := f.Type().(*types.Signature)
	if sig == nil || sig.Recv() == nil || f.Pkg() == nil || !w.isModPkg(f.Pkg()) {
		return nil
	}
	iface, _ := sig.Recv().Type().Underlying().(*types.Interface)
	if iface == nil {
		return nil
	}
	var found *FuncInfo
	n := 0
	seenT := map[*types.Named]bool{}
	for _, key := range w.sortedFuncKeys() {
		fi := w.Funcs[key]
		if fi.Recv == nil || seenT[fi.Recv] {
			continue
		}
		seenT[fi.Recv] = true
		if _, isI := fi.Recv.Underlying().(*types.Interface); isI {
			continue
		}
		if !types.Implements(fi.Recv, iface) && !types.Implements(types.NewPointer(fi.Recv), iface) {
			continue
		}
		n++
		if w.KindOfType(fi.Recv) != nil {
			return nil
		}
		ms := types.NewMethodSet(types.NewPointer(fi.Recv))
		if sel := ms.Lookup(fi.Pkg.Types, f.Name()); sel != nil {
			if mf, ok := sel.Obj().(*types.Func); ok {
				found = w.FuncOf(mf)
			}
		}
	}
	if n != 1 || found == nil || found.Decl.Body == nil {
		return nil
	}
	w.implCache[f] = found
	return found
}

// joinBufVals: the buffer a helper returns when it returns buffer a (known in state sa) under cond and buffer
// b (known in st) otherwise.
func (in *Interp) joinBufVals(st, sa *State, cond string, a, b BufV) (BufV, bool) {
	if sa == nil {
		return BufV{}, false
	}
	oa, ob := sa.bufs[a.ID], st.bufs[b.ID]
	if oa == nil || ob == nil {
		return BufV{}, false
	}
	// the condition of the return, relative to the caller's guard
	rel := cond
	if g := in.parentGuard(); g != "" && strings.HasPrefix(rel, g+" && ") {
		rel = rel[len(g)+4:]
	}
	view := func(o *BufObj, v BufV) *Term {
		if v.Hi != nil {
			return v.Hi.Sub(v.Off)
		}
		return o.Len.Sub(v.Off)
	}
	la, lb := view(oa, a), view(ob, b)
	j := &BufObj{Origin: "join", Len: Ite(rel, la, lb), Extent: Ite(rel, la, lb), Pos: oa.Pos}
	add := func(o *BufObj, v BufV, l *Term, g string) {
		switch {
		case len(o.Recs) > 0:
			for _, r := range o.Recs {
				nr := *r
				nr.Off = r.Off.Sub(v.Off)
				nr.Guard = andGuard(nr.Guard, g)
				j.Recs = append(j.Recs, &nr)
			}
		case o.Origin == "enc":
			j.Recs = append(j.Recs, &Rec{Off: Const(0), W: l, Kind: "child", Src: "enc(" + o.Src + ")", Guard: g, Pos: o.Pos, Snap: o.Snap})
		case o.Origin == "field" || o.Origin == "arg":
			j.Recs = append(j.Recs, &Rec{Off: Const(0), W: l, Kind: "bytes", Src: o.Src, Guard: g, Pos: o.Pos})
		case o.Origin == "make":
			j.Recs = append(j.Recs, &Rec{Off: Const(0), W: l, Kind: "zero", Src: "zero", Guard: g, Pos: o.Pos})
		}
	}
	add(oa, a, la, rel)
	add(ob, b, lb, negCond(rel))
	return in.newBuf(st, j), true
}

// parentGuard: the caller's path condition at the point of an inlined call.
func (in *Interp) parentGuard() string {
	if in.parent == nil {
		return ""
	}
	return in.parent.guard()
}

// fullSliceNoSpare: e is a full slice expression x[a:b:c] with b and c the same expression: len == cap.
func fullSliceNoSpare(e ast.Expr) bool {
	sl, ok := unparen(e).(*ast.SliceExpr)
	if !ok || !sl.Slice3 || sl.High == nil || sl.Max == nil {
		return false
	}
	return types.ExprString(sl.High) == types.ExprString(sl.Max)
}

// convResultLen: net.IP.To4 / To16 return nil for an address that has no such form. Copied into a window that
// was sized beforehand this does not matter (the window keeps its size); where the bytes are APPENDED (to a
// slice or an output stream) the produced size is the result's real length, which is 0 or the nominal one.
func convResultLen(sb *BufObj, s BufV, nominal *Term) *Term {
	if sb == nil || sb.Origin != "field" || !s.Off.IsZero() || s.Hi != nil {
		return nominal
	}
	if strings.HasSuffix(sb.Src, ".To4()") || strings.HasSuffix(sb.Src, ".To16()") {
		return LenOf(sb.Src)
	}
	return nominal
}
