package main

// Size terms (DESIGN §2.2): normal form c + Σ kᵢ·aᵢ over structured atoms.
// The receiver root is spelled "$" in every access path so that a child's
// summary can be re-rooted by plain substitution ("$" never occurs in Go
// identifiers).

import (
	"fmt"
	"sort"
	"strings"
)

type Atom struct {
	Kind string // len val Len sum ite round8 mul div opq wrap min
	Path string // len/val/Len/sum: access path; opq: text; wrap: type name
	Typ  string // Len: static type of the callee receiver (types.TypeString, no pointer star)
	Cond string // ite: canonical condition
	Sub  []*Term
	key  string
}

func (a *Atom) Key() string {
	if a.key != "" {
		return a.key
	}
	var k string
	switch a.Kind {
	case "len", "val":
		k = a.Kind + "(" + a.Path + ")"
	case "Len":
		k = "Len(" + a.Path + ":" + a.Typ + ")"
	case "sum":
		k = "Σ(" + a.Path + ": " + a.Sub[0].String() + ")"
	case "ite":
		k = "ite(" + a.Cond + " ? " + a.Sub[0].String() + " : " + a.Sub[1].String() + ")"
	case "round8":
		k = "round8(" + a.Sub[0].String() + ")"
	case "mul":
		k = "(" + a.Sub[0].String() + ")*(" + a.Sub[1].String() + ")"
	case "div":
		k = "(" + a.Sub[0].String() + ")/(" + a.Sub[1].String() + ")"
	case "min":
		k = "min(" + a.Sub[0].String() + ", " + a.Sub[1].String() + ")"
	case "wrap":
		k = "wrap[" + a.Path + "](" + a.Sub[0].String() + ")"
	default:
		k = "opq(" + a.Path + ")"
	}
	a.key = k
	return k
}

type Term struct {
	C     int64
	K     map[string]int64
	Atoms map[string]*Atom
}

func Const(c int64) *Term { return &Term{C: c, K: map[string]int64{}, Atoms: map[string]*Atom{}} }

func FromAtom(a *Atom) *Term {
	t := Const(0)
	t.K[a.Key()] = 1
	t.Atoms[a.Key()] = a
	return t
}

func LenOf(path string) *Term { return FromAtom(&Atom{Kind: "len", Path: path}) }
func ValOf(path string) *Term { return FromAtom(&Atom{Kind: "val", Path: path}) }
func Opq(text string) *Term   { return FromAtom(&Atom{Kind: "opq", Path: text}) }
func LenCall(path, typ string) *Term {
	return FromAtom(&Atom{Kind: "Len", Path: path, Typ: strings.TrimPrefix(typ, "*")})
}

func (t *Term) Clone() *Term {
	n := Const(t.C)
	for k, v := range t.K {
		n.K[k] = v
		n.Atoms[k] = t.Atoms[k]
	}
	return n
}

func (t *Term) AddScaled(o *Term, s int64) *Term {
	n := t.Clone()
	n.C += s * o.C
	for k, v := range o.K {
		n.K[k] += s * v
		n.Atoms[k] = o.Atoms[k]
		if n.K[k] == 0 {
			delete(n.K, k)
			delete(n.Atoms, k)
		}
	}
	return n
}
func (t *Term) Add(o *Term) *Term   { return t.AddScaled(o, 1) }
func (t *Term) Sub(o *Term) *Term   { return t.AddScaled(o, -1) }
func (t *Term) Scale(s int64) *Term { return Const(0).AddScaled(t, s) }
func (t *Term) AddC(c int64) *Term  { n := t.Clone(); n.C += c; return n }
func (t *Term) IsConst() bool       { return len(t.K) == 0 }
func (t *Term) IsZero() bool        { return t.C == 0 && len(t.K) == 0 }
func (t *Term) Equal(o *Term) bool {
	if t == nil || o == nil {
		return t == o
	}
	d := t.Sub(o)
	return d.C == 0 && len(d.K) == 0
}

func (t *Term) keys() []string {
	keys := make([]string, 0, len(t.K))
	for k := range t.K {
		keys = append(keys, k)
	}
	sort.Strings(keys)
	return keys
}

func (t *Term) String() string {
	if t == nil {
		return "<nil>"
	}
	keys := t.keys()
	var parts []string
	if t.C != 0 || len(keys) == 0 {
		parts = append(parts, fmt.Sprint(t.C))
	}
	for _, k := range keys {
		c := t.K[k]
		switch c {
		case 1:
			parts = append(parts, k)
		case -1:
			parts = append(parts, "-"+k)
		default:
			parts = append(parts, fmt.Sprintf("%d*%s", c, k))
		}
	}
	return strings.Join(parts, " + ")
}

// Symbolic reports whether the term mentions at least one atom.
func (t *Term) Symbolic() bool { return t != nil && len(t.K) > 0 }

// SingleAtom returns the atom if t == 1*atom.
func (t *Term) SingleAtom() *Atom {
	if t.C != 0 || len(t.K) != 1 {
		return nil
	}
	for k, c := range t.K {
		if c == 1 {
			return t.Atoms[k]
		}
	}
	return nil
}

func Round8(t *Term) *Term {
	if t.IsConst() {
		return Const((t.C + 7) / 8 * 8)
	}
	// round8 of a sum of multiples of 8 and round8 atoms is itself
	if t.multipleOf8() {
		return t
	}
	return FromAtom(&Atom{Kind: "round8", Sub: []*Term{t}})
}

// multipleOf8: every summand is provably a multiple of 8.
func (t *Term) multipleOf8() bool {
	if t.C%8 != 0 {
		return false
	}
	for k, c := range t.K {
		a := t.Atoms[k]
		if c%8 == 0 {
			continue
		}
		switch a.Kind {
		case "round8":
			continue
		case "sum":
			if a.Sub[0].multipleOf8() {
				continue
			}
		case "ite":
			if a.Sub[0].multipleOf8() && a.Sub[1].multipleOf8() {
				continue
			}
		}
		return false
	}
	return true
}

// nonNegAtom: atoms denote non-negative quantities except ite/opq with unknown sign.
func nonNegAtom(a *Atom) bool {
	switch a.Kind {
	case "len", "val", "Len", "round8", "wrap", "min":
		return true
	case "opq":
		if _, bounded := atomMax[a.Key()]; bounded {
			return true // values with a declared range are unsigned
		}
		return strings.HasPrefix(a.Path, "len(") // the length of a slice the interpreter cannot name
	case "sum":
		return a.Sub[0].NonNeg()
	case "ite":
		return a.Sub[0].NonNeg() && a.Sub[1].NonNeg()
	case "mul", "div":
		return a.Sub[0].NonNeg() && a.Sub[1].NonNeg()
	}
	return false
}

func nonPosAtom(a *Atom) bool {
	switch a.Kind {
	case "ite":
		return a.Sub[0].NonPos() && a.Sub[1].NonPos()
	case "sum":
		return a.Sub[0].NonPos()
	}
	return false
}

// NonPos: t <= 0 for all admissible atom values (sound, incomplete).
func (t *Term) NonPos() bool {
	if t.C > 0 {
		return false
	}
	for k, v := range t.K {
		a := t.Atoms[k]
		if v > 0 && !nonPosAtom(a) {
			return false
		}
		if v < 0 && !nonNegAtom(a) {
			return false
		}
	}
	return true
}

// NonNeg: t >= 0.
func (t *Term) NonNeg() bool { return t.Scale(-1).NonPos() }

// LowerBound returns a constant c with t >= c if one is derivable from the
// sign rule (non-negative atoms with non-negative coefficients).
func (t *Term) LowerBound() (int64, bool) {
	lb := t.C
	for k, v := range t.K {
		a := t.Atoms[k]
		switch {
		case v > 0 && nonNegAtom(a):
			if a.Kind == "ite" {
				l0, ok0 := a.Sub[0].LowerBound()
				l1, ok1 := a.Sub[1].LowerBound()
				if ok0 && ok1 {
					if l1 < l0 {
						l0 = l1
					}
					lb += v * l0
				}
			}
			if a.Kind == "round8" {
				if l, ok := a.Sub[0].LowerBound(); ok && l > 0 {
					lb += v * ((l + 7) / 8 * 8)
				}
			}
		default:
			return 0, false
		}
	}
	return lb, true
}

func Ite(cond string, a, b *Term) *Term {
	if a.Equal(b) {
		return a
	}
	if cond == "true" {
		return a
	}
	if cond == "false" {
		return b
	}
	// canonical polarity: a negated condition is stored positively with arms swapped
	if strings.HasPrefix(cond, "!(") && strings.HasSuffix(cond, ")") {
		cond = cond[2 : len(cond)-1]
		a, b = b, a
	}
	// an inner choice on the same condition is already decided in each arm
	a, b = a.underCond(cond, true), b.underCond(cond, false)
	if a.Equal(b) {
		return a
	}
	// factor the common part; the else-arm's constant always moves out, so that
	// ite(c ? 16 : 12) and 12 + ite(c ? 4 : 0) have the same normal form
	common := Const(b.C)
	for k, v := range a.K {
		if b.K[k] == v {
			common.K[k] = v
			common.Atoms[k] = a.Atoms[k]
		}
	}
	ra, rb := a.Sub(common), b.Sub(common)
	// ite(p == nil ? 0 : len(p)) == len(p)   (a nil slice has length 0)
	if strings.HasSuffix(cond, "==nil") && ra.IsZero() {
		if at := rb.SingleAtom(); at != nil && at.Kind == "len" && at.Path == strings.TrimSuffix(cond, "==nil") {
			return common.Add(rb)
		}
	}
	return common.Add(FromAtom(&Atom{Kind: "ite", Cond: cond, Sub: []*Term{ra, rb}}))
}

// underCond replaces every ite atom on exactly this (positively stored) condition by the arm taken.
func (t *Term) underCond(cond string, holds bool) *Term {
	has := false
	var look func(x *Term)
	look = func(x *Term) {
		for _, a := range x.Atoms {
			if a.Kind == "ite" && a.Cond == cond {
				has = true
			}
			for _, sub := range a.Sub {
				if sub != nil {
					look(sub)
				}
			}
		}
	}
	look(t)
	if !has {
		return t
	}
	return t.Map(func(a *Atom) *Term {
		if a.Kind == "ite" && a.Cond == cond {
			if holds {
				return a.Sub[0]
			}
			return a.Sub[1]
		}
		return nil
	})
}

func Sum(path string, body *Term) *Term {
	if body.IsConst() {
		if body.C == 0 {
			return Const(0)
		}
		return LenOf(path).Scale(body.C)
	}
	return FromAtom(&Atom{Kind: "sum", Path: path, Sub: []*Term{body}})
}

func Mul(a, b *Term) *Term {
	if a.IsConst() {
		return b.Scale(a.C)
	}
	if b.IsConst() {
		return a.Scale(b.C)
	}
	if a.String() > b.String() {
		a, b = b, a
	}
	return FromAtom(&Atom{Kind: "mul", Sub: []*Term{a, b}})
}

func Div(a, b *Term) *Term {
	if a.IsConst() && b.IsConst() && b.C != 0 {
		return Const(a.C / b.C)
	}
	if b.IsConst() && b.C == 1 {
		return a
	}
	if b.IsConst() && b.C > 1 && a.C%b.C == 0 {
		// every coefficient is a multiple of the divisor: the quotient is exact
		exact := len(a.K) > 0
		for _, c := range a.K {
			if c%b.C != 0 {
				exact = false
			}
		}
		if exact {
			n := Const(a.C / b.C)
			for _, k := range a.keys() {
				n = n.AddScaled(FromAtom(a.Atoms[k]), a.K[k]/b.C)
			}
			return n
		}
	}
	return FromAtom(&Atom{Kind: "div", Sub: []*Term{a, b}})
}

func Min(a, b *Term) *Term {
	if a.Equal(b) {
		return a
	}
	if a.Sub(b).NonPos() {
		return a
	}
	if b.Sub(a).NonPos() {
		return b
	}
	if a.String() > b.String() {
		a, b = b, a
	}
	return FromAtom(&Atom{Kind: "min", Sub: []*Term{a, b}})
}

func Wrap(typ string, t *Term) *Term {
	return FromAtom(&Atom{Kind: "wrap", Path: typ, Sub: []*Term{t}})
}

// matchRound8 recognises 8*((x+7)/8) in either operand order.
func matchRound8(a, b *Term) *Term {
	try := func(k, d *Term) *Term {
		if !k.IsConst() || k.C != 8 {
			return nil
		}
		at := d.SingleAtom()
		if at == nil || at.Kind != "div" || !at.Sub[1].IsConst() || at.Sub[1].C != 8 {
			return nil
		}
		return Round8(at.Sub[0].AddC(-7))
	}
	if r := try(a, b); r != nil {
		return r
	}
	return try(b, a)
}

// Map rebuilds the term applying f to every atom (bottom-up). f returns the
// replacement term for an atom whose sub-terms were already rebuilt.
func (t *Term) Map(f func(a *Atom) *Term) *Term {
	if t == nil {
		return nil
	}
	n := Const(t.C)
	for _, k := range t.keys() {
		a := t.Atoms[k]
		na := &Atom{Kind: a.Kind, Path: a.Path, Typ: a.Typ, Cond: a.Cond}
		for _, s := range a.Sub {
			na.Sub = append(na.Sub, s.Map(f))
		}
		var rep *Term
		switch na.Kind {
		case "sum":
			rep = Sum(na.Path, na.Sub[0])
		case "ite":
			rep = Ite(na.Cond, na.Sub[0], na.Sub[1])
		case "round8":
			rep = Round8(na.Sub[0])
		case "mul":
			rep = Mul(na.Sub[0], na.Sub[1])
		case "div":
			rep = Div(na.Sub[0], na.Sub[1])
		case "min":
			rep = Min(na.Sub[0], na.Sub[1])
		default:
			rep = FromAtom(na)
		}
		// apply f on leaf-ish atoms of the rebuilt term
		rep2 := Const(rep.C)
		for _, rk := range rep.keys() {
			ra := rep.Atoms[rk]
			if r := f(ra); r != nil {
				rep2 = rep2.AddScaled(r, rep.K[rk])
			} else {
				rep2 = rep2.AddScaled(FromAtom(ra), rep.K[rk])
			}
		}
		n = n.AddScaled(rep2, t.K[k])
	}
	return n
}

// Reroot substitutes the receiver root "$" by root in every path and condition.
func (t *Term) Reroot(root string) *Term {
	if t == nil || root == "$" {
		return t
	}
	var rr func(t *Term) *Term
	rr = func(t *Term) *Term {
		n := Const(t.C)
		for _, k := range t.keys() {
			a := t.Atoms[k]
			na := &Atom{Kind: a.Kind, Path: strings.ReplaceAll(a.Path, "$", root), Typ: a.Typ, Cond: strings.ReplaceAll(a.Cond, "$", root)}
			for _, s := range a.Sub {
				na.Sub = append(na.Sub, rr(s))
			}
			n = n.AddScaled(FromAtom(na), t.K[k])
		}
		return n
	}
	return rr(t)
}

// HasAtom reports whether some atom (at any depth) satisfies pred.
func (t *Term) HasAtom(pred func(a *Atom) bool) bool {
	if t == nil {
		return false
	}
	for _, a := range t.Atoms {
		if pred(a) {
			return true
		}
		for _, s := range a.Sub {
			if s.HasAtom(pred) {
				return true
			}
		}
	}
	return false
}
