package main

import (
	"fmt"
	"go/ast"
	"go/token"
	"go/types"
	"sort"
	"strings"
)

func init() {
	register(&propCheck{
		ID:      "C13",
		Run:     runC13,
		NeedSSA: true,
		Level:   "Static analysis (write-effect summaries from the abstract interpreter). Decides, for every Len / MarshalBinary / Read of every kind, that each store it performs (directly, through inlined helpers, or through the size functions and child encoders it calls) into memory reachable from the receiver has an idempotent form — a constant, a pure function of state the method does not write, f = round8(f), or a clamp — and that no call on receiver-rooted state reaches a standard-library mutator (bytes.Buffer Read/Write/Reset…, append into a receiver slice, copy into a receiver slice). With idempotent stores and everything else read-only, repeated and interleaved sizing/encoding return equal results. Not decided: builder calls after sizing; concurrent use (C14).",
		Assumptions: []string{
			"closed world: implementations of util.Message outside the module are out of scope",
			"read-only standard-library methods are those listed in checker/rules_c13.go (readOnlyStd)",
		},
	})
}

// readOnlyStd lists out-of-module methods that do not modify their receiver.
var readOnlyStd = map[string]bool{
	"(*bytes.Buffer).Len": true, "(*bytes.Buffer).Bytes": true, "(*bytes.Buffer).String": true, "(*bytes.Buffer).Cap": true, "(*bytes.Buffer).Available": true,
	"(net.IP).To4": true, "(net.IP).To16": true, "(net.IP).String": true, "(net.IP).Equal": true, "(net.IP).IsUnspecified": true,
	"(net.HardwareAddr).String": true,
	"(*math/big.Int).BitLen":    true, "(*math/big.Int).Bytes": true, "(*math/big.Int).Cmp": true, "(*math/big.Int).Sign": true, "(*math/big.Int).String": true,
	"(encoding/binary.bigEndian).PutUint16": true, "(encoding/binary.bigEndian).PutUint32": true, "(encoding/binary.bigEndian).PutUint64": true,
	"(encoding/binary.bigEndian).Uint16": true, "(encoding/binary.bigEndian).Uint32": true, "(encoding/binary.bigEndian).Uint64": true,
	"(encoding/binary.littleEndian).PutUint16": true, "(encoding/binary.littleEndian).PutUint32": true, "(encoding/binary.littleEndian).PutUint64": true,
}

func rootedAtRecv(v Val, st *State) (string, bool) {
	switch vv := v.(type) {
	case ObjV:
		if vv.Path == "$" || strings.HasPrefix(vv.Path, "$.") {
			return vv.Path, true
		}
	case MaybeV:
		if strings.HasPrefix(vv.V.Path, "$") {
			return vv.V.Path, true
		}
	case BufV:
		if st != nil {
			if b := st.bufs[vv.ID]; b != nil && b.Origin == "field" && strings.HasPrefix(b.Src, "$") {
				return b.Src, true
			}
		}
	case SliceV:
		if strings.HasPrefix(vv.Path, "$") {
			return vv.Path, true
		}
	}
	return "", false
}

// classifyStore decides whether a store is idempotent.
func classifyStore(w *World, s *Store) (ok bool, form string) {
	switch s.Op {
	case "=":
	case "copy", "put", "write", "reset":
		return false, "receiver memory modified in place (" + s.Op + ")"
	default:
		return false, "read-modify-write " + s.Op
	}
	base := strings.TrimSuffix(s.Path, "[]")
	switch v := s.Val.(type) {
	case IntV:
		shown := v.T
		t := stripWraps(w.ExpandLens(v.T, 0), map[string]bool{}) // 16-bit overflow of a length is outside this property
		if t.IsConst() {
			return true, "constant"
		}
		if at := t.SingleAtom(); at != nil && at.Kind == "val" && at.Path == base {
			return true, "identity (f = f)"
		}
		self := false
		selfOnlyRound := true
		t.Map(func(a *Atom) *Term { return nil })
		var scan func(t *Term, underRound bool)
		scan = func(t *Term, underRound bool) {
			for _, a := range t.Atoms {
				if (a.Kind == "val" || a.Kind == "len") && a.Path == base {
					self = true
					if !underRound {
						selfOnlyRound = false
					}
				}
				if a.Kind == "ite" && strings.Contains(a.Cond, base) {
					// clamp forms are handled by the guard (constant stores); a value that
					// branches on its own previous value is not accepted
					self = true
					selfOnlyRound = false
				}
				for _, sub := range a.Sub {
					scan(sub, underRound || a.Kind == "round8")
				}
			}
		}
		scan(t, false)
		if !self {
			return true, "pure function of state the method does not write: " + shown.String()
		}
		// f = round8(f)
		if at := t.SingleAtom(); at != nil && at.Kind == "round8" && selfOnlyRound {
			if in := at.Sub[0].SingleAtom(); in != nil && in.Kind == "val" && in.Path == base {
				return true, "f = round8(f)"
			}
		}
		return false, "new value depends on the previous value: " + t.String()
	case SliceV:
		if v.Base != "" || len(v.Elems) > 0 && v.Path != "" {
			return false, "append to a receiver slice"
		}
		return true, "slice assignment"
	case BufV:
		return true, "buffer assignment"
	case BoolV:
		if strings.Contains(v.Cond, base) {
			return false, "flag depends on its previous value"
		}
		return true, "flag"
	case NilV:
		return true, "nil"
	case ObjV:
		return true, "object assignment"
	}
	return false, "store of a value outside the summary language"
}

func runC13(w *World, r *Report) {
	r.Rule("observers", "methods that formatting calls implicitly (String, Error, …) leave the value unchanged", 1)
	observerRule(w, r, "observers", "openflow13", "common", "util")
	r.Rule("order", "no size function or encoder ranges over a map while producing output, and none defers a store into its receiver", 1)
	encoderOrderRule(w, r)
	r.Rule("stateless", "sizing and encoding depend on no package-level state that a call can change: no pooled scratch, no cache, no shared table entry handed out", 8)
	importStateless(w, r, "stateless")
	r.Rule("idempotent", "every store of Len/MarshalBinary/Read into receiver-reachable memory has an idempotent form", 15)
	r.Rule("readonly", "calls on receiver-rooted state reach only read-only standard-library methods", 20)
	r.Rule("pure", "a size/encode method without any store into its receiver", 200)
	r.Rule("stamped", "size functions and encoders do not read another object's length field that is re-assigned when that object is sized or encoded", 150)
	r.Rule("settled", "state an encoder stores into a part of the value is stored before that part is encoded", 10)
	stampedReadRule(w, r)
	r.Rule("selfstamp", "an encoder does not itself change state its kind's size function reads", 10)
	selfStampRule(w, r)
	nMethods := 0
	for _, k := range w.KindsL {
		type m struct {
			name string
			f    *types.Func
			own  bool
			mode string
		}
		ms := []m{{"Len", k.Len, k.OwnLen, "len"}, {"MarshalBinary", k.Marshal, k.OwnMarshal, "encode"}, {"Read", k.Read, true, "encode"}}
		for _, mm := range ms {
			if mm.f == nil || !mm.own {
				continue // promoted methods are checked at the kind that declares them
			}
			fi := w.FuncOf(mm.f)
			if fi == nil {
				continue
			}
			nMethods++
			fs := w.Interpret(fi, mm.mode)
			subj := k.Name + "." + mm.name
			undec := ""
			for _, n := range fs.Notes {
				if strings.Contains(n.Text, "unhandled") || strings.Contains(n.Text, "unresolved") || strings.Contains(n.Text, "not inlined") || strings.Contains(n.Text, "goto") || strings.Contains(n.Text, "channel") || strings.Contains(n.Text, "type switch") || strings.Contains(n.Text, "go statement") {
					undec = normNote(n.Text)
				}
			}
			if undec != "" {
				r.Fail(VUndecided, "idempotent", subj, "", w.Pos(fi.Decl.Pos()), "shape outside the effect-summary language: "+undec)
				continue
			}
			seen := map[string]bool{}
			nst := 0
			for _, s := range fs.Stores {
				if !strings.HasPrefix(s.Path, "$") && !strings.HasPrefix(s.Path, "global:") {
					continue
				}
				inst := s.Path
				key := inst + "|" + s.Op + "|" + s.Val.valString()
				if seen[key] {
					continue
				}
				seen[key] = true
				nst++
				if strings.HasPrefix(s.Path, "global:") {
					r.Fail(VViolation, "idempotent", subj, inst, w.Pos(s.Pos), "store to package-level state "+s.Path)
					continue
				}
				ok, form := classifyStore(w, s)
				if !ok && (s.Op == "+=" || s.Op == "|=") {
					// reset-then-accumulate: the field is first assigned a constant on every path of this method and
					// then only added to, so the final value does not depend on the value before the call
					for _, e := range fs.Stores {
						if e.Path == s.Path && e.Op == "=" && e.Guard == "" && !e.Loop && e.Seq < s.Seq {
							if iv, isInt := e.Val.(IntV); isInt && iv.T != nil && iv.T.IsConst() {
								ok, form = true, fmt.Sprintf("accumulated (%s) after an unconditional reset to %d at %s", s.Op, iv.T.C, w.Pos(e.Pos))
							}
						}
					}
				}
				if ok {
					r.OK("idempotent", subj, inst, w.Pos(s.Pos), form, true)
				} else {
					r.Fail(VViolation, "idempotent", subj, inst, w.Pos(s.Pos), form)
				}
			}
			// append onto a slice of the value: where its array has room the new bytes land in it
			for _, c := range fs.Calls {
				if c.Callee == nil && strings.HasPrefix(c.Text, "append-onto-field:") {
					src := strings.TrimPrefix(c.Text, "append-onto-field:")
					r.Fail(VViolation, "readonly", subj, src+"→append", w.Pos(c.Pos), "append onto "+src+", a slice of the value being sized or encoded: when its array has spare capacity the appended bytes are written into memory the value (or a neighbour carved from the same buffer) owns, so encoding changes what later encodings produce")
				}
			}
			// external calls on receiver-rooted state
			nro := 0
			for _, c := range fs.Calls {
				if c.Callee == nil || c.Callee.Pkg() == nil || w.FuncOf(c.Callee) != nil {
					continue
				}
				sig := c.Callee.Type().(*types.Signature)
				if sig.Recv() == nil {
					continue
				}
				path, rooted := rootedAtRecv(c.Recv, fs.Final)
				if !rooted {
					continue
				}
				if strings.HasPrefix(c.Callee.Pkg().Path(), w.ModPath) {
					continue
				}
				name := fmt.Sprintf("(%s).%s", types.TypeString(sig.Recv().Type(), nil), c.Callee.Name())
				nro++
				if readOnlyStd[name] {
					r.OK("readonly", subj, path+"→"+name, w.Pos(c.Pos), "read-only method", true)
				} else {
					r.Fail(VViolation, "readonly", subj, path+"→"+name, w.Pos(c.Pos), "call of "+name+" on receiver state "+path+": not known to leave it unchanged")
				}
			}
			// settled: nothing the encoder stores into a part of the value may be stored
			// after that part was already encoded (otherwise the first encoding differs
			// from every later one)
			if mm.mode == "encode" {
				if es := w.EncSummaryOf(mm.f); es != nil {
					for _, rec := range es.Recs {
						for _, s := range fs.Stores {
							iv, isInt := s.Val.(IntV)
							if !isInt || s.Op != "=" {
								continue
							}
							if at := iv.T.SingleAtom(); at != nil && at.Kind == "val" && at.Path == s.Path {
								continue // identity store
							}
							switch {
							case rec.Kind == "child" && strings.HasPrefix(rec.Src, "enc(") && rec.Snap != nil:
								p := strings.TrimSuffix(strings.TrimPrefix(rec.Src, "enc("), ")")
								if !strings.HasPrefix(s.Path, p+".") {
									continue
								}
								seq, ok := rec.Snap["#seq"]
								if !ok {
									continue
								}
								if int64(s.Seq) < seq.C {
									r.OK("settled", subj, s.Path+"@enc("+p+")", w.Pos(rec.Pos), "stored before "+p+" is encoded", true)
								} else {
									r.Fail(VViolation, "settled", subj, s.Path+"@enc("+p+")", w.Pos(rec.Pos), p+" is encoded before "+s.Path+" is assigned "+iv.T.String()+" (at "+w.Pos(s.Pos)+"): the first encoding carries the previous value, later ones the new one")
								}
							case (rec.Kind == "int" || rec.Kind == "byte") && rec.Src == "val("+s.Path+")":
								r.Fail(VViolation, "settled", subj, s.Path+"@write", w.Pos(rec.Pos), s.Path+" is written to the output before it is assigned "+iv.T.String()+" (at "+w.Pos(s.Pos)+"): the first encoding carries the previous value")
							}
						}
					}
				}
			}
			if nst == 0 {
				r.OK("pure", subj, "", w.Pos(fi.Decl.Pos()), fmt.Sprintf("no store into the receiver; %d read-only calls on receiver state", nro), false)
			}
		}
	}
	r.Stats["size_and_encode_methods"] = nMethods
}

// stampedReadRule: a size function or encoder does not read, from an object other than its own receiver, a
// field that some size function or encoder in the module assigns (a "stamped" length). Such a field holds
// the constructor's value until the owner's first encoding and the stamped value afterwards, so a parent
// that sizes itself from it gives different answers before and after.
func stampedReadRule(w *World, r *Report) {
	stamped := map[*types.Var]string{}
	var codec []*FuncInfo
	for _, key := range w.sortedFuncKeys() {
		fi := w.Funcs[key]
		if fi.Recv == nil || fi.Decl.Body == nil {
			continue
		}
		switch fi.Decl.Name.Name {
		case "Len", "MarshalBinary":
		default:
			continue
		}
		codec = append(codec, fi)
		info := fi.Pkg.TypesInfo
		ast.Inspect(fi.Decl.Body, func(n ast.Node) bool {
			as, ok := n.(*ast.AssignStmt)
			if !ok {
				return true
			}
			for _, l := range as.Lhs {
				if se, ok := unparen(l).(*ast.SelectorExpr); ok {
					if sel, ok := info.Selections[se]; ok && sel.Kind() == types.FieldVal {
						if v, ok := sel.Obj().(*types.Var); ok && isIntType(v.Type()) {
							if _, seen := stamped[v]; !seen {
								stamped[v] = fi.Key
							}
						}
					}
				}
			}
			return true
		})
	}
	n := 0
	for _, fi := range codec {
		info := fi.Pkg.TypesInfo
		var recv types.Object
		if len(fi.Decl.Recv.List) > 0 && len(fi.Decl.Recv.List[0].Names) > 0 {
			recv = info.Defs[fi.Decl.Recv.List[0].Names[0]]
		}
		lhs := map[ast.Expr]bool{}
		ast.Inspect(fi.Decl.Body, func(nd ast.Node) bool {
			if as, ok := nd.(*ast.AssignStmt); ok && as.Tok == token.ASSIGN {
				for _, l := range as.Lhs {
					lhs[unparen(l)] = true
				}
			}
			return true
		})
		bad := ""
		var badPos token.Pos
		ast.Inspect(fi.Decl.Body, func(nd ast.Node) bool {
			se, ok := nd.(*ast.SelectorExpr)
			if !ok || lhs[se] || bad != "" {
				return true
			}
			sel, ok := info.Selections[se]
			if !ok || sel.Kind() != types.FieldVal {
				return true
			}
			v, _ := sel.Obj().(*types.Var)
			by, isStamped := stamped[v]
			if !isStamped {
				return true
			}
			// rooted at the receiver: the method's own (or its embedded header's) field
			root := unparen(se.X)
			for {
				switch x := root.(type) {
				case *ast.SelectorExpr:
					root = unparen(x.X)
					continue
				case *ast.StarExpr:
					root = unparen(x.X)
					continue
				}
				break
			}
			if id, ok := root.(*ast.Ident); ok && recv != nil && info.Uses[id] == recv {
				return true
			}
			bad = fmt.Sprintf("%s reads %s from another object, a field that %s assigns when it sizes or encodes that object", fi.Key, types.ExprString(se), by)
			badPos = se.Pos()
			return true
		})
		n++
		if bad != "" {
			r.Fail(VViolation, "stamped", fi.Key, "", w.Pos(badPos), bad+": until that object has been encoded once the field holds what its constructor left, afterwards the stamped value, so repeated sizing or encoding of the parent gives different answers")
		} else {
			r.OK("stamped", fi.Key, "", w.Pos(fi.Decl.Pos()), "reads no stamped length of another object", false)
		}
	}
	r.Stats["stamped_fields"] = len(stamped)
}

// selfStampRule: a kind's size function does not read a field that the kind's encoder assigns itself (not
// through a call of the size function) a value other than the field's own. Otherwise the size asked before
// the first encoding differs from the size asked after it (a floor or a rounding applied by the encoder only).
func selfStampRule(w *World, r *Report) {
	for _, k := range w.KindsL {
		if k.Len == nil || k.Marshal == nil || !k.OwnMarshal {
			continue
		}
		ls := w.LenSummary(k)
		efi := w.FuncOf(k.Marshal)
		if ls == nil || ls.Term == nil || efi == nil {
			continue
		}
		reads := map[string]bool{}
		w.ExpandLens(ls.Term, 0).HasAtom(func(a *Atom) bool {
			if a.Kind == "val" || a.Kind == "len" {
				reads[a.Path] = true
			}
			if a.Kind == "ite" {
				for p := range condPaths(a.Cond) {
					reads[p] = true
				}
			}
			return false
		})
		if len(reads) == 0 {
			continue
		}
		fs := w.Interpret(efi, "encode")
		bad := ""
		var badPos token.Pos
		n := 0
		for _, s := range fs.Stores {
			if !reads[s.Path] || s.Fn != efi.Key {
				continue // stores the size function performs itself are the same on every call
			}
			n++
			if iv, ok := s.Val.(IntV); ok && s.Op == "=" {
				if at := iv.T.SingleAtom(); at != nil && at.Kind == "val" && at.Path == s.Path && iv.T.K[at.Key()] == 1 && iv.T.C == 0 {
					continue // identity
				}
			}
			if bad == "" {
				bad = fmt.Sprintf("%s assigns %s (%s %s), which %s reads", efi.Key, s.Path, s.Op, s.Val.valString(), ls.Fn.Key)
				badPos = s.Pos
			}
		}
		if bad != "" {
			r.Fail(VViolation, "selfstamp", k.Name, "", w.Pos(badPos), bad+": the size reported before the first encoding is computed from the old value and the size reported afterwards from the new one")
		} else if n > 0 || len(fs.Stores) > 0 {
			r.OK("selfstamp", k.Name, "", w.Pos(efi.Decl.Pos()), "the encoder's own stores do not change anything the size function reads", true)
		}
	}
}

// condPaths extracts the "$..." paths mentioned in a rendered condition.
func condPaths(c string) map[string]bool {
	out := map[string]bool{}
	for i := 0; i < len(c); i++ {
		if c[i] != '$' {
			continue
		}
		j := i + 1
		for j < len(c) && (c[j] == '.' || c[j] == '_' || c[j] >= 'a' && c[j] <= 'z' || c[j] >= 'A' && c[j] <= 'Z' || c[j] >= '0' && c[j] <= '9') {
			j++
		}
		out[c[i:j]] = true
		i = j
	}
	return out
}

// encoderOrderRule: two Go constructs make an encoding depend on something other than the value.
//
//	maporder — ranging over a map while producing output: the iteration order changes from call to call,
//	  so two encodings of one value differ whenever the order of the emitted parts matters;
//	deferred-store — a deferred function that stores into the receiver runs when the encoder returns, after
//	  the bytes were produced: the first encoding carries the old state, later ones the new.
//
// Checked in every size function and encoder of a kind and in the module functions they call directly.
func encoderOrderRule(w *World, r *Report) {
	seen := map[*FuncInfo]bool{}
	var roots []*FuncInfo
	for _, k := range w.KindsL {
		for _, f := range []*types.Func{k.Len, k.Marshal} {
			if f == nil {
				continue
			}
			if fi := w.FuncOf(f); fi != nil && fi.Decl.Body != nil && !seen[fi] {
				seen[fi] = true
				roots = append(roots, fi)
			}
		}
	}
	// one level of helpers
	for _, fi := range append([]*FuncInfo(nil), roots...) {
		ast.Inspect(fi.Decl.Body, func(n ast.Node) bool {
			if c, ok := n.(*ast.CallExpr); ok {
				if fn := w.calleeOf(fi.Pkg.TypesInfo, c); fn != nil {
					if g := w.FuncOf(fn.Origin()); g != nil && g.Decl.Body != nil && !seen[g] && g.Decl.Name.Name != "Len" && g.Decl.Name.Name != "MarshalBinary" {
						seen[g] = true
						roots = append(roots, g)
					}
				}
			}
			return true
		})
	}
	sort.Slice(roots, func(i, j int) bool { return roots[i].Key < roots[j].Key })
	nMaps, nDefers := 0, 0
	for _, fi := range roots {
		info := fi.Pkg.TypesInfo
		recv := recvObj(fi)
		ast.Inspect(fi.Decl.Body, func(n ast.Node) bool {
			switch x := n.(type) {
			case *ast.RangeStmt:
				if _, isMap := info.TypeOf(x.X).Underlying().(*types.Map); !isMap {
					return true
				}
				nMaps++
				produces := false
				ast.Inspect(x.Body, func(m ast.Node) bool {
					switch y := m.(type) {
					case *ast.CallExpr:
						if id, ok := unparen(y.Fun).(*ast.Ident); ok && (id.Name == "append" || id.Name == "copy") {
							produces = true
						}
						if fn := w.calleeOf(info, y); fn != nil && (strings.HasPrefix(fn.Name(), "Put") || strings.HasPrefix(fn.Name(), "Write") || fn.Name() == "MarshalBinary") {
							produces = true
						}
					case *ast.AssignStmt:
						for _, l := range y.Lhs {
							if _, ok := unparen(l).(*ast.IndexExpr); ok {
								produces = true
							}
						}
					}
					return true
				})
				if produces {
					r.Fail(VViolation, "order", fi.Key, "maporder:"+types.ExprString(x.X), w.Pos(x.Pos()), "the function ranges over the map "+types.ExprString(x.X)+" while it builds its output: Go's map iteration order differs from call to call, so the same value is sized or encoded with its parts in a different order each time")
				} else {
					r.OK("order", fi.Key, "maporder:"+types.ExprString(x.X), w.Pos(x.Pos()), "a map is ranged over, but the loop produces no output", true)
				}
			case *ast.DeferStmt:
				nDefers++
				stores := ""
				ast.Inspect(x.Call, func(m ast.Node) bool {
					if as, ok := m.(*ast.AssignStmt); ok {
						for _, l := range as.Lhs {
							root := l
							for {
								switch t := unparen(root).(type) {
								case *ast.SelectorExpr:
									root = t.X
									continue
								case *ast.IndexExpr:
									root = t.X
									continue
								case *ast.StarExpr:
									root = t.X
									continue
								}
								break
							}
							if id, ok := unparen(root).(*ast.Ident); ok && recv != nil && info.Uses[id] == recv {
								if _, isSel := unparen(l).(*ast.SelectorExpr); isSel {
									stores = types.ExprString(l)
								}
							}
						}
					}
					return true
				})
				if stores != "" {
					r.Fail(VViolation, "order", fi.Key, "deferred-store:"+stores, w.Pos(x.Pos()), "a deferred function stores into "+stores+": it runs when the encoder returns, after the bytes were produced, so the first encoding carries the old value and every later one the new")
				} else {
					r.OK("order", fi.Key, fmt.Sprintf("defer@%d", w.Fset.Position(x.Pos()).Line), w.Pos(x.Pos()), "the deferred call does not store into the receiver", true)
				}
			}
			return true
		})
	}
	r.OK("order", "inventory", "", "-", fmt.Sprintf("%d size functions, encoders and their direct helpers examined: %d map ranges, %d defers", len(roots), nMaps, nDefers), true)
}
