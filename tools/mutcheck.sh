#!/bin/bash
# usage: mutcheck.sh <mutant-dir> [prop ...]   — applies the mutant's patch in a scratch worktree of /repo's HEAD and runs the checks
# prints one line per (mutant, property): DETECTED / missed / ERROR
set -u
MD=$(realpath $1); shift
name=$(basename $MD)
prop=${name%%-*}
props=${@:-$prop}
WT=/tmp/mutwt/$name
rm -rf $WT; mkdir -p /tmp/mutwt
git -C /repo worktree add -q --detach $WT HEAD 2>/dev/null || { echo "$name worktree-failed"; exit 2; }
if ! git -C $WT apply $MD/patch.diff 2>/tmp/mutwt/$name.applyerr; then
  echo "$name PATCH-DOES-NOT-APPLY"; git -C /repo worktree remove --force $WT; exit 0
fi
mkdir -p /tmp/mutwt/ev-$name
for p in $props; do
  out=$(cd /verif && VERIF_ROOT=/verif OFV_EVIDENCE_DIR=/tmp/mutwt/ev-$name ${OFV_BIN:-./bin/ofverify} check $p --repo $WT 2>&1)
  rc=$?
  if [ $rc -eq 1 ] && echo "$out" | grep -q "^VIOLATION property=$p"; then
    echo "$name $p DETECTED: $(echo "$out" | grep -E "^(VIOLATION|UNDECIDED|UNMAPPED) $p" | head -2 | cut -c1-220 | tr '\n' '|')"
  elif [ $rc -eq 0 ]; then
    echo "$name $p missed"
  else
    echo "$name $p ERROR rc=$rc: $(echo "$out" | tail -2 | tr '\n' ' ')"
  fi
done
git -C /repo worktree remove --force $WT
rm -rf /tmp/mutwt/ev-$name
