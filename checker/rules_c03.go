package main

// C03 — encoded fields sit at their specified offsets (DESIGN §3 C03), and the
// shared layout comparison used by C04 (decoder side) and C09 (packet headers).

import (
	"fmt"
	"go/ast"
	"go/types"
	"sort"
	"strings"
)

func init() {
	register(&propCheck{
		ID:      "C03",
		Run:     runC03,
		NeedSSA: true,
		Level:   "Static analysis (write records of every encoder, from the abstract interpreter, against hand-transcribed layout tables of the specifications). Decides, for every encodable kind of the OpenFlow packages (all have a table in spec/layout.json): layout/<kind>/<field> — a write record exists at the specified offset (a size term: constant, or symbolic after variable parts), with the specified width, big-endian, under the specified presence guard, whose source is the Go field the table maps to that wire field (child encodings and list elements in order likewise); extra/<kind> — the encoder writes nothing the table does not list; presence/<setter> — each setter of an optional part of the NAT action sets the part's specified presence bit, and the encoder writes the parts in the specified order under 'part set' guards (rows of the table); lanes/<packed group> — the learn-spec header packs source kind, destination kind and bit count into the specified bits (bit-lane interpretation, every path); the OXM header lanes are C15's rule. List order: elements are written by a forward range over the slice (the only loop form the interpreter accepts in an encoder), and adders append at the tail (declen rule of C02). Together: every value put into a message through the API appears at the offset, width and byte order the specifications assign — for every value, since records are symbolic. Not decided: computed values (none here), kinds the table marks as deviating (known findings). Also decided: ctorvalue — a constructor whose payload is a specified function of its argument stores that function as one closed form on every path (vlan_vid: id | OFPVID_PRESENT, also for id 0); order/<builder>/every-path — a builder that extends a list the encoder walks extends it on every successful return (what the caller added is not dropped or folded into an earlier element). Also decided: errnoeffect/<method> — a setter that returns an error has not written to the value (no store into the receiver reaches a return that can carry an error).",
		Assumptions: []string{
			"spec/layout.json and spec/codes.json transcribe the cited specifications (hand-transcribed, reviewed per kind)",
			"reviewed fixed-width facts of checker/premises.go (offsets after fixed-size byte fields)",
		},
	})
}

// compareLayout checks the records of one kind against its table rows.
// recs are rows in the same normal form as the table. Returns obligations via r.
func compareLayout(r *Report, rule, kind, pos string, table *Layout, recs [][5]string, side string) {
	table = renamePrivateFields(theWorld, kind, table, recs)
	// per-element rows: "the list is not empty" in the presence guard says nothing (both sides)
	{
		normRow := func(row [5]string) [5]string {
			if i := strings.Index(row[2], "[*]"); i > 0 && strings.HasPrefix(row[2], "enc(") && row[4] != "" {
				row[4] = dropEmptinessGuards(row[4], row[2][len("enc("):i])
			}
			// a byte-slice field copied as a whole: "the slice is not nil / not empty" says nothing (a nil slice
			// contributes no bytes)
			if strings.HasPrefix(row[2], "$.") && !strings.ContainsAny(row[2], "()[") && row[4] != "" {
				row[4] = dropEmptinessGuards(row[4], row[2])
			}
			// the default arm of a switch over codes is the negation of its cases
			if strings.Contains(row[4], "default(") {
				var out []string
				for _, g := range strings.Split(row[4], " && ") {
					if strings.HasPrefix(g, "default(") && strings.HasSuffix(g, ")") {
						c := "false"
						for _, alt := range strings.Split(g[len("default("):len(g)-1], "|") {
							c = orCond(c, alt)
						}
						g = negCond(c)
					}
					out = append(out, g)
				}
				row[4] = strings.Join(out, " && ")
			}
			return row
		}
		nt := *table
		nt.Fields = nil
		for _, row := range table.Fields {
			nt.Fields = append(nt.Fields, normRow(row))
		}
		table = &nt
		nrecs := make([][5]string, len(recs))
		for i, rc := range recs {
			nrecs[i] = normRow(rc)
		}
		recs = nrecs
	}
	have := map[string][5]string{}
	bySrc := map[string][][5]string{}
	for _, rc := range recs {
		have[rc[0]+"|"+rc[1]+"|"+rc[2]+"|"+rc[3]+"|"+rc[4]] = rc
		bySrc[rc[2]] = append(bySrc[rc[2]], rc)
	}
	listed := map[string]bool{}
	for _, row := range table.Fields {
		key := strings.Join(row[:], "|")
		listed[key] = true
		inst := row[2] + "@" + row[0]
		if row[4] != "" {
			inst += "?" + row[4]
		}
		if _, ok := have[key]; ok {
			r.OK(rule, kind, inst, pos, fmt.Sprintf("%s: offset %s, width %s%s — as specified (%s)", row[2], row[0], row[1], guardText(row[4]), table.Cite), true)
			continue
		}
		if row[2] == "zero" || isPadSrc(row[2]) {
			// padding needs no record: the buffer is zero-initialised
			r.OK(rule, kind, inst, pos, "padding (no write needed; the buffer starts zeroed)", false)
			continue
		}
		// diagnose: same source elsewhere / other source here
		var diag string
		if alts := bySrc[row[2]]; len(alts) > 0 {
			a := alts[0]
			switch {
			case a[0] != row[0]:
				diag = fmt.Sprintf("%s is %s at offset %s; specified offset %s", row[2], side, a[0], row[0])
			case a[1] != row[1]:
				diag = fmt.Sprintf("%s is %s with width %s; specified width %s", row[2], side, a[1], row[1])
			case a[3] != row[3]:
				diag = fmt.Sprintf("%s is %s in byte order %q; specified big-endian", row[2], side, a[3])
			default:
				diag = fmt.Sprintf("%s is %s under [%s]; specified presence condition [%s]", row[2], side, a[4], row[4])
			}
		} else {
			other := ""
			for _, rc := range recs {
				if rc[0] == row[0] && rc[4] == row[4] {
					other = rc[2]
				}
			}
			if other != "" {
				diag = fmt.Sprintf("offset %s carries %s; the specification puts %s there", row[0], other, row[2])
			} else {
				diag = fmt.Sprintf("%s (specified at offset %s, width %s) is never %s", row[2], row[0], row[1], side)
			}
		}
		r.Fail(VViolation, rule, kind, inst, pos, diag+" — "+table.Cite)
	}
	for _, rc := range recs {
		key := strings.Join(rc[:], "|")
		if listed[key] || rc[2] == "zero" || isPadSrc(rc[2]) || isPaddingField(theWorld, kind, rc[2]) || strings.HasPrefix(rc[2], "const:") {
			continue
		}
		// a record for a source the table lists elsewhere was already reported from the table side
		known := false
		for _, row := range table.Fields {
			if row[2] == rc[2] {
				known = true
			}
		}
		if known {
			continue
		}
		r.Fail(VViolation, rule, kind, "extra:"+rc[2]+"@"+rc[0], pos, fmt.Sprintf("%s is %s at offset %s (width %s), which the specified layout does not contain — %s", rc[2], side, rc[0], rc[1], table.Cite))
	}
}

func guardText(g string) string {
	if g == "" {
		return ""
	}
	return " when " + g
}

func isPadSrc(s string) bool {
	l := s
	if i := strings.LastIndex(s, "."); i >= 0 {
		l = s[i+1:]
	}
	l = strings.ToLower(strings.TrimSuffix(strings.TrimPrefix(l, "val($."), ")"))
	return strings.HasPrefix(l, "pad") || strings.HasPrefix(l, "zero") || strings.HasPrefix(l, "reserved")
}

func runC03(w *World, r *Report) {
	// what an independent decoder recovers also depends on the framing and on the helpers that turn API
	// arguments into the bytes of a field: the size rules of C01/C06 for the OpenFlow kinds, the value
	// converter of the generic match-field builder (C17 convform) and the offset/width word of the range
	// helpers (C16 word, range)
	r.Rule("size", "sizeM ≡ sizeL (and extentM ≡ sizeL up to round8) as symbolic terms, per OpenFlow kind (the C06 rule)", 100)
	r.Rule("embed", "child encodings are copied whole (the C06 rule)", 60)
	r.Rule("nooverlap", "no two write records provably overlap (the C06 rule)", 100)
	sizeRules(w, r, func(k *Kind) bool {
		return strings.HasPrefix(k.Name, "openflow13.") || strings.HasPrefix(k.Name, "common.")
	})
	r.Rule("convform", "the value converter of the generic builder hands over exactly the argument's own value, whatever its (named) type (the C17 rule)", 3)
	r.Rule("word", "offset in bits 6..15, width-1 in bits 0..5 of the offset/width word (the C16 rule)", 2)
	r.Rule("range", "range accessors and constructors agree (the C16 rule)", 5)
	{
		r2 := NewReport("C17", r.Tier)
		runC17(w, r2)
		for _, o := range r2.Obs {
			if o.Rule == "convform" {
				r.Add(o)
			}
		}
		r3 := NewReport("C16", r.Tier)
		runC16(w, r3)
		for _, o := range r3.Obs {
			if o.Rule == "word" || o.Rule == "range" {
				r.Add(o)
			}
		}
	}
	r.Rule("shiftwidth", "no shift by a constant count that is as large as its operand's type (the value would always be 0: bits lost before widening)", 1)
	shiftWidthRule(w, r, "shiftwidth", func(fi *FuncInfo) bool { return fi.Pkg.Types.Name() == "openflow13" || fi.Pkg.Types.Name() == "common" })
	r.Rule("observers", "methods that formatting calls implicitly (String, Error, …) leave the value unchanged", 1)
	observerRule(w, r, "observers", "openflow13", "common")
	r.Rule("layout", "every specified field is written at its specified offset, width and byte order from the mapped Go field", 330)
	r.Rule("presence", "setters of optional parts set the specified presence bit", 6)
	r.Rule("lanes", "packed header words carry their sub-fields at the specified bits", 1)
	r.Rule("union", "setters of alternative readings of one wire slot assign every field of the slot group", 2)
	unionRule(w, r)
	// rules shared with other properties that are also necessary conditions of this one: a stored length is a
	// specified field whose value must be right (declen, oxmlen); list elements appear in the order they were
	// added (order); a field obtained by name is the caller's own object, not a registry entry another message
	// also holds (fresh)
	r.Rule("declen", "stored length fields equal the size of what the element contains, for every constructor and builder", 13)
	declenRule(w, r)
	r.Rule("oxmlen", "constructors and editors of match fields leave oxm_length equal to the payload bytes", 40)
	oxmLenRule(w, r)
	r.Rule("order", "builders only extend the lists the encoder walks; they never reassign elements in place", 5)
	orderRule(w, r)
	r.Rule("wirelen", "the declared length each encoder puts on the wire equals the bytes the element occupies at the moment of encoding", 34)
	if ak, ik, ok := elementKinds(w); ok {
		runWirelen(w, r, ak, ik)
	}
	r.Rule("errnoeffect", "a builder or setter that reports an error has not changed the value (a refused setting is not encoded)", 4)
	errNoEffectRule(w, r, "errnoeffect", func(fi *FuncInfo) bool { return fi.Pkg.Types.Name() == "openflow13" })
	r.Rule("ctorvalue", "a constructor whose payload is a computed function of its argument stores exactly the specified function on every path (vlan_vid: id | OFPVID_PRESENT)", 1)
	ctorValueRule(w, r)
	r.Rule("fresh", "a match-field header looked up by name is an object of its own", 1)
	{
		r2 := NewReport(r.Prop, r.Tier)
		runC15(w, r2)
		for _, o := range r2.Obs {
			if o.Rule == "fresh" {
				r.Add(o)
			}
		}
		// the same for every other function: a header or field object taken from a package-level cache or
		// table and handed out is one object for all callers
		r3 := NewReport(r.Prop, r.Tier)
		escapeRule(w, r3, nil)
		for _, o := range r3.Obs {
			o.Rule = "fresh"
			if o.Subject == "openflow13.FindFieldHeaderByName" {
				continue // decided above
			}
			r.Add(o)
		}
	}
	layouts, err := loadLayouts()
	if err != nil {
		r.Fail(VUnmapped, "layout", "spec/layout.json", "", "-", err.Error())
		return
	}
	nK := 0
	for _, k := range w.KindsL {
		if k.Pkg.Name == "protocol" || k.Pkg.Name == "util" {
			continue // packet headers are C09's
		}
		recs := w.layoutRecords(k)
		if recs == nil {
			continue
		}
		pos := "-"
		if fi := w.FuncOf(k.Marshal); fi != nil {
			pos = w.Pos(fi.Decl.Pos())
		}
		t := layouts[k.Name]
		if t == nil {
			r.Fail(VUnmapped, "layout", k.Name, "", pos, "encodable kind without a layout table: its field placement is not compared with any specification")
			continue
		}
		nK++
		compareLayout(r, "layout", k.Name, pos, t, recs, "written")
	}
	r.Stats["kinds_with_layout"] = nK
	var missing []string
	for name := range layouts {
		if strings.HasPrefix(name, "protocol.") {
			continue
		}
		if k := w.Kinds[name]; k == nil || k.Marshal == nil {
			missing = append(missing, name)
		}
	}
	sort.Strings(missing)
	for _, m := range missing {
		r.Fail(VViolation, "layout", m, "", "-", "kind named in spec/layout.json no longer exists or can no longer be encoded")
	}

	// ---------------------------------------------------------------- presence (NAT action)
	codes, cerr := loadCodes()
	if cerr != nil || len(codes.NatRangeBits) != 6 {
		r.Fail(VUnmapped, "presence", "spec/codes.json", "nx_nat_range_bits", "-", "presence-bit table missing")
	} else if k := w.Kinds["openflow13.NXActionCTNAT"]; k == nil {
		r.Fail(VViolation, "presence", "openflow13.NXActionCTNAT", "", "-", "kind no longer exists")
	} else {
		seen := map[string]bool{}
		for _, m := range w.methodsOf(k) {
			if isCodecMethod(m.Decl.Name.Name) {
				continue
			}
			fs := w.Interpret(m, "builder")
			for part, bit := range codes.NatRangeBits {
				setsPart := false
				for _, s := range fs.Stores {
					if s.Path == "$."+part {
						setsPart = true
					}
				}
				if !setsPart {
					continue
				}
				seen[part] = true
				okBit := false
				got := "no store to the presence bitmap"
				for _, s := range fs.Stores {
					if s.Path == "$.rangePresent" {
						got = s.Op + " " + s.RHS
						if s.Op == "|=" && strings.TrimSpace(s.RHS) == fmt.Sprint(bit) && s.Guard == "" {
							okBit = true
						}
					}
				}
				if okBit {
					r.OK("presence", m.Key, part, w.Pos(m.Decl.Pos()), fmt.Sprintf("sets %s and presence bit %d unconditionally", part, bit), true)
				} else {
					r.Fail(VViolation, "presence", m.Key, part, w.Pos(m.Decl.Pos()), fmt.Sprintf("the setter of %s does not OR the specified presence bit %d into the bitmap unconditionally (%s): the switch would misread which range fields follow", part, bit, got))
				}
			}
		}
		for part := range codes.NatRangeBits {
			if !seen[part] {
				r.Fail(VViolation, "presence", "openflow13.NXActionCTNAT", part, "-", "no setter for this optional part")
			}
		}
	}

	// ---------------------------------------------------------------- lanes: learn-spec header
	if fi := w.Funcs["openflow13.NXLearnSpecHeader.MarshalBinary"]; fi == nil {
		r.Fail(VViolation, "lanes", "openflow13.NXLearnSpecHeader", "", "-", "encoder no longer exists")
	} else {
		pos := w.Pos(fi.Decl.Pos())
		recv := map[string]BV{"nBits": srcBV("nBits", 16, 11, false), "length": constBV(2, 16, false)}
		for _, f := range []string{"src", "dst", "output"} {
			v := srcBV(f, 1, 1, false)
			v.IsBool = true
			recv[f] = v
		}
		bi := &bvInterp{w: w, fi: fi, info: fi.Pkg.TypesInfo}
		paths := bi.run(newBvCtx(), recv, nil, nil, 0, nil)
		// the header states the API can build: the flag triples its constructors leave
		allowed := map[[3]bool]string{}
		if hk := w.Kinds["openflow13.NXLearnSpecHeader"]; hk != nil {
			for _, cf := range w.Constructors(hk) {
				cs := w.CtorSummary(cf)
				flag := func(f string) bool {
					bv, _ := cs.Fields["$."+f].(BoolV)
					return bv.Cond == "true"
				}
				allowed[[3]bool{flag("src"), flag("dst"), flag("output")}] = cf.Key
			}
		}
		nOK := 0
		for _, p := range paths {
			inst := "path:" + strings.Join(p.Conds, "&&")
			if len(allowed) > 0 {
				b := func(f string) bool { c, _ := p.Recv[f].isConst(); return c == 1 }
				if _, ok := allowed[[3]bool{b("src"), b("dst"), b("output")}]; !ok {
					continue // a flag combination no constructor produces
				}
			}
			if len(p.Undec) > 0 {
				r.Fail(VUndecided, "lanes", fi.Key, inst, pos, "outside the bit-level language: "+strings.Join(p.Undec, "; "))
				continue
			}
			if len(p.Ret) < 1 || p.Ret[0] == nil || p.Ret[0].View == nil {
				r.Fail(VUndecided, "lanes", fi.Key, inst, pos, "the encoder does not return a buffer the engine can follow")
				continue
			}
			v := p.Ret[0].View
			b0, ok0 := bi.cell(p, v, Const(0))
			b1, ok1 := bi.cell(p, v, Const(1))
			if !ok0 || !ok1 {
				r.Fail(VUndecided, "lanes", fi.Key, inst, pos, "the two header bytes are not both written")
				continue
			}
			word := append(append([]Bit(nil), b1.Bits...), b0.Bits...) // big-endian: byte 0 is the high byte
			// specification: bits 0..10 n_bits; bits 11..12 destination kind (0 match, 1 load, 2 output); bit 13 source kind (1 immediate)
			val := func(f string) (byte, bool) {
				c, ok := p.Recv[f].isConst()
				return byte(c), ok
			}
			src, okS := val("src")
			dst, okD := val("dst")
			out, okO := val("output")
			if !okS || !okD || !okO {
				r.Fail(VUndecided, "lanes", fi.Key, inst, pos, "the path does not fix the three kind flags")
				continue
			}
			wantSrc, wantDst := src, dst // dst: 0 match, 1 load
			if out == 1 {
				wantSrc, wantDst = 0, 2 // NX_LEARN_DST_OUTPUT with a field source
			}
			var bad []string
			for i := 0; i < 16; i++ {
				var want Bit
				switch {
				case i <= 10:
					want = Bit{K: 's', Src: "nBits", I: i}
				case i == 11:
					want = Bit{K: '0' + wantDst&1}
				case i == 12:
					want = Bit{K: '0' + (wantDst>>1)&1}
				case i == 13:
					want = Bit{K: '0' + wantSrc}
				default:
					want = Bit{K: '0'}
				}
				if got := p.resolve(word[i]); got != want {
					bad = append(bad, fmt.Sprintf("bit %d carries %s, specified %s", i, got.String(), want.String()))
				}
			}
			if len(bad) > 0 {
				if len(bad) > 3 {
					bad = append(bad[:3], fmt.Sprintf("… %d more", len(bad)-3))
				}
				r.Fail(VViolation, "lanes", fi.Key, inst, pos, strings.Join(bad, "; ")+" (OVS NX_LEARN_N_BITS_MASK 0x3ff/11 bits, NX_LEARN_DST_* bits 11-12, NX_LEARN_SRC_IMMEDIATE bit 13)")
				continue
			}
			nOK++
			r.OK("lanes", fi.Key, inst, pos, "n_bits in bits 0..10, destination kind in bits 11..12, source kind in bit 13", true)
		}
		if nOK == 0 && len(paths) == 0 {
			r.Fail(VUndecided, "lanes", fi.Key, "", pos, "no path")
		}
	}
}

// unionGroups: wire slots with alternative readings selected by a discriminant field (specification-derived).
// A setter that assigns one member and leaves another as an earlier setter left it encodes a mixture.
var unionGroups = []struct {
	Kind   string
	Fields []string
	Cite   string
}{
	{"openflow13.NXActionConnTrack", []string{"$.ZoneSrc", "$.ZoneOfsNbits"},
		"nicira-ext.h nx_action_conntrack: zone_src == 0 selects zone_imm, otherwise zone_ofs_nbits addresses bits of the register zone_src"},
}

func unionRule(w *World, r *Report) {
	for _, g := range unionGroups {
		k := w.Kinds[g.Kind]
		if k == nil {
			r.Fail(VViolation, "union", g.Kind, "", "-", "kind with a union slot no longer exists")
			continue
		}
		in := map[string]bool{}
		for _, f := range g.Fields {
			in[f] = true
		}
		n := 0
		for _, m := range w.methodsOf(k) {
			if isCodecMethod(m.Decl.Name.Name) {
				continue
			}
			fs := w.Interpret(m, "builder")
			set := map[string]bool{}
			cond := map[string]bool{}
			for _, s := range fs.Stores {
				if in[s.Path] {
					if s.Op == "=" && s.Guard == "" && !s.Loop {
						set[s.Path] = true
					} else {
						cond[s.Path] = true
					}
				}
			}
			if len(set) == 0 && len(cond) == 0 {
				continue
			}
			n++
			var missing []string
			for _, f := range g.Fields {
				if !set[f] {
					missing = append(missing, f)
				}
			}
			pos := w.Pos(m.Decl.Pos())
			if len(missing) == 0 {
				r.OK("union", m.Key, "", pos, "assigns "+strings.Join(g.Fields, ", ")+" unconditionally", true)
			} else {
				r.Fail(VViolation, "union", m.Key, "", pos, fmt.Sprintf("assigns part of the slot group {%s} but leaves %s as an earlier setter left it: after the other setter the encoding mixes both readings (%s)", strings.Join(g.Fields, ", "), strings.Join(missing, ", "), g.Cite))
			}
		}
		if n == 0 {
			r.Fail(VViolation, "union", g.Kind, "", "-", "no setter of the slot group {"+strings.Join(g.Fields, ", ")+"} found")
		}
	}
}

// isPaddingField decides semantically (not by name) that a record's source is a padding field of the kind:
// an unexported byte slice or array of the kind's struct that nothing in the module touches except the
// constructors (allocation) and the kind's own encoder and decoder.
func isPaddingField(w *World, kindName, src string) bool {
	if w == nil {
		return false
	}
	f, _ := fieldOfSrc(src)
	if f == "" {
		f = src
	}
	if !strings.HasPrefix(f, "$.") || strings.Contains(f[2:], ".") || strings.Contains(f, "[") {
		return false
	}
	name := f[2:]
	k := w.Kinds[kindName]
	if k == nil || name == "" || ast.IsExported(name) {
		return false
	}
	st := structOf(k.Named)
	if st == nil {
		return false
	}
	var fv *types.Var
	for i := 0; i < st.NumFields(); i++ {
		if st.Field(i).Name() == name {
			fv = st.Field(i)
		}
	}
	if fv == nil {
		return false
	}
	if !isByteSlice(fv.Type()) {
		if _, ok := isByteArray(fv.Type()); !ok {
			return false
		}
	}
	key := kindName + "." + name
	if v, ok := padCache[key]; ok {
		return v
	}
	ok := true
	ctors := map[*FuncInfo]bool{}
	for _, c := range w.Constructors(k) {
		ctors[c] = true
	}
	for _, fk := range w.sortedFuncKeys() {
		fi := w.Funcs[fk]
		if fi.Decl.Body == nil {
			continue
		}
		own := fi.Recv != nil && fi.Recv.Obj() == k.Named.Obj() && isCodecMethod(fi.Decl.Name.Name)
		info := fi.Pkg.TypesInfo
		ast.Inspect(fi.Decl.Body, func(n ast.Node) bool {
			se, isSel := n.(*ast.SelectorExpr)
			if !isSel {
				return true
			}
			if sel, has := info.Selections[se]; has && sel.Obj() == fv {
				if !own && !ctors[fi] {
					ok = false
				}
			}
			return true
		})
	}
	padCache[key] = ok
	return ok
}

var padCache = map[string]bool{}

// renamePrivateFields: the tables name Go fields; exported names are API, but an unexported field may be
// renamed at will. When the table mentions an unexported field the kind no longer has, and exactly one
// unexported field of the kind that the table does not mention makes every row that named the old field
// match a record, the table is read with that name (the slot is identified by its place, not its name).
func renamePrivateFields(w *World, kindName string, table *Layout, recs [][5]string) *Layout {
	if w == nil || table == nil {
		return table
	}
	k := w.Kinds[kindName]
	if k == nil {
		return table
	}
	st := structOf(k.Named)
	if st == nil {
		return table
	}
	current := map[string]bool{}
	for i := 0; i < st.NumFields(); i++ {
		current[st.Field(i).Name()] = true
	}
	nameRe := func(row [5]string) []string {
		var out []string
		for _, cell := range row {
			for i := 0; i+2 < len(cell); i++ {
				if cell[i] == '$' && cell[i+1] == '.' {
					j := i + 2
					for j < len(cell) && (cell[j] == '_' || cell[j] >= 'a' && cell[j] <= 'z' || cell[j] >= 'A' && cell[j] <= 'Z' || cell[j] >= '0' && cell[j] <= '9') {
						j++
					}
					out = append(out, cell[i+2:j])
					i = j
				}
			}
		}
		return out
	}
	mentioned := map[string]bool{}
	var gone []string
	for _, row := range table.Fields {
		for _, n := range nameRe(row) {
			if !mentioned[n] {
				mentioned[n] = true
				if !current[n] && n != "" && !ast.IsExported(n) {
					gone = append(gone, n)
				}
			}
		}
	}
	if len(gone) == 0 {
		return table
	}
	have := map[string]bool{}
	for _, rc := range recs {
		have[strings.Join(rc[:], "|")] = true
	}
	out := &Layout{Cite: table.Cite, Fields: append([][5]string(nil), table.Fields...)}
	for _, old := range gone {
		var fits []string
		for i := 0; i < st.NumFields(); i++ {
			cand := st.Field(i).Name()
			if ast.IsExported(cand) || mentioned[cand] {
				continue
			}
			ok, any := true, false
			for _, row := range out.Fields {
				uses := false
				for _, n := range nameRe(row) {
					if n == old {
						uses = true
					}
				}
				if !uses {
					continue
				}
				any = true
				nr := row
				for c := range nr {
					nr[c] = replaceField(nr[c], old, cand)
				}
				if !have[strings.Join(nr[:], "|")] {
					ok = false
				}
			}
			if ok && any {
				fits = append(fits, cand)
			}
		}
		if len(fits) == 1 {
			for i, row := range out.Fields {
				for c := range row {
					row[c] = replaceField(row[c], old, fits[0])
				}
				out.Fields[i] = row
			}
		}
	}
	return out
}

// replaceField renames "$.old" to "$.new" where it is a whole field name.
func replaceField(cell, old, nw string) string {
	var b strings.Builder
	for i := 0; i < len(cell); {
		if strings.HasPrefix(cell[i:], "$."+old) {
			j := i + 2 + len(old)
			if j == len(cell) || !(cell[j] == '_' || cell[j] >= 'a' && cell[j] <= 'z' || cell[j] >= 'A' && cell[j] <= 'Z' || cell[j] >= '0' && cell[j] <= '9') {
				b.WriteString("$." + nw)
				i = j
				continue
			}
		}
		b.WriteByte(cell[i])
		i++
	}
	return b.String()
}

// ctorValueSpec: constructors of match fields whose wire value is not the argument itself but a specified
// function of it. OpenFlow 1.3.5 §7.2.3.7 / table 13: a match on a tagged packet with VLAN id x carries
// x | OFPVID_PRESENT (0x1000) — also for x = 0 (a priority-tagged frame); the bare value 0 (OFPVID_NONE) means
// "no tag at all", a different match. The constructor documents itself as the vlan-id match.
var ctorValueSpec = []struct {
	Ctor, Field, Arg string
	Or               int64
	Why              string
}{
	{"openflow13.NewVlanIdField", "VlanId", "vlanId", 0x1000, "OFPVID_PRESENT is set for every VLAN id, 0 included (OFPVID_NONE would match untagged packets instead)"},
}

func ctorValueRule(w *World, r *Report) {
	for _, row := range ctorValueSpec {
		fi := w.Funcs[row.Ctor]
		if fi == nil {
			r.Fail(VViolation, "ctorvalue", row.Ctor, row.Field, "-", "the constructor no longer exists (anchor of the rule cannot be resolved)")
			continue
		}
		pos := w.Pos(fi.Decl.Pos())
		// the constructor's summary gives the payload field as a term over the arguments, joined over all paths:
		// it must be the one closed form arg | C (a case split on the argument shows as ite/oneof and is refused)
		cs := w.CtorSummary(fi)
		v, ok := cs.Fields["$.Value."+row.Field]
		if !ok || len(goodRets(cs.FS.Rets)) == 0 {
			r.Fail(VUndecided, "ctorvalue", row.Ctor, row.Field, pos, "the constructor's summary has no value for the payload field "+row.Field)
			continue
		}
		got := v.valString()
		want1 := fmt.Sprintf("opq((val(arg:%s))|(%d))", row.Arg, row.Or)
		want2 := fmt.Sprintf("opq((%d)|(val(arg:%s)))", row.Or, row.Arg)
		nOK := 0
		for _, rt := range goodRets(cs.FS.Rets) {
			_ = rt
			nOK++
		}
		if got == want1 || got == want2 {
			r.OK("ctorvalue", row.Ctor, row.Field, pos, fmt.Sprintf("%s = %s | %#x on every path (%d successful returns)", row.Field, row.Arg, row.Or, nOK), true)
		} else {
			r.Fail(VViolation, "ctorvalue", row.Ctor, row.Field, pos, fmt.Sprintf("the payload field %s is %s, not %s | %#x for every argument — %s", row.Field, got, row.Arg, row.Or, row.Why))
		}
	}
}

func init() {
	extraDumps["ctor"] = func(w *World, args []string) {
		for _, a := range args {
			fi := w.Funcs[a]
			if fi == nil {
				fmt.Println("no function", a)
				continue
			}
			cs := w.CtorSummary(fi)
			var keys []string
			for k := range cs.Fields {
				keys = append(keys, k)
			}
			sort.Strings(keys)
			for _, k := range keys {
				fmt.Printf("%s %s = %s\n", a, k, cs.Fields[k].valString())
			}
			fmt.Printf("%s guard=%q rets=%d\n", a, cs.Guard, len(cs.FS.Rets))
		}
	}
}
