#!/bin/bash
# usage: verify_seed.sh <agent-out-dir> <seed-id>
# Confirms an independently written seeded change in a scratch worktree of /repo's HEAD:
#   1. the patch applies, the tree builds and the pinned suite (openflow13, protocol, ...) passes with it,
#   2. the demonstration fails with the patch,
#   3. the demonstration passes without it.
# On success the change is stored as /verif/seeded/<seed-id>/ (patch.diff, demo, meta.json).
set -u
export GOFLAGS=-mod=mod GOPROXY=off GOSUMDB=off GOTOOLCHAIN=local
unset GOWORK
SRC=$1; ID=$2
WT=/tmp/seedverify/$ID
rm -rf $WT; mkdir -p /tmp/seedverify
git -C /repo worktree add -q --detach $WT ${SEED_BASE:-HEAD} || { echo "$ID worktree-failed"; exit 2; }
cleanup() { git -C /repo worktree remove --force $WT 2>/dev/null; rm -rf $WT; }
trap cleanup EXIT
cd $WT
if ! git apply $SRC/patch.diff 2>/tmp/seedverify/$ID.err; then echo "$ID REJECT patch does not apply: $(head -2 /tmp/seedverify/$ID.err)"; exit 1; fi
if ! go build ./... 2>/tmp/seedverify/$ID.err; then echo "$ID REJECT does not build"; exit 1; fi
suite=$(go test -vet=off -count=1 ./openflow13/ ./protocol/ ./common/ ./util/ ./ofbase/ 2>&1)
if echo "$suite" | grep -q "^FAIL\|^--- FAIL"; then echo "$ID REJECT existing suite fails with the patch"; echo "$suite" | grep -E "^(--- FAIL|FAIL)" | head -3; exit 1; fi
demo=""
if [ -f $SRC/demo_test.go ]; then
  pkg=$(grep -m1 '^package ' $SRC/demo_test.go | awk '{print $2}'); pkg=${pkg%_test}
  case $pkg in libOpenflow) dir=. ;; *) dir=$pkg ;; esac
  cp $SRC/demo_test.go $dir/zz_seed_demo_test.go
  tests=$(grep -oE '^func (Test[A-Za-z0-9_]+)' $SRC/demo_test.go | awk '{print $2}' | paste -sd'|')
  runit() { (cd $WT && timeout 600 go test -vet=off -count=1 $1 -run "^($tests)\$" ./$dir/ 2>&1); }
  demo="go test -run '^($tests)\$' ./$dir/"
elif [ -f $SRC/demo/main.go ]; then
  mkdir -p /tmp/seedverify/$ID-demo; cp -r $SRC/demo/. /tmp/seedverify/$ID-demo/
  (cd /tmp/seedverify/$ID-demo && sed -i "s|=> .*|=> $WT|" go.mod && cp $WT/go.sum . 2>/dev/null)
  runit() { (cd /tmp/seedverify/$ID-demo && timeout 600 go run $1 . 2>&1); }
  demo="go run demo/"
else echo "$ID REJECT no demonstration"; exit 1; fi
flag=""
out1=$(runit ""); rc1=$?
if [ $rc1 -eq 0 ]; then flag="-race"; out1=$(runit "-race"); rc1=$?; fi
if [ $rc1 -eq 0 ]; then echo "$ID REJECT demonstration passes with the patch applied"; exit 1; fi
git apply -R $SRC/patch.diff || { echo "$ID cannot revert"; exit 2; }
out2=$(runit "$flag"); rc2=$?
if [ $rc2 -ne 0 ]; then echo "$ID REJECT demonstration fails on the unchanged tree too: $(echo "$out2" | tail -3)"; exit 1; fi
D=/verif/seeded/$ID; rm -rf $D; mkdir -p $D
cp $SRC/patch.diff $D/
[ -f $SRC/demo_test.go ] && cp $SRC/demo_test.go $D/
[ -d $SRC/demo ] && cp -r $SRC/demo $D/
python3 - "$SRC/meta.json" "$D/meta.json" "$ID" "$demo $flag" "$(git -C /repo rev-parse --short HEAD)" "$(echo "$out1" | grep -E -m3 '(--- FAIL|panic|FAIL|Error|error)' | cut -c1-300)" <<'EOF'
import json,sys
src,dst,sid,demo,head,fail=sys.argv[1:7]
try: m=json.load(open(src))
except Exception: m={}
out={"id":sid,"property":m.get("property",sid.split('-')[0]),"summary":m.get("summary",""),"files":m.get("files",[]),"functions":m.get("functions",[]),
 "needs_to_manifest":m.get("needs_to_manifest",""),"why_existing_tests_pass":m.get("why_existing_tests_pass",""),"origin":"independent sub-agent given only the property text",
 "confirmed":{"base_commit":head,"suite_with_patch":"pass (go test -vet=off -count=1 ./openflow13/ ./protocol/ ./common/ ./util/ ./ofbase/)","demo":demo.strip(),"demo_with_patch":"FAIL: "+fail.replace("\n"," | "),"demo_without_patch":"pass"}}
json.dump(out,open(dst,'w'),indent=1,ensure_ascii=False)
EOF
rm -rf /tmp/seedverify/$ID-demo
echo "$ID CONFIRMED ($demo $flag)"
